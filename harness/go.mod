module verifharness

go 1.18

require github.com/muir/nject/v2 v2.0.0

require (
	github.com/muir/reflectutils v0.11.0 // indirect
	github.com/pkg/errors v0.9.1 // indirect
)

replace github.com/muir/nject/v2 => /repo
