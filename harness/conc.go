package main

// Concurrent workloads on the real nject (run under -race): shared memoized providers, singletons,
// lazy static initialisation, isolation of concurrent invocations, concurrent Bind calls.

import (
	"fmt"
	"math/rand"
	"regexp"
	"runtime"
	"strings"
	"sync"
	"sync/atomic"
	"time"

	nject "github.com/muir/nject/v2"
)

var markRe = regexp.MustCompile(`MARK-g\d+-i\d+-`)

type concReport struct {
	lines []string
}

func (r *concReport) add(test string, ok bool, format string, a ...any) {
	st := "ok"
	if !ok {
		st = "fail"
	}
	r.lines = append(r.lines, fmt.Sprintf("conc %s %s %s", test, st, fmt.Sprintf(format, a...)))
}

// runWithDeadline runs f in goroutines and reports whether all finished in time.
func parallel(n int, deadline time.Duration, f func(g int)) bool {
	var wg sync.WaitGroup
	wg.Add(n)
	for g := 0; g < n; g++ {
		go func(g int) {
			defer wg.Done()
			f(g)
		}(g)
	}
	done := make(chan struct{})
	go func() { wg.Wait(); close(done) }()
	select {
	case <-done:
		return true
	case <-time.After(deadline):
		return false
	}
}

// ---- C09: memoized provider shared by several chains and goroutines

func concMemo(rep *concReport, rng *rand.Rand, goroutines, keys, iters int) {
	var mu sync.Mutex
	calls := map[uint64]int{}    // key -> number of real calls
	first := map[uint64]uint64{} // key -> result tag of the first call
	var counter uint64
	memo := nject.Memoize(func(a T0) T1 {
		n := atomic.AddUint64(&counter, 1)
		mu.Lock()
		calls[a.Tag]++
		if _, ok := first[a.Tag]; !ok {
			first[a.Tag] = n
		}
		mu.Unlock()
		time.Sleep(time.Duration(rng.Intn(3)) * time.Microsecond)
		return T1{Tag: n}
	})
	// static use (from an init argument) in chain C, per-invocation use in chains A and B
	var invA func(T0) T1
	var invB func(T0) (T1, T2)
	errA := nject.Sequence("A", memo, func(x T1) T1 { return x }).Bind(&invA, nil)
	errB := nject.Sequence("B", func() T2 { return T2{Tag: 7} }, memo, func(x T1, y T2) (T1, T2) { return x, y }).Bind(&invB, nil)
	if errA != nil || errB != nil {
		rep.add("memo", false, "bind failed: %v %v", errA, errB)
		return
	}
	var bad int64
	var mismatch string
	var mm sync.Mutex
	type obs struct{ k, v uint64 }
	all := make([][]obs, goroutines)
	finished := parallel(goroutines, 20*time.Second, func(g int) {
		r := rand.New(rand.NewSource(int64(g) * 7919))
		for i := 0; i < iters; i++ {
			k := uint64(1 + r.Intn(keys))
			var v T1
			if (g+i)%2 == 0 {
				v = invA(T0{Tag: k})
			} else {
				v, _ = invB(T0{Tag: k})
			}
			all[g] = append(all[g], obs{k, v.Tag})
		}
	})
	if !finished {
		rep.add("memo", false, "deadlock or livelock: goroutines did not finish")
		return
	}
	mu.Lock()
	defer mu.Unlock()
	for k, n := range calls {
		if n != 1 {
			atomic.AddInt64(&bad, 1)
			mm.Lock()
			mismatch = fmt.Sprintf("key %d was really called %d times", k, n)
			mm.Unlock()
		}
	}
	for _, os := range all {
		for _, o := range os {
			if first[o.k] != o.v {
				bad++
				mismatch = fmt.Sprintf("use of key %d observed %d, the one call returned %d", o.k, o.v, first[o.k])
			}
		}
	}
	rep.add("memo", bad == 0, "goroutines=%d keys=%d uses=%d distinct_called=%d %s", goroutines, keys, goroutines*iters, len(calls), mismatch)
}

// ---- C10: singleton shared by chains; static chain once; init idempotent

func concSingleton(rep *concReport, goroutines int) {
	var runs int64
	single := nject.Singleton(func() T2 {
		n := atomic.AddInt64(&runs, 1)
		time.Sleep(50 * time.Microsecond)
		return T2{Tag: uint64(100 + n)}
	})
	// a side-effect-only singleton (no results) shared by the same chains
	var sideRuns int64
	side := nject.Required(nject.Singleton(func() { atomic.AddInt64(&sideRuns, 1) }))
	const chains = 4
	invs := make([]func() T2, chains)
	for i := range invs {
		if err := nject.Sequence(fmt.Sprintf("S%d", i), single, side, func(x T2) T2 { return x }).Bind(&invs[i], nil); err != nil {
			rep.add("singleton", false, "bind: %v", err)
			return
		}
	}
	res := make([]uint64, goroutines)
	fin := parallel(goroutines, 20*time.Second, func(g int) { res[g] = invs[g%chains]().Tag })
	ok := fin && atomic.LoadInt64(&runs) == 1 && atomic.LoadInt64(&sideRuns) == 1
	detail := ""
	if atomic.LoadInt64(&sideRuns) != 1 {
		detail = fmt.Sprintf("the result-less Singleton ran %d times", sideRuns)
	}
	for _, v := range res {
		if v != 101 {
			ok = false
			detail = fmt.Sprintf("a caller observed %d", v)
		}
	}
	rep.add("singleton", ok, "chains=%d goroutines=%d runs=%d finished=%v %s", chains, goroutines, runs, fin, detail)
}

// concSingletonStacked: Singleton with another annotation above or below it (on the provider or on a collection
// holding it): still one call for the process, and every chain observes that call's result.
func concSingletonStacked(rep *concReport) {
	type mk struct {
		name string
		f    func(fn any) any
	}
	variants := []mk{
		{"Required(Singleton)", func(fn any) any { return nject.Required(nject.Singleton(fn)) }},
		{"Desired(Singleton)", func(fn any) any { return nject.Desired(nject.Singleton(fn)) }},
		{"MustCache(Singleton)", func(fn any) any { return nject.MustCache(nject.Singleton(fn)) }},
		{"Cacheable(Singleton)", func(fn any) any { return nject.Cacheable(nject.Singleton(fn)) }},
		{"Provide(Singleton)", func(fn any) any { return nject.Provide("stacked", nject.Singleton(fn)) }},
		{"Singleton(MustCache)", func(fn any) any { return nject.Singleton(nject.MustCache(fn)) }},
		{"Singleton(Cacheable)", func(fn any) any { return nject.Singleton(nject.Cacheable(fn)) }},
		{"Singleton(Provide)", func(fn any) any { return nject.Singleton(nject.Provide("stacked", fn)) }},
		{"MustCache(Sequence(Singleton))", func(fn any) any { return nject.MustCache(nject.Sequence("in", nject.Singleton(fn))) }},
		{"Cacheable(Sequence(Singleton))", func(fn any) any { return nject.Cacheable(nject.Sequence("in", nject.Singleton(fn))) }},
		{"Singleton(Sequence(MustCache))", func(fn any) any { return nject.Singleton(nject.Sequence("in", nject.MustCache(fn))) }},
		{"Shun(Singleton)", func(fn any) any { return nject.Shun(nject.Singleton(fn)) }},
	}
	var bad []string
	for _, v := range variants {
		var runs int64
		p := v.f(func() T2 { return T2{Tag: uint64(500 + atomic.AddInt64(&runs, 1))} })
		const chains = 3
		invs := make([]func() T2, chains)
		failed := false
		for i := range invs {
			if err := nject.Sequence(fmt.Sprintf("ST%d", i), p, func(x T2) T2 { return x }).Bind(&invs[i], nil); err != nil {
				bad = append(bad, fmt.Sprintf("%s: bind: %v", v.name, err))
				failed = true
				break
			}
		}
		if failed {
			continue
		}
		res := make([]uint64, 2*chains)
		fin := parallel(len(res), 20*time.Second, func(g int) { res[g] = invs[g%chains]().Tag })
		if !fin || atomic.LoadInt64(&runs) != 1 {
			bad = append(bad, fmt.Sprintf("%s: ran %d times in %d chains (finished=%v)", v.name, runs, chains, fin))
		}
		for _, r := range res {
			if r != 501 {
				bad = append(bad, fmt.Sprintf("%s: a caller observed %d", v.name, r))
				break
			}
		}
	}
	rep.add("singleton-stacked", len(bad) == 0, "variants=%d %s", len(variants), strings.Join(bad, "; "))
}

func concStaticOnce(rep *concReport, goroutines int, withInit bool) {
	var runs int64
	static := nject.Cacheable(func(a T0) T3 {
		n := atomic.AddInt64(&runs, 1)
		time.Sleep(30 * time.Microsecond)
		return T3{Tag: a.Tag*10 + uint64(n)}
	})
	var inv func(T1) T3
	var ini func(T0) T3
	var err error
	name := "static-lazy"
	if withInit {
		name = "static-init"
		err = nject.Sequence("I", static, func(x T3, _ T1) T3 { return x }).Bind(&inv, &ini)
	} else {
		err = nject.Sequence("I", T0{Tag: 5}, static, func(x T3, _ T1) T3 { return x }).Bind(&inv, nil)
	}
	if err != nil {
		rep.add(name, false, "bind: %v", err)
		return
	}
	initRes := make([]uint64, goroutines)
	invRes := make([]uint64, goroutines)
	fin := parallel(goroutines, 20*time.Second, func(g int) {
		if withInit {
			initRes[g] = ini(T0{Tag: uint64(g + 1)}).Tag // different arguments: only the first call's count
		}
		invRes[g] = inv(T1{Tag: uint64(g)}).Tag
	})
	ok := fin && atomic.LoadInt64(&runs) == 1
	detail := ""
	for g := range invRes {
		if invRes[g] != invRes[0] || (withInit && initRes[g] != initRes[0]) || (withInit && initRes[g] != invRes[g]) {
			ok = false
			detail = fmt.Sprintf("goroutine %d saw init=%d invoke=%d, goroutine 0 saw init=%d invoke=%d", g, initRes[g], invRes[g], initRes[0], invRes[0])
		}
	}
	rep.add(name, ok, "goroutines=%d static_runs=%d finished=%v %s", goroutines, runs, fin, detail)
}

// ---- C08: isolation of concurrent invocations (wrapper calling inner twice, nested)

func concIsolation(rep *concReport, goroutines, iters int, parallelWrapper bool) {
	w1 := func(inner func(T1) T4, a T0) T4 {
		x := inner(T1{Tag: a.Tag * 2})
		y := inner(T1{Tag: a.Tag*2 + 1})
		return T4{Tag: x.Tag*1000 + y.Tag}
	}
	var wrapper any = w1
	name := "isolation"
	if parallelWrapper {
		name = "isolation-parallel"
		wrapper = nject.Parallel(func(inner func(T1) T4, a T0) T4 {
			var x, y T4
			var wg sync.WaitGroup
			wg.Add(2)
			go func() { defer wg.Done(); x = inner(T1{Tag: a.Tag * 2}) }()
			go func() { defer wg.Done(); y = inner(T1{Tag: a.Tag*2 + 1}) }()
			wg.Wait()
			return T4{Tag: x.Tag*1000 + y.Tag}
		})
	}
	var gated int64
	var inv func(T0) T4
	err := nject.Sequence("X",
		// a wrapper that takes nothing from the chain but its inner: its argument list is still its own
		nject.Required(func(inner func()) { atomic.AddInt64(&gated, 1); inner() }),
		wrapper,
		nject.Required(func(inner func()) { inner(); atomic.AddInt64(&gated, 1) }),
		func(b T1) T2 { return T2{Tag: b.Tag + 3} },
		func(inner func(T3) T4, c T2) T4 { r := inner(T3{Tag: c.Tag * 5}); return T4{Tag: r.Tag + 1} },
		func(d T3, b T1) T4 { return T4{Tag: d.Tag + b.Tag} },
	).Bind(&inv, nil)
	if err != nil {
		rep.add(name, false, "bind: %v", err)
		return
	}
	expect := func(a uint64) uint64 {
		one := func(b uint64) uint64 { return (b+3)*5 + b + 1 }
		return one(a*2)*1000 + one(a*2+1)
	}
	var bad int64
	var detail atomic.Value
	fin := parallel(goroutines, 30*time.Second, func(g int) {
		for i := 0; i < iters; i++ {
			a := uint64(g*1000 + i + 1)
			got := inv(T0{Tag: a}).Tag
			if got != expect(a) {
				atomic.AddInt64(&bad, 1)
				detail.Store(fmt.Sprintf("invoke(%d) returned %d, alone it returns %d", a, got, expect(a)))
			}
		}
	})
	d, _ := detail.Load().(string)
	rep.add(name, fin && bad == 0, "goroutines=%d invocations=%d wrong=%d finished=%v %s", goroutines, goroutines*iters, bad, fin, d)
}

// ---- C12: concurrent failing and succeeding Binds, some asking for *Debugging

func concBind(rep *concReport, goroutines, iters int) {
	var bad int64
	var detail atomic.Value
	fin := parallel(goroutines, 60*time.Second, func(g int) {
		for i := 0; i < iters; i++ {
			switch (g + i) % 3 {
			case 0: // succeeds
				var inv func(T0) T1
				err := nject.Sequence("ok", func(a T0) T1 { return T1{Tag: a.Tag + 1} }, func(b T1) T1 { return b }).Bind(&inv, nil)
				if err != nil || inv(T0{Tag: 4}).Tag != 5 {
					atomic.AddInt64(&bad, 1)
					detail.Store(fmt.Sprintf("good chain failed: %v", err))
				}
			case 1: // fails: missing input; the providers carry a name unique to this Bind
				var inv func() T1
				mark := fmt.Sprintf("MARK-g%d-i%d-", g, i)
				err := nject.Sequence("bad", nject.Provide(mark+"a", func(a T0) T1 { return T1{Tag: a.Tag} }),
					nject.Provide(mark+"final", func(b T1) T1 { return b })).Bind(&inv, nil)
				if err == nil {
					atomic.AddInt64(&bad, 1)
					detail.Store("bad chain bound")
				} else {
					d := nject.DetailedError(err)
					if len(d) < len(err.Error()) || d[:len(err.Error())] != err.Error() {
						atomic.AddInt64(&bad, 1)
						detail.Store("DetailedError does not start with the plain error text")
					}
					if inv != nil {
						atomic.AddInt64(&bad, 1)
						detail.Store("failed Bind touched the invoke variable")
					}
					// cross-talk: the trace part of the details must be about this Bind only
					trace := d
					if k := strings.Index(d, "func TestRegression"); k >= 0 {
						trace = d[:k]
					}
					if !strings.Contains(trace, mark) {
						atomic.AddInt64(&bad, 1)
						detail.Store("DetailedError trace does not mention this Bind's own providers (" + mark + ")")
					}
					for _, m := range markRe.FindAllString(trace, -1) {
						if m != mark {
							atomic.AddInt64(&bad, 1)
							detail.Store("DetailedError trace of " + mark + " mentions another Bind's provider " + m)
							break
						}
					}
				}
			case 2: // consumes *Debugging
				var inv func(T0) int
				err := nject.Sequence("dbg", func(a T0) T1 { return T1{Tag: a.Tag} }, func(b T1, d *nject.Debugging) int { return len(d.NamesIncluded) }).Bind(&inv, nil)
				if err != nil {
					atomic.AddInt64(&bad, 1)
					detail.Store(fmt.Sprintf("debugging chain failed: %v", err))
				} else if n := inv(T0{Tag: 1}); n < 3 {
					atomic.AddInt64(&bad, 1)
					detail.Store(fmt.Sprintf("debugging lists %d names", n))
				}
			}
		}
	})
	d, _ := detail.Load().(string)
	rep.add("bind", fin && bad == 0, "goroutines=%d binds=%d wrong=%d finished_without_deadlock=%v %s", goroutines, goroutines*iters, bad, fin, d)
}

// concBindFailing: only failing Binds of longer chains (the capture and the generation of the
// reproduce case take longer, the captures overlap more)
func concBindFailing(rep *concReport, goroutines, iters int) {
	var bad int64
	var detail atomic.Value
	fin := parallel(goroutines, 60*time.Second, func(g int) {
		for i := 0; i < iters; i++ {
			var inv func() T1
			mark := fmt.Sprintf("MARK-g%d-i%d-", g, i)
			err := nject.Sequence("bad",
				nject.Provide(mark+"a", func(a T0) T1 { return T1{Tag: a.Tag} }),
				nject.Provide(mark+"b", func(b T1) T2 { return T2{Tag: b.Tag} }),
				nject.Provide(mark+"c", func(inner func(T3) T1, c T2) T1 { return inner(T3{Tag: c.Tag}) }),
				nject.Provide(mark+"d", func(d T3) T4 { return T4{Tag: d.Tag} }),
				nject.Provide(mark+"e", func(e T4, d T3) T5 { return T5{Tag: e.Tag} }),
				nject.Provide(mark+"final", func(b T1, f T5) T1 { return b })).Bind(&inv, nil)
			if err == nil {
				atomic.AddInt64(&bad, 1)
				detail.Store("bad chain bound")
				continue
			}
			d := nject.DetailedError(err)
			trace := d
			if k := strings.Index(d, "func TestRegression"); k >= 0 {
				trace = d[:k]
			}
			if !strings.Contains(trace, mark) {
				atomic.AddInt64(&bad, 1)
				detail.Store("DetailedError trace does not mention this Bind's own providers (" + mark + ")")
			}
			for _, m := range markRe.FindAllString(trace, -1) {
				if m != mark {
					atomic.AddInt64(&bad, 1)
					detail.Store("DetailedError trace of " + mark + " mentions another Bind's provider " + m)
					break
				}
			}
		}
	})
	d, _ := detail.Load().(string)
	rep.add("bind-failing", fin && bad == 0, "goroutines=%d binds=%d wrong=%d finished_without_deadlock=%v %s", goroutines, goroutines*iters, bad, fin, d)
}

// ---- C09: key distinctness (sequential)

func memoKeys(rep *concReport) {
	var n int
	var inv func(any) T1
	err := nject.Sequence("K", nject.Memoize(func(x any) T1 { n++; return T1{Tag: uint64(n)} }), func(v T1) T1 { return v }).Bind(&inv, nil)
	if err != nil {
		rep.add("memokey", false, "bind: %v", err)
		return
	}
	a := inv("")
	b := inv(nil)
	c := inv("")
	d := inv(nil)
	ok := n == 2 && a.Tag != b.Tag && a.Tag == c.Tag && b.Tag == d.Tag
	rep.add("memokey-nil-vs-empty-string", ok, "calls=%d results=%d,%d,%d,%d", n, a.Tag, b.Tag, c.Tag, d.Tag)
	// unmappable key falls back to calling each time instead of failing
	var m int
	var inv2 func(any) T2
	err = nject.Sequence("K2", nject.Memoize(func(x any) T2 { m++; return T2{Tag: uint64(m)} }), func(v T2) T2 { return v }).Bind(&inv2, nil)
	if err != nil {
		rep.add("memokey-unmappable", false, "bind: %v", err)
		return
	}
	s := guarded(5*time.Second, func() { inv2([]int{1}); inv2([]int{1}); inv2(map[string]int{}) })
	rep.add("memokey-unmappable", s == "" && m == 3, "calls=%d %s", m, s)
	// unhashable values hidden inside hashable-looking static types: struct fields (any position), arrays, nesting
	type kFirst struct {
		Payload any
		Shard   int
	}
	type kMid struct {
		A int
		P any
		B string
	}
	type kNest struct {
		N  int
		In kFirst
		Z  int
	}
	shapes := []struct {
		name      string
		hashable  any
		unhashble any
	}{
		{"struct-iface-first", kFirst{"x", 1}, kFirst{[]int{1}, 1}},
		{"struct-iface-middle", kMid{1, 2, "b"}, kMid{1, map[int]int{}, "b"}},
		{"struct-nested", kNest{1, kFirst{3, 4}, 5}, kNest{1, kFirst{[]string{"a"}, 4}, 5}},
		{"array-of-iface", [3]any{1, "a", 2}, [3]any{1, []int{2}, 3}},
		{"iface-holding-struct", any(kFirst{1, 1}), any(kFirst{func() {}, 1})},
	}
	for _, sh := range shapes {
		var cnt int
		var inv3 func(any) T3
		err = nject.Sequence("K3", nject.Memoize(func(x any) T3 { cnt++; return T3{Tag: uint64(cnt)} }), func(v T3) T3 { return v }).Bind(&inv3, nil)
		if err != nil {
			rep.add("memokey-"+sh.name, false, "bind: %v", err)
			continue
		}
		var r1, r2, r3 T3
		s := guarded(5*time.Second, func() {
			r1 = inv3(sh.hashable)
			r2 = inv3(sh.hashable)
			inv3(sh.unhashble)
			inv3(sh.unhashble)
			// whether a value can be a key is decided per value: the hashable one is still memoized afterwards
			r3 = inv3(sh.hashable)
		})
		rep.add("memokey-"+sh.name, s == "" && cnt == 3 && r1 == r2 && r3 == r1,
			"calls=%d (want 3: once for the hashable value -- also when it comes again after the unhashable one --, each time for the unhashable one) %s", cnt, s)
	}
	{
		var cnt int
		var inv5 func([2]any) T3
		err = nject.Sequence("K5", nject.Memoize(func(x [2]any) T3 { cnt++; return T3{Tag: uint64(cnt)} }), func(v T3) T3 { return v }).Bind(&inv5, nil)
		if err != nil {
			rep.add("memokey-static-array", false, "bind: %v", err)
		} else {
			s := guarded(5*time.Second, func() {
				inv5([2]any{1, "a"})
				inv5([2]any{1, "a"})
				inv5([2]any{1, []int{1}})
				inv5([2]any{1, []int{1}})
			})
			rep.add("memokey-static-array", s == "" && cnt == 3, "calls=%d (want 3) %s", cnt, s)
		}
	}
	// the same with the struct as the static parameter type
	{
		var cnt int
		var inv4 func(kMid) T3
		err = nject.Sequence("K4", nject.Memoize(func(x kMid) T3 { cnt++; return T3{Tag: uint64(cnt)} }), func(v T3) T3 { return v }).Bind(&inv4, nil)
		if err != nil {
			rep.add("memokey-static-struct", false, "bind: %v", err)
		} else {
			s := guarded(5*time.Second, func() {
				inv4(kMid{1, 2, "b"})
				inv4(kMid{1, 2, "b"})
				inv4(kMid{1, []int{1}, "b"})
				inv4(kMid{1, []int{1}, "b"})
			})
			rep.add("memokey-static-struct", s == "" && cnt == 3, "calls=%d (want 3) %s", cnt, s)
		}
	}
	// unexported fields: a hashable one does not stand in the way of memoizing (bind ok, one call per value); an
	// interface-typed one cannot be inspected, so the provider is refused or calls through -- never a panic
	{
		type kPriv struct {
			Name string
			rev  int
		}
		var cnt int
		var inv6 func(kPriv) T3
		err = nject.Sequence("K6", nject.Memoize(func(x kPriv) T3 { cnt++; return T3{Tag: uint64(cnt)} }), func(v T3) T3 { return v }).Bind(&inv6, nil)
		if err != nil {
			rep.add("memokey-unexported-hashable-field", false, "bind: %v", err)
		} else {
			s := guarded(5*time.Second, func() { inv6(kPriv{"a", 1}); inv6(kPriv{"a", 1}); inv6(kPriv{"a", 2}) })
			rep.add("memokey-unexported-hashable-field", s == "" && cnt == 2, "calls=%d (want 2) %s", cnt, s)
		}
	}
	{
		type kPrivI struct {
			Name  string
			extra any
		}
		var cnt int
		var inv7 func(kPrivI) T3
		err = nject.Sequence("K7", nject.Memoize(func(x kPrivI) T3 { cnt++; return T3{Tag: uint64(cnt)} }), func(v T3) T3 { return v }).Bind(&inv7, nil)
		if err != nil {
			rep.add("memokey-unexported-interface-field", true, "refused: ok")
		} else {
			s := guarded(5*time.Second, func() { inv7(kPrivI{"a", []int{1}}); inv7(kPrivI{"a", []int{1}}) })
			rep.add("memokey-unexported-interface-field", s == "", "calls=%d %s", cnt, s)
		}
	}
}

// ---- C08: concurrent inner() calls of a Parallel wrapper whose inner takes no arguments: what the providers below
// produce during one call must not be visible in another

func concParallelNoArgs(rep *concReport, goroutines, iters int) {
	var ctr uint64
	var mu sync.Mutex
	seenFinal := map[uint64]int{}
	mism := 0
	const fan = 4
	wrapper := nject.Parallel(func(inner func() T4, a T0) T4 {
		var wg sync.WaitGroup
		var sum uint64
		wg.Add(fan)
		for k := 0; k < fan; k++ {
			go func() { defer wg.Done(); atomic.AddUint64(&sum, inner().Tag) }()
		}
		wg.Wait()
		return T4{Tag: sum}
	})
	var inv func(T0) T4
	err := nject.Sequence("PN",
		wrapper,
		func(a T0) T1 { return T1{Tag: atomic.AddUint64(&ctr, 1)} },
		func(b T1) T2 { runtime.Gosched(); return T2{Tag: b.Tag} },
		func(b T1, c T2) T4 {
			runtime.Gosched()
			mu.Lock()
			seenFinal[b.Tag]++
			if b.Tag != c.Tag {
				mism++
			}
			mu.Unlock()
			return T4{Tag: 1}
		},
	).Bind(&inv, nil)
	if err != nil {
		rep.add("isolation-parallel-noargs", false, "bind: %v", err)
		return
	}
	fin := parallel(goroutines, 30*time.Second, func(g int) {
		for i := 0; i < iters; i++ {
			inv(T0{Tag: uint64(g*1000 + i + 1)})
		}
	})
	total := uint64(goroutines * iters * fan)
	dups := 0
	for _, n := range seenFinal {
		if n != 1 {
			dups++
		}
	}
	ok := fin && mism == 0 && dups == 0 && uint64(len(seenFinal)) == total && atomic.LoadUint64(&ctr) == total
	rep.add("isolation-parallel-noargs", ok, "inner calls=%d produced=%d distinct values seen by the final function=%d seen-more-than-once=%d inconsistent pairs=%d finished=%v",
		total, atomic.LoadUint64(&ctr), len(seenFinal), dups, mism, fin)
}

// ---- C12: DetailedError starts with the plain error text also when the process has seen two types with one name

func dupTypeA() any { type dupT struct{ X int }; return func(a dupT) T1 { return T1{} } }
func dupTypeB() any { type dupT struct{ Y string }; return func(a dupT, b T1) T1 { return b } }

func detailedErrorDupTypes(rep *concReport) {
	var inv func() T1
	err := nject.Sequence("dup", dupTypeA(), dupTypeB()).Bind(&inv, nil)
	if err == nil {
		rep.add("bind-detailed-dup-types", false, "chain with unsatisfied inputs bound")
		return
	}
	d := nject.DetailedError(err)
	ok := strings.HasPrefix(d, err.Error())
	rep.add("bind-detailed-dup-types", ok && strings.Contains(d, "more than one type"),
		"prefix=%v mentions-duplicate-names=%v", ok, strings.Contains(d, "more than one type"))
}

// concSingletonSibling: one base provider annotated two ways (Memoize / Singleton: the copies share the provider id).
// The memoized copy is used first, with two inputs; the Singleton copy must still run once for the process,
// whatever inputs its chains offer, and every chain sees that one result.
func concSingletonSibling(rep *concReport) {
	var runs int64
	base := nject.Provide("sibling-base", func(a T0) T2 {
		n := atomic.AddInt64(&runs, 1)
		return T2{Tag: a.Tag*1000 + uint64(n)}
	})
	memo := nject.Memoize(base)
	single := nject.Singleton(base)
	bindRun := func(name string, in uint64, p any) (uint64, error) {
		var inv func() T2
		if err := nject.Sequence(name, T0{Tag: in}, p, func(x T2) T2 { return x }).Bind(&inv, nil); err != nil {
			return 0, err
		}
		return inv().Tag, nil
	}
	var obs []uint64
	for i, spec := range []struct {
		in uint64
		p  any
	}{{1, memo}, {2, memo}, {1, memo}, {3, single}, {4, single}, {5, single}} {
		v, err := bindRun(fmt.Sprintf("SB%d", i), spec.in, spec.p)
		if err != nil {
			rep.add("singleton-sibling", false, "bind: %v", err)
			return
		}
		obs = append(obs, v)
	}
	ok := obs[0] == obs[2] && obs[0] != obs[1] && obs[3] == obs[4] && obs[4] == obs[5] && atomic.LoadInt64(&runs) == 3
	rep.add("singleton-sibling", ok, "observed=%v runs=%d (want: memo once per input = 2, singleton once = 1)", obs, runs)
}

// concStaticOnceDebugging: like static-init, with a consumer of *Debugging in the chain (the Debugging value
// is built by binding the chain again, without effect on the chain that is in use)
func concStaticOnceDebugging(rep *concReport, goroutines int) {
	var runs int64
	static := nject.Cacheable(func(a T0) T3 {
		n := atomic.AddInt64(&runs, 1)
		return T3{Tag: a.Tag*10 + uint64(n)}
	})
	var inv func(T1) T3
	var ini func(T0) T3
	if err := nject.Sequence("ID", static, func(x T3, _ T1, d *nject.Debugging) T3 { _ = d.Trace; return x }).Bind(&inv, &ini); err != nil {
		rep.add("static-init-debugging", false, "bind: %v", err)
		return
	}
	first := ini(T0{Tag: 1}).Tag
	ok := true
	detail := ""
	for g := 0; g < goroutines; g++ {
		a := ini(T0{Tag: uint64(g + 2)}).Tag
		b := inv(T1{Tag: uint64(g)}).Tag
		if a != first || b != first {
			ok = false
			detail = fmt.Sprintf("call %d saw init=%d invoke=%d, the first init call returned %d", g, a, b, first)
		}
	}
	if atomic.LoadInt64(&runs) != 1 {
		ok = false
	}
	rep.add("static-init-debugging", ok, "static_runs=%d %s", runs, detail)
}

type nilNamer interface{ NilName() string }
type nilAlpha struct{ X int }
type nilBeta struct{ Y string }

func (a *nilAlpha) NilName() string {
	if a == nil {
		return "nil-alpha"
	}
	return "alpha"
}
func (b *nilBeta) NilName() string {
	if b == nil {
		return "nil-beta"
	}
	return "beta"
}

// memoNilPointers: nil pointers of two concrete types reaching one memoized interface parameter are two inputs
func memoNilPointers(rep *concReport) {
	calls := map[string]int{}
	var mu sync.Mutex
	memo := nject.Memoize(func(n nilNamer) T1 {
		mu.Lock()
		calls[n.NilName()]++
		mu.Unlock()
		return T1{Tag: uint64(len(n.NilName()))*100 + uint64(n.NilName()[4])}
	})
	run := func(name string, src any, want string) (uint64, error) {
		var inv func() T1
		if err := nject.Sequence(name, src, memo, func(x T1) T1 { return x }).Bind(&inv, nil); err != nil {
			return 0, err
		}
		return inv().Tag, nil
	}
	a1, e1 := run("NA", nject.Cacheable(nject.Loose[nilNamer](func() *nilAlpha { return nil })), "nil-alpha")
	b1, e2 := run("NB", nject.Cacheable(nject.Loose[nilNamer](func() *nilBeta { return nil })), "nil-beta")
	a2, e3 := run("NA2", nject.Cacheable(nject.Loose[nilNamer](func() *nilAlpha { return nil })), "nil-alpha")
	if e1 != nil || e2 != nil || e3 != nil {
		rep.add("memo-nil-pointers", false, "bind: %v %v %v", e1, e2, e3)
		return
	}
	wantA := uint64(len("nil-alpha"))*100 + uint64("nil-alpha"[4])
	wantB := uint64(len("nil-beta"))*100 + uint64("nil-beta"[4])
	ok := a1 == wantA && b1 == wantB && a2 == wantA && calls["nil-alpha"] == 1 && calls["nil-beta"] == 1
	rep.add("memo-nil-pointers", ok, "alpha=%d beta=%d alpha-again=%d calls=%v (want one call per distinct input)", a1, b1, a2, calls)
}

// isolationRetryAfterPanic: a wrapper that recovers a panic raised below it and calls inner() again: the second
// call must not see what the providers below wrote during the first
func isolationRetryAfterPanic(rep *concReport) {
	var seen []uint64
	attempts := 0
	wrapper := func(inner func() T3, _ T1) (r T3) {
		func() {
			defer func() { _ = recover() }()
			r = inner()
		}()
		if attempts == 1 {
			r = inner()
		}
		return r
	}
	observer := nject.Required(func(t T1) { seen = append(seen, t.Tag) })
	reprovide := func(t T1) T1 { return T1{Tag: t.Tag + 1000} }
	bomb := func(t T1) T2 {
		attempts++
		if attempts == 1 {
			panic("first attempt fails")
		}
		return T2{Tag: t.Tag}
	}
	var inv func(T1) T3
	if err := nject.Sequence("RP", wrapper, observer, reprovide, bomb, func(t T1, _ T2) T3 { return T3{Tag: t.Tag} }).Bind(&inv, nil); err != nil {
		rep.add("isolation-retry-after-panic", false, "bind: %v", err)
		return
	}
	got := inv(T1{Tag: 7}).Tag
	ok := got == 1007 && len(seen) == 2 && seen[0] == 7 && seen[1] == 7
	rep.add("isolation-retry-after-panic", ok, "final got %d (want 1007), the provider above the re-provider saw %v (want [7 7])", got, seen)
}

// concLifecycle: ONE base provider, annotated copies of it (they share the provider id) used in a random order with
// random inputs.  Every result carries the number of the call that produced it, so "same call" is "same result":
//
//	Singleton: one call for the process, whatever the inputs;  Memoize: one call per distinct input, across chains;
//	Cacheable / MustCache: one call per bound chain;  no annotation: one call per invocation.
func concLifecycle(rep *concReport, rng *rand.Rand) {
	var seq int64
	base := nject.Provide("lifecycle-base", func(a T0) T2 {
		n := atomic.AddInt64(&seq, 1)
		return T2{Tag: a.Tag*100000 + uint64(n)}
	})
	kinds := []string{"plain", "cacheable", "mustcache", "memoize", "singleton"}
	variant := map[string]any{
		"plain": base, "cacheable": nject.Cacheable(base), "mustcache": nject.MustCache(base),
		"memoize": nject.Memoize(base), "singleton": nject.Singleton(base),
	}
	type obs struct {
		kind  string
		chain int
		in    uint64
		res   uint64
	}
	var all []obs
	var order []string
	for step := 0; step < 14; step++ {
		kind := kinds[rng.Intn(len(kinds))]
		in := uint64(1 + rng.Intn(3))
		order = append(order, fmt.Sprintf("%s(%d)", kind, in))
		var inv func() T2
		if err := nject.Sequence(fmt.Sprintf("LC%d", step), T0{Tag: in}, variant[kind], func(x T2) T2 { return x }).Bind(&inv, nil); err != nil {
			rep.add("singleton-lifecycle", false, "bind %s: %v", kind, err)
			return
		}
		for k := 0; k < 2; k++ {
			all = append(all, obs{kind, step, in, inv().Tag})
		}
	}
	bad := ""
	for i, a := range all {
		if a.res/100000 != a.in && a.kind != "singleton" && a.kind != "memoize" {
			bad = fmt.Sprintf("%s chain %d got a result computed for input %d, its input is %d", a.kind, a.chain, a.res/100000, a.in)
		}
		if a.kind == "memoize" && a.res/100000 != a.in {
			bad = fmt.Sprintf("memoize chain %d got a result computed for input %d, its input is %d", a.chain, a.res/100000, a.in)
		}
		for _, b := range all[:i] {
			same := a.res == b.res
			var want bool
			switch {
			case a.kind != b.kind:
				want = false
			case a.kind == "singleton":
				want = true
			case a.kind == "memoize":
				want = a.in == b.in
			case a.kind == "plain":
				want = false
			default:
				want = a.chain == b.chain
			}
			if same != want {
				bad = fmt.Sprintf("%s chain %d (input %d) result %d and %s chain %d (input %d) result %d: same call = %v, want %v",
					a.kind, a.chain, a.in, a.res, b.kind, b.chain, b.in, b.res, same, want)
			}
		}
	}
	rep.add("singleton-lifecycle", bad == "", "order=%s %s", strings.Join(order, ","), bad)
}

func runConc(seed int64, rounds int) []string {
	rep := &concReport{}
	rng := rand.New(rand.NewSource(seed))
	memoKeys(rep)
	memoNilPointers(rep)
	concSingletonSibling(rep)
	concSingletonStacked(rep)
	isolationRetryAfterPanic(rep)
	detailedErrorDupTypes(rep)
	for r := 0; r < rounds; r++ {
		g := 4 + rng.Intn(13)
		concMemo(rep, rng, g, 1+rng.Intn(6), 20+rng.Intn(60))
		concSingleton(rep, g)
		concLifecycle(rep, rng)
		concStaticOnce(rep, g, false)
		concStaticOnce(rep, g, true)
		concStaticOnceDebugging(rep, g)
		concIsolation(rep, g, 10+rng.Intn(40), false)
		concIsolation(rep, 1+g/4, 5+rng.Intn(10), true)
		concParallelNoArgs(rep, 1+g/4, 5+rng.Intn(10))
		concBind(rep, 2+g/2, 3+rng.Intn(6))
		if r%3 == 0 {
			concBind(rep, 8, 36) // enough overlapping failing Binds to expose cross-talk between captures
			concBindFailing(rep, 12, 40)
		}
	}
	return rep.lines
}
