package main

// C20: Reflective twins, Curry, SaveTo, MakeStructBuilder against the model.

import (
	"fmt"
	"math/rand"
	"reflect"
	"strings"
	"time"

	nject "github.com/muir/nject/v2"
)

// ---- Reflective twins: every function provider supplied through Reflective/ReflectiveWrapper

func runReflPair(c *CaseDesc, rng *rand.Rand) []string {
	c0 := c.clone()
	for _, p := range c0.Provs {
		p.Refl = false
	}
	base := runCase(c0)
	variant := func(kind string, choose func() bool) []string {
		c1 := c.clone()
		n := 0
		for _, p := range c1.Provs {
			p.Refl = false
			if p.Kind != "lit" && choose() {
				p.Refl = true
				n++
			}
		}
		if n == 0 {
			return nil
		}
		v := runCase(c1)
		d := summarize(base, false).diff(summarize(v, false))
		if d == "" {
			d = shapeDiff(base, v)
		}
		if d == "" {
			if a, b := flowSig(c0), flowSig(c1); a != b {
				d = "flows-api: " + a + " vs " + b
			}
		}
		return withPair(base, kind, v, d)
	}
	out := variant("refl-all", func() bool { return true })
	if out == nil {
		return base
	}
	if sub := variant("refl-subset", func() bool { return rng.Intn(2) == 0 }); sub != nil {
		// keep both verdicts in one record
		for _, l := range sub {
			if strings.HasPrefix(l, "pair ") {
				out = append(out[:len(out)-1], l, "end")
			}
		}
	}
	return out
}

// flowSig: what the flows API reports for each provider on its own and for the whole collection
func flowSig(c *CaseDesc) string {
	r := &caseRun{c: c.clone(), quiet: true}
	var b strings.Builder
	f := func(x interface {
		DownFlows() ([]reflect.Type, []reflect.Type)
		UpFlows() ([]reflect.Type, []reflect.Type)
	}) {
		di, do := x.DownFlows()
		ui, uo := x.UpFlows()
		fmt.Fprintf(&b, "%s>%s^%s>%s;", fmtCodes(codesOf(di)), fmtCodes(codesOf(do)), fmtCodes(codesOf(ui)), fmtCodes(codesOf(uo)))
	}
	s := guarded(5*time.Second, func() {
		for _, p := range r.c.Provs {
			f(nject.Sequence("one", annotate(p, r.rawProvider(p))))
		}
		f(r.buildCollection("c"))
	})
	return strings.ReplaceAll(b.String()+s, " ", "_")
}

// shapeDiff compares what the stages computed (class, group, inclusion, flows, parameter maps, slots)
func shapeDiff(a, b []string) string {
	shape := func(lines []string) []string {
		var out []string
		stage := ""
		for _, l := range lines {
			switch {
			case strings.HasPrefix(l, "dump "):
				stage = strings.Fields(l)[1]
				out = append(out, l)
			case strings.HasPrefix(l, "f ") && (stage == "S3" || stage == "S7"):
				if i := strings.Index(l, " why="); i >= 0 {
					l = l[:i]
				}
				out = append(out, stage+" "+l)
			}
		}
		return out
	}
	x, y := shape(a), shape(b)
	for i := 0; i < len(x) || i < len(y); i++ {
		p, q := "<none>", "<none>"
		if i < len(x) {
			p = x[i]
		}
		if i < len(y) {
			q = y[i]
		}
		if p != q {
			return fmt.Sprintf("shape: %q vs %q", p, q)
		}
	}
	return ""
}

// ---- Curry

type (
	N0 int64
	N1 int64
	N2 int64
	N3 int64
)

var curryTypes = []reflect.Type{reflect.TypeOf(N0(0)), reflect.TypeOf(N1(0)), reflect.TypeOf(N2(0)), reflect.TypeOf(N3(0)), reflect.TypeOf(T0{})}

func curryCode(t reflect.Type) int {
	for i, x := range curryTypes {
		if x == t {
			return 40 + i
		}
	}
	return 99
}

func mkCurryVal(t reflect.Type, tag int64) reflect.Value {
	v := reflect.New(t).Elem()
	if t.Kind() == reflect.Struct {
		v.Field(0).SetUint(uint64(tag))
	} else {
		v.SetInt(tag)
	}
	return v
}

func curryTag(v reflect.Value) int64 {
	if v.Kind() == reflect.Struct {
		return int64(v.Field(0).Uint())
	}
	return v.Int()
}

func runCurry(rng *rand.Rand, n int) []string {
	var out []string
	for i := 0; i < n; i++ {
		// per type: all of the original's parameters of that type are passed through, or the (single)
		// parameter of that type is taken from the chain -- what Curry accepts; perturbed below
		passT := map[reflect.Type]bool{}
		var passable []reflect.Type
		for _, t := range curryTypes {
			passT[t] = rng.Intn(2) == 0
			if passT[t] {
				passable = append(passable, t)
			}
		}
		no := 1 + rng.Intn(6)
		var o []reflect.Type
		seenT := map[reflect.Type]bool{}
		for k := 0; k < no; k++ {
			t := curryTypes[rng.Intn(len(curryTypes))]
			if !passT[t] && seenT[t] && rng.Intn(8) != 0 {
				if len(passable) == 0 {
					continue
				}
				t = passable[rng.Intn(len(passable))]
			}
			seenT[t] = true
			o = append(o, t)
		}
		var nn []reflect.Type
		for _, t := range o {
			if passT[t] {
				nn = append(nn, t)
			}
		}
		rng.Shuffle(len(nn), func(a, b int) { nn[a], nn[b] = nn[b], nn[a] })
		switch rng.Intn(10) {
		case 0:
			nn = append(nn, curryTypes[rng.Intn(len(curryTypes))])
		case 1:
			if len(nn) > 0 {
				nn = nn[1:]
			}
		}
		// results
		var oo []reflect.Type
		for k := rng.Intn(3); k > 0; k-- {
			oo = append(oo, curryTypes[rng.Intn(len(curryTypes))])
		}
		noo := append([]reflect.Type{}, oo...)
		if rng.Intn(12) == 0 {
			if len(noo) > 0 && rng.Intn(2) == 0 {
				noo = noo[1:]
			} else {
				noo = append(noo, curryTypes[rng.Intn(len(curryTypes))])
			}
		}
		codes := func(ts []reflect.Type) string {
			cs := make([]int, len(ts))
			for k, t := range ts {
				cs[k] = curryCode(t)
			}
			return fmtCodes(cs)
		}
		line := fmt.Sprintf("curry %d o=%s oo=%s n=%s no=%s", i, codes(o), codes(oo), codes(nn), codes(noo))
		var got []int64
		orig := reflect.MakeFunc(reflect.FuncOf(o, oo, false), func(in []reflect.Value) []reflect.Value {
			got = nil
			for _, v := range in {
				got = append(got, curryTag(v))
			}
			res := make([]reflect.Value, len(oo))
			for k, t := range oo {
				res[k] = mkCurryVal(t, int64(500+k))
			}
			return res
		})
		curriedPtr := reflect.New(reflect.FuncOf(nn, noo, false))
		var p nject.Provider
		var err error
		s := guarded(5*time.Second, func() { p, err = nject.Curry(orig.Interface(), curriedPtr.Interface()) })
		if s != "" {
			out = append(out, line+" result="+s)
			continue
		}
		if err != nil {
			out = append(out, line+" result=err")
			continue
		}
		ins, _ := p.DownFlows()
		// chain: the invoke function takes one value per type (tag base+code), then the curry provider, then a final func;
		// invoked twice with different values: the curried function must use the values of the latest invocation
		invPtr := reflect.New(reflect.FuncOf(curryTypes, nil, false))
		var runErr error
		s = guarded(5*time.Second, func() { runErr = nject.Sequence("curry", p, func() {}).Bind(invPtr.Interface(), nil) })
		if s != "" || runErr != nil {
			out = append(out, fmt.Sprintf("%s result=runfail:%s%v", line, s, runErr))
			continue
		}
		var res []reflect.Value
		var srcs [2][]string
		failed := ""
		for round, base := range []int64{1000, 2000} {
			vals := make([]reflect.Value, len(curryTypes))
			for k, t := range curryTypes {
				vals[k] = mkCurryVal(t, base+int64(curryCode(t)))
			}
			if s = guarded(5*time.Second, func() { invPtr.Elem().Call(vals) }); s != "" {
				failed = "runfail:" + s
				break
			}
			args := make([]reflect.Value, len(nn))
			for k, t := range nn {
				args[k] = mkCurryVal(t, int64(k+1)) // tag = curried position + 1
			}
			if s = guarded(5*time.Second, func() { res = curriedPtr.Elem().Call(args) }); s != "" {
				failed = "call:" + s
				break
			}
			// what each original position received: aK = curried argument K, c = the chain's value of that type
			src := make([]string, len(got))
			for k, tag := range got {
				switch {
				case tag == base+int64(curryCode(o[k])):
					src[k] = "c"
				case tag >= 1 && tag <= int64(len(nn)):
					src[k] = fmt.Sprintf("a%d", tag-1)
				default:
					src[k] = fmt.Sprintf("BAD%d", tag)
				}
			}
			srcs[round] = src
		}
		if failed != "" {
			out = append(out, line+" result="+failed)
			continue
		}
		src := srcs[0]
		if strings.Join(srcs[0], ",") != strings.Join(srcs[1], ",") {
			src = srcs[1] // the second invocation is the one that went wrong: show it
		}
		retOK := len(res) == len(oo)
		for k := range res {
			if retOK && curryTag(res[k]) != int64(500+k) {
				retOK = false
			}
		}
		out = append(out, fmt.Sprintf("%s result=ok src=%s curried=%s ret=%v", line, strings.Join(src, ","), codes(ins), retOK))
	}
	return out
}

// ---- SaveTo

func runSaveTo(rng *rand.Rand, n int) []string {
	var out []string
	for i := 0; i < n; i++ {
		k := 1 + rng.Intn(5)
		ptrs := make([]any, k)
		vals := make([]reflect.Value, k)
		cs := make([]int, k)
		for j := 0; j < k; j++ { // the same type may be listed more than once
			t := curryTypes[rng.Intn(len(curryTypes))]
			vals[j] = reflect.New(t)
			ptrs[j] = vals[j].Interface()
			cs[j] = curryCode(t)
		}
		line := fmt.Sprintf("saveto %d types=%s", i, fmtCodes(cs))
		p, err := nject.SaveTo(ptrs...)
		if err != nil {
			out = append(out, line+" result=err")
			continue
		}
		items := []any{}
		for _, t := range curryTypes {
			items = append(items, mkCurryVal(t, int64(1000+curryCode(t))).Interface())
		}
		items = append(items, p, func() {})
		var runErr error
		s := guarded(5*time.Second, func() { runErr = nject.Run("saveto", items...) })
		if s != "" || runErr != nil {
			out = append(out, fmt.Sprintf("%s result=runfail:%s%v", line, s, runErr))
			continue
		}
		st := make([]string, k)
		for j := range vals {
			st[j] = fmt.Sprint(curryTag(vals[j].Elem()))
		}
		out = append(out, line+" result=ok stored="+strings.Join(st, ","))
	}
	return out
}

// ---- MakeStructBuilder

var fillerLeaves = []reflect.Type{reflect.TypeOf(N0(0)), reflect.TypeOf(N1(0)), reflect.TypeOf(N2(0)), reflect.TypeOf(N3(0)), reflect.TypeOf(uint64(0))}
var fillerLeafCodes = []int{40, 41, 42, 43, 45}

type fdesc struct {
	exported bool
	tags     []string
	leaf     int // index into fillerLeaves, or -1 for a nested struct
	isT0     bool
	fields   []*fdesc
}

func genTags(rng *rand.Rand, isStruct bool) []string {
	var tags []string
	pool := []string{"-", "skip", "nofill", "fill"}
	if isStruct {
		pool = append(pool, "whole", "blob", "fields", "whole", "fields")
	}
	switch rng.Intn(10) {
	case 0, 1, 2, 3, 4:
	case 5, 6, 7:
		tags = []string{pool[rng.Intn(len(pool))]}
	case 8:
		tags = []string{pool[rng.Intn(len(pool))], pool[rng.Intn(len(pool))]}
	case 9:
		if rng.Intn(3) == 0 { // something MakeStructBuilder must reject
			tags = []string{[]string{"whole", "fields", "field", "bogus"}[rng.Intn(4)]}
			if isStruct {
				tags = []string{[]string{"field", "bogus"}[rng.Intn(2)]}
			}
		}
	}
	return tags
}

func genStruct(rng *rand.Rand, depth int) *fdesc {
	d := &fdesc{leaf: -1, exported: true}
	nf := 1 + rng.Intn(4)
	if depth >= 2 {
		nf = 2 + rng.Intn(2) // siblings deep down: field paths there share a prefix of some length
	}
	for i := 0; i < nf; i++ {
		f := &fdesc{exported: rng.Intn(8) != 0}
		switch {
		case depth < 6 && rng.Intn(4-minInt(depth, 2)) == 0:
			sub := genStruct(rng, depth+1)
			f.leaf, f.fields = -1, sub.fields
			f.tags = genTags(rng, true)
		case rng.Intn(6) == 0:
			f.leaf, f.isT0 = -1, true
			f.fields = []*fdesc{{exported: true, leaf: 4}}
			f.tags = genTags(rng, true)
		default:
			f.leaf = rng.Intn(len(fillerLeaves))
			f.tags = genTags(rng, false)
		}
		d.fields = append(d.fields, f)
	}
	return d
}

func (d *fdesc) goType() reflect.Type {
	if d.leaf >= 0 {
		return fillerLeaves[d.leaf]
	}
	if d.isT0 {
		return reflect.TypeOf(T0{})
	}
	var fs []reflect.StructField
	for i, f := range d.fields {
		sf := reflect.StructField{Name: fmt.Sprintf("F%d", i), Type: f.goType()}
		if !f.exported {
			sf.Name = fmt.Sprintf("f%d", i)
			sf.PkgPath = "main"
		}
		if len(f.tags) > 0 {
			sf.Tag = reflect.StructTag(`nject:"` + strings.Join(f.tags, ",") + `"`)
		}
		fs = append(fs, sf)
	}
	return reflect.StructOf(fs)
}

// structIDs numbers the distinct struct types of one case (identical types share a number)
type structIDs struct{ ts []reflect.Type }

func (ids *structIDs) code(t reflect.Type) int {
	if t == reflect.TypeOf(T0{}) {
		return 44
	}
	for i, x := range ids.ts {
		if x == t {
			return 100 + i
		}
	}
	ids.ts = append(ids.ts, t)
	return 100 + len(ids.ts) - 1
}

func (d *fdesc) encode(ids *structIDs) string {
	if d.leaf >= 0 {
		return fmt.Sprint(fillerLeafCodes[d.leaf])
	}
	var parts []string
	for _, f := range d.fields {
		e := "x"
		if f.exported {
			e = "X"
		}
		t := strings.Join(f.tags, "+")
		if t == "" {
			t = "none"
		}
		parts = append(parts, e+":"+t+":"+f.encode(ids))
	}
	return fmt.Sprintf("(%d|%s)", ids.code(d.goType()), strings.Join(parts, ";"))
}

// readLeaves lists "path=value" for every non-struct field reachable through exported fields
func readLeaves(v reflect.Value, path []int, out *[]string) {
	t := v.Type()
	for i := 0; i < t.NumField(); i++ {
		if t.Field(i).PkgPath != "" {
			continue
		}
		np := append(append([]int{}, path...), i)
		fv := v.Field(i)
		switch fv.Kind() {
		case reflect.Struct:
			readLeaves(fv, np, out)
		case reflect.Uint64:
			*out = append(*out, fmt.Sprintf("%s=%d", pathStr(np), fv.Uint()))
		default:
			*out = append(*out, fmt.Sprintf("%s=%d", pathStr(np), fv.Int()))
		}
	}
}

// markAll sets every leaf reachable through exported fields
func markAll(v reflect.Value, x int64) {
	t := v.Type()
	for i := 0; i < t.NumField(); i++ {
		if t.Field(i).PkgPath != "" {
			continue
		}
		fv := v.Field(i)
		switch fv.Kind() {
		case reflect.Struct:
			markAll(fv, x)
		case reflect.Uint64:
			fv.SetUint(uint64(x))
		default:
			fv.SetInt(x)
		}
	}
}

func pathStr(p []int) string {
	s := make([]string, len(p))
	for i, x := range p {
		s[i] = fmt.Sprint(x)
	}
	return strings.Join(s, ".")
}

func runFiller(rng *rand.Rand, n int) []string {
	var out []string
	for i := 0; i < n; i++ {
		d := genStruct(rng, 0)
		ptr := rng.Intn(2) == 0
		// FillExisting: the builder takes the struct to fill (a pointer) from the chain instead of making one
		existing := ptr && rng.Intn(3) == 0
		st := d.goType()
		ids := &structIDs{}
		var model any
		if ptr {
			model = reflect.New(st).Interface()
		} else {
			model = reflect.New(st).Elem().Interface()
		}
		line := fmt.Sprintf("filler %d ptr=%d ex=%d s=%s", i, b2i(ptr), b2i(existing), d.encode(ids))
		var p nject.Provider
		var err error
		var opts []nject.FillerFuncArg
		if existing {
			opts = append(opts, nject.FillExisting)
		}
		s := guarded(5*time.Second, func() { p, err = nject.MakeStructBuilder(model, opts...) })
		if s != "" {
			out = append(out, line+" result="+s)
			continue
		}
		if err != nil {
			out = append(out, line+" result=err")
			continue
		}
		ins, _ := p.DownFlows()
		ic := make([]int, len(ins))
		for k, t := range ins {
			if t == reflect.PointerTo(st) {
				ic[k] = 98 // the struct to fill itself
			} else if t.Kind() == reflect.Struct {
				ic[k] = ids.code(t)
			} else {
				ic[k] = 99
				for q, lt := range fillerLeaves {
					if lt == t {
						ic[k] = fillerLeafCodes[q]
					}
				}
			}
		}
		// chain: a value per leaf type, a fully marked value per struct type asked for, the builder, final
		items := []any{}
		for q, t := range fillerLeaves {
			v := reflect.New(t).Elem()
			if t.Kind() == reflect.Uint64 {
				v.SetUint(uint64(1000 + fillerLeafCodes[q]))
			} else {
				v.SetInt(int64(1000 + fillerLeafCodes[q]))
			}
			items = append(items, v.Interface())
		}
		seen := map[reflect.Type]bool{}
		for _, t := range ins {
			if t.Kind() == reflect.Struct && !seen[t] {
				seen[t] = true
				w := reflect.New(t).Elem()
				markAll(w, 77)
				items = append(items, w.Interface())
			}
		}
		var given reflect.Value
		if existing {
			// the struct that is to be filled: every leaf holds 55 beforehand
			given = reflect.New(st)
			markAll(given.Elem(), 55)
			items = append(items, given.Interface())
		}
		var fields []string
		same := true
		wantT := st
		if ptr {
			wantT = reflect.PointerTo(st)
		}
		final := reflect.MakeFunc(reflect.FuncOf([]reflect.Type{wantT}, nil, false), func(in []reflect.Value) []reflect.Value {
			v := in[0]
			if ptr {
				if existing && v.Pointer() != given.Pointer() {
					same = false
				}
				v = v.Elem()
			}
			readLeaves(v, nil, &fields)
			return nil
		})
		items = append(items, p, final.Interface())
		var runErr error
		s = guarded(5*time.Second, func() { runErr = nject.Run("filler", items...) })
		if s != "" || runErr != nil {
			out = append(out, fmt.Sprintf("%s result=runfail:%s%v", line, s, oneLine(fmt.Sprint(runErr))))
			continue
		}
		if !same {
			out = append(out, fmt.Sprintf("%s result=runfail:FillExisting-handed-on-another-struct-than-the-one-it-was-given", line))
			continue
		}
		out = append(out, fmt.Sprintf("%s result=ok inputs=%s fields=%s", line, fmtCodes(ic), orDash(strings.Join(fields, ","))))
	}
	return out
}

func minInt(a, b int) int {
	if a < b {
		return a
	}
	return b
}
