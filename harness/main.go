package main

import (
	"bufio"
	"flag"
	"fmt"
	"math/rand"
	"os"
)

func main() {
	if len(os.Args) < 2 {
		fmt.Fprintln(os.Stderr, "usage: harness <run> [flags]")
		os.Exit(2)
	}
	cmd := os.Args[1]
	fs := flag.NewFlagSet(cmd, flag.ExitOnError)
	seed := fs.Int64("seed", 1, "PRNG seed")
	n := fs.Int("n", 100, "number of cases")
	profile := fs.String("profile", "default", "generator profile")
	_ = fs.Parse(os.Args[2:])
	w := bufio.NewWriterSize(os.Stdout, 1<<20)
	defer w.Flush()
	switch cmd {
	case "run":
		pf, ok := profiles[*profile]
		if !ok {
			fmt.Fprintln(os.Stderr, "unknown profile", *profile)
			os.Exit(2)
		}
		rng := rand.New(rand.NewSource(*seed))
		for i := 0; i < *n; i++ {
			cs := rng.Int63()
			c := genCase(rand.New(rand.NewSource(cs)), i, cs, pf)
			for _, l := range runCase(c) {
				fmt.Fprintln(w, l)
			}
		}
	case "file":
		cases, err := parseCases(fs.Arg(0))
		if err != nil {
			fmt.Fprintln(os.Stderr, err)
			os.Exit(2)
		}
		for _, c := range cases {
			for _, l := range runCase(c) {
				fmt.Fprintln(w, l)
			}
		}
	case "one":
		pf := profiles[*profile]
		c := genCase(rand.New(rand.NewSource(*seed)), 0, *seed, pf)
		for _, l := range runCase(c) {
			fmt.Fprintln(w, l)
		}
	default:
		fmt.Fprintln(os.Stderr, "unknown command", cmd)
		os.Exit(2)
	}
}

var profiles = map[string]Profile{
	"default": defaultProfile,
}
