package main

import (
	"bufio"
	"flag"
	"fmt"
	"math/rand"
	"os"
	"strings"
)

func main() {
	if len(os.Args) < 2 {
		fmt.Fprintln(os.Stderr, "usage: harness <run> [flags]")
		os.Exit(2)
	}
	cmd := os.Args[1]
	fs := flag.NewFlagSet(cmd, flag.ExitOnError)
	seed := fs.Int64("seed", 1, "PRNG seed")
	n := fs.Int("n", 100, "number of cases")
	profile := fs.String("profile", "default", "generator profile")
	start := fs.Int("start", 0, "first case to run (earlier ones are generated but skipped)")
	flows := fs.String("flows", "", "condense: the model's flows for each case (second pass)")
	_ = fs.Parse(os.Args[2:])
	w := bufio.NewWriterSize(os.Stdout, 1<<20)
	defer w.Flush()
	switch cmd {
	case "run":
		pf, ok := profiles[*profile]
		if !ok {
			fmt.Fprintln(os.Stderr, "unknown profile", *profile)
			os.Exit(2)
		}
		rng := rand.New(rand.NewSource(*seed))
		for i := 0; i < *n; i++ {
			cs := rng.Int63()
			if i < *start {
				continue
			}
			c := genCase(rand.New(rand.NewSource(cs)), i, cs, pf)
			emit(w, runCase(c))
		}
	case "condense":
		var spec map[int]specFlows
		if *flows != "" {
			var err error
			if spec, err = readSpecFlows(*flows); err != nil {
				fmt.Fprintln(os.Stderr, err)
				os.Exit(2)
			}
		}
		rng := rand.New(rand.NewSource(*seed))
		for i := 0; i < *n; i++ {
			cs := rng.Int63()
			if i < *start {
				continue
			}
			sub := rand.New(rand.NewSource(cs))
			c := genCondenseCase(sub, i, cs)
			sf, have := spec[i]
			for _, l := range runCondenseCase(c, sub, sf, have && *flows != "") {
				fmt.Fprintln(w, l)
			}
		}
	case "displace":
		rng := rand.New(rand.NewSource(*seed))
		for i := 0; i < *n; i++ {
			cs := rng.Int63()
			if i < *start {
				continue
			}
			sub := rand.New(rand.NewSource(cs))
			emit(w, runDisplacePairs(genDisplaceCase(sub, i, cs), sub))
		}
	case "displacevar":
		rng := rand.New(rand.NewSource(*seed))
		for i := 0; i < *n; i++ {
			cs := rng.Int63()
			if i < *start {
				continue
			}
			sub := rand.New(rand.NewSource(cs))
			for _, v := range runDisplaceVariants(genDisplaceCase(sub, i, cs), sub, 4) {
				emit(w, v)
			}
		}
	case "curry", "saveto", "filler", "postact", "methodcall":
		rng := rand.New(rand.NewSource(*seed))
		var lines []string
		switch cmd {
		case "postact":
			lines = runPostAct(rng, *n)
		case "curry":
			lines = runCurry(rng, *n)
		case "saveto":
			lines = runSaveTo(rng, *n)
		case "filler":
			lines = runFiller(rng, *n)
		case "methodcall":
			lines = runMethodCall()
		}
		for _, l := range lines {
			fmt.Fprintln(w, l)
		}
	case "prune", "desired", "neutral", "debug", "refl":
		pf, ok := profiles[*profile]
		if !ok {
			fmt.Fprintln(os.Stderr, "unknown profile", *profile)
			os.Exit(2)
		}
		rng := rand.New(rand.NewSource(*seed))
		for i := 0; i < *n; i++ {
			cs := rng.Int63()
			if i < *start {
				continue
			}
			sub := rand.New(rand.NewSource(cs))
			c := genCase(sub, i, cs, pf)
			switch cmd {
			case "prune":
				emit(w, runPrunePair(c))
			case "desired":
				emit(w, runDesiredPair(c, sub))
			case "neutral":
				emit(w, runNeutralPairs(c, sub))
			case "debug":
				emit(w, runDebugPair(c))
			case "refl":
				emit(w, runReflPair(c, sub))
			}
		}
	case "probes":
		for _, l := range runProbes(*start) {
			fmt.Fprintln(w, l)
		}
	case "malformed":
		rng := rand.New(rand.NewSource(*seed))
		for i := 0; i < *n; i++ {
			cs := rng.Int63()
			if i < *start {
				continue
			}
			c := genMalformed(rand.New(rand.NewSource(cs)), i, cs)
			emit(w, runCase(c))
		}
	case "history":
		rng := rand.New(rand.NewSource(*seed))
		for i := 0; i < *n; i++ {
			for _, l := range runHistory(rng.Int63(), 40) {
				fmt.Fprintln(w, l)
			}
		}
	case "conc":
		for _, l := range runConc(*seed, *n) {
			fmt.Fprintln(w, l)
		}
	case "edit":
		rng := rand.New(rand.NewSource(*seed))
		for i := 0; i < *n; i++ {
			cs := rng.Int63()
			if i < *start {
				continue
			}
			c := genEditCase(rand.New(rand.NewSource(cs)), i, cs)
			emit(w, runEditPair(c))
		}
	case "editcoll":
		rng := rand.New(rand.NewSource(*seed))
		for i := 0; i < *n; i++ {
			cs := rng.Int63()
			if i < *start {
				continue
			}
			c := genEditCase(rand.New(rand.NewSource(cs)), i, cs)
			c.Shape = "flat"
			emit(w, runEditCollPair(c))
		}
	case "editall":
		allEditCases(*n, func(c *CaseDesc) {
			if c.N < *start {
				return
			}
			emit(w, runEditPair(c))
		})
	case "prunefile":
		// the C16 pair (delete every excluded provider, bind again) of hand-written / minimised cases (corpus)
		cases, err := parseCases(fs.Arg(0))
		if err != nil {
			fmt.Fprintln(os.Stderr, err)
			os.Exit(2)
		}
		for i, c := range cases {
			if i < *start {
				continue
			}
			emit(w, runPrunePair(c))
		}
	case "neutralfile":
		// the C13 variants of hand-written / minimised cases (corpus)
		cases, err := parseCases(fs.Arg(0))
		if err != nil {
			fmt.Fprintln(os.Stderr, err)
			os.Exit(2)
		}
		for i, c := range cases {
			if i < *start {
				continue
			}
			emit(w, runNeutralPairs(c, rand.New(rand.NewSource(int64(i)+77))))
		}
	case "file":
		cases, err := parseCases(fs.Arg(0))
		if err != nil {
			fmt.Fprintln(os.Stderr, err)
			os.Exit(2)
		}
		for i, c := range cases {
			if i < *start {
				continue
			}
			emit(w, runCase(c))
		}
	case "one":
		pf := profiles[*profile]
		c := genCase(rand.New(rand.NewSource(*seed)), 0, *seed, pf)
		emit(w, runCase(c))
	default:
		fmt.Fprintln(os.Stderr, "unknown command", cmd)
		os.Exit(2)
	}
}

// emit prints a case's records.  A hang leaves a goroutine spinning inside nject that cannot be
// stopped: the process flushes and exits with status 3 and the driver restarts it after that case.
func emit(w *bufio.Writer, lines []string) {
	hung := false
	for _, l := range lines {
		fmt.Fprintln(w, l)
		if strings.HasPrefix(l, "bind hang") || l == "t hang" {
			hung = true
		}
	}
	if hung {
		w.Flush()
		os.Exit(3)
	}
}

var profiles = map[string]Profile{
	"default":      defaultProfile,
	"plain":        plainProfile,
	"memo":         memoProfile,
	"reorder":      reorderProfile,
	"reorderplain": reorderPlainProfile,
	"cluster":      clusterProfile,
}
