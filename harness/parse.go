package main

import (
	"bufio"
	"os"
	"strconv"
	"strings"
)

func pInts(s string) []int {
	if s == "-" || s == "" {
		return nil
	}
	var out []int
	for _, x := range strings.Split(s, ",") {
		n, err := strconv.Atoi(x)
		if err == nil {
			out = append(out, n)
		}
	}
	return out
}

func pKV(toks []string) map[string]string {
	m := make(map[string]string)
	for _, t := range toks {
		if i := strings.IndexByte(t, '='); i > 0 {
			m[t[:i]] = t[i+1:]
		}
	}
	return m
}

func undash(s string) string {
	if s == "-" {
		return ""
	}
	return s
}

func parseProv(toks []string) *ProvDesc {
	m := pKV(toks)
	p := &ProvDesc{}
	p.Idx, _ = strconv.Atoi(toks[1])
	p.Kind = m["kind"]
	p.In, p.Out, p.IIn, p.IOut = pInts(m["in"]), pInts(m["out"]), pInts(m["iin"]), pInts(m["iout"])
	for _, a := range strings.Split(m["ann"], ",") {
		switch a {
		case "required":
			p.Required = true
		case "desired":
			p.Desired = true
		case "shun":
			p.Shun = true
		case "cacheable":
			p.Cacheable = true
		case "mustcache":
			p.MustCache = true
		case "notcacheable":
			p.NotCacheable = true
		case "memoize":
			p.Memoize = true
		case "singleton":
			p.Singleton = true
		case "nonfinal":
			p.NonFinal = true
		case "reorder":
			p.Reorder = true
		case "parallel":
			p.Parallel = true
		case "refl":
			p.Refl = true
		case "gen":
			p.Gen = true
		case "gennf":
			p.GenNF = true
		}
	}
	p.Loose, p.MustConsume, p.ConsOpt, p.ShadowOK = pInts(m["loose"]), pInts(m["mc"]), pInts(m["co"]), pInts(m["sh"])
	p.Name = undash(m["name"])
	p.Cluster, _ = strconv.Atoi(m["cluster"])
	p.Replace, p.Before, p.After = undash(m["replace"]), undash(m["before"]), undash(m["after"])
	f, _ := strconv.Atoi(m["fail"])
	p.FailMask = uint(f)
	p.Calls, _ = strconv.Atoi(m["calls"])
	p.Pass = m["pass"] == "1"
	return p
}

// parseCases reads case descriptions (the p/invoke/init/op lines of the record format; every
// other line is ignored) so that any recorded case can be replayed on the current tree.
func parseCases(path string) ([]*CaseDesc, error) {
	fh, err := os.Open(path)
	if err != nil {
		return nil, err
	}
	defer fh.Close()
	var out []*CaseDesc
	var c *CaseDesc
	sc := bufio.NewScanner(fh)
	sc.Buffer(make([]byte, 1<<20), 1<<24)
	for sc.Scan() {
		toks := strings.Fields(sc.Text())
		if len(toks) == 0 {
			continue
		}
		switch toks[0] {
		case "case":
			c = &CaseDesc{N: len(out), Shape: "flat"}
			if len(toks) > 1 {
				if n, err := strconv.Atoi(toks[1]); err == nil {
					c.N = n
				}
			}
			m := pKV(toks)
			c.Note = undash(m["note"])
			if sd, err := strconv.ParseInt(m["seed"], 10, 64); err == nil {
				// (the seed also selects the route by which buildCollection nests the list)
				c.Seed = sd
			}
			if m["shape"] != "" {
				c.Shape = m["shape"]
			}
			out = append(out, c)
		case "p":
			if c != nil {
				c.Provs = append(c.Provs, parseProv(toks))
			}
		case "invoke":
			if c != nil {
				m := pKV(toks)
				c.InvIn, c.InvOut = pInts(m["in"]), pInts(m["out"])
			}
		case "init":
			if c != nil && len(toks) > 1 && toks[1] != "none" {
				m := pKV(toks)
				c.HasInit = true
				c.InitIn, c.InitOut = pInts(m["in"]), pInts(m["out"])
			}
		case "op":
			if c != nil && len(toks) > 1 {
				c.Ops = append(c.Ops, Op{Kind: toks[1]})
			}
		case "---":
			c = nil // model section of a replay file
		}
	}
	return out, sc.Err()
}
