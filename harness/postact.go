package main

// C20: MakeStructBuilder post-actions against the model (which actions exist, what each is handed,
// which fields are still filled, and the documented order tag -> name -> type).

import (
	"fmt"
	"math/rand"
	"reflect"
	"sort"
	"strings"
	"time"
	"unsafe"

	nject "github.com/muir/nject/v2"
)

type (
	N4 int64
	N5 int64
	N6 int64
	N7 int64
)

// every field of a generated struct has its own type: the (dynamic) type of what an action is handed
// identifies the field
var paTypes = []reflect.Type{reflect.TypeOf(N0(0)), reflect.TypeOf(N1(0)), reflect.TypeOf(N2(0)), reflect.TypeOf(N3(0)),
	reflect.TypeOf(N4(0)), reflect.TypeOf(N5(0)), reflect.TypeOf(N6(0)), reflect.TypeOf(N7(0))}

func paCode(t reflect.Type) int {
	for i, x := range paTypes {
		if x == t {
			return 40 + i + i/4*6 // 40..43, 50..53
		}
	}
	return 99
}

type paOpt struct {
	key     int
	fn      string // anyval | anyopen | ptrNN | valNN
	fill    string // - | t | f
	fnValue any
	opts    []nject.PostActionFuncArg
}

type paLogEntry struct {
	kind string
	code int
	ptr  bool
	seen int64
}

func runPostAct(rng *rand.Rand, n int) []string {
	var out []string
	for i := 0; i < n; i++ {
		var log []paLogEntry
		nf := 1 + rng.Intn(5)
		perm := rng.Perm(len(paTypes))[:nf]
		ptrModel := rng.Intn(4) != 0
		// the actions
		mkFn := func(kind, fn string, t reflect.Type) any {
			record := func(v reflect.Value, isPtr bool) {
				tt := v.Type()
				if isPtr {
					tt = tt.Elem()
					log = append(log, paLogEntry{kind, paCode(tt), true, v.Elem().Int()})
					v.Elem().SetInt(int64(5000 + paCode(tt)))
					return
				}
				log = append(log, paLogEntry{kind, paCode(tt), false, v.Int()})
			}
			switch {
			case fn == "anyval" || fn == "anyopen":
				return func(x any) {
					v := reflect.ValueOf(x)
					record(v, v.Kind() == reflect.Ptr)
				}
			case strings.HasPrefix(fn, "anyopenx"):
				// a second parameter of another (convertible) type: an ordinary input from the chain
				var et reflect.Type
				for _, x := range paTypes {
					if fmt.Sprintf("anyopenx%d", paCode(x)) == fn {
						et = x
					}
				}
				anyT := reflect.TypeOf((*any)(nil)).Elem()
				return reflect.MakeFunc(reflect.FuncOf([]reflect.Type{anyT, et}, nil, false), func(in []reflect.Value) []reflect.Value {
					v := in[0].Elem()
					record(v, v.Kind() == reflect.Ptr)
					if in[1].Int() != int64(1000+paCode(et)) {
						log = append(log, paLogEntry{"badextra", paCode(et), false, in[1].Int()})
					}
					return nil
				}).Interface()
			case strings.HasPrefix(fn, "ptr"):
				return reflect.MakeFunc(reflect.FuncOf([]reflect.Type{reflect.PointerTo(t)}, nil, false), func(in []reflect.Value) []reflect.Value {
					record(in[0], true)
					return nil
				}).Interface()
			default:
				return reflect.MakeFunc(reflect.FuncOf([]reflect.Type{t}, nil, false), func(in []reflect.Value) []reflect.Value {
					record(in[0], false)
					return nil
				}).Interface()
			}
		}
		fillOpt := func() (string, []nject.PostActionFuncArg) {
			switch rng.Intn(6) {
			case 0:
				return "t", []nject.PostActionFuncArg{nject.WithFill(true)}
			case 1:
				return "f", []nject.PostActionFuncArg{nject.WithFill(false)}
			}
			return "-", nil
		}
		pickFn := func(kind string, t reflect.Type) paOpt { // for tag/name registrations aimed at a field of type t
			fill, opts := fillOpt()
			o := paOpt{fill: fill, opts: opts}
			switch rng.Intn(10) {
			case 0, 1, 2:
				o.fn = "anyval"
			case 3, 4, 5:
				o.fn = "anyopen"
				if rng.Intn(2) == 0 {
					// with a further parameter, listed after the open interface
					o.fn = fmt.Sprintf("anyopenx%d", paCode(paTypes[(indexOfType(t)+1+rng.Intn(len(paTypes)-1))%len(paTypes)]))
				}
				o.opts = append(o.opts, nject.MatchToOpenInterface(true))
			case 9: // a pointer to some other type: MakeStructBuilder must refuse
				t = paTypes[(indexOfType(t)+1)%len(paTypes)]
				fallthrough
			default:
				o.fn = fmt.Sprintf("ptr%d", paCode(t))
			}
			o.fnValue = mkFn(kind, o.fn, t)
			return o
		}
		// tags registered with PostActionByTag: pa1 (and sometimes pa2); the function has to fit every field carrying the tag,
		// so the typed variant is only used when one field carries it
		type fld struct {
			exported bool
			t        reflect.Type
			tags     []string
		}
		fields := make([]fld, nf)
		tagUsers := map[int][]int{}
		for k := range fields {
			fields[k] = fld{exported: rng.Intn(8) != 0, t: paTypes[perm[k]]}
			var tags []string
			for _, cand := range []string{"pa1", "pa2", "fill", "nofill", "-", "bogus"} {
				p := map[string]int{"pa1": 3, "pa2": 6, "fill": 6, "nofill": 8, "-": 10, "bogus": 60}[cand]
				if rng.Intn(p) == 0 {
					tags = append(tags, cand)
				}
			}
			rng.Shuffle(len(tags), func(a, b int) { tags[a], tags[b] = tags[b], tags[a] })
			fields[k].tags = tags
			for _, tg := range tags {
				if strings.HasPrefix(tg, "pa") {
					id := int(tg[2] - '0')
					tagUsers[id] = append(tagUsers[id], k)
				}
			}
		}
		var byTag, byName, byType []paOpt
		for id := 1; id <= 2; id++ {
			users := tagUsers[id]
			if len(users) == 0 && rng.Intn(3) != 0 {
				continue
			}
			if len(users) > 0 && rng.Intn(12) == 0 {
				continue // tag used but not registered: an unknown tag
			}
			var o paOpt
			if len(users) == 1 {
				o = pickFn("tag", fields[users[0]].t)
			} else {
				o = pickFn("tag", paTypes[0])
				for strings.HasPrefix(o.fn, "ptr") {
					o = pickFn("tag", paTypes[0])
				}
			}
			o.key = id
			byTag = append(byTag, o)
		}
		for k := range fields {
			if rng.Intn(4) == 0 {
				o := pickFn("name", fields[k].t)
				o.key = k
				byName = append(byName, o)
			}
		}
		for k := rng.Intn(3); k > 0; k-- {
			t := fields[rng.Intn(nf)].t
			fill, opts := fillOpt()
			o := paOpt{fill: fill, opts: opts}
			if rng.Intn(2) == 0 {
				o.fn = fmt.Sprintf("ptr%d", paCode(t))
			} else {
				o.fn = fmt.Sprintf("val%d", paCode(t))
			}
			o.fnValue = mkFn("type", o.fn, t)
			byType = append(byType, o)
		}
		// the struct type
		var sfs []reflect.StructField
		var fenc []string
		for k, f := range fields {
			sf := reflect.StructField{Name: fmt.Sprintf("F%d", k), Type: f.t}
			e := "X"
			if !f.exported {
				sf.Name, sf.PkgPath, e = fmt.Sprintf("f%d", k), "main", "x"
			}
			if len(f.tags) > 0 {
				sf.Tag = reflect.StructTag(`nject:"` + strings.Join(f.tags, ",") + `"`)
			}
			sfs = append(sfs, sf)
			tg := strings.Join(f.tags, "+")
			if tg == "" {
				tg = "none"
			}
			fenc = append(fenc, fmt.Sprintf("%s:%d:%s", e, paCode(f.t), tg))
		}
		st := reflect.StructOf(sfs)
		enc := func(os []paOpt) string {
			var parts []string
			for _, o := range os {
				parts = append(parts, fmt.Sprintf("%d/%s/%s", o.key, o.fn, o.fill))
			}
			return orDash(strings.Join(parts, ","))
		}
		line := fmt.Sprintf("postact %d ptr=%d fields=%s bytag=%s byname=%s bytype=%s", i, b2i(ptrModel), strings.Join(fenc, ";"), enc(byTag), enc(byName), enc(byType))
		var args []nject.FillerFuncArg
		// registration order is deliberately not the documented execution order
		for _, o := range byType {
			args = append(args, nject.PostActionByType(o.fnValue, o.opts...))
		}
		for _, o := range byName {
			name := fmt.Sprintf("F%d", o.key)
			if !fields[o.key].exported {
				name = fmt.Sprintf("f%d", o.key)
			}
			args = append(args, nject.PostActionByName(name, o.fnValue, o.opts...))
		}
		for _, o := range byTag {
			args = append(args, nject.PostActionByTag(fmt.Sprintf("pa%d", o.key), o.fnValue, o.opts...))
		}
		var model any
		if ptrModel {
			model = reflect.New(st).Interface()
		} else {
			model = reflect.New(st).Elem().Interface()
		}
		var p nject.Provider
		var err error
		if s := guarded(5*time.Second, func() { p, err = nject.MakeStructBuilder(model, args...) }); s != "" {
			out = append(out, line+" result="+strings.ReplaceAll(s, " ", "_"))
			continue
		}
		if err != nil {
			out = append(out, line+" result=err msg="+strings.ReplaceAll(oneLine(err.Error()), " ", "_"))
			continue
		}
		ins, _ := p.DownFlows()
		var ic []int
		for _, t := range ins {
			if t.Kind() != reflect.Struct && t.Kind() != reflect.Ptr {
				ic = append(ic, paCode(t))
			}
		}
		ic = uniq(ic)
		sort.Ints(ic)
		items := []any{}
		for _, t := range paTypes {
			v := reflect.New(t).Elem()
			v.SetInt(int64(1000 + paCode(t)))
			items = append(items, v.Interface())
		}
		var final []string
		wantT := st
		if ptrModel {
			wantT = reflect.PointerTo(st)
		}
		fin := reflect.MakeFunc(reflect.FuncOf([]reflect.Type{wantT}, nil, false), func(in []reflect.Value) []reflect.Value {
			v := in[0]
			if ptrModel {
				v = v.Elem()
			}
			for k := 0; k < v.NumField(); k++ {
				if fields[k].exported {
					final = append(final, fmt.Sprint(v.Field(k).Int()))
				}
			}
			return nil
		})
		items = append(items, p, fin.Interface())
		var runErr error
		if s := guarded(5*time.Second, func() { runErr = nject.Run("postact", items...) }); s != "" || runErr != nil {
			out = append(out, fmt.Sprintf("%s result=runfail:%s%s", line, strings.ReplaceAll(s, " ", "_"), strings.ReplaceAll(oneLine(fmt.Sprint(runErr)), " ", "_")))
			continue
		}
		var acts []string
		for _, e := range log {
			pv := "v"
			if e.ptr {
				pv = "p"
			}
			acts = append(acts, fmt.Sprintf("%s:%d:%s:%d", e.kind, e.code, pv, e.seen))
		}
		out = append(out, fmt.Sprintf("%s result=ok inputs=%s acts=%s final=%s", line, fmtCodes(ic), orDash(strings.Join(acts, ",")), orDash(strings.Join(final, ","))))
	}
	return out
}

func indexOfType(t reflect.Type) int {
	for i, x := range paTypes {
		if x == t {
			return i
		}
	}
	return 0
}

var _ = unsafe.Pointer(nil)
