package main

// Metamorphic pairs: a base case and a variant that must behave identically (C13, C14, C16).

import (
	"fmt"
	"math/rand"
	"sort"
	"strings"
	"time"

	nject "github.com/muir/nject/v2"
)

// behaviour summary of one run: bind verdict class, included user providers, trace (optionally
// with Unused arguments stripped)
type summary struct {
	bind     string
	included []int
	trace    []string
}

func stripUnused(l string) string {
	l = strings.ReplaceAll(l, ",22:0", "")
	l = strings.ReplaceAll(l, "22:0,", "")
	l = strings.ReplaceAll(l, " 22:0", " -")
	return l
}

func summarize(lines []string, strip bool) summary {
	var s summary
	inS7 := false
	for _, l := range lines {
		switch {
		case strings.HasPrefix(l, "dump "):
			inS7 = strings.HasPrefix(l, "dump S7 ")
		case strings.HasPrefix(l, "f ") && inS7:
			var pos, id int
			fmt.Sscanf(l, "f %d id=%d", &pos, &id)
			if id < 900 && strings.Contains(l, " inc=1 ") {
				s.included = append(s.included, id)
			}
		case strings.HasPrefix(l, "bind "):
			f := strings.Fields(l)
			if len(f) > 3 {
				f = f[:3]
			}
			s.bind = strings.Join(f, " ")
		case strings.HasPrefix(l, "t "):
			if strip {
				l = stripUnused(l)
			}
			s.trace = append(s.trace, l)
		}
	}
	sort.Ints(s.included)
	return s
}

func (a summary) diff(b summary) string {
	if a.bind != b.bind {
		return fmt.Sprintf("bind %q vs %q", a.bind, b.bind)
	}
	if fmt.Sprint(a.included) != fmt.Sprint(b.included) {
		return fmt.Sprintf("included %v vs %v", a.included, b.included)
	}
	if strings.Join(a.trace, "\n") != strings.Join(b.trace, "\n") {
		for i := 0; i < len(a.trace) || i < len(b.trace); i++ {
			x, y := "<none>", "<none>"
			if i < len(a.trace) {
				x = a.trace[i]
			}
			if i < len(b.trace) {
				y = b.trace[i]
			}
			if x != y {
				return fmt.Sprintf("trace event %d: %q vs %q", i, x, y)
			}
		}
	}
	return ""
}

// withPair appends the verdict (and the variant's records, prefixed) to the base records.
func withPair(base []string, kind string, variant []string, d string) []string {
	out := append([]string{}, base[:len(base)-1]...)
	if d == "" {
		out = append(out, "pair "+kind+" same")
	} else {
		out = append(out, "pair "+kind+" diff "+d)
		for _, l := range variant {
			if strings.HasPrefix(l, "p ") || strings.HasPrefix(l, "bind ") || strings.HasPrefix(l, "t ") || strings.HasPrefix(l, "invoke") || strings.HasPrefix(l, "init") {
				out = append(out, "v2 "+l)
			}
		}
	}
	return append(out, "end")
}

// ---- C16: delete every excluded provider

func runPrunePair(c *CaseDesc) []string {
	base := runCase(c)
	sb := summarize(base, false)
	if sb.bind != "bind ok" {
		return base
	}
	inc := map[int]bool{}
	for _, i := range sb.included {
		inc[i] = true
	}
	c2 := c.clone()
	c2.Provs = nil
	dropped := 0
	for _, p := range c.Provs {
		if inc[p.Idx] {
			c2.Provs = append(c2.Provs, p.clone())
		} else {
			dropped++
		}
	}
	if dropped == 0 {
		return withPair(base, "prune-none", nil, "")
	}
	v := runCase(c2)
	return withPair(base, "prune", v, sb.diff(summarize(v, false)))
}

// ---- C14: Desired / auto-desired provider marked Required instead

func isAutoDesired(p *ProvDesc) bool {
	if p.Kind == "lit" {
		return false
	}
	outs := p.Out
	if p.Kind == "wrap" {
		outs = p.IIn
	}
	for _, o := range outs {
		if o != cUnus && o != cTE {
			return false
		}
	}
	return true
}

func runDesiredPair(c *CaseDesc, rng *rand.Rand) []string {
	base := runCase(c)
	sb := summarize(base, false)
	var cands []*ProvDesc
	for i, p := range c.Provs {
		if i == len(c.Provs)-1 || p.Required || p.Shun || p.Cluster != 0 {
			continue
		}
		if p.Desired || isAutoDesired(p) {
			cands = append(cands, p)
		}
	}
	if len(cands) == 0 || strings.HasPrefix(sb.bind, "bind err E_EDIT") || strings.HasPrefix(sb.bind, "bind err E_CLASSIFY") {
		return base
	}
	d := cands[rng.Intn(len(cands))]
	c2 := c.clone()
	for _, p := range c2.Provs {
		if p.Idx == d.Idx {
			p.Required = true
			p.Desired = false
		}
	}
	v := runCase(c2)
	sv := summarize(v, false)
	baseInc := false
	for _, i := range sb.included {
		if i == d.Idx {
			baseInc = true
		}
	}
	verdict := ""
	switch {
	case sb.bind != "bind ok":
		// base does not bind: then the Required variant must not bind either
		if sv.bind == "bind ok" {
			verdict = "base does not bind but the Required variant does"
		}
	case sv.bind == "bind ok" && !baseInc:
		verdict = fmt.Sprintf("provider %d is excluded although the chain with it Required binds", d.Idx)
	case sv.bind != "bind ok" && baseInc:
		verdict = fmt.Sprintf("provider %d is included although the chain with it Required does not bind (%s)", d.Idx, sv.bind)
	case sv.bind == "bind ok" && baseInc:
		verdict = sb.diff(sv)
	}
	out := withPair(base, fmt.Sprintf("desired:%d", d.Idx), v, verdict)
	return out
}

// ---- C13: grouping, naming, annotation placement, Unused parameters

// regroup builds the same provider list nested in random sub-sequences / Append.
func (r *caseRun) buildGrouped(rng *rand.Rand, mode string) *nject.Collection {
	ps := r.c.Provs
	items := make([]any, len(ps))
	for i, p := range ps {
		items[i] = annotate(p, r.rawProvider(p))
	}
	var c *nject.Collection
	switch mode {
	case "nested":
		var nest func(xs []any, depth int) []any
		nest = func(xs []any, depth int) []any {
			if len(xs) <= 1 || depth > 2 {
				return xs
			}
			var out []any
			for i := 0; i < len(xs); {
				k := 1 + rng.Intn(len(xs)-i)
				if k > 1 && rng.Intn(2) == 0 {
					out = append(out, nject.Sequence("c", nest(xs[i:i+k], depth+1)...))
				} else {
					out = append(out, xs[i:i+k]...)
				}
				i += k
			}
			return out
		}
		c = nject.Sequence("c", nest(items, 0)...)
	case "append":
		k := rng.Intn(len(items) + 1)
		c = nject.Sequence("c", items[:k]...).Append("c", items[k:]...)
	case "append-siblings":
		// two collections appended from one base; the first is used after the second was made
		k := rng.Intn(len(items) + 1)
		base := nject.Sequence("c", items[:k]...)
		c = base.Append("c", items[k:]...)
		other := base.Append("c", func(T0) T7 { return T7{} }, func(T7) {})
		_ = other.String()
	default:
		c = nject.Sequence("c", items...)
	}
	ids := nject.VerifIDs(c)
	r.idOf = make(map[int32]int)
	if len(ids) == len(ps) {
		for i, id := range ids {
			r.idOf[id] = ps[i].Idx
		}
	}
	return c
}

// collAnn applies annotation `ann` to providers [i,j) either member by member (base) or to a
// sub-collection holding them (variant).
func (r *caseRun) buildCollAnn(ann string, i, j int, onCollection bool) *nject.Collection {
	ps := r.c.Provs
	apply := func(x any) any {
		switch ann {
		case "desired":
			return nject.Desired(x)
		case "shun":
			return nject.Shun(x)
		case "cacheable":
			return nject.Cacheable(x)
		case "nonfinal":
			return nject.NonFinal(x)
		case "required":
			return nject.Required(x)
		case "notcacheable":
			return nject.NotCacheable(x)
		}
		return x
	}
	var items []any
	var block []any
	for k, p := range ps {
		x := annotate(p, r.rawProvider(p))
		if k >= i && k < j {
			if onCollection {
				block = append(block, x)
				if k == j-1 {
					items = append(items, apply(nject.Sequence("c", block...)))
				}
			} else {
				items = append(items, apply(x))
			}
		} else {
			items = append(items, x)
		}
	}
	// derivations from the (annotated) members and sub-collections are made and thrown away in both forms: an
	// annotation of an already annotated collection must still be a copy
	for q, it := range items {
		apiNoise(it, uint64(r.c.Seed)*131+uint64(q), "c")
	}
	c := nject.Sequence("c", items...)
	ids := nject.VerifIDs(c)
	r.idOf = make(map[int32]int)
	if len(ids) == len(ps) {
		for k, id := range ids {
			r.idOf[id] = ps[k].Idx
		}
	}
	return c
}

// buildCollDir: every maximal run of adjacent providers that carry the same named-edit directive is put into a
// sub-collection (of the same name as the whole list, so that the unnamed ones keep their origin) and the directive
// is applied to that collection instead of to each member.
func (r *caseRun) buildCollDir() *nject.Collection {
	ps := r.c.Provs
	var items []any
	for k := 0; k < len(ps); {
		p := ps[k]
		if p.Replace == "" && p.Before == "" && p.After == "" {
			items = append(items, annotate(p, r.rawProvider(p)))
			k++
			continue
		}
		j := k
		var block []any
		for j < len(ps) && ps[j].Replace == p.Replace && ps[j].Before == p.Before && ps[j].After == p.After {
			q := ps[j].clone()
			q.Replace, q.Before, q.After = "", "", ""
			block = append(block, annotate(q, r.rawProvider(ps[j])))
			j++
		}
		dir := &ProvDesc{Replace: p.Replace, Before: p.Before, After: p.After}
		items = append(items, annotate(dir, nject.Sequence("c", block...)))
		k = j
	}
	c := nject.Sequence("c", items...)
	ids := nject.VerifIDs(c)
	r.idOf = make(map[int32]int)
	if len(ids) == len(ps) {
		for k, id := range ids {
			r.idOf[id] = ps[k].Idx
		}
	}
	return c
}

// runEditCollPair: a case with named edits, its directives on each member (base) against on sub-collections (C13)
func runEditCollPair(c *CaseDesc) []string {
	base := runCaseWith(c.clone(), func(r *caseRun) *nject.Collection { return r.buildGrouped(nil, "flat") })
	has := false
	for _, p := range c.Provs {
		if p.Replace != "" || p.Before != "" || p.After != "" {
			has = true
		}
	}
	if !has {
		return base
	}
	sb := summarize(base, true)
	v := runCaseWith(c.clone(), func(r *caseRun) *nject.Collection { return r.buildCollDir() })
	out := withPair(base, "colldir", v, sb.diff(summarize(v, true)))
	// names that no directive refers to are given (with Provide) to providers that had none: nobody looks for them
	c2 := c.clone()
	h := uint64(c.Seed)*0x9e3779b97f4a7c15 + 12345
	for _, p := range c2.Provs {
		h ^= h >> 29
		h *= 0xbf58476d1ce4e5b9
		h ^= h >> 32
		if p.Name == "" && h%2 == 0 {
			p.Name = fmt.Sprintf("n%d", p.Idx)
		}
	}
	v2 := runCaseWith(c2, func(r *caseRun) *nject.Collection { return r.buildGrouped(nil, "flat") })
	return withPair(out, "fresh-names", v2, sb.diff(summarize(v2, true)))
}

// insUnused puts an Unused parameter at a position chosen by the case's generator (not only last: what follows it must
// still be looked at position by position)
func insUnused(rng *rand.Rand, in []int) []int {
	pos := rng.Intn(len(in) + 1)
	out := append([]int{}, in[:pos]...)
	out = append(out, cUnus)
	return append(out, in[pos:]...)
}

func runNeutralPairs(c *CaseDesc, rng *rand.Rand) []string {
	base := runCase(c)
	sb := summarize(base, true)
	out := base
	add := func(kind string, v []string) {
		out = withPair(out, kind, v, sb.diff(summarize(v, true)))
	}
	// 1. grouping
	for _, mode := range []string{"nested", "append", "append-siblings"} {
		m := mode
		sub := rand.New(rand.NewSource(rng.Int63()))
		add("group-"+m, runCaseWith(c.clone(), func(r *caseRun) *nject.Collection { return r.buildGrouped(sub, m) }))
	}
	// 2. naming (only when the case has no named edits: names are otherwise significant)
	hasEdit := false
	for _, p := range c.Provs {
		if p.Replace != "" || p.Before != "" || p.After != "" || p.Name != "" {
			hasEdit = true
		}
	}
	if !hasEdit {
		c2 := c.clone()
		for _, p := range c2.Provs {
			if rng.Intn(2) == 0 {
				p.Name = fmt.Sprintf("n%d", p.Idx)
			}
		}
		add("named", runCase(c2))
	}
	// 3. annotation on the collection instead of on each member
	if len(c.Provs) >= 3 {
		ann := []string{"desired", "shun", "cacheable", "nonfinal", "notcacheable"}[rng.Intn(5)]
		i := rng.Intn(len(c.Provs) - 2)
		j := i + 1 + rng.Intn(len(c.Provs)-1-i)
		b2 := runCaseWith(c.clone(), func(r *caseRun) *nject.Collection { return r.buildCollAnn(ann, i, j, false) })
		v2 := runCaseWith(c.clone(), func(r *caseRun) *nject.Collection { return r.buildCollAnn(ann, i, j, true) })
		out = withPair(out, fmt.Sprintf("collann-%s[%d,%d)", ann, i, j), v2, summarize(b2, true).diff(summarize(v2, true)))
	}
	// 4. Unused parameter on the final function / a Required provider / invoke / init
	{
		c2 := c.clone()
		fin := c2.Provs[len(c2.Provs)-1]
		if !contains(fin.In, cUnus) {
			fin.In = insUnused(rng, fin.In)
			add("unused-final", runCase(c2))
		}
		for _, p := range c.Provs[:len(c.Provs)-1] {
			if p.Required && p.Kind != "lit" && !contains(p.In, cUnus) {
				c3 := c.clone()
				c3.provOf(p.Idx).In = insUnused(rng, c3.provOf(p.Idx).In)
				add(fmt.Sprintf("unused-required:%d", p.Idx), runCase(c3))
				break
			}
		}
		// a provider that is not Required in the case: marked Required in both members of the pair (memoized ones first:
		// their inputs are also the memo key)
		var cands []*ProvDesc
		for _, p := range c.Provs[:len(c.Provs)-1] {
			if !p.Required && p.Kind != "lit" && !contains(p.In, cUnus) && p.Memoize {
				cands = append(cands, p)
			}
		}
		for _, p := range c.Provs[:len(c.Provs)-1] {
			if !p.Required && p.Kind != "lit" && !contains(p.In, cUnus) && !p.Memoize && len(cands) < 2 && rng.Intn(3) == 0 {
				cands = append(cands, p)
			}
		}
		for k, p := range cands {
			if k >= 2 {
				break
			}
			cb := c.clone()
			cb.provOf(p.Idx).Required = true
			cv := cb.clone()
			cv.provOf(p.Idx).In = insUnused(rng, cv.provOf(p.Idx).In)
			b := runCase(cb)
			v := runCase(cv)
			out = withPair(out, fmt.Sprintf("unused-made-required:%d", p.Idx), v, summarize(b, true).diff(summarize(v, true)))
		}
		if !contains(c.InvIn, cUnus) {
			c4 := c.clone()
			c4.InvIn = append(c4.InvIn, cUnus) // (last: the scripted invoke arguments are tagged by position)
			add("unused-invoke", runCase(c4))
		}
		if c.HasInit && !contains(c.InitIn, cUnus) {
			c5 := c.clone()
			c5.InitIn = append(c5.InitIn, cUnus) // (last, as for invoke)
			add("unused-init", runCase(c5))
		}
	}
	return out
}

// ---- C12: asking for *Debugging is neutral, and what it says matches the bound chain

func runDebugPair(c *CaseDesc) []string {
	base := runCase(c)
	c2 := c.clone()
	fin := c2.Provs[len(c2.Provs)-1]
	if contains(fin.In, cDebug) {
		return base
	}
	fin.In = append(fin.In, cDebug)
	v := runCase(c2)
	strip := func(s summary) summary {
		for i, l := range s.trace {
			for _, d := range []string{"23:1", "23:0"} {
				l = strings.ReplaceAll(l, ","+d, "")
				l = strings.ReplaceAll(l, d+",", "")
				l = strings.ReplaceAll(l, " "+d, " -")
			}
			s.trace[i] = l
		}
		return s
	}
	out := withPair(base, "debug", v, strip(summarize(base, false)).diff(strip(summarize(v, false))))
	// the variant's Debugging value against the variant's own S7 dump
	var names, ie string
	var want []string
	var listed []string // ids of the included providers in the order of the bound list
	var called []string // ids in the order of their first call
	seenCall := map[string]bool{}
	nInc, nExc, total := 0, 0, 0
	inS7 := false
	for _, l := range v {
		switch {
		case strings.HasPrefix(l, "t call ") || strings.HasPrefix(l, "t wenter "):
			if id := strings.Fields(l)[2]; !seenCall[id] {
				seenCall[id] = true
				called = append(called, id)
			}
		case strings.HasPrefix(l, "dump "):
			inS7 = strings.HasPrefix(l, "dump S7 ")
		case strings.HasPrefix(l, "f ") && inS7:
			kv := pKV(strings.Fields(l))
			total++
			if kv["inc"] == "1" {
				nInc++
				if kv["group"] == "run" || kv["group"] == "final" {
					// (the static part runs when init is called, which a history may do after the first invocation)
					listed = append(listed, kv["id"])
				}
				origin := kv["origin"]
				if origin == "-" {
					origin = "" // the dump writes "-" for an empty name (providers of an unnamed sub-sequence)
				}
				if kv["index"] != "-1" {
					want = append(want, origin+"("+kv["index"]+")")
				} else {
					want = append(want, origin)
				}
			} else {
				nExc++
			}
		case strings.HasPrefix(l, "d names ") && names == "":
			names = strings.TrimPrefix(l, "d names ")
		case strings.HasPrefix(l, "d ie ") && ie == "":
			ie = strings.TrimPrefix(l, "d ie ")
		}
	}
	out = out[:len(out)-1]
	if names != "" {
		if names == strings.Join(want, "|") {
			out = append(out, "pair dbgnames same")
		} else {
			out = append(out, "pair dbgnames diff reported="+names+" bound="+strings.Join(want, "|"))
		}
		// "in execution order": the providers that were called, in the order of their first call, must be listed in
		// that order (Debugging lists the bound list; dbgnames ties the report to the list, this ties the list to the run)
		var listedCalled, calledListed []string
		inListed := map[string]bool{}
		for _, id := range listed {
			inListed[id] = true
			if seenCall[id] {
				listedCalled = append(listedCalled, id)
			}
		}
		for _, id := range called {
			if inListed[id] {
				calledListed = append(calledListed, id)
			}
		}
		if strings.Join(listedCalled, ",") == strings.Join(calledListed, ",") {
			out = append(out, "pair dbgorder same")
		} else {
			out = append(out, "pair dbgorder diff listed="+strings.Join(listedCalled, ",")+" first-calls="+strings.Join(calledListed, ","))
		}
		if ie == fmt.Sprintf("included=%d excluded=%d total=%d", nInc, nExc, total) {
			out = append(out, "pair dbgie same")
		} else {
			out = append(out, fmt.Sprintf("pair dbgie diff reported=%s bound=included=%d,excluded=%d,total=%d", strings.ReplaceAll(ie, " ", ","), nInc, nExc, total))
		}
	}
	// the same, with the collection bound a second time to another signature (no invoke arguments: whatever depends on
	// them cannot be included there) BEFORE the first chain is used: the first chain's Debugging must describe the first chain
	{
		afterBindHook = func(coll *nject.Collection) {
			var other func()
			guarded(10*time.Second, func() { _ = coll.Bind(&other, nil) })
		}
		v2 := runCase(c2.clone())
		afterBindHook = nil
		var names2 string
		var want2 []string
		inS7 := false
		for _, l := range v2 {
			switch {
			case strings.HasPrefix(l, "dump "):
				inS7 = strings.HasPrefix(l, "dump S7 ")
			case strings.HasPrefix(l, "f ") && inS7:
				kv := pKV(strings.Fields(l))
				if kv["inc"] == "1" {
					origin := kv["origin"]
					if origin == "-" {
						origin = ""
					}
					if kv["index"] != "-1" {
						want2 = append(want2, origin+"("+kv["index"]+")")
					} else {
						want2 = append(want2, origin)
					}
				}
			case strings.HasPrefix(l, "d names ") && names2 == "":
				names2 = strings.TrimPrefix(l, "d names ")
			}
		}
		if names2 != "" {
			if names2 == strings.Join(want2, "|") {
				out = append(out, "pair dbgnames-rebound same")
			} else {
				out = append(out, "pair dbgnames-rebound diff reported="+names2+" bound="+strings.Join(want2, "|"))
			}
		}
	}
	// and with the same collection OBJECT bound once more after the first chain has been used, to a chain with an init
	// function: that chain's Debugging must describe that chain (not whatever was built for the first one)
	if !c2.HasInit {
		afterOpsHook = secondBindWithInit
		v3 := runCase(c2.clone())
		afterOpsHook = nil
		var names3 string
		var want3 []string
		inS7, second := false, false
		for _, l := range v3 {
			switch {
			case l == "second bind":
				second = true
			case !second:
			case strings.HasPrefix(l, "dump "):
				inS7 = strings.HasPrefix(l, "dump S7 ")
				if inS7 {
					want3 = nil
				}
			case strings.HasPrefix(l, "f ") && inS7:
				kv := pKV(strings.Fields(l))
				if kv["inc"] == "1" {
					origin := kv["origin"]
					if origin == "-" {
						origin = ""
					}
					if kv["index"] != "-1" {
						want3 = append(want3, origin+"("+kv["index"]+")")
					} else {
						want3 = append(want3, origin)
					}
				}
			case strings.HasPrefix(l, "d names "):
				names3 = strings.TrimPrefix(l, "d names ")
			}
		}
		if names3 != "" && len(want3) > 0 {
			if names3 == strings.Join(want3, "|") {
				out = append(out, "pair dbgnames-second same")
			} else {
				out = append(out, "pair dbgnames-second diff reported="+names3+" bound="+strings.Join(want3, "|"))
			}
		}
	}
	return append(out, "end")
}
