package main

// C17: a plain injector marked Reorder and listed at any other position must not change who
// supplies what.

import (
	"fmt"
	"math/rand"
	"sort"
	"strings"
)

// producer identity of a value in a trace ("type:tag"): the provider that made it, or "arg"
func producerOf(v string) string {
	kv := strings.SplitN(v, ":", 2)
	if len(kv) != 2 {
		return v
	}
	var tag uint64
	fmt.Sscan(kv[1], &tag)
	switch {
	case tag == 0:
		return kv[0] + ":zero"
	case tag >= 90000000:
		return fmt.Sprintf("%s:arg%d", kv[0], tag%100)
	}
	return fmt.Sprintf("%s:p%d", kv[0], tag/100000-1)
}

func producers(vals string) string {
	if vals == "-" || vals == "" {
		return "-"
	}
	parts := strings.Split(vals, ",")
	for i, p := range parts {
		parts[i] = producerOf(p)
	}
	return strings.Join(parts, ",")
}

// whoFeedsWhom: for every provider the set of (event kind, producers of the values it was handed);
// plus what the invoke function got back
func whoFeedsWhom(lines []string) (map[string]map[string]bool, []string) {
	m := map[string]map[string]bool{}
	add := func(who, what string) {
		if m[who] == nil {
			m[who] = map[string]bool{}
		}
		m[who][what] = true
	}
	for _, l := range lines {
		if !strings.HasPrefix(l, "t ") {
			continue
		}
		f := strings.Fields(l)
		switch f[1] {
		case "call", "wenter":
			add(f[2], f[1]+" "+producers(f[3]))
		case "wrecv":
			add(f[2], "wrecv "+producers(f[3]))
		case "ret":
			add("invoke", "ret "+producers(f[2]))
		case "winner", "wret":
		default:
			add("?", l) // panic / hang
		}
	}
	var ran []string
	for k := range m {
		ran = append(ran, k)
	}
	sort.Strings(ran)
	return m, ran
}

func feedDiff(a, b []string) string {
	ma, ra := whoFeedsWhom(a)
	mb, rb := whoFeedsWhom(b)
	if strings.Join(ra, ",") != strings.Join(rb, ",") {
		return fmt.Sprintf("providers that ran: %v vs %v", ra, rb)
	}
	for _, who := range ra {
		var xa, xb []string
		for k := range ma[who] {
			xa = append(xa, k)
		}
		for k := range mb[who] {
			xb = append(xb, k)
		}
		sort.Strings(xa)
		sort.Strings(xb)
		if strings.Join(xa, ";") != strings.Join(xb, ";") {
			return fmt.Sprintf("provider %s is fed by %v vs %v", who, xa, xb)
		}
	}
	return ""
}

// sources of every type in the chain (who can supply it downward)
func downSources(c *CaseDesc) map[int]int {
	n := map[int]int{}
	for _, t := range c.InvIn {
		n[t]++
	}
	for _, t := range c.InitIn {
		n[t]++
	}
	for _, p := range c.Provs {
		outs := p.Out
		if p.Kind == "wrap" {
			outs = p.IIn
		}
		for _, t := range outs {
			if t != cTE {
				n[t]++
			}
		}
	}
	return n
}

// genDisplaceCase: a chain in which every type has exactly one source and every provider is needed,
// so that every plain injector is a candidate for displacement
// genDisplaceCase: a chain in which every provider is needed.  Most types have exactly one source (so
// that most plain injectors qualify for displacement); some types are provided again further down,
// after their earlier value has been consumed, by providers that may or may not read them.
func genDisplaceCase(rng *rand.Rand, n int, seed int64) *CaseDesc {
	c := &CaseDesc{N: n, Seed: seed, Shape: "flat"}
	free := rng.Perm(8) // type codes 0..7
	var used []int      // types that have a source already
	take := func() (int, bool) {
		// now and then provide again a type whose current value has been consumed
		if len(used) > 0 && rng.Intn(4) == 0 {
			return used[rng.Intn(len(used))], true
		}
		if len(free) == 0 {
			return 0, false
		}
		t := free[0]
		free = free[1:]
		return t, true
	}
	var avail []int
	pending := map[int]bool{} // produced and not yet consumed by anybody
	produce := func(t int) bool {
		if pending[t] { // its current value still waits for a consumer: providing it again would orphan that provider
			return false
		}
		pending[t] = true
		if !contains(used, t) {
			used = append(used, t)
			avail = append(avail, t)
		}
		return true
	}
	for k := rng.Intn(3); k > 0; k-- {
		if t, ok := take(); ok && !contains(c.InvIn, t) && produce(t) {
			c.InvIn = append(c.InvIn, t)
			pending[t] = false // invoke arguments need no consumer
		}
	}
	pickIn := func(max int) []int {
		var ins []int
		// prefer what still waits for a consumer
		for _, t := range avail {
			if pending[t] && len(ins) < max && rng.Intn(2) == 0 {
				ins = append(ins, t)
			}
		}
		for k := rng.Intn(max + 1); k > 0 && len(avail) > 0 && len(ins) < max; k-- {
			t := avail[rng.Intn(len(avail))]
			if !contains(ins, t) {
				ins = append(ins, t)
			}
		}
		for _, t := range ins {
			pending[t] = false
		}
		return ins
	}
	L := 4 + rng.Intn(6)
	retT := -1
	if rng.Intn(2) == 0 {
		retT = cError
	}
	for i := 0; i < L-1; i++ {
		p := &ProvDesc{Idx: i}
		switch x := rng.Intn(10); {
		case x == 0:
			p.Kind = "lit"
			t, ok := take()
			if !ok || contains(c.InvIn, t) || !produce(t) {
				continue
			}
			p.Out = []int{t}
		case x <= 2:
			p.Kind = "wrap"
			p.In = pickIn(2)
			if rng.Intn(2) == 0 {
				if t, ok := take(); ok && !contains(p.In, t) && produce(t) {
					p.IIn = []int{t}
				}
			}
			p.Calls = 1 + rng.Intn(2)
			p.Pass = true
			if retT >= 0 && rng.Intn(2) == 0 {
				p.IOut, p.Out = []int{retT}, []int{retT}
			}
		default:
			p.Kind = "inj"
			p.In = pickIn(2)
			for k := rng.Intn(3); k > 0; k-- {
				if t, ok := take(); ok && !contains(p.Out, t) && produce(t) {
					p.Out = append(p.Out, t)
				}
			}
		}
		c.Provs = append(c.Provs, p)
	}
	fin := &ProvDesc{Idx: L - 1, Kind: "inj"}
	for _, t := range avail { // the final function consumes whatever still waits: everything is needed
		if pending[t] {
			fin.In = append(fin.In, t)
		}
	}
	if len(fin.In) == 0 && len(avail) > 0 {
		fin.In = []int{avail[rng.Intn(len(avail))]}
	}
	if retT >= 0 {
		fin.Out = []int{retT}
		c.InvOut = []int{retT}
	}
	c.Provs = append(c.Provs, fin)
	for i, p := range c.Provs {
		p.Idx = i
	}
	c.Ops = []Op{{Kind: "invoke"}, {Kind: "invoke"}}
	return c
}

func runDisplacePairs(c *CaseDesc, rng *rand.Rand) []string {
	base := runCase(c)
	sb := summarize(base, false)
	if sb.bind != "bind ok" || len(sb.included) != len(c.Provs) {
		return base // the property speaks about chains that bind with every listed provider included
	}
	src := downSources(c)
	out := append([]string{}, base[:len(base)-1]...)
	tried := 0
	for pi, p := range c.Provs[:len(c.Provs)-1] {
		if p.Kind != "inj" || p.Cacheable || p.MustCache || p.Memoize || p.Singleton || p.NotCacheable || contains(p.Out, cTE) ||
			p.Required || p.Desired || len(p.MustConsume)+len(p.Loose)+len(p.ConsOpt) > 0 || p.NonFinal || p.Cluster != 0 {
			continue
		}
		ok := true
		for _, t := range p.Out {
			if src[t] != 1 || t == cI0 || t == cI1 {
				ok = false
			}
		}
		for _, t := range p.In {
			if src[t] != 1 || t == cI0 || t == cI1 || t >= cError {
				ok = false
			}
		}
		if !ok {
			continue
		}
		for j := 0; j < len(c.Provs)-1; j++ {
			if j == pi {
				continue
			}
			if tried >= 12 && rng.Intn(3) != 0 {
				continue
			}
			tried++
			c2 := c.clone()
			q := c2.Provs[pi]
			q.Reorder = true
			rest := append(append([]*ProvDesc{}, c2.Provs[:pi]...), c2.Provs[pi+1:]...)
			c2.Provs = append(append(append([]*ProvDesc{}, rest[:j]...), q), rest[j:]...)
			v := runCase(c2)
			sv := summarize(v, false)
			d := ""
			switch {
			case sv.bind != "bind ok":
				d = "variant does not bind: " + sv.bind
			case fmt.Sprint(sv.included) != fmt.Sprint(sb.included):
				d = fmt.Sprintf("included %v vs %v", sb.included, sv.included)
			default:
				d = feedDiff(base, v)
			}
			if d == "" {
				out = append(out, fmt.Sprintf("pair displace:%d>%d same", p.Idx, j))
			} else {
				out = append(out, fmt.Sprintf("pair displace:%d>%d diff %s", p.Idx, j, d))
				for _, l := range v {
					if strings.HasPrefix(l, "p ") || strings.HasPrefix(l, "bind ") || strings.HasPrefix(l, "t ") || (strings.HasPrefix(l, "f ") && false) {
						out = append(out, "v2 "+l)
					}
				}
			}
		}
	}
	return append(out, "end")
}

// runDisplaceVariants emits some of the displaced variants of runDisplacePairs as cases of their own (so that the
// model driver sees their lists: S4 correspondence and the order condition of the placement theorem); the displaced
// provider is named in the case note
func runDisplaceVariants(c *CaseDesc, rng *rand.Rand, max int) [][]string {
	base := runCase(c)
	sb := summarize(base, false)
	if sb.bind != "bind ok" || len(sb.included) != len(c.Provs) {
		return nil
	}
	src := downSources(c)
	var out [][]string
	for pi, p := range c.Provs[:len(c.Provs)-1] {
		if p.Kind != "inj" || p.Cacheable || p.MustCache || p.Memoize || p.Singleton || p.NotCacheable || contains(p.Out, cTE) ||
			p.Required || p.Desired || len(p.MustConsume)+len(p.Loose)+len(p.ConsOpt) > 0 || p.NonFinal || p.Cluster != 0 {
			continue
		}
		ok := true
		for _, t := range p.Out {
			if src[t] != 1 || t == cI0 || t == cI1 {
				ok = false
			}
		}
		for _, t := range p.In {
			if src[t] != 1 || t == cI0 || t == cI1 || t >= cError {
				ok = false
			}
		}
		if !ok {
			continue
		}
		for j := 0; j < len(c.Provs)-1; j++ {
			if j == pi || len(out) >= max || rng.Intn(2) != 0 {
				continue
			}
			c2 := c.clone()
			q := c2.Provs[pi]
			q.Reorder = true
			rest := append(append([]*ProvDesc{}, c2.Provs[:pi]...), c2.Provs[pi+1:]...)
			c2.Provs = append(append(append([]*ProvDesc{}, rest[:j]...), q), rest[j:]...)
			c2.N = c.N*100 + len(out)
			c2.Note = fmt.Sprintf("displaced=%d", p.Idx)
			out = append(out, runCase(c2))
		}
	}
	return out
}
