package main

// The fixed type universe shared (by code number) with the Lean model.

import (
	"fmt"
	"reflect"
	"strconv"
	"strings"

	nject "github.com/muir/nject/v2"
)

type (
	T0 struct{ Tag uint64 }
	T1 struct{ Tag uint64 }
	T2 struct{ Tag uint64 }
	T3 struct{ Tag uint64 }
	T4 struct{ Tag uint64 }
	T5 struct{ Tag uint64 }
	T6 struct{ Tag uint64 }
	T7 struct{ Tag uint64 }
)

type I0 interface{ M0() }

type I1 interface{ M1() }

// I2 has the methods of both: whoever implements I2 implements I0 and I1 (only T6 does)
type I2 interface {
	M0()
	M1()
}

func (T5) M0() {}
func (T6) M0() {}
func (T6) M1() {}
func (T7) M1() {}

// Err is the dynamic type of every non-nil error / TerminalError the harness produces.
type Err struct{ Tag uint64 }

func (e *Err) Error() string {
	if e == nil {
		return "E(typed nil)"
	}
	return "E" + strconv.FormatUint(e.Tag, 10)
}

// typedNilTag stands for an error value that is a nil *Err inside a non-nil interface: as an error it is NOT nil
const typedNilTag = 9999999

const (
	cI0    = 10
	cI1    = 11
	cI2    = 12
	cError = 20
	cTE    = 21
	cUnus  = 22
	cDebug = 23
	cNoTy  = 30
	cOther = 99
)

var (
	tError = reflect.TypeOf((*error)(nil)).Elem()
	tTE    = reflect.TypeOf((*nject.TerminalError)(nil)).Elem()
	tUnus  = reflect.TypeOf(nject.Unused{})
	tDebug = reflect.TypeOf((*nject.Debugging)(nil))
	tErrP  = reflect.TypeOf((*Err)(nil))
)

var codeType = map[int]reflect.Type{
	0: reflect.TypeOf(T0{}), 1: reflect.TypeOf(T1{}), 2: reflect.TypeOf(T2{}), 3: reflect.TypeOf(T3{}),
	4: reflect.TypeOf(T4{}), 5: reflect.TypeOf(T5{}), 6: reflect.TypeOf(T6{}), 7: reflect.TypeOf(T7{}),
	cI0: reflect.TypeOf((*I0)(nil)).Elem(), cI1: reflect.TypeOf((*I1)(nil)).Elem(),
	cI2: reflect.TypeOf((*I2)(nil)).Elem(),
	cError: tError, cTE: tTE, cUnus: tUnus, cDebug: tDebug,
}

var typeCode = func() map[reflect.Type]int {
	m := make(map[reflect.Type]int)
	for c, t := range codeType {
		m[t] = c
	}
	return m
}()

func codeOf(t reflect.Type) int {
	if c, ok := typeCode[t]; ok {
		return c
	}
	if t.Name() == "noType" {
		return cNoTy
	}
	return cOther
}

func codesOf(ts []reflect.Type) []int {
	out := make([]int, len(ts))
	for i, t := range ts {
		out[i] = codeOf(t)
	}
	return out
}

func typesOf(cs []int) []reflect.Type {
	out := make([]reflect.Type, len(cs))
	for i, c := range cs {
		t, ok := codeType[c]
		if !ok {
			panic(fmt.Sprintf("no type for code %d", c))
		}
		out[i] = t
	}
	return out
}

// implementor chosen when a body has to produce a value of an interface type
func dynCode(c int) int {
	switch c {
	case cI0:
		return 5
	case cI1:
		return 7
	case cI2:
		return 6
	case cTE:
		return cError
	}
	return c
}

// Val mirrors the model's Val: dynamic type code and tag.
type Val struct {
	Ty  int
	Tag uint64
}

func (v Val) String() string { return fmt.Sprintf("%d:%d", v.Ty, v.Tag) }

func fmtVals(vs []Val) string {
	if len(vs) == 0 {
		return "-"
	}
	parts := make([]string, len(vs))
	for i, v := range vs {
		parts[i] = v.String()
	}
	return strings.Join(parts, ",")
}

func fmtCodes(cs []int) string {
	if len(cs) == 0 {
		return "-"
	}
	parts := make([]string, len(cs))
	for i, c := range cs {
		parts[i] = strconv.Itoa(c)
	}
	return strings.Join(parts, ",")
}

// mkValue builds the Go value for (declared type code, Val).  Tag 0 of an interface type is nil.
func mkValue(declared int, v Val) reflect.Value {
	dt := codeType[declared]
	switch declared {
	case cUnus:
		return reflect.ValueOf(nject.Unused{})
	case cDebug:
		if v.Tag == 0 {
			return reflect.Zero(dt)
		}
		return reflect.ValueOf(&nject.Debugging{})
	}
	if dt.Kind() == reflect.Interface {
		if v.Tag == 0 && (v.Ty == declared || v.Ty < 0 || v.Ty > 7) {
			return reflect.Zero(dt)
		}
		// (a zero value of a concrete type handed on as an interface is not the nil interface)
		var inner reflect.Value
		if v.Ty == cError && v.Tag == typedNilTag {
			inner = reflect.ValueOf((*Err)(nil))
		} else if v.Ty == cError {
			inner = reflect.ValueOf(&Err{Tag: v.Tag})
		} else {
			inner = reflect.New(codeType[v.Ty]).Elem()
			inner.Field(0).SetUint(v.Tag)
		}
		out := reflect.New(dt).Elem()
		out.Set(inner)
		return out
	}
	out := reflect.New(dt).Elem()
	out.Field(0).SetUint(v.Tag)
	return out
}

// readValue canonicalises a reflect.Value of declared static type `declared`.
func readValue(declared reflect.Type, x reflect.Value) Val {
	if !x.IsValid() {
		return Val{Ty: -1, Tag: 0}
	}
	switch declared {
	case tUnus:
		return Val{cUnus, 0}
	case tDebug:
		if x.IsNil() {
			return Val{cDebug, 0}
		}
		return Val{cDebug, 1}
	}
	if x.Kind() == reflect.Interface {
		if x.IsNil() {
			return Val{codeOf(declared), 0}
		}
		x = x.Elem()
	}
	if x.Type() == tErrP {
		if x.IsNil() {
			return Val{cError, typedNilTag}
		}
		return Val{cError, x.Interface().(*Err).Tag}
	}
	if x.Kind() == reflect.Struct && x.NumField() == 1 && x.Field(0).Kind() == reflect.Uint64 {
		return Val{codeOf(x.Type()), x.Field(0).Uint()}
	}
	return Val{cOther, 0}
}

// generic annotation tables (the API is generic over the static type)
var looseFn = map[int]func(any) nject.Provider{
	0: nject.Loose[T0], 1: nject.Loose[T1], 2: nject.Loose[T2], 3: nject.Loose[T3], 4: nject.Loose[T4],
	5: nject.Loose[T5], 6: nject.Loose[T6], 7: nject.Loose[T7], cI0: nject.Loose[I0], cI1: nject.Loose[I1], cI2: nject.Loose[I2],
	cError: nject.Loose[error],
}

var mustConsumeFn = map[int]func(any) nject.Provider{
	0: nject.MustConsume[T0], 1: nject.MustConsume[T1], 2: nject.MustConsume[T2], 3: nject.MustConsume[T3], 4: nject.MustConsume[T4],
	5: nject.MustConsume[T5], 6: nject.MustConsume[T6], 7: nject.MustConsume[T7], cI0: nject.MustConsume[I0], cI1: nject.MustConsume[I1], cI2: nject.MustConsume[I2],
	cError: nject.MustConsume[error], cUnus: nject.MustConsume[nject.Unused],
}

var consOptFn = map[int]func(any) nject.Provider{
	0: nject.ConsumptionOptional[T0], 1: nject.ConsumptionOptional[T1], 2: nject.ConsumptionOptional[T2], 3: nject.ConsumptionOptional[T3], 4: nject.ConsumptionOptional[T4],
	5: nject.ConsumptionOptional[T5], 6: nject.ConsumptionOptional[T6], 7: nject.ConsumptionOptional[T7], cI0: nject.ConsumptionOptional[I0], cI1: nject.ConsumptionOptional[I1], cI2: nject.ConsumptionOptional[I2],
	cError: nject.ConsumptionOptional[error], cUnus: nject.ConsumptionOptional[nject.Unused],
}

var shadowOKFn = map[int]func(any) nject.Provider{
	0: nject.AllowReturnShadowing[T0], 1: nject.AllowReturnShadowing[T1], 2: nject.AllowReturnShadowing[T2], 3: nject.AllowReturnShadowing[T3], 4: nject.AllowReturnShadowing[T4],
	5: nject.AllowReturnShadowing[T5], 6: nject.AllowReturnShadowing[T6], 7: nject.AllowReturnShadowing[T7], cI0: nject.AllowReturnShadowing[I0], cI1: nject.AllowReturnShadowing[I1], cI2: nject.AllowReturnShadowing[I2],
	cError: nject.AllowReturnShadowing[error],
}
