package main

// C11: histories of API operations over a pool of collections that share providers.  After
// every operation every collection that existed before must be unchanged (its mirrored contents:
// order, ids, names, every annotation) and must still bind and run the way it did when it was
// created.

import (
	"fmt"
	"math/rand"
	"reflect"
	"sort"
	"strings"
	"sync"
	"time"

	nject "github.com/muir/nject/v2"
)

type histColl struct {
	c        *nject.Collection
	snapshot string // mirror taken when it was created
	behave   string // bind verdict + result of one run, taken when it was created
	how      string
}

func mirror(c *nject.Collection) string {
	var b strings.Builder
	for _, vp := range nject.VerifContents(c) {
		tl := func(ts []reflect.Type) string {
			cs := codesOf(ts)
			sort.Ints(cs)
			return fmtCodes(cs)
		}
		fmt.Fprintf(&b, "%d/%s/%d/r%v,d%v,s%v,c%v,m%v,n%v,me%v,si%v,nf%v,re%v,p%v/cl%d/L%s/M%s/O%s/S%s/%s|%s|%s;",
			vp.ID, vp.Origin, vp.Index, vp.Required, vp.Desired, vp.Shun, vp.Cacheable, vp.MustCache, vp.NotCacheable,
			vp.Memoize, vp.Singleton, vp.NonFinal, vp.Reorder, vp.Parallel, b2i(vp.Cluster != 0),
			tl(vp.Loose), tl(vp.MustConsume), tl(vp.ConsumptionOptional), tl(vp.ShadowingAllowed),
			vp.ReplaceByName, vp.InsertBeforeName, vp.InsertAfterName)
	}
	return b.String()
}

// clusterSig keeps the cluster partition (ids are process-global counters)
func clusterSig(c *nject.Collection) string {
	m := map[int32]int{}
	var out []string
	for _, vp := range nject.VerifContents(c) {
		if vp.Cluster == 0 {
			out = append(out, "0")
			continue
		}
		if _, ok := m[vp.Cluster]; !ok {
			m[vp.Cluster] = len(m) + 1
		}
		out = append(out, fmt.Sprint(m[vp.Cluster]))
	}
	return strings.Join(out, ",")
}

// behaviour of a collection: bind it to func(T0) T0 and run it once
func behave(c *nject.Collection) string {
	var inv func(T0) T0
	var err error
	s := guarded(5*time.Second, func() { err = c.Bind(&inv, nil) })
	if s != "" {
		return s
	}
	if err != nil {
		return "err " + errClass(err)
	}
	var out T0
	s = guarded(5*time.Second, func() { out = inv(T0{Tag: 3}) })
	if s != "" {
		return s
	}
	return fmt.Sprintf("ok %d", out.Tag)
}

// every provider is func(T0) T0 adding a distinct power of two, so the result of a run shows which
// providers ran; some are NonFinal so that Bind has to reorder
func histProvider(k int) any {
	return func(a T0) T0 { return T0{Tag: a.Tag + (1 << uint(4+k%40))} }
}

type tieI interface{ TieName() string }
type tieA struct{ Tag uint64 }
type tieB struct{ Tag uint64 }

func (tieA) TieName() string { return "A" }
func (tieB) TieName() string { return "B" }

// tieProbe: an interface input with two equally good candidates (two outputs of ONE Loose provider, same number of
// methods): the same description must be wired the same way every time it is bound
func tieProbe() string {
	outcomes := map[string]int{}
	for i := 0; i < 60; i++ {
		var inv func() string
		c := nject.Sequence("tie", nject.Loose[tieI](func() (tieA, tieB) { return tieA{1}, tieB{2} }), func(x tieI) string { return x.TieName() })
		if err := c.Bind(&inv, nil); err != nil {
			return "bind: " + err.Error()
		}
		outcomes[inv()]++
	}
	if len(outcomes) != 1 {
		return fmt.Sprintf("the same description bound 60 times is wired in %d ways: %v", len(outcomes), outcomes)
	}
	return ""
}

func runHistory(seed int64, steps int) []string {
	if d := tieProbe(); d != "" {
		return []string{"history diff op=tie-probe " + d}
	}
	rng := rand.New(rand.NewSource(seed))
	var out []string
	var pool []*histColl
	add := func(c *nject.Collection, how string) {
		pool = append(pool, &histColl{c: c, snapshot: mirror(c) + "#" + clusterSig(c), behave: "", how: how})
	}
	nprov := 0
	fresh := func() any { nprov++; return histProvider(nprov) }
	// seed pool
	for i := 0; i < 3; i++ {
		items := []any{fresh(), fresh()}
		if rng.Intn(2) == 0 {
			items = append(items, nject.NonFinal(fresh()))
		}
		if rng.Intn(3) == 0 {
			items = append(items, nject.Provide(fmt.Sprintf("N%d", i), fresh()))
		}
		add(nject.Sequence(fmt.Sprintf("s%d", i), items...), "seed")
	}
	for _, h := range pool {
		h.behave = behave(h.c)
	}
	diffs := 0
	check := func(op string) {
		for i, h := range pool {
			now := mirror(h.c) + "#" + clusterSig(h.c)
			if now != h.snapshot {
				diffs++
				out = append(out, fmt.Sprintf("history diff op=%s collection=%d(%s) contents changed: was %s now %s", op, i, h.how, clip(h.snapshot), clip(now)))
				h.snapshot = now
			}
		}
	}
	checkBehave := func(op string) {
		for i, h := range pool {
			if h.behave == "" {
				continue
			}
			now := behave(h.c)
			if now != h.behave {
				diffs++
				out = append(out, fmt.Sprintf("history diff op=%s collection=%d(%s) behaviour changed: was %q now %q", op, i, h.how, h.behave, now))
				h.behave = now
			}
		}
	}
	pickColl := func() *histColl { return pool[rng.Intn(len(pool))] }
	var lastMapped *histColl
	lastKind := 0
	for s := 0; s < steps; s++ {
		var op string
		h := pickColl()
		switch rng.Intn(12) {
		case 0:
			op = "sequence"
			g := pickColl()
			add(nject.Sequence(fmt.Sprintf("q%d", s), h.c, fresh(), g.c), op)
		case 1:
			op = "append"
			if rng.Intn(2) == 0 {
				// a single provider: fits into spare capacity of the base's array, if any
				add(h.c.Append(fmt.Sprintf("a%d", s), fresh()), op)
			} else {
				add(h.c.Append(fmt.Sprintf("a%d", s), fresh(), pickColl().c), op)
			}
		case 2:
			anns := []func(any) nject.Provider{nject.Desired, nject.Shun, nject.Required, nject.NonFinal, nject.Cacheable, nject.NotCacheable, nject.Reorder}
			k := rng.Intn(len(anns))
			op = fmt.Sprintf("annotate%d", k)
			p := anns[k](h.c)
			add(nject.Sequence(fmt.Sprintf("n%d", s), p), op)
		case 3:
			op = "cluster"
			add(nject.Cluster(fmt.Sprintf("c%d", s), h.c, fresh()), op)
		case 4:
			op = "bind"
			_ = behave(h.c)
		case 5:
			op = "condense"
			var p nject.Provider
			var err error
			st := guarded(5*time.Second, func() { p, err = h.c.Condense(rng.Intn(2) == 0) })
			if st != "" {
				diffs++
				out = append(out, fmt.Sprintf("history diff op=condense %s", st))
			} else if err == nil && p != nil {
				add(nject.Sequence(fmt.Sprintf("k%d", s), p, fresh()), "condensed")
			}
		case 6:
			op = "inspect"
			_ = guarded(5*time.Second, func() {
				h.c.DownFlows()
				h.c.UpFlows()
				_ = h.c.String()
			})
		case 7:
			op = "named-edit"
			add(nject.Sequence(fmt.Sprintf("e%d", s), h.c, nject.InsertBeforeNamed("N0", fresh())), op)
		case 8:
			op = "setcallback"
			_ = guarded(5*time.Second, func() { _ = h.c.SetCallback(func(f func(T0) T0) {}) })
		case 9, 10, 11:
			// map-valued annotations, applied again and again to the same providers with different types
			tabs := []map[int]func(any) nject.Provider{mustConsumeFn, looseFn, consOptFn, shadowOKFn}
			k := rng.Intn(len(tabs))
			if lastMapped != nil && rng.Intn(3) != 0 {
				// annotate an already annotated collection again, same kind of annotation, another type
				h, k = lastMapped, lastKind
			}
			t := []int{0, 1, 2, 3}[rng.Intn(4)]
			op = fmt.Sprintf("mapannotate%d-%d", k, t)
			add(nject.Sequence(fmt.Sprintf("m%d", s), tabs[k][t](h.c)), op)
			lastMapped, lastKind = pool[len(pool)-1], k
		}
		pool[len(pool)-1].behave = behave(pool[len(pool)-1].c)
		check(op)
		if s%5 == 4 {
			checkBehave(op)
		}
		if len(pool) > 40 {
			pool = pool[len(pool)-30:]
		}
	}
	checkBehave("final")
	// concurrent binds of shared collections (run under -race)
	var wg sync.WaitGroup
	for g := 0; g < 8; g++ {
		wg.Add(1)
		go func(g int) {
			defer wg.Done()
			for i := 0; i < 6; i++ {
				_ = behave(pool[(g+i)%len(pool)].c)
			}
		}(g)
	}
	wg.Wait()
	check("concurrent-binds")
	out = append(out, fmt.Sprintf("history done seed=%d steps=%d collections=%d providers=%d diffs=%d", seed, steps, len(pool), nprov, diffs))
	return out
}

func clip(s string) string {
	if len(s) > 300 {
		return s[:300] + "..."
	}
	return s
}
