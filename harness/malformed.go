package main

// C04: unusable chains and API misuse must come back as errors: no panic, no hang, no partial bind.

import (
	"fmt"
	"math/rand"
	"reflect"
	"strings"
	"time"

	nject "github.com/muir/nject/v2"
)

// argsOnly describes a signature (ReflectiveArgs) but cannot be called
type argsOnly struct{}

func (argsOnly) In(i int) reflect.Type { panic("no inputs") }
func (argsOnly) NumIn() int            { return 0 }
func (argsOnly) Out(i int) reflect.Type { return codeType[0] }
func (argsOnly) NumOut() int           { return 1 }

type probe struct {
	name string
	f    func() error // returns the error the API reported (nil = accepted)
}

func apiProbes() []probe {
	good := func() *nject.Collection {
		return nject.Sequence("g", func(a T0) T1 { return T1{Tag: a.Tag} }, func(b T1) T1 { return b })
	}
	var notFunc int
	return []probe{
		{"Bind(nil,nil)", func() error { return good().Bind(nil, nil) }},
		{"Bind(&int,nil)", func() error { return good().Bind(&notFunc, nil) }},
		{"Bind(func-not-pointer,nil)", func() error { return good().Bind(func(T0) T1 { return T1{} }, nil) }},
		{"Bind(&f,&int)", func() error { var f func(T0) T1; return good().Bind(&f, &notFunc) }},
		{"Bind(nil-typed-pointer)", func() error { var p *func(T0) T1; return good().Bind(p, nil) }},
		{"SetCallback(nil)", func() error { return good().SetCallback(nil) }},
		{"SetCallback(5)", func() error { return good().SetCallback(5) }},
		{"SetCallback(func())", func() error { return good().SetCallback(func() {}) }},
		{"SetCallback(func(int))", func() error { return good().SetCallback(func(int) {}) }},
		{"SetCallback(func(f)ret)", func() error { return good().SetCallback(func(func(T0) T1) int { return 0 }) }},
		{"SetCallback(3 funcs)", func() error { return good().SetCallback(func(a, b, c func()) {}) }},
		{"Run(no providers)", func() error { return nject.Run("r") }},
		{"Run(nil provider)", func() error { return nject.Run("r", nil) }},
		{"Run(only nils)", func() error { return nject.Run("r", nil, nil) }},
		{"Run(literal last)", func() error { return nject.Run("r", func() T0 { return T0{} }, T1{}) }},
		{"Run(wrapper last)", func() error { return nject.Run("r", func(inner func()) { inner() }) }},
		{"Sequence(nil,nil).Bind", func() error { var f func(); return nject.Sequence("n", nil, nil).Bind(&f, nil) }},
		{"empty Sequence.Bind", func() error { var f func(); return nject.Sequence("n").Bind(&f, nil) }},
		{"(*Collection)(nil) in Sequence", func() error {
			var c *nject.Collection
			var f func()
			return nject.Sequence("n", c, func() {}).Bind(&f, nil)
		}},
		{"Condense(empty)", func() error { _, err := nject.Sequence("e").Condense(false); return err }},
		{"Condense(wrapper last)", func() error {
			_, err := nject.Sequence("e", func(inner func()) { inner() }).Condense(false)
			return err
		}},
		{"Condense(unsatisfied)", func() error {
			p, err := nject.Sequence("e", func(a T0, b T1) T2 { return T2{} }).Condense(true)
			if err != nil {
				return err
			}
			var f func()
			return nject.Sequence("o", p, func(T2) {}).Bind(&f, nil)
		}},
		{"Condense(literal only)", func() error { _, err := nject.Sequence("e", T0{}).Condense(false); return err }},
		{"Curry(nil,nil)", func() error { _, err := nject.Curry(nil, nil); return err }},
		{"Curry(f,not-pointer)", func() error { _, err := nject.Curry(func(int, string) {}, 5); return err }},
		{"Curry(f,nil-pointer)", func() error { var p *func(int); _, err := nject.Curry(func(int, string) {}, p); return err }},
		{"Curry(non-func,&f)", func() error { var f func(int); _, err := nject.Curry(5, &f); return err }},
		{"SaveTo(nil)", func() error { _, err := nject.SaveTo(nil); return err }},
		{"SaveTo(non-pointer)", func() error { _, err := nject.SaveTo(5); return err }},
		{"SaveTo(nil-pointer)", func() error { var p *int; _, err := nject.SaveTo(p); return err }},
		{"MakeStructBuilder(int)", func() error { _, err := nject.MakeStructBuilder(5); return err }},
		{"MakeStructBuilder(nil)", func() error { _, err := nject.MakeStructBuilder(nil); return err }},
		{"MakeStructBuilder(*int)", func() error { var i int; _, err := nject.MakeStructBuilder(&i); return err }},
		{"func-pointer as provider", func() error {
			var inner func(T0) T1
			var f func(T0) T1
			return nject.Sequence("p", &inner, func(b T1) T1 { return b }).Bind(&f, nil)
		}},
		{"anonymous func parameter", func() error {
			var f func()
			return nject.Sequence("p", func() func() { return func() {} }, func(g func()) {}).Bind(&f, nil)
		}},
		{"nil func as provider (bind, then invoke)", func() error {
			var nf func() T0
			var f func() T0
			if err := nject.Sequence("p", nf, func(a T0) T0 { return a }).Bind(&f, nil); err != nil {
				return err
			}
			f()
			return nil
		}},
		{"nil func as final function", func() error {
			var nf func(T0) T1
			var f func(T0) T1
			if err := nject.Sequence("p", nf).Bind(&f, nil); err != nil {
				return err
			}
			f(T0{})
			return nil
		}},
		{"reflect.Type value as a literal", func() error {
			var f func() T0
			return nject.Sequence("p", reflect.TypeOf(7), func() T0 { return T0{} }).Bind(&f, nil)
		}},
		{"reflect.Type value consumed", func() error {
			var f func() string
			if err := nject.Sequence("p", reflect.TypeOf(7), func(t reflect.Type) string { return t.String() }).Bind(&f, nil); err != nil {
				return err
			}
			f()
			return nil
		}},
		// generated providers (GenerateFromInjectionChain) and what is handed to Bind as the invoke function
		{"generated provider returns a nil replacement", func() error {
			var f func() string
			err := nject.Sequence("p", func() string { return "a" },
				nject.GenerateFromInjectionChain("gen", func(before, after nject.Collection) (nject.Provider, error) { return nil, nil }),
				func(s string) string { return s }).Bind(&f, nil)
			if err != nil {
				return err
			}
			f()
			return nil
		}},
		{"generated provider returns a nil *Collection", func() error {
			var f func() string
			err := nject.Sequence("p", func() string { return "a" },
				nject.GenerateFromInjectionChain("gen", func(before, after nject.Collection) (nject.Provider, error) {
					var c *nject.Collection
					return c, nil
				}),
				func(s string) string { return s }).Bind(&f, nil)
			if err != nil {
				return err
			}
			f()
			return nil
		}},
		{"a Collection of two values given as the invoke function", func() error {
			return nject.Sequence("p", func() string { return "a" }, func(s string) {}).Bind(nject.Sequence("y", 1, 2), nil)
		}},
		{"a Collection of two values given as the init function", func() error {
			var f func()
			return nject.Sequence("p", func() string { return "a" }, func(s string) {}).Bind(&f, nject.Sequence("y", 1, 2))
		}},
		{"two generated providers: the earlier one replaced by nothing, the later one last (it becomes the final function)", func() error {
			var f func() string
			empty := nject.GenerateFromInjectionChain("empty", func(before, after nject.Collection) (nject.Provider, error) {
				return nject.Sequence("nothing"), nil
			})
			last := nject.GenerateFromInjectionChain("last", func(before, after nject.Collection) (nject.Provider, error) {
				return nject.Provide("made", func(s string) string { return s + "!" }), nil
			})
			err := nject.Sequence("p", func() string { return "a" }, empty, func() bool { return true }, last).Bind(&f, nil)
			if err != nil {
				return err
			}
			if got := f(); got != "a!" {
				return fmt.Errorf("got %q", got)
			}
			return nil
		}},
		{"two generated providers: the earlier one replaced by two providers, the later one last", func() error {
			var f func() string
			two := nject.GenerateFromInjectionChain("two", func(before, after nject.Collection) (nject.Provider, error) {
				return nject.Sequence("two", func() int { return 1 }, func(i int) bool { return i == 1 }), nil
			})
			last := nject.GenerateFromInjectionChain("last", func(before, after nject.Collection) (nject.Provider, error) {
				return nject.Provide("made", func(s string, b bool) string { return fmt.Sprint(s, b) }), nil
			})
			err := nject.Sequence("p", func() string { return "a" }, two, last).Bind(&f, nil)
			if err != nil {
				return err
			}
			if got := f(); got != "atrue" {
				return fmt.Errorf("got %q", got)
			}
			return nil
		}},
		{"a Bind error described twice (DetailedError), then a usable chain is bound", func() error {
			var bad func() T0
			err := nject.Sequence("p", func(T1) T0 { return T0{} }).Bind(&bad, nil)
			if err == nil {
				return fmt.Errorf("the unusable chain was accepted")
			}
			_ = nject.DetailedError(err)
			_ = nject.DetailedError(err)
			var good func() T0
			if err := nject.Sequence("p", func() T0 { return T0{Tag: 3} }).Bind(&good, nil); err != nil {
				return err
			}
			if good().Tag != 3 {
				return fmt.Errorf("wrong value")
			}
			return nil
		}},
		{"two TerminalErrors in one provider (bind, then invoke)", func() error {
			var f func() error
			err := nject.Sequence("p", func() (nject.TerminalError, nject.TerminalError, T0) { return nil, nil, T0{Tag: 7} }, func(a T0) error { return nil }).Bind(&f, nil)
			if err != nil {
				return err
			}
			_ = f()
			return nil
		}},
		{"two TerminalErrors, the second set", func() error {
			var f func() error
			err := nject.Sequence("p", func() (T0, nject.TerminalError, nject.TerminalError) { return T0{}, nil, fmt.Errorf("second") }, func(a T0) error { return nil }).Bind(&f, nil)
			if err != nil {
				return err
			}
			if f() == nil {
				return nil // (reported below as accepted: a set TerminalError that stops nothing is a C07 matter)
			}
			return nil
		}},
		// annotation purity (C11) seen from the properties the annotations serve: deriving F[B](p) from p = F[A](x) must not
		// give p itself the annotation for B (the per-type annotation sets are maps / slices inside the provider)
		{"annotation-leak/AllowReturnShadowing expect=error", func() error {
			over := nject.AllowReturnShadowing[T1](func(inner func()) T0 { inner(); return T0{Tag: 1} })
			_ = nject.AllowReturnShadowing[T0](over)
			var f func() T0
			return nject.Sequence("p", over, func() T0 { return T0{Tag: 2} }).Bind(&f, nil)
		}},
		{"annotation-leak/ConsumptionOptional expect=error", func() error {
			fin := nject.ConsumptionOptional[T1](func() (T0, T2) { return T0{}, T2{} })
			_ = nject.ConsumptionOptional[T2](fin)
			var f func() T0
			return nject.Sequence("p", fin).Bind(&f, nil)
		}},
		{"annotation-leak/MustConsume expect=accepted", func() error {
			src := nject.MustConsume[T0](func() (T0, T1) { return T0{}, T1{} })
			_ = nject.MustConsume[T1](src)
			var f func() T2
			return nject.Sequence("p", nject.Required(src), func(a T0) T2 { return T2{} }).Bind(&f, nil)
		}},
		{"annotation-leak/Loose expect=error", func() error {
			src := nject.Loose[I0](func() T6 { return T6{} })
			_ = nject.Loose[I1](src)
			var f func() T2
			return nject.Sequence("p", src, func(a I1) T2 { return T2{} }).Bind(&f, nil)
		}},
		{"Singleton+Memoize", func() error {
			var f func() T0
			return nject.Sequence("p", nject.Memoize(nject.Singleton(func() T0 { return T0{} })), func(a T0) T0 { return a }).Bind(&f, nil)
		}},
		{"MustCache after invoke", func() error {
			var f func(T0) T1
			return nject.Sequence("p", nject.MustCache(func(a T0) T1 { return T1{} }), func(b T1) T1 { return b }).Bind(&f, nil)
		}},
		{"Collection as annotated provider", func() error {
			var f func()
			return nject.Sequence("p", nject.Required(nject.Sequence("q", func() {}, func() {})), func() {}).Bind(&f, nil)
		}},
		{"Reorder+Cluster+ConsumptionOptional", func() error {
			var f func() T1
			return nject.Sequence("p",
				nject.Cluster("cl", nject.Reorder(func(a T0) T1 { return T1{} }), nject.Reorder(func() T0 { return T0{} })),
				nject.ConsumptionOptional[T2](func(inner func() T1) (T1, T2) { return inner(), T2{} }),
				func(b T1) T1 { return b }).Bind(&f, nil)
		}},
		{"variadic provider", func() error {
			var f func()
			return nject.Sequence("p", func(xs ...int) {}, func() {}).Bind(&f, nil)
		}},
		{"channel literal and map input", func() error {
			var f func()
			return nject.Sequence("p", make(chan int), map[string]int{}, nject.Memoize(func(m map[string]int) T0 { return T0{} }), func(T0, chan int) {}).Bind(&f, nil)
		}},
		{"Memoize slice input from invoke", func() error {
			var f func([]int) string
			err := nject.Sequence("p", nject.Memoize(func(x []int) string { return "a" }), func(s string) string { return s }).Bind(&f, nil)
			if err != nil {
				return err
			}
			f([]int{1})
			f([]int{1})
			return nil
		}},
		{"Memoize any input holding a slice (run)", func() error {
			var f func(any) string
			err := nject.Sequence("p", nject.Memoize(func(x any) string { return "a" }), func(s string) string { return s }).Bind(&f, nil)
			if err != nil {
				return err
			}
			f([]int{1})
			f(map[string]int{})
			f(3)
			return nil
		}},
		{"Memoize any input holding a slice (static)", func() error {
			var f func() string
			err := nject.Sequence("p", nject.Cacheable(func() any { return []int{1} }), nject.Memoize(func(x any) string { return "a" }), func(s string) string { return s }).Bind(&f, nil)
			if err != nil {
				return err
			}
			f()
			f()
			return nil
		}},
		{"Memoize struct with any field holding a map", func() error {
			type S struct{ X any }
			var f func(S) string
			err := nject.Sequence("p", nject.Memoize(func(x S) string { return "a" }), func(s string) string { return s }).Bind(&f, nil)
			if err != nil {
				return err
			}
			f(S{X: map[string]int{}})
			f(S{X: 1})
			return nil
		}},
		{"Memoize struct with any field holding a map (init)", func() error {
			type S struct{ X any }
			var f func() string
			var ini func(S)
			err := nject.Sequence("p", nject.Memoize(func(x S) string { return "a" }), func(s string) string { return s }).Bind(&f, &ini)
			if err != nil {
				return err
			}
			ini(S{X: map[string]int{}})
			f()
			return nil
		}},
		{"Memoize func-typed input", func() error {
			var f func(func()) string
			err := nject.Sequence("p", nject.Memoize(func(x func()) string { return "a" }), func(s string) string { return s }).Bind(&f, nil)
			if err != nil {
				return err
			}
			f(func() {})
			return nil
		}},
		{"Provide(name, nil)", func() error {
			var f func()
			return nject.Sequence("p", nject.Provide("n", nil), func() {}).Bind(&f, nil)
		}},
		{"annotation of nil", func() error {
			var f func()
			return nject.Sequence("p", nject.Required(nil), nject.Cacheable(nil), func() {}).Bind(&f, nil)
		}},
		{"DetailedError(nil)", func() error { _ = nject.DetailedError(nil); return nil }},
		{"DetailedError(foreign)", func() error { _ = nject.DetailedError(fmt.Errorf("x")); return nil }},
		{"variadic provider (bind, then invoke)", func() error {
			var f func(int) string
			err := nject.Sequence("p", func() []string { return []string{"a", "b"} }, func(i int, s ...string) string { return fmt.Sprint(i, s) }).Bind(&f, nil)
			if err != nil {
				return err
			}
			f(3)
			return nil
		}},
		{"variadic injector in the middle (bind, then invoke)", func() error {
			var f func(int) string
			err := nject.Sequence("p", func() []string { return []string{"a"} }, func(i int, s ...string) T0 { return T0{Tag: uint64(len(s))} },
				func(a T0) string { return fmt.Sprint(a.Tag) }).Bind(&f, nil)
			if err != nil {
				return err
			}
			f(3)
			return nil
		}},
		{"variadic wrapper, cached variadic injector (bind, then invoke twice)", func() error {
			var f func(int) string
			err := nject.Sequence("p", func() []string { return []string{"a", "b"} },
				func(inner func() string, s ...string) string { return inner() + fmt.Sprint(len(s)) },
				nject.Cacheable(func(s ...string) T0 { return T0{Tag: uint64(3 + len(s))} }),
				func(a T0) string { return fmt.Sprint(a.Tag) }).Bind(&f, nil)
			if err != nil {
				return err
			}
			if f(3) != "52" || f(3) != "52" {
				panic("wrong value delivered")
			}
			return nil
		}},
		{"Curry of a variadic function", func() error {
			var c func(string) string
			p, err := nject.Curry(func(s string, i int, more ...string) string { return fmt.Sprint(s, i, more) }, &c)
			if err != nil {
				return err
			}
			var f func(int) string
			if err := nject.Sequence("p", func() []string { return []string{"x"} }, p, func(g func(string) string) string { return g("s") }).Bind(&f, nil); err != nil {
				return err
			}
			f(1)
			return nil
		}},
		{"SaveTo and MakeStructBuilder next to a variadic final function", func() error {
			type S struct{ A []string }
			var a []string
			st, err := nject.SaveTo(&a)
			if err != nil {
				return err
			}
			sb, err := nject.MakeStructBuilder(S{})
			if err != nil {
				return err
			}
			var f func() int
			if err := nject.Sequence("p", func() []string { return []string{"x", "y"} }, st, sb, func(s S, more ...string) int { return len(s.A) + len(more) }).Bind(&f, nil); err != nil {
				return err
			}
			if f() != 4 || len(a) != 2 {
				panic("wrong value delivered")
			}
			return nil
		}},
		{"variadic invoke function", func() error {
			var f func(i int, s ...string) string
			err := nject.Sequence("p", func(i int, s []string) string { return fmt.Sprint(i, s) }).Bind(&f, nil)
			if err != nil {
				return err
			}
			f(3, "a", "b")
			return nil
		}},
		{"provider implementing ReflectiveArgs only (bind, then invoke)", func() error {
			var f func() string
			err := nject.Sequence("p", argsOnly{}, func(a T0) string { return "x" }).Bind(&f, nil)
			if err != nil {
				return err
			}
			f()
			return nil
		}},
		{"SetCallback(typed nil func)", func() error {
			var cb func(func(T0) T1)
			return nject.Sequence("g", func(a T0) T1 { return T1{Tag: a.Tag} }).SetCallback(cb)
		}},
		// a Reflective provider is checked like a function: TerminalError twice is refused, not bound and then mis-delivered
		{"Reflective provider returning TerminalError twice (bind, then invoke)", func() error {
			te := reflect.TypeOf((*nject.TerminalError)(nil)).Elem()
			rp := nject.MakeReflective(nil, []reflect.Type{te, te, reflect.TypeOf("")}, func([]reflect.Value) []reflect.Value {
				return []reflect.Value{reflect.Zero(te), reflect.Zero(te), reflect.ValueOf("x")}
			})
			var f func() (string, error)
			if err := nject.Sequence("p", rp, func(s string) (string, error) { return s, nil }).Bind(&f, nil); err != nil {
				return err
			}
			if s, _ := f(); s != "x" {
				panic("accepted, and the consumer of string received " + s)
			}
			return nil
		}},
		{"condensed collection returning TerminalError twice (bind, then invoke)", func() error {
			inner := nject.Sequence("inner", func() (nject.TerminalError, int) { return nil, 3 },
				func(i int) (nject.TerminalError, string) { return nil, fmt.Sprint("s", i) })
			p, err := inner.Condense(true)
			if err != nil {
				return err
			}
			var f func() (string, error)
			if err := nject.Sequence("outer", p, func(s string) (string, error) { return s, nil }).Bind(&f, nil); err != nil {
				return err
			}
			if s, _ := f(); s != "s3" {
				panic("accepted, and the consumer of string received " + s)
			}
			return nil
		}},
		// the signature slices handed to MakeReflective / MakeReflectiveWrapper stay the caller's: two providers described
		// from one table (sub-slices with spare capacity) are the two providers described
		{"reflective-args/wrappers described from one signature table expect=accepted", func() error {
			tT0, tT1, tT2, tT3 := codeType[0], codeType[1], codeType[2], codeType[3]
			tb := []reflect.Type{tT0, tT1, tT2, tT3}
			keep := append([]reflect.Type(nil), tb...)
			w1 := nject.MakeReflectiveWrapper(tb[:1], nil, nil, nil, func(in []reflect.Value) []reflect.Value {
				in[0].Interface().(func([]reflect.Value) []reflect.Value)(nil)
				return nil
			})
			w2 := nject.MakeReflectiveWrapper(tb[1:2], nil, tb[2:3], nil, func(in []reflect.Value) []reflect.Value {
				in[0].Interface().(func([]reflect.Value) []reflect.Value)([]reflect.Value{reflect.ValueOf(T2{Tag: 7})})
				return nil
			})
			i1 := nject.MakeReflective(tb[:2], tb[3:4], func([]reflect.Value) []reflect.Value { return []reflect.Value{reflect.ValueOf(T3{Tag: 9})} })
			for i := range tb {
				if tb[i] != keep[i] {
					return fmt.Errorf("the caller's signature table was overwritten at %d: %s", i, tb[i])
				}
			}
			if w1.In(1) != tT0 || w1.NumIn() != 2 || w2.In(1) != tT1 || w2.NumIn() != 2 || i1.NumIn() != 2 || i1.In(0) != tT0 || i1.In(1) != tT1 {
				return fmt.Errorf("a reflective provider does not report the signature it was given")
			}
			var f func(T0, T1) T3
			var got T2
			err := nject.Sequence("p", w1, w2, func(a T2) { got = a }, i1, func(x T3, a T2) T3 { return x }).Bind(&f, nil)
			if err != nil {
				return fmt.Errorf("the chain the plain functions would bind is refused: %s", oneLine(err.Error()))
			}
			if x := f(T0{Tag: 1}, T1{Tag: 2}); x.Tag != 9 || got.Tag != 7 {
				return fmt.Errorf("wrong values delivered")
			}
			return nil
		}},
		// memo keys: inputs that differ give different keys (a nil interface is not the empty struct, nor a typed zero)
		{"memo-keys/nil interface, struct{}{} and typed zeros are different inputs expect=accepted", func() error {
			calls := 0
			var f func(any) string
			err := nject.Sequence("p", nject.Memoize(func(x any) string { calls++; return fmt.Sprintf("%T/%v", x, x) }), func(s string) string { return s }).Bind(&f, nil)
			if err != nil {
				return nil // refusing such a provider is allowed
			}
			ins := []any{nil, struct{}{}, 0, "", int64(0), [0]int{}, false, nil, struct{}{}, 0}
			for _, x := range ins {
				if got, want := f(x), fmt.Sprintf("%T/%v", x, x); got != want {
					return fmt.Errorf("input %s answered with the memoized result for %s", want, got)
				}
			}
			if calls != 7 {
				return fmt.Errorf("7 different inputs, %d calls", calls)
			}
			return nil
		}},
	}
}

// memoShapeProbes: Memoize'd providers whose parameter TYPES cannot (always) be map keys, alone and mixed with parameters
// that can, in every order, in the run set (invoke arguments) and in the static set (init arguments).  Bind may refuse
// them or the provider may be called each time; nothing may panic.
func memoShapeProbes() []probe {
	bad := []reflect.Type{
		reflect.TypeOf([1][]int{}), reflect.TypeOf(struct{ F []int }{}), reflect.TypeOf([2]map[string]int{}),
		reflect.TypeOf(struct{ A [1][]int }{}), reflect.TypeOf(struct{ A [1]func() }{}), reflect.TypeOf([]int{}),
		reflect.TypeOf([1]struct{ X any }{}), reflect.TypeOf(struct{ x any }{}),
	}
	good := []reflect.Type{
		reflect.TypeOf([2]int{}), reflect.TypeOf(struct{ A int }{}), reflect.TypeOf(""), reflect.TypeOf([1]struct{ A int }{}),
	}
	t3 := reflect.TypeOf(T3{})
	mk := func(name string, ins []reflect.Type, static bool) probe {
		return probe{name, func() error {
			fn := reflect.MakeFunc(reflect.FuncOf(ins, []reflect.Type{t3}, false), func([]reflect.Value) []reflect.Value {
				return []reflect.Value{reflect.ValueOf(T3{Tag: 1})}
			}).Interface()
			args := make([]reflect.Value, len(ins))
			for i, t := range ins {
				args[i] = reflect.New(t).Elem()
				if t.Kind() == reflect.Array && t.Elem().Kind() == reflect.Struct && t.Elem().NumField() == 1 && t.Elem().Field(0).Type.Kind() == reflect.Interface {
					args[i].Index(0).Field(0).Set(reflect.ValueOf([]int{1}))
				}
			}
			var annotated any = nject.Memoize(fn)
			if static {
				annotated = nject.MustCache(annotated)
			}
			c := nject.Sequence("ms", annotated, func(v T3) T3 { return v })
			if static {
				inv := reflect.New(reflect.FuncOf(nil, []reflect.Type{t3}, false))
				ini := reflect.New(reflect.FuncOf(ins, nil, false))
				if err := c.Bind(inv.Interface(), ini.Interface()); err != nil {
					return err
				}
				ini.Elem().Call(args)
				inv.Elem().Call(nil)
				inv.Elem().Call(nil)
				return nil
			}
			inv := reflect.New(reflect.FuncOf(ins, []reflect.Type{t3}, false))
			if err := c.Bind(inv.Interface(), nil); err != nil {
				return err
			}
			inv.Elem().Call(args)
			inv.Elem().Call(args)
			return nil
		}}
	}
	var out []probe
	for bi, b := range bad {
		for gi, g := range good {
			for oi, ins := range [][]reflect.Type{{b}, {b, g}, {g, b}, {g, b, g}} {
				if oi == 0 && gi > 0 {
					continue
				}
				for _, static := range []bool{false, true} {
					out = append(out, mk(fmt.Sprintf("Memoize shape bad%d good%d order%d static=%v", bi, gi, oi, static), ins, static))
				}
			}
		}
	}
	return out
}

// runProbes runs the probes from number `start` on.  After a probe that hangs the process is not to be trusted any more (the
// goroutine is still there, and whatever it holds -- a leaked lock, say -- would make every later probe hang as well): the
// verdicts so far are returned with a last line "resume <k>", and the driver starts a fresh process for the rest.
func runProbes(start int) []string {
	var out []string
	for k, p := range append(apiProbes(), memoShapeProbes()...) {
		if k < start {
			continue
		}
		var err error
		s := guarded(10*time.Second, func() { err = p.f() })
		if strings.HasPrefix(s, "hang") {
			out = append(out, fmt.Sprintf("probe %q %s", p.name, s), fmt.Sprintf("resume %d", k+1))
			return out
		}
		switch {
		case s != "":
			out = append(out, fmt.Sprintf("probe %q %s", p.name, s))
		case err != nil:
			out = append(out, fmt.Sprintf("probe %q error", p.name))
		default:
			out = append(out, fmt.Sprintf("probe %q accepted", p.name))
		}
	}
	return out
}

// genMalformed perturbs a generated chain into (mostly) unusable ones.
func genMalformed(rng *rand.Rand, n int, seed int64) *CaseDesc {
	pf := defaultProfile
	pf.PBadInput, pf.PAnnot, pf.PNonFinal = 0.25, 0.3, 0.15
	pf.PReorder, pf.PCluster, pf.PNamedEdit = 0.15, 0.15, 0.2
	c := genCase(rng, n, seed, pf)
	for _, p := range c.Provs {
		if chance(rng, 0.15) {
			p.Reorder = true
		}
		if chance(rng, 0.08) {
			p.Singleton, p.MustCache, p.Cacheable = true, true, true
		}
		if chance(rng, 0.08) {
			p.Memoize, p.Cacheable = true, true
		}
		if chance(rng, 0.08) {
			p.NotCacheable = true
		}
		if chance(rng, 0.06) {
			p.Name = []string{"A", "B"}[rng.Intn(2)]
		}
		if chance(rng, 0.06) {
			switch rng.Intn(3) {
			case 0:
				p.Replace = []string{"A", "B", "Z"}[rng.Intn(3)]
			case 1:
				p.Before = []string{"A", "B", "Z"}[rng.Intn(3)]
			case 2:
				p.After = []string{"A", "B", "Z"}[rng.Intn(3)]
			}
		}
		if chance(rng, 0.05) && len(p.Out) > 0 {
			p.ConsOpt = []int{p.Out[0]}
		}
		if chance(rng, 0.05) && len(p.Out) > 0 && p.Out[0] != cTE {
			p.MustConsume = []int{p.Out[0]}
		}
	}
	// clusters: adjacent runs
	if chance(rng, 0.3) && len(c.Provs) > 3 {
		i := rng.Intn(len(c.Provs) - 2)
		for k := i; k < i+2+rng.Intn(2) && k < len(c.Provs)-1; k++ {
			if c.Provs[k].Cluster == 0 { // never the number of a cluster genCase made: same number must mean same nject.Cluster
				c.Provs[k].Cluster = 3
			} else {
				break
			}
		}
	}
	normalizeClusters(c)
	switch rng.Intn(8) {
	case 0: // wrapper last
		last := c.Provs[len(c.Provs)-1]
		last.Kind, last.IIn, last.IOut, last.Calls = "wrap", nil, nil, 1
	case 1: // literal last
		last := c.Provs[len(c.Provs)-1]
		last.Kind, last.In, last.Out = "lit", nil, []int{pick(rng, []int{0, 1, 2})}
	case 2: // unreceived return
		c.InvOut = nil
	case 3: // invoke wants something nobody returns
		c.InvOut = append(c.InvOut, pick(rng, []int{3, 4}))
	}
	return c
}

var _ = reflect.TypeOf
