package main

// C19: a collection condensed into one provider and embedded in an outer chain, against the same
// collection bound directly; the flows Condense binds with against the model's.

import (
	"bufio"
	"fmt"
	"math/rand"
	"os"
	"reflect"
	"strings"
	"time"

	nject "github.com/muir/nject/v2"
)

type specFlows struct {
	none          bool
	in, out, true []int
}

func readSpecFlows(path string) (map[int]specFlows, error) {
	f, err := os.Open(path)
	if err != nil {
		return nil, err
	}
	defer f.Close()
	out := map[int]specFlows{}
	sc := bufio.NewScanner(f)
	sc.Buffer(make([]byte, 1<<20), 1<<24)
	for sc.Scan() {
		tk := strings.Fields(sc.Text())
		if len(tk) < 3 || tk[0] != "mflows" {
			continue
		}
		var n int
		fmt.Sscan(tk[1], &n)
		if tk[2] == "none" {
			out[n] = specFlows{none: true}
			continue
		}
		var s specFlows
		for _, t := range tk[2:] {
			kv := strings.SplitN(t, "=", 2)
			if len(kv) != 2 {
				continue
			}
			switch kv[0] {
			case "in":
				s.in = parseCodes(kv[1])
			case "out":
				s.out = parseCodes(kv[1])
			case "true":
				s.true = parseCodes(kv[1])
			}
		}
		out[n] = s
	}
	return out, sc.Err()
}

func parseCodes(s string) []int {
	if s == "-" || s == "" {
		return nil
	}
	var out []int
	for _, p := range strings.Split(s, ",") {
		var x int
		fmt.Sscan(p, &x)
		out = append(out, x)
	}
	return out
}

// genCondenseCase: a generated chain used as the collection to condense (its invoke arguments are
// what it leaves unresolved); no init function, no *Debugging parameters (Condense reroutes those).
func genCondenseCase(rng *rand.Rand, n int, seed int64) *CaseDesc {
	pf := defaultProfile
	pf.PInit, pf.PBadInput, pf.PUnused = 0, 0.02, 0.02
	c := genCase(rng, n, seed, pf)
	c.HasInit, c.InitIn, c.InitOut = false, nil, nil
	// one case in five keeps its *Debugging parameters (Condense then pipes the outer chain's Debugging in under a
	// private type and returns a two-member Sequence); decided from the seed alone, the random stream is as before
	keepDebug := uint64(seed)%5 == 2
	for _, p := range c.Provs {
		if !keepDebug {
			p.In = remove(p.In, cDebug)
		}
		p.NonFinal = false
	}
	if keepDebug && len(c.Provs) > 0 {
		p := c.Provs[int(uint64(seed)/5)%len(c.Provs)]
		if p.Kind != "lit" && !contains(p.In, cDebug) {
			p.In = append(p.In, cDebug)
		}
	}
	return c
}

// *Debugging is supplied by Bind itself: it is reported as an input, nobody has to supply it
func stripDebug(cs []int) []int {
	var out []int
	for _, c := range cs {
		if c != cDebug {
			out = append(out, c)
		}
	}
	return out
}

func special(cs []int) bool {
	for _, c := range cs {
		if c == cUnus || c == cDebug || c == cNoTy || c == cOther {
			return true
		}
	}
	return false
}

func condenseArgs(types []int) []Val {
	out := make([]Val, len(types))
	for p, t := range types {
		out[p] = Val{dynCode(t), uint64(70000000 + p + 1)}
	}
	return out
}

func traceOf(lines []string) []string {
	var out []string
	for _, l := range lines {
		if strings.HasPrefix(l, "t ") {
			out = append(out, l)
		}
	}
	return out
}

// bindDirect binds the collection of c to func(ins) outs and calls it once.
func bindDirect(c *CaseDesc, ins, outs []int, call bool) (verdict string, trace []string, ret []Val) {
	r := &caseRun{c: c.clone()}
	var coll *nject.Collection
	if s := guarded(5*time.Second, func() { coll = r.buildCollection("c") }); s != "" {
		return s, nil, nil
	}
	for _, p := range c.Provs {
		if contains(p.In, cDebug) {
			// Condense puts a consumer of *Debugging in front of such a collection (it hands the outer chain's Debugging
			// over): the Debugging provider cannot be pruned there, taking its other consumers with it.  The direct twin
			// gets the same kind of consumer.
			coll = nject.Sequence("c", func(*nject.Debugging) {}, coll)
			break
		}
	}
	invPtr := reflect.New(reflect.FuncOf(typesOf(ins), typesOf(outs), false))
	var err error
	if s := guarded(10*time.Second, func() { err = coll.Bind(invPtr.Interface(), nil) }); s != "" {
		return s, nil, nil
	}
	if err != nil {
		return "err:" + errClass(err), nil, nil
	}
	if !call {
		return "ok", nil, nil
	}
	var res []reflect.Value
	if s := guarded(10*time.Second, func() { res = invPtr.Elem().Call(mkValues(ins, condenseArgs(ins))) }); s != "" {
		return "ok", append(traceOf(r.lines), "t "+s), nil
	}
	return "ok", traceOf(r.lines), readVals(typesOf(outs), res)
}

func runCondenseCase(c *CaseDesc, rng *rand.Rand, spec specFlows, have bool) []string {
	out := []string{fmt.Sprintf("case %d seed=%d", c.N, c.Seed)}
	for _, p := range c.Provs {
		out = append(out, p.Line())
	}
	out = append(out, "cflows")
	if !have {
		return out
	}
	tet := rng.Intn(2) == 0
	// --- condense
	r := &caseRun{c: c.clone()}
	var coll *nject.Collection
	if s := guarded(5*time.Second, func() { coll = r.buildCollection("c") }); s != "" {
		return append(out, fmt.Sprintf("condense %d tet=%d result=%s(construct)", c.N, b2i(tet), s))
	}
	var p nject.Provider
	var err error
	s := guarded(10*time.Second, func() { p, err = coll.Condense(tet) })
	verdict := "ok"
	switch {
	case s != "":
		verdict = strings.ReplaceAll(s, " ", "_")
	case err != nil:
		verdict = "err:" + errClass(err)
	}
	var ins, outs []int
	if verdict == "ok" {
		// with a *Debugging consumer inside, Condense returns a Sequence: a carrier for the outer chain's *Debugging and the
		// condensed provider proper, which asks for that carrier where the collection asks for *Debugging
		fp := p
		if col, ok := p.(*nject.Collection); ok {
			col.ForEachProvider(func(q nject.Provider) { fp = q })
		}
		it, ot := fp.DownFlows()
		for _, t := range it {
			if t.String() == "*nject.bypassDebug" {
				ins = append(ins, cDebug)
			} else {
				ins = append(ins, codeOf(t))
			}
		}
		outs = codesOf(ot)
		// a provider's DownFlows leaves out a TerminalError result: it shows as an error in UpFlows
		if _, up := fp.UpFlows(); len(up) > 0 {
			outs = append(outs, cTE)
		}
	}
	line := fmt.Sprintf("condense %d tet=%d result=%s in=%s out=%s", c.N, b2i(tet), verdict, fmtCodes(ins), fmtCodes(outs))
	if err != nil {
		line += " msg=" + strings.ReplaceAll(oneLine(err.Error()), " ", "_")
	}
	out = append(out, line)
	// --- does the collection bind directly, given what the specification says it leaves unresolved / returns?
	if !spec.none && !special(stripDebug(spec.in)) && !special(spec.true) {
		v, _, _ := bindDirect(c, stripDebug(spec.in), spec.true, false)
		out = append(out, fmt.Sprintf("directspec %d result=%s in=%s out=%s", c.N, v, fmtCodes(spec.in), fmtCodes(spec.true)))
	} else {
		out = append(out, fmt.Sprintf("directspec %d result=skip", c.N))
	}
	if verdict != "ok" {
		return out
	}
	ins = stripDebug(ins)
	if special(ins) || special(outs) {
		return append(out, fmt.Sprintf("cpair %d skip special-types", c.N))
	}
	// --- direct: the flows Condense used, error results as plain error
	douts := make([]int, len(outs))
	for i, t := range outs {
		douts[i] = t
		if t == cTE {
			douts[i] = cError
		}
	}
	dv, dtrace, dret := bindDirect(c, ins, douts, true)
	out = append(out, fmt.Sprintf("direct %d result=%s ret=%s", c.N, dv, fmtVals(dret)))
	// --- embedded: supplier of the inputs, the condensed provider, a final function receiving the outputs
	args := condenseArgs(ins)
	supplier := reflect.MakeFunc(reflect.FuncOf(nil, typesOf(ins), false), func([]reflect.Value) []reflect.Value {
		return mkValues(ins, args)
	}).Interface()
	hasTE := indexOf(outs, cTE) >= 0
	var finIn []int
	for _, t := range outs {
		if t != cTE {
			finIn = append(finIn, t)
		}
	}
	var got []Val
	finCalled := false
	var finOut, invOut []int
	if hasTE {
		finOut, invOut = []int{cError}, []int{cError}
	}
	final := reflect.MakeFunc(reflect.FuncOf(typesOf(finIn), typesOf(finOut), false), func(in []reflect.Value) []reflect.Value {
		finCalled = true
		got = readVals(typesOf(finIn), in)
		if hasTE {
			return mkValues(finOut, []Val{{cTE, 0}})
		}
		return nil
	}).Interface()
	items := []any{}
	if len(ins) > 0 {
		items = append(items, supplier)
	}
	items = append(items, nject.Required(p), final)
	invPtr := reflect.New(reflect.FuncOf(nil, typesOf(invOut), false))
	var berr error
	if s := guarded(10*time.Second, func() { berr = nject.Sequence("outer", items...).Bind(invPtr.Interface(), nil) }); s != "" {
		return append(out, fmt.Sprintf("embedded %d result=%s", c.N, strings.ReplaceAll(s, " ", "_")), fmt.Sprintf("cpair %d diff embedded-bind-%s", c.N, strings.ReplaceAll(s, " ", "_")))
	}
	if berr != nil {
		return append(out, fmt.Sprintf("embedded %d result=err:%s msg=%s", c.N, errClass(berr), strings.ReplaceAll(oneLine(berr.Error()), " ", "_")),
			fmt.Sprintf("cpair %d diff embedded-bind-error", c.N))
	}
	var res []reflect.Value
	if s := guarded(10*time.Second, func() { res = invPtr.Elem().Call(nil) }); s != "" {
		return append(out, fmt.Sprintf("embedded %d result=%s", c.N, strings.ReplaceAll(s, " ", "_")), fmt.Sprintf("cpair %d diff embedded-call-%s", c.N, strings.ReplaceAll(s, " ", "_")))
	}
	etrace := traceOf(r.lines)
	// what the surroundings saw, in the order of outs
	var eret []Val
	gi := 0
	for _, t := range outs {
		if t == cTE {
			eret = append(eret, readVals(typesOf(invOut), res)[0])
			continue
		}
		if finCalled {
			eret = append(eret, got[gi])
		} else {
			eret = append(eret, Val{-2, 0}) // never delivered: the chain stopped
		}
		gi++
	}
	out = append(out, fmt.Sprintf("embedded %d result=ok final=%d ret=%s", c.N, b2i(finCalled), fmtVals(eret)))
	// --- compare
	diff := ""
	if dv != "ok" {
		diff = "direct-bind-" + dv
	} else if strings.Join(dtrace, "\n") != strings.Join(etrace, "\n") {
		diff = "trace"
		for i := 0; i < len(dtrace) || i < len(etrace); i++ {
			a, b := "<none>", "<none>"
			if i < len(dtrace) {
				a = dtrace[i]
			}
			if i < len(etrace) {
				b = etrace[i]
			}
			if a != b {
				diff = fmt.Sprintf("trace-event-%d:%s|vs|%s", i, strings.ReplaceAll(a, " ", "_"), strings.ReplaceAll(b, " ", "_"))
				break
			}
		}
	} else {
		// returned values: with a terminal error that is non-nil only the error is delivered
		stopped := false
		for i, t := range outs {
			if t == cTE && i < len(dret) && dret[i].Tag != 0 {
				stopped = true
			}
		}
		for i := range outs {
			if i >= len(dret) || i >= len(eret) {
				diff = "ret-length"
				break
			}
			if stopped && outs[i] != cTE {
				if eret[i].Ty != -2 {
					diff = fmt.Sprintf("delivered-after-terminal-error-%d", i)
				}
				continue
			}
			a, b := dret[i], eret[i]
			if a.Tag != b.Tag || (a.Tag != 0 && a.Ty != b.Ty) {
				diff = fmt.Sprintf("ret-%d:%s|vs|%s", i, fmtVals([]Val{a}), fmtVals([]Val{b}))
			}
		}
	}
	if diff == "" {
		out = append(out, fmt.Sprintf("cpair %d same events=%d", c.N, len(dtrace)))
	} else {
		out = append(out, fmt.Sprintf("cpair %d diff %s", c.N, diff))
		for _, l := range dtrace {
			out = append(out, "d"+l)
		}
		for _, l := range etrace {
			out = append(out, "e"+l)
		}
	}
	return out
}
