package main

// C20: MakeStructBuilder(..., WithMethodCall("M")) against its twin: the plain builder followed by an ordinary
// provider that calls the method on the built struct.  The method may be an injector, a wrapper or the final function;
// post-actions run before it.

import (
	"fmt"
	"os"
	"strings"
	"time"

	nject "github.com/muir/nject/v2"
)

type mcLog struct{ events []string }

func (l *mcLog) add(format string, a ...any) { l.events = append(l.events, fmt.Sprintf(format, a...)) }

// the log of the scenario that is running (methods have no other way to reach it: the builder does not set unexported fields)
var mcCur *mcLog

type mcS struct {
	A   T0 `nject:"whole"`
	B   T1 `nject:"-"`
	C   T2 `nject:"whole"`
	log *mcLog
}

// injector-shaped method on the pointer
func (s *mcS) Setup(x T3) T4 {
	mcCur.add("method Setup")
	return T4{Tag: s.A.Tag*1000 + s.C.Tag*10 + x.Tag}
}

// injector-shaped method on the value
func (s mcS) Describe(x T3) T5 {
	mcCur.add("method Describe")
	return T5{Tag: s.A.Tag + s.C.Tag + x.Tag}
}

// wrapper-shaped method
func (s *mcS) Around(inner func(T4) T6, x T3) T6 {
	r := inner(T4{Tag: s.A.Tag + x.Tag})
	return T6{Tag: r.Tag + 1}
}

// final-shaped method (nothing after it)
func (s *mcS) Finish(x T3) T7 {
	mcCur.add("method Finish")
	return T7{Tag: s.A.Tag*7 + x.Tag}
}

type mcScenario struct {
	name   string
	ptr    bool
	method string
	// twin: the method call written out as an ordinary provider
	twin func() any
	// what follows the builder in the chain (both variants) and the invoke signature
	rest   func(log *mcLog) []any
	invoke func(c *nject.Collection, log *mcLog) (string, error)
}

func mcScenarios() []mcScenario {
	values := func() []any { return []any{T0{Tag: 3}, T2{Tag: 5}, T3{Tag: 7}} }
	_ = values
	run4 := func(c *nject.Collection, log *mcLog) (string, error) {
		var inv func() T4
		if err := c.Bind(&inv, nil); err != nil {
			return "", err
		}
		a, b := inv(), inv()
		return fmt.Sprintf("%d,%d", a.Tag, b.Tag), nil
	}
	return []mcScenario{
		{"injector-on-pointer", true, "Setup",
			func() any { return func(s *mcS, x T3) T4 { return s.Setup(x) } },
			func(log *mcLog) []any {
				return []any{func(v T4, s *mcS) T4 { log.add("final %d A=%d", v.Tag, s.A.Tag); return v }}
			},
			run4},
		{"injector-on-value-model", false, "Describe",
			func() any { return func(s mcS, x T3) T5 { return s.Describe(x) } },
			func(log *mcLog) []any {
				return []any{func(v T5, s mcS) T4 { log.add("final %d", v.Tag); return T4{Tag: v.Tag} }}
			},
			run4},
		{"final-method", true, "Finish",
			func() any { return func(s *mcS, x T3) T7 { return s.Finish(x) } },
			func(log *mcLog) []any { return nil },
			func(c *nject.Collection, log *mcLog) (string, error) {
				var inv func() T7
				if err := c.Bind(&inv, nil); err != nil {
					return "", err
				}
				return fmt.Sprintf("%d", inv().Tag), nil
			}},
	}
}

func runMethodCall() []string {
	var out []string
	for _, sc := range mcScenarios() {
		for _, withPost := range []bool{false, true} {
			name := sc.name
			if withPost {
				name += "+postaction"
			}
			results := [2]string{}
			for variant := 0; variant < 2; variant++ {
				log := &mcLog{}
				mcCur = log
				var model any
				if sc.ptr {
					model = &mcS{}
				} else {
					model = mcS{}
				}
				var opts []nject.FillerFuncArg
				if withPost {
					opts = append(opts, nject.PostActionByType(func(p *T2) { log.add("post C=%d", p.Tag) }, nject.WithFill(true)))
				}
				items := []any{T0{Tag: 3}, T2{Tag: 5}, T3{Tag: 7}}
				var res string
				var err error
				s := guarded(10*time.Second, func() {
					var b nject.Provider
					if variant == 0 {
						b, err = nject.MakeStructBuilder(model, append(opts, nject.WithMethodCall(sc.method))...)
						if err != nil {
							return
						}
						items = append(items, b)
					} else {
						b, err = nject.MakeStructBuilder(model, opts...)
						if err != nil {
							return
						}
						items = append(items, b, sc.twin())
					}
					items = append(items, sc.rest(log)...)
					res, err = sc.invoke(nject.Sequence("mc", items...), log)
				})
				switch {
				case s != "":
					results[variant] = s
				case err != nil:
					results[variant] = "error"
					if os.Getenv("MC_ERR") != "" {
						fmt.Println(name, variant, err)
					}
				default:
					results[variant] = res + " log=" + strings.ReplaceAll(strings.Join(log.events, ";"), " ", "_")
				}
			}
			// documented: post-actions run before the method call
			if withPost && strings.Contains(results[0], "post_") && strings.Index(results[0], "method_") < strings.Index(results[0], "post_") {
				results[0] += " ORDER:method-before-post-action"
			}
			if results[0] == results[1] && results[0] != "error" && !strings.HasPrefix(results[0], "panic") && !strings.Contains(results[0], "ORDER:") {
				out = append(out, fmt.Sprintf("mcall %s same %s", name, strings.ReplaceAll(results[0], " ", "_")))
			} else {
				out = append(out, fmt.Sprintf("mcall %s diff withMethodCall=%s twin=%s", name, strings.ReplaceAll(results[0], " ", "_"), strings.ReplaceAll(results[1], " ", "_")))
			}
		}
	}
	return out
}
