package main

import (
	"fmt"
	"os"
	"reflect"
	"runtime/debug"
	"sort"
	"strconv"
	"strings"
	"time"

	nject "github.com/muir/nject/v2"
)

// guarded runs f under recover with a watchdog; returns "", "panic: ..." or "hang".
func guarded(timeout time.Duration, f func()) string {
	done := make(chan string, 1)
	go func() {
		defer func() {
			if x := recover(); x != nil {
				if os.Getenv("VERIF_STACK") != "" {
					fmt.Fprintf(os.Stderr, "%v\n%s\n", x, debug.Stack())
				}
				done <- "panic: " + oneLine(fmt.Sprint(x))
			}
		}()
		f()
		done <- ""
	}()
	select {
	case s := <-done:
		return s
	case <-time.After(timeout):
		return "hang"
	}
}

func oneLine(s string) string {
	s = strings.ReplaceAll(s, "\n", " ")
	if len(s) > 160 {
		s = s[:160]
	}
	return s
}

// clipReason shortens the reason a provider cannot be included but keeps the marker the comparisons look for (the
// provider's printed signature comes first and can be long)
func clipReason(s string) string {
	c := oneLine(s)
	if strings.Contains(s, "dependencies not met") && !strings.Contains(c, "dependencies not met") {
		c += " ... dependencies not met"
	}
	return c
}

// errClass maps a Bind error to a small enum keyed on the producing site.
func errClass(err error) string {
	if err == nil {
		return "ok"
	}
	s := err.Error()
	switch {
	case strings.Contains(s, "can have only one of the ReplaceName"):
		return "E_EDIT_TWO_TAGS"
	case strings.Contains(s, "because that is its own name"):
		return "E_EDIT_SELF"
	case strings.Contains(s, "not in chain"):
		return "E_EDIT_MISSING"
	case strings.Contains(s, "duplicated in chain"):
		return "E_EDIT_DUP"
	case strings.Contains(s, "infinite loop doing replacements"):
		return "E_EDIT_LOOP"
	case strings.Contains(s, "internal error"):
		return "E_INTERNAL"
	case strings.Contains(s, "Could not match type"):
		return "E_CLASSIFY"
	case strings.Contains(s, "required but"), strings.Contains(s, "is required and excluded"):
		return "E_REQUIRED"
	case strings.Contains(s, "wanted but"):
		return "E_WANTED"
	case strings.Contains(s, "use AllowReturnShadowing"):
		return "E_SHADOW"
	case strings.Contains(s, "Type required by init func"):
		return "E_INIT_TYPE"
	case strings.Contains(s, "cannot create useful zero value"):
		return "E_ZERO"
	case strings.Contains(s, "cannot turn Collection into a function"), strings.Contains(s, "multiple versions of nject"):
		return "E_FATAL"
	}
	return "E_OTHER"
}

func fmtRmap(r *caseRun, m [][2]reflect.Type) string {
	if len(m) == 0 {
		return "-"
	}
	parts := make([]string, len(m))
	for i, kv := range m {
		parts[i] = fmt.Sprintf("%d>%d", codeOf(kv[0]), codeOf(kv[1]))
	}
	sort.Strings(parts)
	return strings.Join(parts, ",")
}

func fmtVmap(m map[reflect.Type]int) string {
	if len(m) == 0 {
		return "-"
	}
	parts := make([]string, 0, len(m))
	for t, i := range m {
		parts = append(parts, fmt.Sprintf("%d:%d", codeOf(t), i))
	}
	sort.Strings(parts)
	return strings.Join(parts, ",")
}

func terminalIdx(ts []reflect.Type) int {
	for i, t := range ts {
		if t == tTE {
			return i
		}
	}
	return 0
}

func (r *caseRun) provOf(idx int) *ProvDesc {
	for _, p := range r.c.Provs {
		if p.Idx == idx {
			return p
		}
	}
	return nil
}

func (r *caseRun) dumpLines(d nject.VerifDump) {
	r.logf("dump %s real=%d vcount=%d invokeIndex=%d hasinit=%d n=%d", d.Stage, b2i(d.Real), d.VCount, d.InvokeIndex, b2i(d.HasInit), len(d.Funcs))
	byID := map[int32]int{}
	for _, f := range d.Funcs {
		byID[f.ID] = r.idxOf(f)
	}
	depList := func(ids []int32) string {
		if len(ids) == 0 {
			return "-"
		}
		out := make([]string, len(ids))
		for i, id := range ids {
			if x, ok := byID[id]; ok {
				out[i] = strconv.Itoa(x)
			} else {
				out[i] = "?"
			}
		}
		return strings.Join(out, ",")
	}
	detail := func(ds []nject.VerifDep) string {
		if len(ds) == 0 {
			return "-"
		}
		type ent struct {
			flow, ty int
			s        string
		}
		var es []ent
		for _, e := range ds {
			c := codesOf([]reflect.Type{e.Type})
			ty := -1
			if len(c) == 1 {
				ty = c[0]
			}
			es = append(es, ent{e.Flow, ty, fmt.Sprintf("%d/%d>%s", e.Flow, ty, depList(e.IDs))})
		}
		sort.Slice(es, func(i, j int) bool {
			if es[i].flow != es[j].flow {
				return es[i].flow < es[j].flow
			}
			return es[i].ty < es[j].ty
		})
		out := make([]string, len(es))
		for i, e := range es {
			out[i] = e.s
		}
		return strings.Join(out, ";")
	}
	for pos, f := range d.Funcs {
		idx := r.idxOf(f)
		ei := 0
		if p := r.provOf(idx); p != nil {
			ei = indexOf(p.Out, cTE)
			if ei < 0 {
				ei = 0
			}
		}
		var flags []string
		add := func(b bool, s string) {
			if b {
				flags = append(flags, s)
			}
		}
		add(f.Memoized, "memoized")
		add(f.Parallel, "parallel")
		add(f.Singleton, "singleton")
		add(f.Required, "required")
		add(f.Desired, "desired")
		add(f.Shun, "shun")
		add(f.Reorder, "reorder")
		add(f.Wanted, "wanted")
		add(f.Synthetic, "synthetic")
		fl := "-"
		if len(flags) > 0 {
			fl = strings.Join(flags, ",")
		}
		r.logf("f %d id=%d class=%s group=%s inc=%d ret=%s out=%s in=%s recv=%s byp=%s drm=%s urm=%s brm=%s zs=%s zi=%s ei=%d flags=%s uses=%s usedby=%s ud=%s ubd=%s origin=%s index=%d why=%s",
			pos, idx, f.Class, f.Group, b2i(f.Include),
			fmtCodes(codesOf(f.Flows[0])), fmtCodes(codesOf(f.Flows[1])), fmtCodes(codesOf(f.Flows[2])),
			fmtCodes(codesOf(f.Flows[3])), fmtCodes(codesOf(f.Flows[4])),
			fmtRmap(r, f.DownRmap), fmtRmap(r, f.UpRmap), fmtRmap(r, f.BypassRmap),
			fmtCodes(sortedCodes(f.MustZeroSkipped)), fmtCodes(sortedCodes(f.MustZeroInner)), ei, fl, depList(f.Uses), depList(f.UsedBy), detail(f.UsesDetail), detail(f.UsedByDetail),
			strings.ReplaceAll(orDash(f.Origin), " ", "_"), f.Index, strings.ReplaceAll(orDash(oneLine(f.WhyIncluded)+"|"+clipReason(f.CannotInclude)), " ", "_"))
	}
	if d.Stage == "S7" {
		r.logf("dv %s", fmtVmap(d.DownVmap))
		r.logf("uv %s", fmtVmap(d.UpVmap))
	}
}

func sortedCodes(ts []reflect.Type) []int {
	cs := codesOf(ts)
	sort.Ints(cs)
	return cs
}

func opArgs(o int, types []int) []Val {
	out := make([]Val, len(types))
	for p, t := range types {
		switch t {
		case cUnus:
			out[p] = Val{cUnus, 0}
		case cDebug:
			out[p] = Val{cDebug, 0}
		default:
			out[p] = Val{dynCode(t), uint64(90000000 + o*100 + p + 1)}
		}
	}
	return out
}

// runCase binds the described chain with the real nject and performs the ops; returns the record lines.
func runCase(c *CaseDesc) []string {
	return runCaseWith(c, func(r *caseRun) *nject.Collection { return r.buildCollection("c") })
}

// afterBindHook, when set, is called with the collection after a successful Bind and before the bound functions are
// used (the harness runs one case at a time)
var afterBindHook func(*nject.Collection)

func runCaseWith(c *CaseDesc, build func(*caseRun) *nject.Collection) []string {
	r := &caseRun{c: c}
	for _, l := range c.HeaderLines() {
		r.lines = append(r.lines, l)
	}
	var coll *nject.Collection
	if s := guarded(5*time.Second, func() { coll = build(r) }); s != "" {
		r.logf("bind %s (construct)", s)
		r.logf("end")
		return r.lines
	}
	{
		// the list as nject sees it before the named edits (S1 input for the model)
		names := map[string]int{"": 0}
		code := func(s string) int {
			if n, ok := names[s]; ok {
				return n
			}
			names[s] = len(names)
			return names[s]
		}
		for _, vp := range nject.VerifContents(coll) {
			idx := r.idxOf(vp)
			gen, inf := 0, 0
			if q := r.c.provOf(idx); q != nil && r.isGenerator(vp.ID, idx) {
				gen, inf = 1, b2i(q.NonFinal)
			}
			r.logf("e %d origin=%d rep=%d bef=%d aft=%d nf=%d gen=%d inf=%d", idx, code(vp.Origin), code(vp.ReplaceByName),
				code(vp.InsertBeforeName), code(vp.InsertAfterName), b2i(vp.NonFinal), gen, inf)
		}
	}
	invT := reflect.FuncOf(typesOf(c.InvIn), typesOf(c.InvOut), false)
	invPtr := reflect.New(invT)
	var initPtr reflect.Value
	var initArg any
	if c.HasInit {
		initPtr = reflect.New(reflect.FuncOf(typesOf(c.InitIn), typesOf(c.InitOut), false))
		initArg = initPtr.Interface()
	}
	nject.SetVerifHooks(func(d nject.VerifDump) {
		if d.Real {
			r.dumps = append(r.dumps, d)
		}
	}, nil)
	var err error
	s := guarded(10*time.Second, func() { err = coll.Bind(invPtr.Interface(), initArg) })
	nject.SetVerifHooks(nil, nil)
	for _, d := range r.dumps {
		r.dumpLines(d)
	}
	if s != "" {
		r.logf("bind %s", s)
		r.logf("end")
		return r.lines
	}
	if err != nil {
		r.logf("bind err %s %s", errClass(err), oneLine(err.Error()))
		if !invPtr.Elem().IsNil() || (c.HasInit && !initPtr.Elem().IsNil()) {
			r.logf("t partialbind")
		}
		r.logf("end")
		return r.lines
	}
	r.logf("bind ok")
	if afterBindHook != nil {
		afterBindHook(coll)
	}
	for o, op := range c.Ops {
		var fn reflect.Value
		var inC, outC []int
		if op.Kind == "init" {
			if !c.HasInit {
				continue
			}
			fn, inC, outC = initPtr.Elem(), c.InitIn, c.InitOut
		} else {
			fn, inC, outC = invPtr.Elem(), c.InvIn, c.InvOut
		}
		args := opArgs(o, inC)
		r.logf("op %s %s", op.Kind, fmtVals(args))
		var res []reflect.Value
		s := guarded(10*time.Second, func() { res = fn.Call(mkValues(inC, args)) })
		if s != "" {
			r.logf("t %s", s)
			break
		}
		r.logf("t ret %s", fmtVals(readVals(typesOf(outC), res)))
	}
	if afterOpsHook != nil {
		afterOpsHook(r, coll, invT)
	}
	r.logf("end")
	return r.lines
}

// afterOpsHook, when set, is called after the ops of a case that bound, with the collection and the invoke type
var afterOpsHook func(r *caseRun, coll *nject.Collection, invT reflect.Type)

// secondBindWithInit binds the SAME collection object a second time, now with an (argument-less) init function: a
// different chain (it has an init function), whose own Debugging value must describe it.  Logs "second bind", the
// dumps of that bind, and whatever the bodies log while init and one invocation run.
func secondBindWithInit(r *caseRun, coll *nject.Collection, invT reflect.Type) {
	if r.c.HasInit {
		return
	}
	r.logf("second bind")
	invPtr := reflect.New(invT)
	var ini func()
	var dumps []nject.VerifDump
	nject.SetVerifHooks(func(d nject.VerifDump) {
		if d.Real {
			dumps = append(dumps, d)
		}
	}, nil)
	var err error
	s := guarded(10*time.Second, func() { err = coll.Bind(invPtr.Interface(), &ini) })
	nject.SetVerifHooks(nil, nil)
	if s != "" || err != nil {
		r.logf("second bind failed")
		return
	}
	for _, d := range dumps {
		r.dumpLines(d)
	}
	if s := guarded(10*time.Second, func() {
		ini()
		invPtr.Elem().Call(mkValues(r.c.InvIn, opArgs(0, r.c.InvIn)))
	}); s != "" {
		r.logf("second bind run %s", s)
	}
}

// runEditPair runs a case with named edits and then the same providers written by hand in the
// order the implementation's S1 stage produced, without directives; both must behave identically.
func runEditPair(c *CaseDesc) []string {
	lines := runCase(c)
	var order []int
	inS1 := false
	for _, l := range lines {
		if strings.HasPrefix(l, "dump ") {
			inS1 = strings.HasPrefix(l, "dump S1 ")
			continue
		}
		if inS1 && strings.HasPrefix(l, "f ") {
			var pos, id int
			fmt.Sscanf(l, "f %d id=%d", &pos, &id)
			order = append(order, id)
		}
	}
	if len(order) == 0 {
		return lines
	}
	c2 := c.clone()
	c2.Provs = nil
	for _, id := range order {
		q := c.provOf(id).clone()
		q.Replace, q.Before, q.After = "", "", ""
		q.Gen, q.GenNF = false, false // the hand-written twin lists the providers themselves
		c2.Provs = append(c2.Provs, q)
	}
	l2 := runCase(c2)
	pick := func(ls []string) []string {
		var out []string
		for _, l := range ls {
			if strings.HasPrefix(l, "t ") {
				out = append(out, l)
			}
			if strings.HasPrefix(l, "bind ") {
				f := strings.Fields(l)
				if len(f) > 3 {
					f = f[:3]
				}
				out = append(out, strings.Join(f, " "))
			}
		}
		return out
	}
	a, b := pick(lines), pick(l2)
	verdict := "pair same"
	if strings.Join(a, "\n") != strings.Join(b, "\n") {
		verdict = "pair diff"
	}
	// insert the verdict before the final "end"
	out := append([]string{}, lines[:len(lines)-1]...)
	out = append(out, verdict)
	if verdict == "pair diff" {
		for _, l := range b {
			out = append(out, "t2 "+l)
		}
	}
	return append(out, "end")
}

func (c *CaseDesc) provOf(idx int) *ProvDesc {
	for _, p := range c.Provs {
		if p.Idx == idx {
			return p
		}
	}
	return nil
}
