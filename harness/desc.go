package main

import (
	"fmt"
	"sort"
	"strings"
)

// ProvDesc describes one user-supplied provider.
type ProvDesc struct {
	Idx  int
	Kind string // lit | inj | wrap
	In   []int  // parameter types (wrapper: without inner)
	Out  []int  // result types
	IIn  []int  // wrapper: inner's parameter types
	IOut []int  // wrapper: inner's result types

	// annotations
	Required, Desired, Shun, Cacheable, MustCache, NotCacheable, Memoize, Singleton bool
	NonFinal, Reorder, Parallel                                                     bool
	Loose, MustConsume, ConsOpt, ShadowOK                                           []int
	Name                                                                            string
	Cluster                                                                         int // 0 = none, else group number within the case
	Replace, Before, After                                                          string
	Refl                                                                            bool // supplied through the Reflective interfaces
	// supplied through GenerateFromInjectionChain: the generator (marked NonFinal iff GenNF, carrying the name and the named-edit
	// directives) is listed, and replaces itself by the provider described here
	Gen, GenNF bool

	// behaviour script
	FailMask uint // fallible: TerminalError non-nil on call k iff bit (k%8) is set
	Calls    int  // wrapper: number of inner() calls
	Pass     bool // wrapper: return what the last inner() call returned (per type) instead of fresh values

	calls int // run-time: how often the body was entered
}

type Op struct {
	Kind string // init | invoke
	Args []Val
}

type CaseDesc struct {
	N        int
	Seed     int64
	Provs    []*ProvDesc
	InvIn    []int
	InvOut   []int
	HasInit  bool
	InitIn   []int
	InitOut  []int
	Ops      []Op
	Shape    string // how the provider list is grouped into collections: "flat" or a bracket string
	Note     string
	Expected string // generator's expectation, informational
}

func (p *ProvDesc) annString() string {
	var a []string
	add := func(b bool, s string) {
		if b {
			a = append(a, s)
		}
	}
	add(p.Required, "required")
	add(p.Desired, "desired")
	add(p.Shun, "shun")
	add(p.Cacheable, "cacheable")
	add(p.MustCache, "mustcache")
	add(p.NotCacheable, "notcacheable")
	add(p.Memoize, "memoize")
	add(p.Singleton, "singleton")
	add(p.NonFinal, "nonfinal")
	add(p.Reorder, "reorder")
	add(p.Parallel, "parallel")
	add(p.Refl, "refl")
	add(p.Gen, "gen")
	add(p.GenNF, "gennf")
	if len(a) == 0 {
		return "-"
	}
	return strings.Join(a, ",")
}

func orDash(s string) string {
	if s == "" {
		return "-"
	}
	return s
}

func (p *ProvDesc) Line() string {
	return fmt.Sprintf("p %d kind=%s in=%s out=%s iin=%s iout=%s ann=%s loose=%s mc=%s co=%s sh=%s name=%s cluster=%d replace=%s before=%s after=%s fail=%d calls=%d pass=%d",
		p.Idx, p.Kind, fmtCodes(p.In), fmtCodes(p.Out), fmtCodes(p.IIn), fmtCodes(p.IOut), p.annString(),
		fmtCodes(p.Loose), fmtCodes(p.MustConsume), fmtCodes(p.ConsOpt), fmtCodes(p.ShadowOK),
		orDash(p.Name), p.Cluster, orDash(p.Replace), orDash(p.Before), orDash(p.After),
		p.FailMask, p.Calls, b2i(p.Pass))
}

func b2i(b bool) int {
	if b {
		return 1
	}
	return 0
}

func (c *CaseDesc) HeaderLines() []string {
	out := []string{fmt.Sprintf("case %d seed=%d shape=%s note=%s", c.N, c.Seed, orDash(c.Shape), orDash(c.Note))}
	for _, p := range c.Provs {
		out = append(out, p.Line())
	}
	out = append(out, fmt.Sprintf("invoke in=%s out=%s", fmtCodes(c.InvIn), fmtCodes(c.InvOut)))
	if c.HasInit {
		out = append(out, fmt.Sprintf("init in=%s out=%s", fmtCodes(c.InitIn), fmtCodes(c.InitOut)))
	} else {
		out = append(out, "init none")
	}
	return out
}

func sortedInts(m map[int]bool) []int {
	out := make([]int, 0, len(m))
	for k := range m {
		out = append(out, k)
	}
	sort.Ints(out)
	return out
}

func cloneInts(a []int) []int { return append([]int(nil), a...) }

func (p *ProvDesc) clone() *ProvDesc {
	q := *p
	q.In, q.Out, q.IIn, q.IOut = cloneInts(p.In), cloneInts(p.Out), cloneInts(p.IIn), cloneInts(p.IOut)
	q.Loose, q.MustConsume, q.ConsOpt, q.ShadowOK = cloneInts(p.Loose), cloneInts(p.MustConsume), cloneInts(p.ConsOpt), cloneInts(p.ShadowOK)
	q.calls = 0
	return &q
}

func (c *CaseDesc) clone() *CaseDesc {
	d := *c
	d.Provs = make([]*ProvDesc, len(c.Provs))
	for i, p := range c.Provs {
		d.Provs[i] = p.clone()
	}
	d.InvIn, d.InvOut, d.InitIn, d.InitOut = cloneInts(c.InvIn), cloneInts(c.InvOut), cloneInts(c.InitIn), cloneInts(c.InitOut)
	d.Ops = append([]Op(nil), c.Ops...)
	return &d
}
