package main

import (
	"fmt"
	"reflect"
	"sort"
	"strconv"
	"strings"

	nject "github.com/muir/nject/v2"
)

const (
	idDebug     = 900
	idUnusedIn  = 901
	idUnusedRet = 902
	idInvoke    = 990
	idInit      = 991
)

func freshTag(idx, k, j, p int) uint64 {
	return uint64((idx+1)*100000 + (k+1)*100 + j*10 + p + 1)
}

func litVal(p *ProvDesc) Val { return Val{p.Out[0], freshTag(p.Idx, 0, 0, 0)} }

type caseRun struct {
	c     *CaseDesc
	lines []string
	idOf  map[int32]int
	genID map[int32]int // ids of the providers that generators replace themselves by
	dumps []nject.VerifDump
	quiet bool
}

func (r *caseRun) logf(format string, a ...any) {
	if r.quiet {
		return
	}
	r.lines = append(r.lines, fmt.Sprintf(format, a...))
}

func readVals(declared []reflect.Type, xs []reflect.Value) []Val {
	out := make([]Val, len(xs))
	for i, x := range xs {
		out[i] = readValue(declared[i], x)
	}
	return out
}

// logDebugging records what an injected *Debugging says about the chain.
func (r *caseRun) logDebugging(declared []reflect.Type, xs []reflect.Value) {
	for i, x := range xs {
		if declared[i] == tDebug && x.IsValid() && !x.IsNil() {
			d := x.Interface().(*nject.Debugging)
			r.logf("d names %s", strings.ReplaceAll(strings.Join(d.NamesIncluded, "|"), " ", "_"))
			inc, exc := 0, 0
			for _, l := range d.IncludeExclude {
				if strings.HasPrefix(l, "INCLUDED: ") {
					inc++
				} else if strings.HasPrefix(l, "EXCLUDED: ") {
					exc++
				}
			}
			r.logf("d ie included=%d excluded=%d total=%d", inc, exc, len(d.IncludeExclude))
		}
	}
}

func mkValues(declared []int, vs []Val) []reflect.Value {
	out := make([]reflect.Value, len(vs))
	for i, v := range vs {
		out[i] = mkValue(declared[i], v)
	}
	return out
}

// freshOut is what a body produces at result position j of declared type oc.
func freshOut(p *ProvDesc, oc, k, j, pos int) Val {
	switch oc {
	case cTE:
		if p.FailMask&(1<<uint(k%8)) != 0 {
			if (p.Idx+k)%5 == 4 {
				// the classic slip: a nil *Err returned through the interface -- a non-nil error all the same
				return Val{cError, typedNilTag}
			}
			return Val{cError, freshTag(p.Idx, k, j, pos)}
		}
		return Val{cTE, 0}
	case cUnus:
		return Val{cUnus, 0}
	case cDebug:
		return Val{cDebug, 0}
	}
	if (oc == cI0 || oc == cI1) && (p.Idx+k)%4 == 3 {
		return Val{oc, 0} // now and then a nil interface value (a reflective body hands it over as the invalid reflect.Value)
	}
	return Val{dynCode(oc), freshTag(p.Idx, k, j, pos)}
}

func (r *caseRun) injBody(p *ProvDesc) func([]reflect.Value) []reflect.Value {
	inT := typesOf(p.In)
	return func(in []reflect.Value) []reflect.Value {
		k := p.calls
		p.calls++
		args := readVals(inT, in)
		r.logDebugging(inT, in)
		outs := make([]Val, len(p.Out))
		for j, oc := range p.Out {
			outs[j] = freshOut(p, oc, k, 0, j)
		}
		r.logf("t call %d %s -> %s", p.Idx, fmtVals(args), fmtVals(outs))
		vals := mkValues(p.Out, outs)
		if p.Refl {
			for j, oc := range p.Out {
				if (oc == cI0 || oc == cI1) && outs[j].Tag == 0 && outs[j].Ty == oc {
					vals[j] = reflect.Value{} // what reflect.ValueOf(nilInterface) gives
				}
			}
		}
		return vals
	}
}

func indexOf(a []int, x int) int {
	for i, y := range a {
		if y == x {
			return i
		}
	}
	return -1
}

func (r *caseRun) wrapBody(p *ProvDesc) func([]reflect.Value) []reflect.Value {
	inT := typesOf(p.In)
	ioutT := typesOf(p.IOut)
	return func(in []reflect.Value) []reflect.Value {
		k := p.calls
		p.calls++
		args := readVals(inT, in[1:])
		r.logf("t wenter %d %s", p.Idx, fmtVals(args))
		var last []Val
		have := false
		for j := 1; j <= p.Calls; j++ {
			iargs := make([]Val, len(p.IIn))
			for pos, ic := range p.IIn {
				iargs[pos] = freshOut(p, ic, k, j, pos)
			}
			r.logf("t winner %d %s", p.Idx, fmtVals(iargs))
			var res []reflect.Value
			if p.Refl {
				res = in[0].Interface().(func([]reflect.Value) []reflect.Value)(mkValues(p.IIn, iargs))
			} else {
				res = in[0].Call(mkValues(p.IIn, iargs))
			}
			last = readVals(ioutT, res)
			have = true
			r.logf("t wrecv %d %s", p.Idx, fmtVals(last))
		}
		outs := make([]Val, len(p.Out))
		for pos, rc := range p.Out {
			if q := indexOf(p.IOut, rc); p.Pass && have && q >= 0 {
				outs[pos] = last[q]
			} else {
				outs[pos] = freshOut(p, rc, k, 0, pos)
			}
		}
		r.logf("t wret %d %s", p.Idx, fmtVals(outs))
		return mkValues(p.Out, outs)
	}
}

// rawProvider builds the bare value handed to nject (before annotations).
func (r *caseRun) rawProvider(p *ProvDesc) any {
	switch p.Kind {
	case "lit":
		return mkValue(p.Out[0], litVal(p)).Interface()
	case "inj":
		if p.Refl {
			return nject.MakeReflective(typesOf(p.In), typesOf(p.Out), r.injBody(p))
		}
		ft := reflect.FuncOf(typesOf(p.In), typesOf(p.Out), false)
		return reflect.MakeFunc(ft, r.injBody(p)).Interface()
	case "wrap":
		if p.Refl {
			return nject.MakeReflectiveWrapper(typesOf(p.In), typesOf(p.Out), typesOf(p.IIn), typesOf(p.IOut), r.wrapBody(p))
		}
		inner := reflect.FuncOf(typesOf(p.IIn), typesOf(p.IOut), false)
		ins := append([]reflect.Type{inner}, typesOf(p.In)...)
		ft := reflect.FuncOf(ins, typesOf(p.Out), false)
		return reflect.MakeFunc(ft, r.wrapBody(p)).Interface()
	}
	panic("bad kind " + p.Kind)
}

// annotate applies the annotations of p (except Cluster, which is a grouping) to x.
func annotate(p *ProvDesc, x any) any {
	if p.Name != "" {
		x = nject.Provide(p.Name, x)
	}
	if p.Required {
		x = nject.Required(x)
	}
	if p.Desired {
		x = nject.Desired(x)
	}
	if p.Shun {
		x = nject.Shun(x)
	}
	if p.Cacheable {
		x = nject.Cacheable(x)
	}
	if p.MustCache {
		x = nject.MustCache(x)
	}
	if p.NotCacheable {
		x = nject.NotCacheable(x)
	}
	if p.Memoize {
		x = nject.Memoize(x)
	}
	if p.Singleton {
		x = nject.Singleton(x)
	}
	if p.NonFinal {
		x = nject.NonFinal(x)
	}
	if p.Reorder {
		x = nject.Reorder(x)
	}
	if p.Parallel {
		x = nject.Parallel(x)
	}
	for _, t := range p.Loose {
		if f, ok := looseFn[t]; ok {
			x = f(x)
		}
	}
	for _, t := range p.MustConsume {
		if f, ok := mustConsumeFn[t]; ok {
			x = f(x)
		}
	}
	for _, t := range p.ConsOpt {
		if f, ok := consOptFn[t]; ok {
			x = f(x)
		}
	}
	for _, t := range p.ShadowOK {
		if f, ok := shadowOKFn[t]; ok {
			x = f(x)
		}
	}
	if p.Replace != "" {
		x = nject.ReplaceNamed(p.Replace, x)
	}
	if p.Before != "" {
		x = nject.InsertBeforeNamed(p.Before, x)
	}
	if p.After != "" {
		x = nject.InsertAfterNamed(p.After, x)
	}
	return x
}

// apiNoise derives new providers / collections from x with the annotation functions, Provide and Cluster and throws
// the results away.  Annotating makes a copy (C11): nothing may change for x itself, so every check that builds its
// chains through buildCollection also decides, on the side, that derivations do not leak into their originals.
func apiNoise(x any, seed uint64, name string) {
	defer func() { _ = recover() }()
	fns := []func(any) any{
		func(y any) any { return nject.Required(y) }, func(y any) any { return nject.Desired(y) },
		func(y any) any { return nject.Shun(y) }, func(y any) any { return nject.Cacheable(y) },
		func(y any) any { return nject.MustCache(y) }, func(y any) any { return nject.NotCacheable(y) },
		func(y any) any { return nject.Memoize(y) }, func(y any) any { return nject.Singleton(y) },
		func(y any) any { return nject.NonFinal(y) }, func(y any) any { return nject.Reorder(y) },
		func(y any) any { return nject.Parallel(y) },
		func(y any) any { return nject.Provide("noise", y) },
		// (a Cluster of one member is not a cluster)
		func(y any) any { return nject.Cluster(name, y, func(T0) {}) },
		func(y any) any { return nject.Cluster("noise", func(T0) {}, y) },
		// nil members are skipped: nothing is appended behind y
		func(y any) any { return nject.Cluster(name, y, nil) },
		func(y any) any { return nject.Sequence(name, y, nil) },
		func(y any) any { return nject.Sequence(name, nil, y).Append(name, nil) },
	}
	for _, m := range []map[int]func(any) nject.Provider{looseFn, mustConsumeFn, consOptFn, shadowOKFn} {
		keys := make([]int, 0, len(m))
		for k := range m {
			keys = append(keys, k)
		}
		sort.Ints(keys)
		for _, k := range keys {
			f := m[k]
			fns = append(fns, func(y any) any { return f(y) })
		}
	}
	// every single derivation, and two chains of two chosen by the seed
	for _, f := range fns {
		func() {
			defer func() { _ = recover() }()
			_ = f(x)
		}()
	}
	h := seed*0x9e3779b97f4a7c15 + 0x7f4a7c15
	next := func() int { h ^= h >> 29; h *= 0xbf58476d1ce4e5b9; h ^= h >> 32; return int(h % uint64(len(fns))) }
	for i := 0; i < 2; i++ {
		func() {
			defer func() { _ = recover() }()
			_ = fns[next()](fns[next()](x))
		}()
	}
}

// buildCollection assembles the collection; adjacent providers with the same non-zero Cluster
// number are grouped with nject.Cluster.
func (r *caseRun) buildCollection(name string) *nject.Collection {
	var items []any
	ps := r.c.Provs
	for i := 0; i < len(ps); {
		p := ps[i]
		if p.Cluster != 0 {
			j := i
			var members []any
			for j < len(ps) && ps[j].Cluster == p.Cluster {
				members = append(members, annotate(ps[j], r.rawProvider(ps[j])))
				j++
			}
			items = append(items, nject.Cluster(fmt.Sprintf("cl%d", p.Cluster), members...))
			i = j
			continue
		}
		items = append(items, r.item(p))
		i++
	}
	noisy := (uint64(r.c.Seed)/7)%2 == 0
	if noisy {
		for q, it := range items {
			apiNoise(it, uint64(r.c.Seed)*31+uint64(q), name)
		}
	}
	// The same list is put together by different routes (C13 says they are equivalent): flat, nested, or appended to a
	// base collection from which a second, unrelated collection is appended as well (aliasing of the base's slice).
	var c *nject.Collection
	route := uint64(r.c.Seed) % 6
	k := 0
	if len(items) > 0 {
		k = int((uint64(r.c.Seed) / 6) % uint64(len(items)+1))
	}
	if strings.HasPrefix(r.c.Shape, "unnamed:") {
		// asked for by the case: the first k providers sit in an unnamed sub-sequence
		if kk, err := strconv.Atoi(strings.TrimPrefix(r.c.Shape, "unnamed:")); err == nil && kk <= len(items) {
			route, k = 5, kk
		}
	}
	switch route {
	case 5:
		// an unnamed sub-sequence: its providers have an empty origin until they are renamed
		c = nject.Sequence(name, append([]any{nject.Sequence("", items[:k]...)}, items[k:]...)...)
	case 3:
		c = nject.Sequence(name, append([]any{nject.Sequence(name, items[:k]...)}, items[k:]...)...)
	case 4:
		base := nject.Sequence(name, items[:k]...)
		c = base.Append(name, items[k:]...)
		other := base.Append(name, func(T0) T7 { return T7{} }, func(T7) {})
		_ = other.String()
	default:
		c = nject.Sequence(name, items...)
	}
	if noisy {
		apiNoise(c, uint64(r.c.Seed)*31+977, name)
	}
	ids := nject.VerifIDs(c)
	r.idOf = make(map[int32]int)
	if len(ids) == len(ps) {
		for i, id := range ids {
			r.idOf[id] = ps[i].Idx
		}
	}
	for id, idx := range r.genID {
		r.idOf[id] = idx
	}
	return c
}

// isGenerator: the listed provider `id` (standing for p.Idx = idx) is a generator built by item()
func (r *caseRun) isGenerator(id int32, idx int) bool {
	for inner, i := range r.genID {
		if i == idx && inner != id {
			return true
		}
	}
	return false
}

// item is what is listed for p: the annotated provider, or (p.Gen) a generator that replaces itself by it.
func (r *caseRun) item(p *ProvDesc) any {
	if !p.Gen {
		return annotate(p, r.rawProvider(p))
	}
	q := p.clone()
	q.Name, q.Replace, q.Before, q.After = "", "", "", ""
	inner := nject.Provide(fmt.Sprintf("gen%d", p.Idx), annotate(q, r.rawProvider(p)))
	if vp, ok := nject.VerifProviderOf(inner); ok {
		if r.genID == nil {
			r.genID = make(map[int32]int)
		}
		r.genID[vp.ID] = p.Idx
	}
	g := nject.GenerateFromInjectionChain(fmt.Sprintf("gen%d", p.Idx), func(_, _ nject.Collection) (nject.Provider, error) {
		return inner, nil
	})
	return annotate(&ProvDesc{Name: p.Name, Replace: p.Replace, Before: p.Before, After: p.After, NonFinal: p.GenNF}, g)
}

func (r *caseRun) idxOf(vp nject.VerifProvider) int {
	if idx, ok := r.idOf[vp.ID]; ok {
		return idx
	}
	switch vp.Origin {
	case "Debugging":
		return idDebug
	case "provide unused":
		return idUnusedIn
	case "return unused":
		return idUnusedRet
	}
	switch vp.Class {
	case "invoke-func":
		return idInvoke
	case "init-func":
		return idInit
	}
	return 999
}
