package main

import (
	"math/rand"
)

// Generator profile knobs.
type Profile struct {
	MaxProvs     int
	PWrapper     float64
	PFallible    float64
	PLiteral     float64
	PCacheable   float64
	PMemoize     float64
	PInit        float64
	PIface       float64
	PAnnot       float64 // probability of a random include-related annotation per provider
	PBadInput    float64 // input type nobody provides
	PDupOut      float64 // produce a type that is already available (shadowing downward)
	PReorder     float64
	PCluster     float64
	PNamedEdit   float64
	PNonFinal    float64
	PRefl        float64
	PParallel    float64
	PUnused      float64
	PConsOpt     float64
	MaxInnerCall int
	PShun        float64
	POutless     float64
}

var defaultProfile = Profile{
	MaxProvs: 9, PWrapper: 0.25, PFallible: 0.15, PLiteral: 0.15, PCacheable: 0.25, PMemoize: 0.1, PInit: 0.3,
	PIface: 0.12, PAnnot: 0.12, PBadInput: 0.04, PDupOut: 0.25, PReorder: 0.0, PCluster: 0.0, PNamedEdit: 0.0,
	PNonFinal: 0.03, PRefl: 0.1, PParallel: 0.0, PUnused: 0.05, PConsOpt: 0.05, MaxInnerCall: 3, POutless: 0.1,
}

// plainProfile: no Cacheable-family annotations (C16's claim), more Shun/Desired/MustConsume
var plainProfile = func() Profile {
	p := defaultProfile
	p.PCacheable, p.PMemoize, p.PAnnot, p.PBadInput, p.PDupOut = 0, 0, 0.3, 0.08, 0.35
	p.PShun, p.POutless = 0.15, 0.25
	return p
}()

// reorderProfile: Reorder'd injectors and wrappers; no interface matching (Reorder only considers exact types)
var reorderProfile = func() Profile {
	p := defaultProfile
	p.PReorder, p.PIface, p.PCacheable, p.PMemoize = 0.3, 0.06, 0.1, 0.03
	return p
}()

// reorderPlainProfile: Reorder'd providers among plain ones (no Cacheable family: what is Desired / auto-desired is
// then the same before and after classification), for the Desired -> Required pairs
var reorderPlainProfile = func() Profile {
	p := plainProfile
	p.PReorder, p.PIface = 0.3, 0
	return p
}()

// clusterProfile: Cluster groups among Shun'd / Desired / unsatisfiable providers (all-or-none inclusion)
var clusterProfile = func() Profile {
	p := plainProfile
	p.PCluster = 0.7
	return p
}()

// memoProfile: many memoized and fallible injectors (C07, C09)
var memoProfile = func() Profile {
	p := defaultProfile
	p.PMemoize, p.PFallible, p.PWrapper = 0.5, 0.4, 0.15
	return p
}()

func pick(rng *rand.Rand, xs []int) int { return xs[rng.Intn(len(xs))] }

func chance(rng *rand.Rand, p float64) bool { return rng.Float64() < p }

func subset(rng *rand.Rand, xs []int, p float64) []int {
	var out []int
	for _, x := range xs {
		if chance(rng, p) {
			out = append(out, x)
		}
	}
	return out
}

func contains(a []int, x int) bool { return indexOf(a, x) >= 0 }

func uniq(a []int) []int {
	var out []int
	for _, x := range a {
		if !contains(out, x) {
			out = append(out, x)
		}
	}
	return out
}

func remove(a []int, x int) []int {
	var out []int
	for _, y := range a {
		if y != x {
			out = append(out, y)
		}
	}
	return out
}

// genCase builds a mostly-valid chain: the downward part forward (inputs drawn from what is
// available), the upward part backward (receivers drawn from what is returned below).
// genTrialScenario: the elimination trials and their recheck lists.  A provider that the trials remove (Shun'd, or a
// farther duplicate) feeds a middle provider whose other consumer is an auto-desired / Desired provider that was left
// out before the trials began (it also takes a type nobody provides) or during them (Shun'd as well); a farther
// provider of the middle provider's type keeps the chain valid.  Whoever is left out must have no say in the trials.
func genTrialScenario(rng *rand.Rand, n int, seed int64) *CaseDesc {
	c := &CaseDesc{N: n, Seed: seed, Shape: "flat"}
	perm := rng.Perm(5)
	T, S, M, X := perm[0], perm[1], perm[2], perm[3]
	add := func(p *ProvDesc) *ProvDesc {
		p.Idx = len(c.Provs)
		if p.Kind == "" {
			p.Kind = "inj"
		}
		c.Provs = append(c.Provs, p)
		return p
	}
	filler := func() {
		for chance(rng, 0.3) {
			switch rng.Intn(3) {
			case 0:
				add(&ProvDesc{Out: []int{X}})
			case 1:
				add(&ProvDesc{In: []int{T}, Out: []int{X}, Shun: chance(rng, 0.3)})
			default:
				add(&ProvDesc{Kind: "wrap", IIn: nil, Calls: 1, Pass: true})
			}
		}
	}
	// the farther source of T
	z0 := add(&ProvDesc{Out: []int{T}})
	z0.Required = chance(rng, 0.5)
	filler()
	// the provider the trials remove, and the middle provider fed by it
	// (which of the two is Shun'd varies: when it is the middle provider, the trials remove the nearest source of T
	// itself and the provider that only fed it has to go in a later round)
	variant := rng.Intn(3)
	y := add(&ProvDesc{Out: []int{S}, Shun: variant != 1 && chance(rng, 0.9)})
	if chance(rng, 0.3) {
		y.Out = append(y.Out, X)
	}
	filler()
	add(&ProvDesc{In: []int{S}, Out: []int{T}, Shun: variant != 0})
	filler()
	// the consumer that is left out
	d := add(&ProvDesc{In: []int{T}})
	switch rng.Intn(4) {
	case 0: // auto-desired, cannot be included
		d.In = append(d.In, M)
	case 1: // Desired, cannot be included
		d.In, d.Out, d.Desired = append(d.In, M), []int{X}, true
	case 2: // auto-desired and Shun'd: the trials remove it
		d.Shun = true
	default: // Desired and Shun'd, with an output nobody needs
		d.Out, d.Desired, d.Shun = []int{X}, true, true
	}
	if chance(rng, 0.5) {
		d.In[0], d.In[len(d.In)-1] = d.In[len(d.In)-1], d.In[0]
	}
	filler()
	add(&ProvDesc{In: []int{T}})
	c.Ops = []Op{{Kind: "invoke"}, {Kind: "invoke"}}
	return c
}

// genTwoIfaceScenario: one concrete type (T6) implementing several interfaces, its provider Loose for only some of them,
// consumers of the different interfaces in either order.  Whether a provider may stand in for an interface is decided per
// (type, interface), not per type.
func genTwoIfaceScenario(rng *rand.Rand, n int, seed int64) *CaseDesc {
	c := &CaseDesc{N: n, Seed: seed, Shape: "flat"}
	add := func(p *ProvDesc) *ProvDesc {
		p.Idx = len(c.Provs)
		if p.Kind == "" {
			p.Kind = "inj"
		}
		c.Provs = append(c.Provs, p)
		return p
	}
	ifs := []int{cI0, cI1, cI2}
	rng.Shuffle(len(ifs), func(i, j int) { ifs[i], ifs[j] = ifs[j], ifs[i] })
	ia, ib := ifs[0], ifs[1]
	src := add(&ProvDesc{Out: []int{6}, Loose: []int{ia}})
	if chance(rng, 0.3) {
		src.Kind = "lit"
	}
	if chance(rng, 0.25) {
		src.Loose = append(src.Loose, ifs[2])
	}
	if chance(rng, 0.3) {
		// an exact provider of the other interface's usual stand-in, not Loose
		add(&ProvDesc{Out: []int{pick(rng, []int{5, 7})}})
	}
	first, second := ia, ib
	if chance(rng, 0.4) {
		first, second = ib, ia
	}
	a := add(&ProvDesc{In: []int{first}, Out: []int{0}})
	b := add(&ProvDesc{In: []int{second}, Out: []int{1}})
	for _, q := range []*ProvDesc{a, b} {
		switch rng.Intn(4) {
		case 0:
			q.Desired = true
		case 1:
			q.Required = chance(rng, 0.4)
		case 2:
			q.Out = nil // auto-desired
		}
	}
	fin := add(&ProvDesc{})
	for _, q := range []*ProvDesc{a, b} {
		if len(q.Out) > 0 && chance(rng, 0.6) {
			fin.In = append(fin.In, q.Out[0])
		}
	}
	c.Ops = []Op{{Kind: "invoke"}, {Kind: "invoke"}}
	return c
}

// genStaticFailScenario: a fallible static injector that fails, with providers of one type on both sides of it -- an included
// static injector (or literal) before it, and after it a Cacheable provider of the same type that is left out of the chain
// (it also asks for a type nobody provides) or stays in.  What the failing injector makes the static chain skip is the
// INCLUDED remainder only: a value produced before it stays visible to every invocation.
func genStaticFailScenario(rng *rand.Rand, n int, seed int64) *CaseDesc {
	c := &CaseDesc{N: n, Seed: seed, Shape: "flat", InvOut: []int{cError}}
	add := func(p *ProvDesc) *ProvDesc {
		p.Idx = len(c.Provs)
		if p.Kind == "" {
			p.Kind = "inj"
		}
		c.Provs = append(c.Provs, p)
		return p
	}
	perm := rng.Perm(5)
	T, M, X := perm[0], perm[1], perm[2]
	first := add(&ProvDesc{Out: []int{T}, Cacheable: true})
	if chance(rng, 0.3) {
		first.Kind, first.Cacheable = "lit", false
	}
	f := add(&ProvDesc{Out: []int{cTE}, Cacheable: true, FailMask: []uint{0xff, 1, 0xff, 2}[rng.Intn(4)]})
	if chance(rng, 0.4) {
		f.Out = []int{X, cTE}
	}
	later := add(&ProvDesc{Out: []int{T}, Cacheable: true})
	switch rng.Intn(3) {
	case 0: // left out: asks for a type nobody provides
		later.In = []int{M}
	case 1: // left out: Shun'd, and the earlier provider will do
		later.Shun = true
	}
	if chance(rng, 0.3) {
		later.Out = append(later.Out, X)
	}
	// (the invoke function's error comes from the final function: a static injector's TerminalError is not a returned value)
	add(&ProvDesc{In: []int{T}, Out: []int{cError}})
	if chance(rng, 0.3) {
		c.HasInit = true
		c.InitOut = []int{T}
		c.Ops = append(c.Ops, Op{Kind: "init"})
	}
	c.Ops = append(c.Ops, Op{Kind: "invoke"}, Op{Kind: "invoke"})
	return c
}

func genCase(rng *rand.Rand, n int, seed int64, pf Profile) *CaseDesc {
	if pf.PCacheable > 0 && pf.PReorder == 0 && uint64(seed)%37 == 5 {
		return genStaticFailScenario(rng, n, seed)
	}
	if pf.PShun > 0 && pf.PReorder == 0 && uint64(seed)%29 == 7 {
		return genTrialScenario(rng, n, seed)
	}
	if pf.PIface > 0 && pf.PReorder == 0 && uint64(seed)%31 == 11 {
		return genTwoIfaceScenario(rng, n, seed)
	}
	c := &CaseDesc{N: n, Seed: seed, Shape: "flat"}
	plain := []int{0, 1, 2, 3, 4}
	nT := 3 + rng.Intn(3)
	plain = plain[:nT]
	useIface := chance(rng, pf.PIface*3)
	// scenario "interfaces upward": returned concrete values are received as interfaces further up, several Loose
	// candidates at different distances
	ifaceUp := useIface && chance(rng, 0.4)
	pool := cloneInts(plain)
	if useIface {
		pool = append(pool, 5, 6, 7)
	}
	var avail []int // types available downward so far
	// init
	if chance(rng, pf.PInit) {
		c.HasInit = true
		k := rng.Intn(3)
		for i := 0; i < k; i++ {
			c.InitIn = append(c.InitIn, pick(rng, pool))
		}
		c.InitIn = uniq(c.InitIn)
	}
	staticAvail := cloneInts(c.InitIn)
	// invoke args
	k := rng.Intn(3)
	for i := 0; i < k; i++ {
		c.InvIn = append(c.InvIn, pick(rng, pool))
	}
	c.InvIn = uniq(c.InvIn)
	avail = append(avail, c.InitIn...)
	avail = append(avail, c.InvIn...)

	L := 2 + rng.Intn(pf.MaxProvs-1)
	pickIn := func(from []int) []int {
		var ins []int
		cnt := rng.Intn(3)
		for i := 0; i < cnt; i++ {
			if chance(rng, pf.PBadInput) || len(from) == 0 {
				ins = append(ins, pick(rng, pool))
			} else {
				t := pick(rng, from)
				if useIface && chance(rng, pf.PIface*2) {
					// ask for the interface instead of the concrete type
					switch t {
					case 5:
						t = cI0
					case 6:
						if chance(rng, 0.5) {
							t = cI0
						} else {
							t = cI1
						}
					case 7:
						t = cI1
					}
				}
				ins = append(ins, t)
			}
		}
		return uniq(ins)
	}
	pickOut := func(min int) []int {
		var outs []int
		cnt := min + rng.Intn(2)
		for i := 0; i < cnt; i++ {
			if useIface && chance(rng, 0.12) {
				// a value handed on under an interface type (which other providers may also have asked for through a
				// Loose match to a concrete type)
				outs = append(outs, pick(rng, []int{cI0, cI1}))
			} else if chance(rng, pf.PDupOut) && len(avail) > 0 {
				outs = append(outs, pick(rng, avail))
			} else {
				outs = append(outs, pick(rng, pool))
			}
		}
		return uniq(outs)
	}
	for i := 0; i < L-1; i++ {
		p := &ProvDesc{Idx: i}
		x := rng.Float64()
		switch {
		case x < pf.PLiteral:
			p.Kind = "lit"
			p.Out = []int{pick(rng, pool)}
			avail = append(avail, p.Out[0])
			staticAvail = append(staticAvail, p.Out[0])
		case x < pf.PLiteral+pf.PWrapper:
			p.Kind = "wrap"
			p.In = pickIn(avail)
			if chance(rng, 0.5) {
				p.IIn = pickOut(1)
			}
			avail = append(avail, p.IIn...)
			p.Calls = []int{0, 1, 1, 1, 1, 2, 2, 3}[rng.Intn(8)]
			if p.Calls > pf.MaxInnerCall {
				p.Calls = pf.MaxInnerCall
			}
			p.Pass = chance(rng, 0.4)
			p.Parallel = chance(rng, pf.PParallel)
		default:
			p.Kind = "inj"
			static := chance(rng, pf.PCacheable)
			if static {
				p.In = pickIn(staticAvail)
				p.Cacheable = true
				if chance(rng, 0.2) {
					p.MustCache = true
				}
				if chance(rng, 0.1) {
					p.Singleton = true
					p.MustCache = true
				}
			} else {
				p.In = pickIn(avail)
			}
			if chance(rng, pf.PMemoize) {
				p.Memoize = true
				p.Cacheable = true
			}
			if (p.Memoize && chance(rng, 0.5)) || chance(rng, 0.05) {
				// three (sometimes four) inputs: the boundary of the smallest memo key array (cache.go in3)
				from := avail
				if static {
					from = staticAvail
				}
				want := 3 + rng.Intn(2)*rng.Intn(2)
				for tries := 0; len(p.In) < want && tries < 12 && len(from) > 0; tries++ {
					p.In = uniq(append(p.In, pick(rng, from)))
				}
			}
			if chance(rng, 0.03) || (p.Cacheable && chance(rng, 0.12)) {
				p.NotCacheable = true
			}
			if chance(rng, pf.PFallible) {
				p.Out = pickOut(0)
				pos := rng.Intn(len(p.Out) + 1)
				p.Out = append(p.Out[:pos], append([]int{cTE}, p.Out[pos:]...)...)
				if chance(rng, 0.2) {
					// an ordinary error result listed before the TerminalError
					p.Out = append(p.Out[:pos:pos], append([]int{cError}, p.Out[pos:]...)...)
				}
				p.FailMask = []uint{0, 0, 0xff, 1, 2, 5, 0xaa}[rng.Intn(7)]
			} else {
				min := 1
				if chance(rng, pf.POutless) {
					min = 0
				}
				p.Out = pickOut(min)
				if min == 0 && chance(rng, 0.25) {
					// returns Unused only: counts like returning nothing (not a static injector, auto-desired)
					p.Out = []int{cUnus}
				} else if min == 0 && chance(rng, 0.6) {
					p.Out = nil
					// an auto-desired provider that cannot be included (an input nobody provides) but still
					// lists earlier providers as its sources: it must have no influence on what is eliminated
					if len(p.In) > 0 && chance(rng, 0.3) {
						for _, t := range pool {
							if !contains(avail, t) {
								p.In = uniq(append(p.In, t))
								break
							}
						}
					}
				}
			}
			for _, o := range p.Out {
				if o != cTE {
					avail = append(avail, o)
					if static {
						staticAvail = append(staticAvail, o)
					}
				}
			}
			if useIface && chance(rng, 0.5) {
				for _, o := range p.Out {
					switch o {
					case 5:
						p.Loose = append(p.Loose, cI0)
					case 6:
						// (Loose for I2 -- both method sets -- says nothing about I0 or I1)
						p.Loose = append(p.Loose, pick(rng, []int{cI0, cI1, cI2}))
					case 7:
						p.Loose = append(p.Loose, cI1)
					}
				}
				p.Loose = uniq(p.Loose)
			}
		}
		if p.Kind == "lit" && useIface && chance(rng, 0.5) {
			switch p.Out[0] {
			case 5:
				p.Loose = []int{cI0}
			case 6:
				p.Loose = []int{cI0, cI1}
			case 7:
				p.Loose = []int{cI1}
			}
		}
		if chance(rng, pf.PAnnot) {
			switch rng.Intn(5) {
			case 0:
				p.Required = true
			case 1:
				p.Desired = true
			case 2:
				p.Shun = true
			case 3:
				if p.Kind != "wrap" {
					// MustConsume may be given for several of the produced types (nested annotations)
					for _, o := range p.Out {
						if o != cTE && (len(p.MustConsume) == 0 || chance(rng, 0.5)) {
							p.MustConsume = append(p.MustConsume, o)
						}
					}
					if len(p.Out) > 0 && p.Out[0] == cTE && len(p.MustConsume) > 0 && chance(rng, 0.5) {
						p.MustConsume = nil // as before: nothing when the first result is the TerminalError
					}
				}
			case 4:
				p.NonFinal = chance(rng, pf.PNonFinal*5)
			}
		}
		if chance(rng, pf.PShun) {
			p.Shun = true
		}
		if p.Kind != "lit" && chance(rng, pf.PRefl) {
			p.Refl = true
		}
		if p.Kind != "lit" && !p.Cacheable && chance(rng, pf.PReorder) {
			p.Reorder = true
		}
		if p.Kind != "lit" && chance(rng, pf.PUnused) {
			// anywhere among the parameters, not only last
			pos := rng.Intn(len(p.In) + 1)
			p.In = append(p.In[:pos:pos], append([]int{cUnus}, p.In[pos:]...)...)
		}
		c.Provs = append(c.Provs, p)
	}
	// clusters: runs of adjacent providers that are included or excluded together
	if chance(rng, pf.PCluster) && len(c.Provs) >= 2 {
		i := rng.Intn(len(c.Provs) - 1)
		n := 2 + rng.Intn(2)
		for k := i; k < i+n && k < len(c.Provs); k++ {
			c.Provs[k].Cluster = 1
		}
		if j := i + n + rng.Intn(2); chance(rng, 0.3) && j+1 < len(c.Provs) {
			c.Provs[j].Cluster, c.Provs[j+1].Cluster = 2, 2
		}
	}
	// final
	fin := &ProvDesc{Idx: L - 1, Kind: "inj"}
	fin.In = pickIn(avail)
	// (now and then the final function takes nothing although values are on offer: then what it returns
	// gets the first slots of the value collection)
	if len(avail) > 0 && len(fin.In) == 0 && !chance(rng, 0.2) {
		fin.In = []int{pick(rng, avail)}
	}
	nret := rng.Intn(3)
	for i := 0; i < nret; i++ {
		if chance(rng, 0.25) {
			fin.Out = append(fin.Out, cError)
		} else {
			fin.Out = append(fin.Out, pick(rng, pool))
		}
	}
	if ifaceUp && !contains(fin.Out, 5) && !contains(fin.Out, 6) && !contains(fin.Out, 7) {
		fin.Out = append(fin.Out, pick(rng, []int{5, 6, 7}))
	}
	fin.Out = uniq(fin.Out)
	if chance(rng, pf.PRefl) {
		fin.Refl = true
	}
	ifaceOf := func(t int) int {
		switch t {
		case 5:
			return cI0
		case 6:
			return pick(rng, []int{cI0, cI1})
		case 7:
			return cI1
		}
		return t
	}
	// returned concrete values may be received as an interface further up when their provider is Loose
	looseReturns := func(p *ProvDesc) {
		if !useIface || !(ifaceUp || chance(rng, 0.6)) {
			return
		}
		for _, o := range p.Out {
			if o >= 5 && o <= 7 {
				p.Loose = uniq(append(p.Loose, ifaceOf(o)))
				if chance(rng, 0.7) {
					// nject counts a returned value as consumed only by receivers of exactly its type
					// (include.go usedByDetail is keyed on the requested type): without this the chain
					// rarely binds when the only receiver asks for the interface
					p.ConsOpt = uniq(append(p.ConsOpt, o))
				}
			}
		}
	}
	looseReturns(fin)
	if len(fin.Out) > 0 && chance(rng, 0.08) {
		fin.ShadowOK = []int{pick(rng, fin.Out)}
	}
	strayConsOpt := func(p *ProvDesc) {
		// ConsumptionOptional for a type the provider returns and/or for one it does not return
		if !chance(rng, pf.PConsOpt) {
			return
		}
		if len(p.Out) > 0 && chance(rng, 0.5) {
			t := pick(rng, p.Out)
			if t == cTE {
				t = cError
			}
			p.ConsOpt = append(p.ConsOpt, t)
		}
		if chance(rng, 0.7) {
			p.ConsOpt = append(p.ConsOpt, pick(rng, append(cloneInts(plain), cError)))
		}
		p.ConsOpt = uniq(p.ConsOpt)
	}
	strayConsOpt(fin)
	c.Provs = append(c.Provs, fin)
	normalizeClusters(c)

	// upward pass
	pending := cloneInts(fin.Out)
	for i := L - 2; i >= 0; i-- {
		p := c.Provs[i]
		switch p.Kind {
		case "inj":
			if contains(p.Out, cTE) && !contains(pending, cError) {
				pending = append(pending, cError)
			}
		case "wrap":
			recv0 := subset(rng, pending, 0.6)
			recv := cloneInts(recv0)
			if useIface {
				for q, t := range recv {
					if t >= 5 && t <= 7 && (chance(rng, 0.4) || (ifaceUp && chance(rng, 0.5))) {
						recv[q] = ifaceOf(t)
					}
				}
				recv = uniq(recv)
			}
			p.IOut = recv
			var rets []int
			for _, t := range recv {
				if chance(rng, 0.75) {
					rets = append(rets, t)
				}
			}
			if chance(rng, 0.15) {
				t := pick(rng, append(cloneInts(pool), cError))
				if !contains(pending, t) {
					rets = append(rets, t)
				}
			}
			if len(pending) > 0 && chance(rng, 0.09) {
				// overrides a value returned from below without receiving it: only valid with AllowReturnShadowing on
				// THIS wrapper
				t := pick(rng, pending)
				if !contains(recv, t) {
					rets = append(rets, t)
					switch x := rng.Float64(); {
					case x < 0.4:
						p.ShadowOK = append(p.ShadowOK, t)
					case x < 0.55:
						// the wrapper carries AllowReturnShadowing, but for ANOTHER type
						for _, u := range pool {
							if u != t {
								p.ShadowOK = append(p.ShadowOK, u)
								break
							}
						}
					case x < 0.8:
						// the annotation sits on the LOWEST returner of t instead: that does not license this override
						for j := len(c.Provs) - 1; j > i; j-- {
							q := c.Provs[j]
							if (q.Kind == "wrap" || j == len(c.Provs)-1) && contains(q.Out, t) {
								q.ShadowOK = uniq(append(q.ShadowOK, t))
								break
							}
						}
					}
				}
			}
			if useIface && (chance(rng, 0.35) || (ifaceUp && chance(rng, 0.5))) {
				// another concrete type that implements the interfaces: receivers further up that ask for
				// the interface then have two Loose candidates at different distances
				t := pick(rng, []int{5, 6, 7})
				if !contains(pending, t) {
					rets = append(rets, t)
				}
			}
			p.Out = uniq(rets)
			for _, t := range recv0 {
				pending = remove(pending, t)
			}
			looseReturns(p)
			for _, t := range p.Out {
				if !contains(pending, t) {
					pending = append(pending, t)
				}
			}
			if chance(rng, pf.PConsOpt) && len(p.Out) > 0 {
				p.ConsOpt = []int{p.Out[0]}
			}
			strayConsOpt(p)
			if len(p.Out) > 0 && chance(rng, 0.12) {
				p.ShadowOK = uniq(append(p.ShadowOK, pick(rng, p.Out)))
			}
		}
		if p.Kind == "inj" && contains(p.Out, cTE) {
			strayConsOpt(p)
		}
	}
	if useIface {
		for q, t := range pending {
			if t >= 5 && t <= 7 && (chance(rng, 0.3) || (ifaceUp && chance(rng, 0.5))) {
				pending[q] = ifaceOf(t)
			}
		}
		pending = uniq(pending)
	}
	if chance(rng, 0.9) {
		c.InvOut = cloneInts(pending)
	} else {
		c.InvOut = subset(rng, pending, 0.7)
		if chance(rng, 0.3) {
			c.InvOut = append(c.InvOut, pick(rng, pool))
		}
		c.InvOut = uniq(c.InvOut)
	}
	// a returned type that invoke does not take: its returner sometimes carries ConsumptionOptional for OTHER types
	// (as many as it has results, or more): the unreceived value must still make Bind fail
	for _, t := range pending {
		if contains(c.InvOut, t) || !chance(rng, 0.5) {
			continue
		}
		for i := len(c.Provs) - 1; i >= 0; i-- {
			p := c.Provs[i]
			rets := p.Out
			if p.Kind == "inj" && i != len(c.Provs)-1 {
				rets = nil
				if contains(p.Out, cTE) {
					rets = []int{cError}
				}
			}
			if p.Kind == "lit" || !contains(rets, t) {
				continue
			}
			for k := 0; k < len(rets)+rng.Intn(2); k++ {
				x := pick(rng, append(cloneInts(plain), cError))
				if !contains(rets, x) {
					p.ConsOpt = uniq(append(p.ConsOpt, x))
				}
			}
			break
		}
	}
	// Reorder chains: now and then nobody receives error and every returner of error says that is fine
	// (ConsumptionOptional); one of the fallible injectors is marked Reorder -- it must still be placed where it runs
	if pf.PReorder > 0 && chance(rng, 0.15) {
		noRecv := true
		var fallible []*ProvDesc
		for i, p := range c.Provs {
			if p.Kind == "wrap" && contains(p.IOut, cError) {
				noRecv = false
			}
			if p.Kind == "inj" && i != len(c.Provs)-1 && contains(p.Out, cTE) && !p.Cacheable {
				fallible = append(fallible, p)
			}
		}
		if noRecv && len(fallible) > 0 {
			for i, p := range c.Provs {
				if (p.Kind == "inj" && i != len(c.Provs)-1 && contains(p.Out, cTE)) || ((p.Kind == "wrap" || i == len(c.Provs)-1) && contains(p.Out, cError)) {
					p.ConsOpt = uniq(append(p.ConsOpt, cError))
				}
			}
			c.InvOut = remove(c.InvOut, cError)
			fallible[rng.Intn(len(fallible))].Reorder = true
		}
	}
	rng.Shuffle(len(c.InvOut), func(i, j int) { c.InvOut[i], c.InvOut[j] = c.InvOut[j], c.InvOut[i] })
	if c.HasInit {
		if chance(rng, 0.5) && len(staticAvail) > 0 {
			c.InitOut = uniq([]int{pick(rng, staticAvail)})
		}
		if chance(rng, 0.2) {
			c.InitOut = append(c.InitOut, cError)
		}
		if chance(rng, 0.9) {
			c.Ops = append(c.Ops, Op{Kind: "init"})
		}
	}
	ninv := 1 + rng.Intn(3)
	for i := 0; i < ninv; i++ {
		c.Ops = append(c.Ops, Op{Kind: "invoke"})
		if c.HasInit && chance(rng, 0.15) {
			c.Ops = append(c.Ops, Op{Kind: "init"})
		}
	}
	if chance(rng, pf.PUnused) {
		c.InvIn = append(c.InvIn, cUnus)
	}
	return c
}

// genEditCase: chains whose providers are all `func(T0) T0` (so any order binds and the trace
// shows the order), with names and named-edit directives sprinkled on them.
func genEditCase(rng *rand.Rand, n int, seed int64) *CaseDesc {
	c := &CaseDesc{N: n, Seed: seed, Shape: "flat", InvIn: []int{0}, InvOut: []int{0}}
	L := 2 + rng.Intn(6)
	names := []string{"A", "B", "C"}
	for i := 0; i < L; i++ {
		p := &ProvDesc{Idx: i, Kind: "inj", In: []int{0}, Out: []int{0}}
		if chance(rng, 0.4) {
			p.Name = names[rng.Intn(len(names))]
		}
		if chance(rng, 0.35) {
			tgt := names[rng.Intn(2)]
			if chance(rng, 0.06) {
				tgt = "Z"
			}
			switch rng.Intn(3) {
			case 0:
				p.Replace = tgt
			case 1:
				p.Before = tgt
			case 2:
				p.After = tgt
			}
			if chance(rng, 0.03) {
				p.Before = names[rng.Intn(len(names))]
				p.After = names[rng.Intn(len(names))]
			}
		}
		if chance(rng, 0.05) {
			p.NonFinal = true
		}
		c.Provs = append(c.Provs, p)
	}
	if chance(rng, 0.25) && L >= 3 {
		// a run of NonFinal providers listed after the one that becomes final
		k := 1 + rng.Intn(L-1)
		for i := k; i < L; i++ {
			c.Provs[i].NonFinal = true
		}
		if chance(rng, 0.3) {
			c.Provs[rng.Intn(k)].NonFinal = true
		}
	}
	// make runs of equal directives / equal names more likely (blocks)
	for i := 1; i < L; i++ {
		if chance(rng, 0.3) {
			q, p := c.Provs[i-1], c.Provs[i]
			p.Replace, p.Before, p.After = q.Replace, q.Before, q.After
		}
		if chance(rng, 0.25) {
			c.Provs[i].Name = c.Provs[i-1].Name
		}
	}
	// self-targets are an error class of their own: keep only a few
	for _, p := range c.Provs {
		if p.Name != "" && (p.Replace == p.Name || p.Before == p.Name || p.After == p.Name) && chance(rng, 0.9) {
			p.Name = ""
		}
	}
	// most targets should exist exactly once
	for _, nm := range names[:2] {
		used := false
		for _, p := range c.Provs {
			if p.Replace == nm || p.Before == nm || p.After == nm {
				used = true
			}
		}
		have := false
		for _, p := range c.Provs {
			if p.Name == nm {
				have = true
			}
		}
		if used && !have && chance(rng, 0.9) {
			c.Provs[rng.Intn(L)].Name = nm
		}
	}
	// a target name that occurs twice with nothing but providers of an unnamed sub-sequence in between (the list is
	// then built with its first providers in Sequence("", ...): shape "unnamed:<k>")
	if L >= 4 && chance(rng, 0.08) {
		nm := names[rng.Intn(2)]
		for _, q := range c.Provs[:3] {
			q.Replace, q.Before, q.After = "", "", ""
		}
		c.Provs[0].Name, c.Provs[1].Name, c.Provs[2].Name = nm, "", nm
		q := c.Provs[3]
		q.Name, q.Replace, q.Before, q.After = "", "", "", ""
		switch rng.Intn(3) {
		case 0:
			q.Replace = nm
		case 1:
			q.Before = nm
		default:
			q.After = nm
		}
		c.Shape = "unnamed:3"
	}
	// generated providers (GenerateFromInjectionChain): in one case out of three some providers are listed as generators
	// that replace themselves; the generator's own NonFinal mark agrees with the provider's or not.  Decided from the seed
	// (the random stream is as before).
	if h := uint64(seed) * 0x9e3779b97f4a7c15 >> 17; h%3 == 0 {
		for i, p := range c.Provs {
			g := (h >> (8 + 3*uint(i%16))) & 7
			if g < 3 {
				p.Gen = true
				p.GenNF = p.NonFinal != (g == 0)
			}
		}
		if h%2 == 0 && L >= 2 {
			// a generator listed last whose provider is NonFinal
			p := c.Provs[L-1]
			p.Gen, p.GenNF, p.NonFinal = true, false, true
		}
	}
	c.Ops = []Op{{Kind: "invoke"}}
	return c
}

// allEditCases enumerates every list of length 1..maxLen over origins {none,A,B} and directives
// {none, rep/bef/aft × A,B}.
func allEditCases(maxLen int, f func(*CaseDesc)) {
	origins := []string{"", "A", "B"}
	type dir struct{ r, b, a string }
	dirs := []dir{{}, {r: "A"}, {b: "A"}, {a: "A"}, {r: "B"}, {b: "B"}, {a: "B"}}
	per := len(origins) * len(dirs)
	n := 0
	for L := 1; L <= maxLen; L++ {
		total := 1
		for i := 0; i < L; i++ {
			total *= per
		}
		for code := 0; code < total; code++ {
			c := &CaseDesc{N: n, Shape: "flat", InvIn: []int{0}, InvOut: []int{0}, Ops: []Op{{Kind: "invoke"}}}
			x := code
			any := false
			for i := 0; i < L; i++ {
				k := x % per
				x /= per
				d := dirs[k/len(origins)]
				p := &ProvDesc{Idx: i, Kind: "inj", In: []int{0}, Out: []int{0}, Name: origins[k%len(origins)],
					Replace: d.r, Before: d.b, After: d.a}
				if d != (dir{}) {
					any = true
				}
				c.Provs = append(c.Provs, p)
			}
			if !any {
				continue
			}
			n++
			c.N = n
			f(c)
		}
	}
}

// normalizeClusters makes the description say what buildCollection will build: adjacent providers with
// the same non-zero number form one nject.Cluster; a run of one is not a cluster (nject ignores it);
// two separate runs are two clusters and get different numbers.
func normalizeClusters(c *CaseDesc) {
	next := 1
	for i := 0; i < len(c.Provs); {
		if c.Provs[i].Cluster == 0 {
			i++
			continue
		}
		j := i
		for j < len(c.Provs) && c.Provs[j].Cluster == c.Provs[i].Cluster {
			j++
		}
		n := 0
		if j-i > 1 {
			n = next
			next++
		}
		for k := i; k < j; k++ {
			c.Provs[k].Cluster = n
		}
		i = j
	}
}
