package main

// G2: the concurrency-relevant closures as micro-programs (NjectGen/Micro.lean).

import (
	"bytes"
	"fmt"
	"go/ast"
	"os"
	"path/filepath"
	"regexp"
	"strings"
)

var debugCall = regexp.MustCompile(`^(debugln|debugf|dumpValueArray|dumpF)\(`)

type microProg struct {
	name   string
	instrs []string
}

func q(s string) string { return leanStr(s) }

// stmtInstr translates one statement; nil result = skipped (debug output)
func stmtInstrs(st ast.Stmt, ctx map[string]string) []string {
	s := src(st)
	if debugCall.MatchString(s) {
		return nil
	}
	switch {
	case s == "if okayCheck != nil && !okayCheck(in) { return fv.Call(in) }":
		return []string{".bypassIfUnmappable"}
	case regexp.MustCompile(`^(\w+)\.Lock\(\)$`).MatchString(s):
		return []string{".lock " + q(strings.TrimSuffix(s, ".Lock()"))}
	case regexp.MustCompile(`^defer (\w+)\.Unlock\(\)$`).MatchString(s):
		return []string{".deferUnlock " + q(strings.TrimSuffix(strings.TrimPrefix(s, "defer "), ".Unlock()"))}
	case regexp.MustCompile(`^(\w+)\.Unlock\(\)$`).MatchString(s):
		return []string{".unlock " + q(strings.TrimSuffix(s, ".Unlock()"))}
	case regexp.MustCompile(`^(\w+)\.RLock\(\)$`).MatchString(s):
		return []string{".rlock " + q(strings.TrimSuffix(s, ".RLock()"))}
	case regexp.MustCompile(`^defer (\w+)\.RUnlock\(\)$`).MatchString(s):
		return []string{".deferRUnlock " + q(strings.TrimSuffix(strings.TrimPrefix(s, "defer "), ".RUnlock()"))}
	case regexp.MustCompile(`^var key in(\d+)$`).MatchString(s):
		ctx["arity"] = strings.TrimPrefix(s, "var key in")
		return nil
	case s == "fillKeyFromInputs(key[:], in)":
		return []string{".mkKey " + ctx["arity"]}
	case regexp.MustCompile(`^if out, found := (\w+)\[key\]; found \{ return out \}$`).MatchString(s):
		m := regexp.MustCompile(`:= (\w+)\[key\]`).FindStringSubmatch(s)
		return []string{".lookupRet " + q(m[1])}
	case s == "out := fv.Call(in)", s == "out = fv.Call(in)":
		if s == "out = fv.Call(in)" {
			return []string{".call", ".assign " + q("out")}
		}
		return []string{".call"}
	case regexp.MustCompile(`^(\w+)\[key\] = out$`).MatchString(s):
		return []string{".store " + q(strings.TrimSuffix(s, "[key] = out"))}
	case s == "return out", s == "return singleton", s == "return cacher":
		return []string{".ret"}
	case regexp.MustCompile(`^if (\w+), ok := (\w+)\[id\]; ok \{ return (\w+) \}$`).MatchString(s):
		m := regexp.MustCompile(`:= (\w+)\[id\]`).FindStringSubmatch(s)
		return []string{".registryGet " + q(m[1])}
	case regexp.MustCompile(`^(\w+)\[id\] = (\w+)$`).MatchString(s):
		return []string{".registryPut " + q(strings.Split(s, "[")[0])}
	case s == "initFunc()":
		return []string{".callInit"}
	case regexp.MustCompile(`^(\w+) := baseValues\.Copy\(\)$`).MatchString(s):
		return []string{".copyBase " + q(strings.Split(s, " ")[0])}
	case s == "outMap(baseValues, inputs)", s == "_ = runStaticChain()":
		return []string{".writeBase"}
	case regexp.MustCompile(`^outMap\((\w+), inputs\)$`).MatchString(s):
		return []string{".writeLocal " + q(strings.TrimSuffix(strings.TrimPrefix(s, "outMap("), ", inputs)"))}
	case regexp.MustCompile(`^f\((\w+)\)$`).MatchString(s):
		return []string{".runChain " + q(strings.TrimSuffix(strings.TrimPrefix(s, "f("), ")"))}
	case regexp.MustCompile(`^return inMap\((\w+)\)$`).MatchString(s):
		v := strings.TrimSuffix(strings.TrimPrefix(s, "return inMap("), ")")
		if v == "baseValues" {
			return []string{".readBase"}
		}
		return []string{".readLocal " + q(v)}
	case s == "out := inMap(baseValues)":
		return []string{".readBase"}
	}
	// once.Do(func() { … })
	if es, ok := st.(*ast.ExprStmt); ok {
		if call, ok := es.X.(*ast.CallExpr); ok {
			if sel, ok := call.Fun.(*ast.SelectorExpr); ok && sel.Sel.Name == "Do" && len(call.Args) == 1 {
				if fl, ok := call.Args[0].(*ast.FuncLit); ok {
					out := []string{".onceBegin " + q(src(sel.X))}
					for _, b := range fl.Body.List {
						out = append(out, stmtInstrs(b, ctx)...)
					}
					return append(out, ".onceEnd")
				}
			}
		}
	}
	return []string{".other " + q(s)}
}

func bodyInstrs(body *ast.BlockStmt) []string {
	ctx := map[string]string{"arity": "0"}
	var out []string
	for _, st := range body.List {
		out = append(out, stmtInstrs(st, ctx)...)
	}
	// `out := inMap(baseValues)` followed by `return out`: one read
	var norm []string
	for i, x := range out {
		if x == ".ret" && i > 0 && out[i-1] == ".readBase" {
			continue
		}
		norm = append(norm, x)
	}
	return norm
}

func extractMicro(repo, outDir string) {
	var progs []microProg
	var thresholds []string
	cf := parseFile(filepath.Join(repo, "cache.go"))
	bf := parseFile(filepath.Join(repo, "bind.go"))
	for _, d := range cf.Decls {
		fd, ok := d.(*ast.FuncDecl)
		if !ok {
			continue
		}
		switch fd.Name.Name {
		case "defineCacher":
			ast.Inspect(fd.Body, func(n ast.Node) bool {
				cc, ok := n.(*ast.CaseClause)
				if !ok || len(cc.List) != 1 {
					return true
				}
				cond := src(cc.List[0])
				thresholds = append(thresholds, strings.TrimPrefix(cond, "l <= "))
				for _, st := range cc.Body {
					if rs, ok := st.(*ast.ReturnStmt); ok && len(rs.Results) == 1 {
						if fl, ok := rs.Results[0].(*ast.FuncLit); ok {
							progs = append(progs, microProg{"cacher" + strings.TrimPrefix(cond, "l <= "), bodyInstrs(fl.Body)})
						}
					}
				}
				return true
			})
		case "generateSingleton", "generateCache":
			// the registry function itself, with nested closures replaced by a marker
			var instrs []string
			ctx := map[string]string{}
			for _, st := range fd.Body.List {
				s := src(st)
				if strings.HasPrefix(s, "singleton := func(") {
					as := st.(*ast.AssignStmt)
					fl := as.Rhs[0].(*ast.FuncLit)
					progs = append(progs, microProg{"singletonClosure", bodyInstrs(fl.Body)})
					instrs = append(instrs, ".other "+q("singleton := func(...)"))
					continue
				}
				instrs = append(instrs, stmtInstrs(st, ctx)...)
			}
			progs = append(progs, microProg{fd.Name.Name, instrs})
		}
	}
	ast.Inspect(bf, func(n ast.Node) bool {
		as, ok := n.(*ast.AssignStmt)
		if !ok || len(as.Lhs) != 1 || len(as.Rhs) != 1 {
			return true
		}
		fl, ok := as.Rhs[0].(*ast.FuncLit)
		if !ok {
			return true
		}
		switch src(as.Lhs[0]) {
		case "initImp":
			progs = append(progs, microProg{"initImp", bodyInstrs(fl.Body)})
		case "invokeImpl":
			progs = append(progs, microProg{"invokeImpl", bodyInstrs(fl.Body)})
		case "initFunc":
			if as.Tok.String() == "=" {
				progs = append(progs, microProg{"lazyInit", bodyInstrs(fl.Body)})
			}
		}
		return true
	})
	var w bytes.Buffer
	w.WriteString("-- GENERATED by /verif/extract from /repo/cache.go and bind.go. Do not edit.\n")
	w.WriteString("import Nject.Conc\nnamespace Nject.Gen\nopen Nject.Conc\n\n")
	for _, p := range progs {
		fmt.Fprintf(&w, "def %s : List Instr := [\n  %s\n]\n\n", p.name, strings.Join(p.instrs, ",\n  "))
	}
	fmt.Fprintf(&w, "/-- the arity thresholds of defineCacher, in switch order -/\ndef cacherThresholds : List Nat := [%s]\n\nend Nject.Gen\n", strings.Join(thresholds, ", "))
	if err := os.WriteFile(filepath.Join(outDir, "Micro.lean"), w.Bytes(), 0o644); err != nil {
		fmt.Fprintln(os.Stderr, err)
		os.Exit(1)
	}
	fmt.Printf("micro: %d closures, thresholds %v\n", len(progs), thresholds)
}
