package main

// Predicates and helper functions whose Go bodies are NOT translated but modelled by hand (bound "by name" to a
// field of PredCtx, or to a Lean function of the model): the extractor pins the source text it was written against.
// A body that no longer has that text is reported in `modelledByHandChanged`; the theorem
// C06_hand_modelled_sources_unchanged (decide) then fails -- the hand-written model may no longer say what the code says.

import (
	"crypto/sha256"
	"fmt"
	"go/ast"
	"path/filepath"
	"sort"
)

// file -> function names (top-level funcs) that the model transcribes by hand and that the classification and
// cache-key theorems (C06, C09, C04) rest on
var pinnedFuncs = map[string][]string{
	"characterize.go": {"mappable", "isWrapper", "hasAnonymousFuncs", "remapTerminalError", "redactTerminalError", "typesIn", "typesOut"},
	"cache.go":        {"canBeMapKey", "canValueBeMapKey", "fillKeyFromInputs"},
	"flows.go":        {"stripUnused", "stripUnusedCodes"},
	"generate.go":     {"terminalErrorIndex"},
}

// the by-name predicates (multi-statement bodies)
var pinnedPreds = []string{"isFuncPointer", "noAnonymousExceptFirstInput", "noAnonymousFuncs", "possibleMapKey", "returnsTerminalError"}

func hashOf(n ast.Node) string {
	return fmt.Sprintf("%x", sha256.Sum256([]byte(src(n))))[:16]
}

// current hashes: name -> hash ("missing" when the function is gone)
func currentPins(repo string) map[string]string {
	out := map[string]string{}
	files := make([]string, 0, len(pinnedFuncs))
	for f := range pinnedFuncs {
		files = append(files, f)
	}
	sort.Strings(files)
	for _, file := range files {
		f := parseFile(filepath.Join(repo, file))
		found := map[string]string{}
		for _, d := range f.Decls {
			if fd, ok := d.(*ast.FuncDecl); ok && fd.Recv == nil && fd.Body != nil {
				found[fd.Name.Name] = hashOf(fd)
			}
		}
		for _, name := range pinnedFuncs[file] {
			h, ok := found[name]
			if !ok {
				h = "missing"
			}
			out[file+":"+name] = h
		}
	}
	for _, p := range pinnedPreds {
		h, ok := predBodyHash[p]
		if !ok {
			h = "missing"
		}
		out["predicate:"+p] = h
	}
	return out
}

// filled by collectPredicates
var predBodyHash = map[string]string{}

// predicates with a one-expression body that transPred does not know
var predUnknownBody = map[string]string{}

// the hashes the model was written against (regenerate with: extract <repo> <out> -print-pins)
var expectedPins = map[string]string{
	"cache.go:canBeMapKey":                  "ff3b9ffc9ffedf01",
	"cache.go:canValueBeMapKey":             "afcbbfadb4ccfe01",
	"cache.go:fillKeyFromInputs":            "72785dc6225c4696",
	"characterize.go:hasAnonymousFuncs":     "dfd74e6b33a792e8",
	"characterize.go:isWrapper":             "9d98b8706028e5c6",
	"characterize.go:mappable":              "12c051ad22cd3abf",
	"characterize.go:redactTerminalError":   "49bb064281c64894",
	"characterize.go:remapTerminalError":    "64c05dec87e5a23b",
	"characterize.go:typesIn":               "e4a8e30299e9348a",
	"characterize.go:typesOut":              "134cd5186076fe63",
	"flows.go:stripUnused":                  "a22a6066a22a12ac",
	"flows.go:stripUnusedCodes":             "4326d09355be6eb8",
	"generate.go:terminalErrorIndex":        "80557b579cb92993",
	"predicate:isFuncPointer":               "e0d2030e9273da35",
	"predicate:noAnonymousExceptFirstInput": "32dbc570594c8ed7",
	"predicate:noAnonymousFuncs":            "ba9427ef75e3bf72",
	"predicate:possibleMapKey":              "8ff1caf41bc905d3",
	"predicate:returnsTerminalError":        "6b6901ebb2431b3c",
}
