// Command verifextract regenerates the table-like parts of the Lean model from /repo's source
// (go/parser + go/ast only): the two classification registries with their predicates and the
// effect of each mutate function (G1), and enum/const facts (G4).
package main

import (
	"bytes"
	"fmt"
	"go/ast"
	"go/parser"
	"go/printer"
	"go/token"
	"os"
	"path/filepath"
	"sort"
	"strings"
)

var fset = token.NewFileSet()

func src(n ast.Node) string {
	var b bytes.Buffer
	_ = printer.Fprint(&b, fset, n)
	return strings.Join(strings.Fields(b.String()), " ")
}

func leanStr(s string) string {
	return "\"" + strings.ReplaceAll(strings.ReplaceAll(s, "\\", "\\\\"), "\"", "\\\"") + "\""
}

type entry struct {
	name        string
	tests       []string
	group       string
	class       string
	memoized    bool
	required    bool
	synthetic   bool
	mapKeyCheck bool
	flows       map[string]string // flow name -> symbolic source
	opaque      []string          // statements of mutate that were not recognised
}

// predicate name -> Lean boolean expression over PredCtx `c` (or "" if only bound by name)
var predExpr = map[string]string{}
var predMsg = map[string]string{}

func parseFile(path string) *ast.File {
	f, err := parser.ParseFile(fset, path, nil, parser.ParseComments)
	if err != nil {
		fmt.Fprintln(os.Stderr, err)
		os.Exit(1)
	}
	return f
}

// translate the body `return EXPR` of a one-line predicate into a Lean Bool over c
func transPred(e ast.Expr) string {
	s := src(e)
	m := map[string]string{
		"!a.isNil":                             "!c.isNil",
		"a.t.Kind() != reflect.Func":           "!c.kindFunc",
		"a.t.Kind() == reflect.Func":           "c.kindFunc",
		"a.cc.isLast":                          "c.isLast",
		"!a.cc.isLast":                         "!c.isLast",
		"a.cc.inputsAreStatic":                 "c.inputsAreStatic",
		"!a.fm.mustCache":                      "!c.mustCache",
		"!a.fm.memoize":                        "!c.memoize",
		"a.fm.memoize":                         "c.memoize",
		"a.fm.cacheable":                       "c.cacheable",
		"a.fm.singleton":                       "c.singleton",
		"!a.fm.reorder":                        "!c.reorder",
		"!a.fm.singleton":                      "!c.singleton",
		"!a.fm.notCacheable":                   "!c.notCacheable",
		"len(stripUnused(typesOut(a.t))) != 0": "c.hasOutputs",
		"mappable(typesIn(a.t)...)":            "c.mappableInputs",
		"isWrapper(a.t, a.fm.fn)":              "c.isWrapper",
		"!isFuncPointer.test(a)":               "!c.isFuncPointer",
	}
	if v, ok := m[s]; ok {
		return v
	}
	return ""
}

func collectPredicates(f *ast.File) {
	ast.Inspect(f, func(n ast.Node) bool {
		vs, ok := n.(*ast.ValueSpec)
		if !ok || len(vs.Names) != len(vs.Values) {
			return true
		}
		for i, v := range vs.Values {
			call, ok := v.(*ast.CallExpr)
			if !ok {
				continue
			}
			if id, ok := call.Fun.(*ast.Ident); !ok || id.Name != "predicate" || len(call.Args) != 2 {
				continue
			}
			name := vs.Names[i].Name
			if lit, ok := call.Args[0].(*ast.BasicLit); ok {
				predMsg[name] = strings.Trim(lit.Value, "\"")
			}
			expr := ""
			if fl, ok := call.Args[1].(*ast.FuncLit); ok {
				predBodyHash[name] = hashOf(fl.Body)
				if len(fl.Body.List) == 1 {
					if ret, ok := fl.Body.List[0].(*ast.ReturnStmt); ok && len(ret.Results) == 1 {
						expr = transPred(ret.Results[0])
						if expr == "" {
							// a one-expression body the translator does not know: NOT silently bound by name
							predUnknownBody[name] = src(ret.Results[0])
						}
					}
				}
			}
			predExpr[name] = expr
		}
		return true
	})
}

func flowSource(e ast.Expr) string {
	s := src(e)
	m := map[string]string{
		"toTypeCodes(typesIn(a.t))":                       "typesIn",
		"toTypeCodes(typesOut(a.t))":                      "typesOut",
		"toTypeCodes(typesIn(a.t.Elem()))":                "typesIn",
		"toTypeCodes(typesOut(a.t.Elem()))":               "typesOut",
		"toTypeCodes(remapTerminalError(typesOut(a.t)))":  "remapTE",
		"toTypeCodes(redactTerminalError(typesOut(a.t)))": "redactTE",
		"toTypeCodes([]reflect.Type{errorType})":          "errorOnly",
		"toTypeCodes([]reflect.Type{a.t.(reflect.Type)})": "selfType",
		"toTypeCodes(in)":                                 "wrapperIn",
		"toTypeCodes(typesIn(inner))":                     "innerIn",
		"toTypeCodes(typesOut(inner))":                    "innerOut",
	}
	if v, ok := m[s]; ok {
		return v
	}
	return "opaque:" + s
}

func parseMutate(fl *ast.FuncLit, e *entry) {
	var walk func(stmts []ast.Stmt)
	walk = func(stmts []ast.Stmt) {
		for _, st := range stmts {
			switch s := st.(type) {
			case *ast.AssignStmt:
				if src(s) == "_, a.fm.mapKeyCheck = canBeMapKey(typesIn(a.t))" {
					e.mapKeyCheck = true
					continue
				}
				if len(s.Lhs) != 1 || len(s.Rhs) != 1 {
					e.opaque = append(e.opaque, src(s))
					continue
				}
				lhs := src(s.Lhs[0])
				switch {
				case lhs == "a.fm.group":
					e.group = src(s.Rhs[0])
				case lhs == "a.fm.class":
					e.class = src(s.Rhs[0])
				case lhs == "a.fm.memoized":
					e.memoized = src(s.Rhs[0]) == "true"
				case lhs == "a.fm.required":
					e.required = src(s.Rhs[0]) == "true"
				case lhs == "a.fm.isSynthetic":
					e.synthetic = src(s.Rhs[0]) == "true"
				case strings.HasPrefix(lhs, "a.fm.flows["):
					k := strings.TrimSuffix(strings.TrimPrefix(lhs, "a.fm.flows["), "]")
					v := flowSource(s.Rhs[0])
					if old, ok := e.flows[k]; ok && old != v {
						e.opaque = append(e.opaque, "conflicting flows["+k+"]")
					}
					e.flows[k] = v
				case lhs == "in" || lhs == "in[0]" || lhs == "inner" || lhs == "_, a.fm.mapKeyCheck":
					// locals of the wrapper entry / map key check closure: covered by the symbolic sources
				default:
					e.opaque = append(e.opaque, src(s))
				}
			case *ast.IfStmt:
				// `if _, ok := a.fm.fn.(ReflectiveInvoker); ok {A} else {B}` and the ReflectiveWrapper
				// variant: both branches assign the same flows from the same symbolic sources
				walk(s.Body.List)
				if blk, ok := s.Else.(*ast.BlockStmt); ok {
					walk(blk.List)
				}
			case *ast.DeclStmt:
				// var inner reflectType
			default:
				e.opaque = append(e.opaque, src(st))
			}
		}
	}
	walk(fl.Body.List)
}

func collectRegistry(f *ast.File, name string) []entry {
	var out []entry
	ast.Inspect(f, func(n ast.Node) bool {
		vs, ok := n.(*ast.ValueSpec)
		if !ok || len(vs.Names) != 1 || vs.Names[0].Name != name || len(vs.Values) != 1 {
			return true
		}
		cl, ok := vs.Values[0].(*ast.CompositeLit)
		if !ok {
			return true
		}
		for _, el := range cl.Elts {
			ecl, ok := el.(*ast.CompositeLit)
			if !ok {
				continue
			}
			e := entry{flows: map[string]string{}}
			for _, kv := range ecl.Elts {
				k, ok := kv.(*ast.KeyValueExpr)
				if !ok {
					continue
				}
				switch src(k.Key) {
				case "name":
					e.name = strings.Trim(src(k.Value), "\"")
				case "tests":
					if tl, ok := k.Value.(*ast.CompositeLit); ok {
						for _, t := range tl.Elts {
							e.tests = append(e.tests, src(t))
						}
					}
				case "mutate":
					if fl, ok := k.Value.(*ast.FuncLit); ok {
						parseMutate(fl, &e)
					}
				}
			}
			out = append(out, e)
		}
		return false
	})
	return out
}

func constOrder(f *ast.File, typ string) []string {
	var out []string
	ast.Inspect(f, func(n ast.Node) bool {
		gd, ok := n.(*ast.GenDecl)
		if !ok || gd.Tok != token.CONST {
			return true
		}
		match := false
		for i, sp := range gd.Specs {
			vs := sp.(*ast.ValueSpec)
			if i == 0 {
				if vs.Type != nil && src(vs.Type) == typ {
					match = true
				}
			}
			if match {
				for _, nm := range vs.Names {
					out = append(out, nm.Name)
				}
			}
		}
		return true
	})
	return out
}

func cap1(s string) string { return strings.ToUpper(s[:1]) + s[1:] }

func writeRegistry(w *bytes.Buffer, lname string, es []entry) {
	fmt.Fprintf(w, "def %s : List Entry := [\n", lname)
	for i, e := range es {
		tests := make([]string, len(e.tests))
		for j, t := range e.tests {
			tests[j] = ".p" + cap1(t)
		}
		var fl []string
		keys := make([]string, 0, len(e.flows))
		for k := range e.flows {
			keys = append(keys, k)
		}
		sort.Strings(keys)
		for _, k := range keys {
			v := e.flows[k]
			if strings.HasPrefix(v, "opaque:") {
				fl = append(fl, fmt.Sprintf("(.%s, .other %s)", k, leanStr(strings.TrimPrefix(v, "opaque:"))))
			} else {
				fl = append(fl, fmt.Sprintf("(.%s, .%s)", k, v))
			}
		}
		op := make([]string, len(e.opaque))
		for j, o := range e.opaque {
			op[j] = leanStr(o)
		}
		sep := ","
		if i == len(es)-1 {
			sep = ""
		}
		fmt.Fprintf(w, "  { name := %s,\n    tests := [%s],\n    group := .%s, cls := .%s, memoized := %v, required := %v, mapKeyCheck := %v,\n    flows := [%s],\n    unknown := [%s] }%s\n",
			leanStr(e.name), strings.Join(tests, ", "), e.group, e.class, e.memoized, e.required, e.mapKeyCheck,
			strings.Join(fl, ", "), strings.Join(op, ", "), sep)
	}
	fmt.Fprintf(w, "]\n\n")
}

func main() {
	repo := "/repo"
	outDir := "/verif/lean/NjectGen"
	if len(os.Args) > 1 {
		repo = os.Args[1]
	}
	if len(os.Args) > 2 {
		outDir = os.Args[2]
	}
	chf := parseFile(filepath.Join(repo, "characterize.go"))
	tyf := parseFile(filepath.Join(repo, "types.go"))
	collectPredicates(chf)
	handler := collectRegistry(chf, "handlerRegistry")
	invoke := collectRegistry(chf, "invokeRegistry")

	var w bytes.Buffer
	w.WriteString("-- GENERATED by /verif/extract from /repo/characterize.go and types.go. Do not edit.\n")
	w.WriteString("import Nject.ClassifyBase\nnamespace Nject.Gen\nopen Nject\n\n")

	// predicate enum and semantics
	names := make([]string, 0, len(predExpr))
	for n := range predExpr {
		names = append(names, n)
	}
	sort.Strings(names)
	w.WriteString("inductive Pred where\n")
	for _, n := range names {
		fmt.Fprintf(&w, "  | p%s\n", cap1(n))
	}
	w.WriteString("deriving DecidableEq, Repr\n\n")
	w.WriteString("/-- the body of each predicate; predicates whose Go body loops or recurses are bound to the\n    hand-modelled PredCtx field of the same name (tied by the S2 correspondence) -/\n")
	w.WriteString("def Pred.holds (c : PredCtx) : Pred → Bool\n")
	for _, n := range names {
		ex := predExpr[n]
		if ex == "" {
			ex = "c." + n + "  -- by name"
		}
		fmt.Fprintf(&w, "  | .p%s => %s\n", cap1(n), ex)
	}
	w.WriteString("\ndef Pred.message : Pred → String\n")
	for _, n := range names {
		fmt.Fprintf(&w, "  | .p%s => %s\n", cap1(n), leanStr(predMsg[n]))
	}
	w.WriteString("\nstructure Entry where\n  name : String\n  tests : List Pred\n  group : GroupT\n  cls : ClassT\n  memoized : Bool\n  required : Bool\n  mapKeyCheck : Bool\n  flows : List (FlowT × FlowSrc)\n  unknown : List String\nderiving Repr\n\n")
	writeRegistry(&w, "handlerRegistry", handler)
	writeRegistry(&w, "invokeRegistry", invoke)

	// what is modelled by hand: pinned source texts
	{
		cur := currentPins(repo)
		if len(os.Args) > 3 && os.Args[3] == "-print-pins" {
			keys := make([]string, 0, len(cur))
			for k := range cur {
				keys = append(keys, k)
			}
			sort.Strings(keys)
			for _, k := range keys {
				fmt.Printf("\t%q: %q,\n", k, cur[k])
			}
		}
		var changed []string
		keys := make([]string, 0, len(expectedPins))
		for k := range expectedPins {
			keys = append(keys, k)
		}
		sort.Strings(keys)
		for _, k := range keys {
			if cur[k] != expectedPins[k] {
				changed = append(changed, k)
			}
		}
		unk := make([]string, 0, len(predUnknownBody))
		for k := range predUnknownBody {
			unk = append(unk, k)
		}
		sort.Strings(unk)
		for _, k := range unk {
			if _, pinned := expectedPins["predicate:"+k]; !pinned {
				changed = append(changed, "predicate-body:"+k+": "+predUnknownBody[k])
			}
		}
		fmt.Fprintf(&w, "/-- hand-modelled predicates / helper functions whose Go source is no longer the text the model was written against -/\ndef modelledByHandChanged : List String := [%s]\n\n", quoteAll(changed))
	}

	// G4: enum orders
	fmt.Fprintf(&w, "def classOrder : List String := [%s]\n", quoteAll(constOrder(tyf, "classType")))
	fmt.Fprintf(&w, "def groupOrder : List String := [%s]\n", quoteAll(constOrder(tyf, "groupType")))
	fmt.Fprintf(&w, "def flowOrder : List String := [%s]\n", quoteAll(constOrder(tyf, "flowType")))
	w.WriteString("\nend Nject.Gen\n")
	if err := os.WriteFile(filepath.Join(outDir, "Registry.lean"), w.Bytes(), 0o644); err != nil {
		fmt.Fprintln(os.Stderr, err)
		os.Exit(1)
	}
	extractMicro(repo, outDir)
	extractConsts(repo, outDir)
	extractWrites(repo, outDir)
	fmt.Printf("registry: %d handler entries, %d invoke entries, %d predicates\n", len(handler), len(invoke), len(names))
}

func quoteAll(xs []string) string {
	q := make([]string, len(xs))
	for i, x := range xs {
		q[i] = leanStr(x)
	}
	return strings.Join(q, ", ")
}
