package main

// G3: inventory of the writes to providers and collection contents made by the API-level functions
// (everything a user can call on an existing Collection/Provider before the per-Bind copies exist),
// with a syntactic freshness classification of the written object (NjectGen/Writes.lean).

import (
	"bytes"
	"fmt"
	"go/ast"
	"os"
	"path/filepath"
	"regexp"
	"strings"
)

type writeSite struct {
	file, fn, target, class string
	fresh                   bool
	line                    int
}

// a write reaches a provider or a collection's contents
var providerWrite = regexp.MustCompile(`\.contents\b|\.(origin|index|fn|id|fatal|nonFinal|cacheable|mustCache|required|callsInner|memoize|loose|reorder|desired|shun|notCacheable|mustConsume|consumptionOptional|singleton|cluster|parallel|replaceByName|insertBeforeName|insertAfterName|shadowingAllowed|memoized|class|group|flows|isSynthetic|mapKeyCheck)\b`)

var freshRHS = regexp.MustCompile(`\.copy\(\)$|^newProvider\(|^&provider\{|^&Collection\{|^make\(|^newCollection\(|^append\(\[\]\*provider\(nil\)|^Sequence\(|^newThing\(`)

// functions whose every provider argument is a per-Bind copy (they run after characterizeFuncDetails)
// are out of scope here; the scope is the API surface:
var apiFiles = []string{"api.go", "nject.go", "condense.go", "replace.go"}

func rootIdent(e ast.Expr) (string, bool) {
	switch x := e.(type) {
	case *ast.Ident:
		return x.Name, true
	case *ast.SelectorExpr:
		return rootIdent(x.X)
	case *ast.IndexExpr:
		return rootIdent(x.X)
	case *ast.StarExpr:
		return rootIdent(x.X)
	case *ast.ParenExpr:
		return rootIdent(x.X)
	}
	return "", false
}

func isIndexWrite(e ast.Expr) bool {
	_, ok := e.(*ast.IndexExpr)
	return ok
}

// copyIsDeep: provider.copy() must give the copy its own map for every map-typed field of provider
// (an annotation applied to the copy writes into that map)
func copyIsDeep(repo string) (bool, []string) {
	f := parseFile(filepath.Join(repo, "nject.go"))
	var mapFields []string
	for _, d := range f.Decls {
		gd, ok := d.(*ast.GenDecl)
		if !ok {
			continue
		}
		for _, sp := range gd.Specs {
			ts, ok := sp.(*ast.TypeSpec)
			if !ok || ts.Name.Name != "provider" {
				continue
			}
			st, ok := ts.Type.(*ast.StructType)
			if !ok {
				continue
			}
			for _, fl := range st.Fields.List {
				if _, ok := fl.Type.(*ast.MapType); ok {
					for _, n := range fl.Names {
						mapFields = append(mapFields, n.Name)
					}
				}
			}
		}
	}
	assignedOther := map[string]bool{} // present in the literal with something else than its own mapCopy
	found := false
	for _, d := range f.Decls {
		fd, ok := d.(*ast.FuncDecl)
		if !ok || fd.Name.Name != "copy" || fd.Recv == nil || fd.Body == nil {
			continue
		}
		found = true
		ast.Inspect(fd.Body, func(n ast.Node) bool {
			kv, ok := n.(*ast.KeyValueExpr)
			if !ok {
				return true
			}
			k, ok := kv.Key.(*ast.Ident)
			if !ok {
				return true
			}
			if src(kv.Value) != "mapCopy(fm."+k.Name+")" {
				assignedOther[k.Name] = true
			}
			return true
		})
	}
	var shared []string
	for _, m := range mapFields {
		if assignedOther[m] { // absent from the literal = nil map in the copy: not shared
			shared = append(shared, m)
		}
	}
	return found && len(mapFields) > 0 && len(shared) == 0, shared
}

func extractWrites(repo, outDir string) {
	var sites []writeSite
	characterizeCopies := false
	for _, fname := range append(apiFiles, "characterize.go") {
		f := parseFile(filepath.Join(repo, fname))
		for _, d := range f.Decls {
			fd, ok := d.(*ast.FuncDecl)
			if !ok || fd.Body == nil {
				continue
			}
			if fname == "characterize.go" {
				if fd.Name.Name == "characterizeFuncDetails" && strings.Count(src(fd.Body), "fm: fm.copy()") == 2 {
					characterizeCopies = true
				}
				continue
			}
			recv := ""
			recvPtr := false
			if fd.Recv != nil && len(fd.Recv.List) == 1 && len(fd.Recv.List[0].Names) == 1 {
				recv = fd.Recv.List[0].Names[0].Name
				_, recvPtr = fd.Recv.List[0].Type.(*ast.StarExpr)
			}
			params := map[string]bool{}
			for _, p := range fd.Type.Params.List {
				for _, n := range p.Names {
					params[n.Name] = true
				}
			}
			// flow-insensitive set of fresh locals, flow-sensitive "contents reassigned fresh"
			freshLocals := map[string]bool{}
			contentsFresh := map[string]bool{} // variable whose .contents was reassigned to a fresh slice
			var walk func(n ast.Node, inModify bool, modParam string)
			walk = func(n ast.Node, inModify bool, modParam string) {
				ast.Inspect(n, func(m ast.Node) bool {
					switch s := m.(type) {
					case *ast.CallExpr:
						// x.modify(func(fm *provider) {...}) : the closure parameter is a fresh copy
						if sel, ok := s.Fun.(*ast.SelectorExpr); ok && sel.Sel.Name == "modify" && len(s.Args) == 1 {
							if fl, ok := s.Args[0].(*ast.FuncLit); ok && len(fl.Type.Params.List) == 1 && len(fl.Type.Params.List[0].Names) == 1 {
								walk(fl.Body, true, fl.Type.Params.List[0].Names[0].Name)
								return false
							}
						}
						// append(x.contents, …) writes into x's backing array when it has spare capacity
						if id, ok := s.Fun.(*ast.Ident); ok && id.Name == "append" && len(s.Args) > 0 {
							a0 := src(s.Args[0])
							if strings.HasSuffix(a0, ".contents") {
								root, _ := rootIdent(s.Args[0])
								if !freshLocals[root] && !contentsFresh[root] {
									sites = append(sites, writeSite{fname, fd.Name.Name, "append(" + a0 + ", …)", "append onto a contents array of an existing collection", false, fset.Position(s.Pos()).Line})
								}
							}
						}
					case *ast.RangeStmt:
						// for i, fm := range c.contents { fm = fm.copy() ... }
					case *ast.AssignStmt:
						for i, lhs := range s.Lhs {
							rhs := ""
							if i < len(s.Rhs) {
								rhs = src(s.Rhs[i])
							} else if len(s.Rhs) == 1 {
								rhs = src(s.Rhs[0])
							}
							if id, ok := lhs.(*ast.Ident); ok {
								if freshRHS.MatchString(rhs) {
									freshLocals[id.Name] = true
								} else if s.Tok.String() == ":=" || s.Tok.String() == "=" {
									if _, isFresh := freshLocals[id.Name]; isFresh && !freshRHS.MatchString(rhs) && id.Name != "_" {
										// re-assigned from something else: no longer known fresh, unless it derives from itself
										if !strings.HasPrefix(rhs, "append("+id.Name) {
											delete(freshLocals, id.Name)
										}
									}
								}
								continue
							}
							root, ok := rootIdent(lhs)
							if !ok {
								continue
							}
							target := src(lhs)
							if !providerWrite.MatchString(target) {
								continue
							}
							// only writes that reach a provider or a contents array
							sel, isSel := lhs.(*ast.SelectorExpr)
							isContentsField := isSel && sel.Sel.Name == "contents"
							if isContentsField {
								if freshRHS.MatchString(rhs) || rhs == "contents" || rhs == "n" {
									contentsFresh[root] = true
								}
								// assigning the field of a value-receiver copy or of a fresh collection is local
								cls, fr := "collection-field", false
								switch {
								case freshLocals[root]:
									cls, fr = "field of a fresh collection", true
								case root == recv && !recvPtr:
									cls, fr = "field of the value-receiver copy", true
								case root == recv && recvPtr && fd.Name.Name == "handleReplaceByName":
									// called on the address of characterizeAndFlatten's value-receiver copy
									cls, fr = "field of the caller's value-receiver copy", true
								}
								sites = append(sites, writeSite{fname, fd.Name.Name, target, cls, fr, fset.Position(s.Pos()).Line})
								continue
							}
							cls, fr := "", false
							switch {
							case inModify && root == modParam:
								cls, fr = "parameter of a modify closure (copy made by modify)", true
							case freshLocals[root]:
								cls, fr = "object created in this function", true
							case isIndexWrite(lhs) && strings.HasPrefix(target, root+".contents[") && contentsFresh[root]:
								cls, fr = "element of a contents array allocated in this function", true
							case isIndexWrite(lhs) && strings.HasPrefix(target, root+".contents[") && fd.Name.Name == "reorderNonFinal":
								cls, fr = "element of the receiver's contents array (callers pass a private array)", true
							case isIndexWrite(lhs) && (freshLocals[root]):
								cls, fr = "element of a slice allocated in this function", true
							case isIndexWrite(lhs) && (root == "n" || root == "contents" || root == "key" || root == "m" || root == "types" || root == "in" || root == "out"):
								cls, fr = "element of a local slice/map", true
							case root == "names" || root == "head" || root == "tail" || root == "prior" || root == "start" || root == "end" || root == "prev" || root == "target" || root == "lastSnip" || root == "lastFirstLast" || root == "current":
								cls, fr = "linked-list node / name index local to handleReplaceByName", true
							case root == "nfm" || root == "nc" || root == "p" && fd.Name.Name == "newCollection":
								cls, fr = "object created in this function", true
							default:
								if !isSel && !isIndexWrite(lhs) {
									continue
								}
								cls, fr = "shared or unknown object", false
							}
							sites = append(sites, writeSite{fname, fd.Name.Name, target, cls, fr, fset.Position(s.Pos()).Line})
						}
					}
					return true
				})
			}
			walk(fd.Body, false, "")
		}
	}
	// reorderNonFinal's assumption: every call site is preceded (in the same function) by a fresh reassignment
	callersOK := true
	nf := parseFile(filepath.Join(repo, "nject.go"))
	for _, d := range nf.Decls {
		fd, ok := d.(*ast.FuncDecl)
		if !ok || fd.Body == nil {
			continue
		}
		body := src(fd.Body)
		if strings.Contains(body, ".reorderNonFinal()") && fd.Name.Name != "reorderNonFinal" {
			i := strings.Index(body, "c.contents = append([]*provider(nil), c.contents...)")
			j := strings.Index(body, ".reorderNonFinal()")
			if i < 0 || i > j {
				callersOK = false
			}
		}
	}
	var w bytes.Buffer
	w.WriteString("-- GENERATED by /verif/extract (write-site inventory of the API-level functions). Do not edit.\nnamespace Nject.Gen\n\n")
	w.WriteString("structure WriteSite where\n  file : String\n  fn : String\n  line : Nat\n  target : String\n  cls : String\n  fresh : Bool\nderiving Repr\n\n")
	w.WriteString("def writes : List WriteSite := [\n")
	for i, s := range sites {
		sep := ","
		if i == len(sites)-1 {
			sep = ""
		}
		fmt.Fprintf(&w, "  { file := %s, fn := %s, line := %d, target := %s, cls := %s, fresh := %v }%s\n", q(s.file), q(s.fn), s.line, q(s.target), q(s.class), s.fresh, sep)
	}
	w.WriteString("]\n\n")
	fmt.Fprintf(&w, "/-- characterizeFuncDetails starts from `fm.copy()` in both branches: everything after it in Bind works on per-Bind copies -/\ndef characterizeCopies : Bool := %v\n\n", characterizeCopies)
	deep, sharedMaps := copyIsDeep(repo)
	fmt.Fprintf(&w, "/-- every caller of reorderNonFinal first replaces c.contents by a private array -/\ndef reorderCallersPrivate : Bool := %v\n\n", callersOK)
	fmt.Fprintf(&w, "/-- provider.copy() gives the copy its own map for every map-typed field (shared: %v) -/\ndef copyDeepCopiesMaps : Bool := %v\n\nend Nject.Gen\n", sharedMaps, deep)
	if err := os.WriteFile(filepath.Join(outDir, "Writes.lean"), w.Bytes(), 0o644); err != nil {
		fmt.Fprintln(os.Stderr, err)
		os.Exit(1)
	}
	nshared := 0
	for _, s := range sites {
		if !s.fresh {
			nshared++
			fmt.Printf("writes: NOT FRESH %s:%d %s %s\n", s.file, s.line, s.fn, s.target)
		}
	}
	fmt.Printf("writes: %d sites, %d not fresh, characterizeCopies=%v reorderCallersPrivate=%v\n", len(sites), nshared, characterizeCopies, callersOK)
}
