module verifextract

go 1.18
