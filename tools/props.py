"""Per-property checks."""
import os, json, collections, itertools, re, subprocess
import vcheck
from vcheck import harness_run, proof_obligations, finish, write_replay, load_known

PROPS = {}


def prop(name):
    def deco(f):
        PROPS[name] = f
        return f
    return deco


# ---------------------------------------------------------------- case helpers

def kv(line):
    d = {}
    for tok in line.split():
        if '=' in tok:
            k, v = tok.split('=', 1); d[k] = v
    return d


def ints(s):
    return [] if s in ('-', '', None) else [int(x) for x in s.split(',')]


class Case:
    def __init__(self, key, lines, mlines):
        self.key, self.lines, self.mlines = key, lines, mlines or []
        self.provs = [kv(l) | {'idx': int(l.split()[1])} for l in lines if l.startswith('p ')]
        self.bind = next((l for l in lines if l.startswith('bind ')), 'bind none')
        self.ok = self.bind.startswith('bind ok')
        self.t = [l[2:] for l in lines if l.startswith('t ')]
        self.x = [l[2:] for l in self.mlines if l.startswith('x ')]
        self.s = [l[2:] for l in self.mlines if l.startswith('s ')]
        self.skip = any(l.startswith('skip') for l in self.mlines) or not self.mlines
        self.flags = {l.split()[0]: ' '.join(l.split()[1:]) for l in self.mlines if l.split() and l.split()[0] in ('wf', 'supply', 'prog')}

    def s7_funcs(self):
        out = []; on = False
        for l in self.lines:
            if l.startswith('dump '):
                on = l.split()[1] == 'S7'
            elif l.startswith('f ') and on:
                out.append(kv(l))
        return out

    def text(self):
        return '\n'.join(self.lines) + '\n--- model ---\n' + '\n'.join(self.mlines) + '\n'

    def features(self):
        f = set()
        for p in self.provs:
            if p['kind'] == 'wrap':
                f.add('wrapper')
                c = int(p.get('calls', 0))
                f.add('inner%d' % min(c, 2) if c != 1 else 'inner1')
            if '21' in p['out'].split(','):
                f.add('fallible')
                if int(p.get('fail', 0)):
                    f.add('failing')
            if p['kind'] == 'lit':
                f.add('literal')
            if 'cacheable' in p['ann']:
                f.add('cacheable')
            if 'memoize' in p['ann']:
                f.add('memoize')
            if 'refl' in p['ann']:
                f.add('reflective')
            if p['loose'] != '-':
                f.add('loose')
        outs = collections.Counter()
        for p in self.provs:
            for t in set(ints(p['out']) + ints(p['iin'])):
                outs[t] += 1
        if any(v > 1 for v in outs.values()):
            f.add('dup-provider')
        nest = sum(1 for p in self.provs if p['kind'] == 'wrap')
        if nest >= 2:
            f.add('nested-wrappers')
        if any(l.startswith('init in') for l in self.lines):
            f.add('init')
        return f

    def nontrivial(self):
        f = self.features()
        return self.ok and bool(f & {'wrapper', 'dup-provider', 'fallible', 'loose', 'cacheable'})

    def shape_key(self):
        return '\n'.join(l for l in self.lines if l.startswith(('p ', 'invoke', 'init')))


def ev_parts(line):
    toks = line.split()
    return toks[0], (toks[1] if len(toks) > 1 and toks[0] != 'ret' else ''), line


def classify_diff(t, ref):
    """First difference between the implementation's trace and a reference trace -> property id + index."""
    for i, (a, b) in enumerate(itertools.zip_longest(t, ref, fillvalue='<none>')):
        if a == b:
            continue
        ka, ia, _ = ev_parts(a) if a != '<none>' else ('<none>', '', a)
        kb, ib, _ = ev_parts(b) if b != '<none>' else ('<none>', '', b)
        if a.startswith(('panic', 'hang', 'partialbind')):
            return 'C04', i
        if ka != kb or ia != ib:
            return 'C05', i
        if ka in ('call', 'wenter'):
            # arguments differ -> C01; results of a call are produced by the scripted body
            la = a.split(' -> ')[0]; lb = b.split(' -> ')[0]
            return ('C01' if la != lb else 'C05'), i
        if ka in ('wrecv', 'ret'):
            return 'C02', i
        return 'C05', i
    return None, -1


def load_cases(ctx, mode='run', n=None, profile='default'):
    if n is None:
        n = 1500 if ctx.tier == 'quick' else 20000
    impl, model = harness_run(ctx, mode, n, profile)
    if impl is None:
        return None
    return [Case(k, v, model.get(k)) for k, v in impl.items()]


def load_corpus(ctx, prop_id, mode='file'):
    """minimised past failures (and seeds of interest) for this property; they run first"""
    import glob
    out = []
    for f in sorted(glob.glob(os.path.join(vcheck.VERIF, 'corpus', prop_id, '*.case'))):
        impl, model = harness_run(ctx, mode, 0, extra=[f], tag='corpus-%s-%s-%s' % (mode, prop_id, os.path.basename(f)))
        if impl is None:
            continue
        for k, v in impl.items():
            c = Case(os.path.basename(f)[:-5] + '#' + k, v, model.get(k))
            out.append(c)
    return out


def failing_fallible_before(case, idx):
    """is there a failing TerminalError earlier in the same invocation? (attribute to C07)"""
    for l in reversed(case.t[:idx + 1]):
        if l.startswith('ret'):
            break
    return 'failing' in case.features()


# ---------------------------------------------------------------- S7 family: C01 C02 C05 C07

S7_RULE = ('random provider chains (structured generator: downward part built forward from available types, upward part '
           'backward from returned types, then perturbed) bound by the real nject; every init/invoke is run with scripted '
           'provider bodies that tag each produced value; the implementation trace is compared with Spec (the property) and '
           'Exec (the model of generate.go/bind.go run on the implementation\'s own dumped chain); a case is non-trivial if it '
           'binds and has a wrapper, a fallible injector, a Loose match, a static injector or two providers of one type; '
           'distinct = distinct provider-list descriptions')


def static_dup(case):
    """some type is supplied more than once in the static part of the bound chain"""
    seen = collections.Counter()
    for f in case.s7_funcs():
        if f['inc'] == '1' and (f['group'] in ('literal', 'static') or f['class'] == 'init-func'):
            for t in f['out'].split(','):
                if t != '-':
                    seen[t] += 1
    return any(v > 1 for v in seen.values())


def s7_check(ctx, prop_id, cases, extra_filter=None):
    n_bound = n_cmp = 0
    distinct = set()
    feats = collections.Counter()
    events = 0
    for c in cases:
        if not c.ok:
            continue
        n_bound += 1
        if c.skip:
            ctx.violations.append(('model produced no records for a bound chain (case %s)' % c.key,
                                   write_replay(ctx, 'case_%s.txt' % c.key, c.text()), False))
            continue
        n_cmp += 1
        events += len(c.t)
        if c.nontrivial():
            distinct.add(c.shape_key())
        for f in c.features():
            feats[f] += 1
        # hypotheses of the refinement theorem, checked on the implementation's own chain
        for flag, want in (('wf', 'ok'), ('prog', 'ok')):
            if c.flags.get(flag) != want:
                who, _ = classify_diff(c.t, c.s)
                ctx.violations.append(('hypothesis %s of exec_refines_spec fails on the implementation\'s compiled chain: %s (case %s)'
                                       % (flag, c.flags.get(flag), c.key),
                                       write_replay(ctx, 'case_%s.txt' % c.key, c.text()), who is not None))
        if prop_id == 'C01':
            vv = v5(c)
            if vv.get('loose', '-') != '-':
                ctx.violations.append(('interface parameter of provider(s) %s satisfied by a type none of whose upstream providers is Loose for it (case %s)'
                                       % (vv['loose'], c.key), write_replay(ctx, 'case_%s.txt' % c.key, c.text()), True))
            if vv.get('loose_f5', '-') != '-':
                if known_here('C01', 'loose_f5', c):
                    ctx.cov['known_finding_hits'] = ctx.cov.get('known_finding_hits', 0) + 1
                else:
                    ctx.violations.append(('loose_f5: %s (case %s)' % (vv['loose_f5'], c.key), write_replay(ctx, 'case_%s.txt' % c.key, c.text()), True))
        if prop_id == 'C01' and c.flags.get('supply') != 'ok':
            ctx.violations.append(('a bound chain reads a type nobody upstream supplies (case %s)' % c.key,
                                   write_replay(ctx, 'case_%s.txt' % c.key, c.text()), True))
        who_s, i_s = classify_diff(c.t, c.s)
        who_x, i_x = classify_diff(c.t, c.x)
        if who_s is not None:
            if who_s in ('C01', 'C02', 'C05') and 'fallible' in c.features() and prop_id == 'C07':
                # (also when nothing fails: a nil TerminalError must let the chain continue)
                who_s = 'C07'
            if who_s == 'C01' and prop_id == 'C05' and static_dup(c):
                # a type supplied more than once before invoke (values, static injectors, init arguments): which of them a
                # provider is handed is a matter of the order in which they take effect
                who_s = 'C05'
            if who_s == prop_id or prop_id == 'C17' or (who_s == 'C04' and prop_id in ('C01', 'C02', 'C05', 'C07')):
                ctx.violations.append(('implementation trace differs from Spec at event %d (case %s): impl `%s` vs spec `%s`'
                                       % (i_s, c.key, (c.t + ['<none>'])[min(i_s, len(c.t))], (c.s + ['<none>'])[min(i_s, len(c.s))]),
                                       write_replay(ctx, 'case_%s.txt' % c.key, c.text()), True))
        elif who_x is not None:
            ctx.violations.append(('correspondence Exec(model) vs implementation broke at event %d (case %s); Spec still matches'
                                   % (i_x, c.key), write_replay(ctx, 'case_%s.txt' % c.key, c.text()), False))
        if len(ctx.samples) < 3 and c.nontrivial() and len(c.t) > 6:
            ctx.samples.append({'case': c.key, 'providers': [l for l in c.lines if l.startswith(('p ', 'invoke', 'init'))],
                                'impl_trace_head': c.t[:8]})
    if prop_id == 'C01' and ctx.cov.get('known_finding_hits'):
        for k in known_open('C01', 'loose_f5'):
            ctx.known.append('KNOWN-FINDING: property=C01 %s (%d cases in this run match signature loose_f5)' % (k['what'], ctx.cov['known_finding_hits']))
    ctx.cov['programs'] = n_bound
    ctx.cov['evaluations'] = len(cases)
    ctx.cov['traces_validated_against_impl'] = n_cmp
    ctx.cov['distinct_nontrivial'] = len(distinct)
    ctx.cov['trace_events_compared'] = events
    ctx.cov['generator_distribution'] = dict(feats)
    ctx.cov['bind_outcomes'] = dict(collections.Counter(' '.join(c.bind.split()[:3]) for c in cases))
    # de-duplicate: report at most 5 violations, all counted
    if len(ctx.violations) > 5:
        ctx.notes.append('%d violating cases; first 5 reported' % len(ctx.violations))
        ctx.violations = ctx.violations[:5]


def fallible_flows_ok(ctx, c, f):
    """what C07_fallible_flows says of the registry, read off the implementation's own classification (S3):
    a provider given a fallible class returns `error` upward and no longer outputs TerminalError downward"""
    # (a fallible STATIC injector hands its error on downward, retyped: C07_static_error_visible)
    where = f['out'] if f['class'] == 'fallible-static-injector' else f['ret']
    if '20' not in where.split(',') or '21' in f['out'].split(','):
        ctx.violations.append(('provider %s has class %s but its flows are ret=%s out=%s: its error is not a returned value '
                               '(nobody has to receive it, it has no slot) or TerminalError is still a downward output (case %s)'
                               % (f['id'], f['class'], f['ret'], f['out'], c.key), write_replay(ctx, 'case_%s.txt' % c.key, c.text()), True))
        return False
    return True


def s7_prop(ctx, prop_id):
    ob, dis, details = proof_obligations(ctx, prop_id)
    if prop_id == 'C01':
        expected_probes(ctx, ['annotation-leak/Loose'])
    cases = load_cases(ctx)
    if cases is not None and prop_id == 'C07':
        # many memoized and fallible injectors, repeated invocations: a nil TerminalError served from the memo cache is still nil
        mcases = load_cases(ctx, 'run', 600 if ctx.tier == 'quick' else 6000, 'memo')
        if mcases is not None:
            cases = cases + mcases
    if cases is not None:
        corpus = load_corpus(ctx, prop_id)
        ctx.cov['corpus_cases'] = len(corpus)
        s7_check(ctx, prop_id, corpus + cases)
        if prop_id == 'C07':
            # a provider that returns TerminalError must have been given a fallible class (theorem
            # C07_terminal_error_is_never_a_plain_output over the regenerated registry): look at what the implementation did
            n_te = 0
            for c in corpus + cases:
                hdr, fs = dump_funcs(c, 'S3')
                for f in fs or []:
                    if '21' in f['out'].split(',') and f['class'] in ('injector', 'static-injector'):
                        ctx.violations.append(('provider %s returns TerminalError but was classified %s: its error is an ordinary output and stops nothing (case %s)'
                                               % (f['id'], f['class'], c.key), write_replay(ctx, 'case_%s.txt' % c.key, c.text()), True))
                    if f['class'] in ('fallible-injector', 'fallible-static-injector'):
                        n_te += 1
                        fallible_flows_ok(ctx, c, f)
            ctx.cov['fallible_providers_classified'] = n_te
        if prop_id in ('C01', 'C02'):
            # which provider's value a parameter / a received value is matched to (interface matches through Loose, nearest
            # candidate first) and which slot it lives in: the model of match.go / include.go / bind.go against the dumps
            stage_stats(ctx, corpus + cases, rmap_compare, 'S5rmap')
            stage_stats(ctx, corpus + cases, s6_compare, 'S6')
    ctx.assumptions += [
        'provider bodies are the harness\'s scripted bodies (any Beh in the theorem; scripted ones in the correspondence)',
        'Parallel wrappers: returned values are not propagated across inner() (documented limitation of Parallel)',
    ]
    return finish(ctx, 'proof', ob, dis, details, S7_RULE)


@prop('C01')
def c01(ctx):
    return s7_prop(ctx, 'C01')


@prop('C02')
def c02(ctx):
    return s7_prop(ctx, 'C02')


def s1_compare(case):
    m1 = next((l for l in case.mlines if l.startswith('m1 ')), None)
    order = s1_order(case)
    if m1 is None:
        return 'skip', ''
    mt = m1.split()
    if mt[1] == 'ok':
        want = [] if mt[2] == '-' else [int(x) for x in mt[2].split(',')]
        if order is None:
            return ('skip', '') if case.bind.split()[1] != 'ok' and 'E_EDIT' not in case.bind else ('diff', 'impl gave no S1 order')
        return ('same', '') if order == want else ('diff', 'S1 order impl %s model %s' % (order, want))
    if order is not None:
        return 'diff', 'model error %s but impl edited the list' % mt[2]
    return 'same', ''


def exec_order_ok(case):
    """the run-phase providers of every traversal appear in S1 (listed, adjusted) order"""
    order = s1_order(case)
    if not order or any('reorder' in p['ann'].split(',') for p in case.provs):
        return True, ''
    rank = {str(i): k for k, i in enumerate(order)}
    statics = {f['id'] for f in case.s7_funcs() if f['group'] in ('static', 'literal')}
    stack = []   # open wrappers
    last = -1
    for l in case.t:
        tk = l.split()
        if tk[0] == 'ret':
            stack = []; last = -1; continue
        if tk[0] in ('call', 'wenter'):
            if tk[1] in statics or tk[1] not in rank:
                continue
            r = rank[tk[1]]
            if r <= last:
                return False, 'provider %s ran after a provider listed later (rank %d after %d)' % (tk[1], r, last)
            last = r
            if tk[0] == 'wenter':
                stack.append(r)
        elif tk[0] == 'winner':
            # a new traversal of everything below this wrapper
            last = rank.get(tk[1], last)
        elif tk[0] == 'wret':
            if stack:
                stack.pop()
    return True, ''


def conc_part(ctx, tests, what):
    """the concurrent workloads whose names start with one of `tests`, run under -race, as part of a sequentially decided
    property: `what` says which clause of the property they exercise"""
    lines, races, stderr = vcheck.conc_run(ctx, 6 if ctx.tier == 'quick' else 40)
    st = collections.Counter()
    for l in lines or []:
        tk = l.split()
        if not any(tk[1].startswith(t) for t in tests):
            continue
        st[tk[1] + '-' + tk[2]] += 1
        if tk[2] != 'ok':
            ctx.violations.append(('%s: concurrent workload %s: %s' % (what, tk[1], ' '.join(tk[3:])),
                                   write_replay(ctx, 'conc_%s.txt' % tk[1], '\n'.join(lines) + '\n' + stderr), True))
    ctx.cov['concurrent_workloads'] = dict(st)
    ctx.assumptions.append('sync.Once and the Go memory model are modelled (C10), not verified; the workloads under the race detector support that model')


@prop('C05')
def c05(ctx):
    ob, dis, details = proof_obligations(ctx, 'C05')
    cases = load_cases(ctx)
    if cases is not None:
        corpus = load_corpus(ctx, 'C05')
        ctx.cov['corpus_cases'] = len(corpus)
        s7_check(ctx, 'C05', corpus + cases)
        stage_stats(ctx, cases, s1_compare, 'S1', found=True)
        for c in cases:
            if c.ok:
                ok, d = exec_order_ok(c)
                if not ok:
                    ctx.violations.append(('%s (case %s)' % (d, c.key), write_replay(ctx, 'case_%s.txt' % c.key, c.text()), True))
    # repeated invocations that hit the memo caches (memoized and fallible injectors in the run set): a cache hit must not
    # change who runs afterwards
    mcases = load_cases(ctx, 'run', 600 if ctx.tier == 'quick' else 6000, 'memo')
    if mcases is not None:
        before = {k: v for k, v in ctx.cov.items() if isinstance(v, int)}
        s7_check(ctx, 'C05', mcases)
        for k, v in before.items():
            if isinstance(ctx.cov.get(k), int) and k != 'corpus_cases':
                ctx.cov[k] += v
        for c in mcases:
            if c.ok:
                ok, d = exec_order_ok(c)
                if not ok:
                    ctx.violations.append(('%s (case %s)' % (d, c.key), write_replay(ctx, 'case_%s.txt' % c.key, c.text()), True))
    ecases = load_cases(ctx, 'edit', 1500 if ctx.tier == 'quick' else 15000)
    if ecases is not None:
        stage_stats(ctx, ecases, s1_compare, 'S1edit', found=True)
        for c in ecases:
            if c.ok:
                ok, d = exec_order_ok(c)
                if not ok:
                    ctx.violations.append(('%s (case %s)' % (d, c.key), write_replay(ctx, 'case_%s.txt' % c.key, c.text()), True))
    conc_part(ctx, ['static'], 'literals and static injectors take effect before any per-invocation provider, also for invocations racing on the first call')
    # the listed order also has to survive earlier uses of the collection (Bind, Append, ...): API histories
    hl, hraces, hstderr = vcheck.history_run(ctx, 40 if ctx.tier == 'quick' else 400)
    nh = 0
    for l in hl or []:
        if l.startswith('history diff'):
            nh += 1
            if nh <= 2:
                ctx.violations.append(('after a history of API operations a collection no longer lists / runs its providers as written: %s' % l[13:220],
                                       write_replay(ctx, 'history_%d.txt' % nh, '\n'.join(hl[:200])), True))
    ctx.cov['history_diffs'] = nh
    if len(ctx.violations) > 5:
        ctx.notes.append('%d violations; first 5 reported' % len(ctx.violations)); ctx.violations.sort(key=lambda v: not v[2]); ctx.violations = ctx.violations[:5]
    ctx.assumptions += ['provider bodies are the harness\'s scripted bodies (any Beh in the theorem)']
    return finish(ctx, 'proof', ob, dis, details, S7_RULE + '; plus the S1 order (named edits, NonFinal) against the model and execution order against the S1 order')


@prop('C07')
def c07(ctx):
    return s7_prop(ctx, 'C07')


def replay(ctx, path):
    print(open(path).read())
    return 0


# ---------------------------------------------------------------- C18 named edits

def s1_order(case):
    out = None; on = False
    for l in case.lines:
        if l.startswith('dump '):
            on = l.split()[1] == 'S1'
            if on:
                out = []
        elif l.startswith('f ') and on:
            out.append(int(kv(l)['id']))
    return out


def edit_check(ctx, cases):
    stats = collections.Counter()
    distinct = set()
    for c in cases:
        m1 = next((l for l in c.mlines if l.startswith('m1 ')), None)
        if m1 is None:
            ctx.violations.append(('model produced no S1 record (case %s)' % c.key, write_replay(ctx, 'case_%s.txt' % c.key, c.text()), False))
            continue
        order = s1_order(c)
        bind = c.bind.split()
        has_dir = any(p['replace'] != '-' or p['before'] != '-' or p['after'] != '-' for p in c.provs)
        if has_dir:
            distinct.add('\n'.join(l for l in c.lines if l.startswith('e ')))
        mt = m1.split()
        if bind[1] in ('hang',) or bind[1].startswith('panic'):
            stats['impl-' + bind[1]] += 1
            ctx.violations.append(('Bind %s on a list with named edits (case %s); model says %s' % (bind[1], c.key, ' '.join(mt[1:])),
                                   write_replay(ctx, 'case_%s.txt' % c.key, c.text()), True))
            continue
        if mt[1] == 'ok':
            want = [] if mt[2] == '-' else [int(x) for x in mt[2].split(',')]
            if order is None:
                stats['impl-error-model-ok'] += 1
                ctx.violations.append(('model edits the list, implementation failed before S1: %s (case %s)' % (' '.join(bind[:3]), c.key),
                                       write_replay(ctx, 'case_%s.txt' % c.key, c.text()), True))
            elif order != want:
                stats['order-diff'] += 1
                ctx.violations.append(('edited order differs (case %s): impl %s model/spec %s' % (c.key, order, want),
                                       write_replay(ctx, 'case_%s.txt' % c.key, c.text()), True))
            else:
                stats['order-same'] += 1
        else:
            cls = mt[2]
            if cls in ('DEGENERATE', 'FUEL'):
                stats['model-' + cls.lower()] += 1
                ctx.violations.append(('list shape outside the proved guard of edit_spec (%s), implementation gave %s (case %s)'
                                       % (cls, order if order is not None else ' '.join(bind[:3]), c.key),
                                       write_replay(ctx, 'case_%s.txt' % c.key, c.text()), True))
            elif order is not None or len(bind) < 3 or bind[2] != cls:
                stats['error-diff'] += 1
                ctx.violations.append(('model says %s, implementation: %s (case %s)' % (cls, ' '.join(bind[:3]) if order is None else order, c.key),
                                       write_replay(ctx, 'case_%s.txt' % c.key, c.text()), True))
            else:
                stats['error-same-' + cls] += 1
        pair = next((l for l in c.lines if l.startswith('pair ')), None)
        if pair == 'pair diff':
            stats['pair-diff'] += 1
            ctx.violations.append(('chain with named edits behaves differently from the hand-edited chain (case %s)' % c.key,
                                   write_replay(ctx, 'case_%s.txt' % c.key, c.text()), True))
        elif pair:
            stats['pair-same'] += 1
        if len(ctx.samples) < 3 and has_dir and order:
            ctx.samples.append({'case': c.key, 'list': [l for l in c.lines if l.startswith('e ')], 'edited_order': order})
    ctx.cov['evaluations'] = ctx.cov.get('evaluations', 0) + len(cases)
    ctx.cov['programs'] = ctx.cov.get('programs', 0) + len(cases)
    ctx.cov['distinct_nontrivial'] = ctx.cov.get('distinct_nontrivial', 0) + len(distinct)
    ctx.cov['traces_validated_against_impl'] = ctx.cov.get('traces_validated_against_impl', 0) + stats['order-same'] + sum(v for k, v in stats.items() if k.startswith('error-same'))
    ctx.cov.setdefault('outcomes', {}).update({k: ctx.cov.get('outcomes', {}).get(k, 0) + v for k, v in stats.items()})


@prop('C18')
def c18(ctx):
    ob, dis, details = proof_obligations(ctx, 'C18')
    n = 2000 if ctx.tier == 'quick' else 20000
    cases = load_cases(ctx, 'edit', n)
    if cases is not None:
        edit_check(ctx, cases)
    if ctx.tier == 'thorough':
        cases = load_cases(ctx, 'editall', 4)
        if cases is not None:
            edit_check(ctx, cases)
            ctx.cov['exhaustive'] = True
            ctx.notes.append('editall: every list of length<=4 over origins {none,A,B} x directives {none,rep/bef/aft x A,B}')
    if len(ctx.violations) > 6:
        ctx.notes.append('%d violating cases; first 6 reported' % len(ctx.violations))
        ctx.violations = ctx.violations[:6]
    rule = ('lists of 2..7 providers func(T0) T0 with names A,B,C and ReplaceNamed/InsertBeforeNamed/InsertAfterNamed directives '
            '(blocks, adjacency, missing and duplicated names, two tags); the order after stage S1 (dump hook) is compared with the '
            'Lean model editAll; each case is also re-run hand-written in the edited order and must behave identically; '
            'non-trivial = has at least one directive; distinct = distinct (origin, directive) lists')
    return finish(ctx, 'proof', ob, dis, details, rule)


# ---------------------------------------------------------------- stage correspondence helpers

def dump_funcs(case, stage):
    out = None; on = False; hdr = None
    for l in case.lines:
        if l.startswith('dump '):
            on = l.split()[1] == stage
            if on:
                out = []; hdr = kv(l)
        elif l.startswith('f ') and on:
            out.append(kv(l))
    return hdr, out


def fmt_cp(f):
    return '%s:%s:%s:%s/%s/%s/%s/%s' % (f['id'], f['class'], f['group'], f['ret'], f['out'], f['in'], f['recv'], f['byp'])


def s3_compare(case):
    """-> (status, detail): 'same' | 'diff' | 'skip'"""
    m3 = next((l for l in case.mlines if l.startswith('m3 ')), None)
    hdr, fs = dump_funcs(case, 'S3')
    if m3 is None:
        return 'skip', 'no model record'
    mt = m3.split()
    if mt[1] == 'err':
        if fs is None and case.bind.split()[1:3] == ['err', mt[2]]:
            return 'same', ''
        return 'diff', 'model %s, impl %s' % (mt[2], ' '.join(case.bind.split()[:3]) if fs is None else 'assembled')
    if fs is None:
        return 'diff', 'model assembled, impl %s' % ' '.join(case.bind.split()[:3])
    want = mt[3:]
    got = [fmt_cp(f) for f in fs]
    if want != got:
        for i, (a, b) in enumerate(itertools.zip_longest(got, want, fillvalue='<none>')):
            if a != b:
                return 'diff', 'func %d: impl %s model %s' % (i, a, b)
    if mt[2] != 'inv=%s' % hdr['invokeIndex']:
        return 'diff', 'invokeIndex impl %s model %s' % (hdr['invokeIndex'], mt[2])
    return 'same', ''


def s4_compare(case):
    """the model of reorder.go (run on the model's assembled list) against the implementation's S4 dump: same order, same
    providers given up on"""
    m = next((l for l in case.mlines if l.startswith('m4o ')), None)
    hdr, fs = dump_funcs(case, 'S4')
    if m is None or fs is None:
        return 'skip', ''
    d = kv(m)
    if d.get('fuel') != 'ok':
        return 'diff', 'model of topo.run ran out of fuel'
    got = ','.join(f['id'] for f in fs) or '-'
    if d['order'] != got:
        return 'diff', 'order: impl %s model %s' % (got, d['order'])
    gave = ','.join(f['id'] for f in fs if 'dependencies_not_met' in f.get('why', '')) or '-'
    mg = ','.join(sorted(d['gaveup'].split(','), key=lambda x: [f['id'] for f in fs].index(x) if x != '-' and x in [f['id'] for f in fs] else -1))
    if mg != gave:
        return 'diff', 'given up on: impl %s model %s' % (gave, d['gaveup'])
    return 'same', ''


# ---------------------------------------------------------------- C06 static vs per-invocation

def stage_stats(ctx, cases, cmpfn, label, found=False):
    st = collections.Counter()
    for c in cases:
        s, d = cmpfn(c)
        st[s] += 1
        if s == 'diff':
            ctx.violations.append(('%s correspondence: %s (case %s)' % (label, d, c.key),
                                   write_replay(ctx, 'case_%s.txt' % c.key, c.text()), found))
    ctx.cov[label + '_compared'] = st['same'] + st['diff']
    ctx.cov[label + '_diff'] = st['diff']
    return st


def call_counts_ok(case):
    """static injectors (group static in the S7 dump) are called in at most one op of the case; everything
    else that is included and reached is called per invocation (checked through the Spec trace equality)."""
    statics = {f['id'] for f in case.s7_funcs() if f['group'] == 'static' and f['inc'] == '1'}
    ops = []; cur = None
    for l in case.lines:
        if l.startswith('op '):
            cur = []; ops.append(cur)
        elif l.startswith('t call') and cur is not None:
            cur.append(l.split()[2])
    seen = collections.Counter()
    for o in ops:
        for i in set(o):
            if i in statics:
                seen[i] += 1
        for i in statics:
            if o.count(i) > 1:
                return False, 'static injector %s called %d times in one op' % (i, o.count(i))
    for i, n in seen.items():
        if n > 1:
            return False, 'static injector %s ran in %d different init/invoke calls' % (i, n)
    return True, ''


def c06_direct(case):
    """the property read directly off the implementation's dump and the provider descriptions"""
    out = []
    provs = {str(p['idx']): p for p in case.provs}
    fs = dump_funcs(case, 'S3')[1] or []
    inv = next((f for f in fs if f['class'] == 'invoke-func'), None)
    tainted = set(ints(inv['out'])) if inv else set()
    # taint in list order of the S3 stage (= edited order): use the S3 dump, whose order is pre-reorder
    hdr, s3 = dump_funcs(case, 'S3')
    order = [f for f in (s3 or []) if f['id'] in provs]
    # S3 lists static/literal before run; recover listed order by provider idx after edits = S1 order
    s1 = s1_order(case) or []
    byid = {f['id']: f for f in (s3 or [])}
    for i in s1:
        f = byid.get(str(i))
        if f is None:
            continue
        p = provs[str(i)]
        ann = p['ann'].split(',')
        if f['group'] == 'static':
            if 'notcacheable' in ann:
                out.append('provider %s is NotCacheable but classified STATIC' % i)
            if not ({'cacheable', 'mustcache', 'memoize', 'singleton'} & set(ann)):
                out.append('provider %s is not marked Cacheable/MustCache/Memoize/Singleton but classified STATIC' % i)
            bad = [t for t in ints(f['in']) if t in tainted and t != 22]
            if bad:
                out.append('provider %s is STATIC but its input %s comes from invoke or an earlier per-invocation provider' % (i, bad))
        if f['group'] == 'run':
            if {'mustcache', 'singleton'} & set(ann):
                out.append('provider %s is MustCache/Singleton but classified RUN and Bind succeeded' % i)
            tainted |= set(ints(f['out']))
    return out


@prop('C06')
def c06(ctx):
    ob, dis, details = proof_obligations(ctx, 'C06')
    # inputs that differ have different memo keys (nil interface / struct{}{} / typed zeros through an `any` parameter)
    expected_probes(ctx, ['memo-keys/'])
    cases = load_cases(ctx)
    if cases is not None:
        stage_stats(ctx, cases, s3_compare, 'S3')
        # what a failing static injector makes the static chain skip (and so which static values stay visible): slot partition
        # and zero lists against the model of bind.go
        stage_stats(ctx, cases, s6_compare, 'S6')
        n = 0; distinct = set(); feats = collections.Counter()
        for c in cases:
            for d in c06_direct(c):
                ctx.violations.append(('%s (case %s)' % (d, c.key), write_replay(ctx, 'case_%s.txt' % c.key, c.text()), True))
            if not c.ok or c.skip:
                continue
            n += 1
            ok, d = call_counts_ok(c)
            if not ok:
                ctx.violations.append(('%s (case %s)' % (d, c.key), write_replay(ctx, 'case_%s.txt' % c.key, c.text()), True))
            who, i = classify_diff(c.t, c.s)
            if who is not None and who in ('C05',):
                # a call that should not happen / is missing: attribute to C06 when it concerns a static injector
                statics = {f['id'] for f in c.s7_funcs() if f['group'] == 'static'}
                line = (c.t + ['<none>'])[min(i, len(c.t))]
                if len(line.split()) > 1 and line.split()[1] in statics:
                    ctx.violations.append(('static injector call differs from Spec at event %d (case %s)' % (i, c.key),
                                           write_replay(ctx, 'case_%s.txt' % c.key, c.text()), True))
            groups = collections.Counter(f['group'] for f in c.s7_funcs() if f['inc'] == '1')
            if groups['static'] or 'cacheable' in c.features():
                distinct.add(c.shape_key())
            for f in c.features():
                feats[f] += 1
            if len(ctx.samples) < 3 and groups['static'] >= 2:
                ctx.samples.append({'case': c.key, 'providers': [l for l in c.lines if l.startswith(('p ', 'invoke', 'init'))],
                                    'included_groups': dict(groups)})
        ctx.cov['programs'] = n
        ctx.cov['evaluations'] = len(cases)
        ctx.cov['traces_validated_against_impl'] = n
        ctx.cov['distinct_nontrivial'] = len(distinct)
        ctx.cov['generator_distribution'] = dict(feats)
        if len(ctx.violations) > 5:
            ctx.notes.append('%d violations; first 5 reported' % len(ctx.violations)); ctx.violations.sort(key=lambda v: not v[2]); ctx.violations = ctx.violations[:5]
    rule = ('registry theorems are re-proved over the table regenerated from characterize.go on this run; the list-level model '
            'characterizeAll/assemble is compared with the implementation\'s S3 dump (class, group, five flow lists, order, invokeIndex) '
            'on every generated chain; call counts of static injectors over init + several invocations are read from the real traces; '
            'non-trivial = chain with a Cacheable-family provider; distinct = distinct provider lists')
    ctx.assumptions.append('with an init function the static chain runs when init is called (documented contract)')
    conc_part(ctx, ['static', 'singleton'], 'static results are visible to every invocation, also to those racing on the first call')
    if len(ctx.violations) > 5:
        ctx.violations.sort(key=lambda v: not v[2]); ctx.violations = ctx.violations[:5]
    return finish(ctx, 'proof', ob, dis, details, rule)


def s5_compare(case):
    m5 = next((l for l in case.mlines if l.startswith('m5 ')), None)
    if m5 is None:
        return 'skip', 'no model record'
    mt = m5.split()
    hdr, fs = dump_funcs(case, 'S7')
    bind = case.bind.split()
    if mt[1] == 'err':
        if fs is None and len(bind) > 2 and bind[1] == 'err' and bind[2] == mt[2]:
            return 'same', ''
        return 'diff', 'model %s, impl %s' % (mt[2], ' '.join(bind[:3]))
    if fs is None:
        return 'diff', 'model binds, impl %s' % ' '.join(bind[:3])
    want = {}
    for tok in mt[2:]:
        i, inc, drm, urm, brm, wanted = tok.split(':')
        want[i] = (inc, drm, urm, brm, wanted)
    if [f['id'] for f in fs] != [tok.split(':')[0] for tok in mt[2:]]:
        return 'diff', 'order differs'
    for f in fs:
        w = want[f['id']]
        if f['inc'] != w[0]:
            return 'diff', 'include flag of %s: impl %s model %s' % (f['id'], f['inc'], w[0])
        if f['inc'] == '1' and (f['drm'], f['urm'], f['brm']) != (w[1], w[2], w[3]):
            return 'diff', 'rmaps of %s: impl %s model %s' % (f['id'], (f['drm'], f['urm'], f['brm']), w[1:4])
    # the dependency relation after the final flow computation (who uses whom, in the order recorded)
    m5u = next((l for l in case.mlines if l.startswith('m5u ')), None)
    if m5u is not None and fs and 'uses' in fs[0]:
        wantu = {}
        for tok in m5u.split()[1:]:
            i, us, ub = tok.split(':')
            wantu[i] = (us, ub)
        for f in fs:
            if f['id'] in wantu and (f['uses'], f['usedby']) != wantu[f['id']]:
                return 'diff', 'dependency lists of %s: impl uses=%s usedby=%s model uses=%s usedby=%s' % (
                    (f['id'], f['uses'], f['usedby']) + wantu[f['id']])
    # ... and the same relation per flow and per requested type (usesDetail / usedByDetail)
    m5d = next((l for l in case.mlines if l.startswith('m5d ')), None)
    if m5d is not None and fs and 'ud' in fs[0]:
        wantd = {}
        for tok in m5d.split()[1:]:
            i, ud, ubd = tok.split(':')
            wantd[i] = (ud, ubd)
        for f in fs:
            if f['id'] in wantd and (f['ud'], f['ubd']) != wantd[f['id']]:
                return 'diff', 'dependency detail of %s: impl uses=%s usedby=%s model uses=%s usedby=%s' % (
                    (f['id'], f['ud'], f['ubd']) + wantd[f['id']])
    return 'same', ''


def rmap_compare(case):
    """only the type remaps of the included providers (who supplies an interface-typed parameter or received value)"""
    st, d = s5_compare(case)
    if st == 'diff' and not d.startswith('rmaps'):
        return 'skip', d
    return st, d


def s6_compare(case):
    m6 = next((l for l in case.mlines if l.startswith('m6 ')), None)
    hdr, fs = dump_funcs(case, 'S7')
    if m6 is None or fs is None:
        return 'skip', ''
    mt = m6.split()
    d = kv(m6)
    dv = next((l for l in case.lines if l.startswith('dv ')), 'dv -').split()[1]
    uv = next((l for l in case.lines if l.startswith('uv ')), 'uv -').split()[1]
    def mapped(s):
        return sorted(int(x.split(':')[0]) for x in s.split(',') if x != '-' and not x.endswith(':-1'))
    if mapped(dv) != ints(d['d']):
        return 'diff', 'down-mapped types impl %s model %s' % (mapped(dv), d['d'])
    if mapped(uv) != ints(d['u']):
        return 'diff', 'up-mapped types impl %s model %s' % (mapped(uv), d['u'])
    if hdr['vcount'] != d['vcount']:
        return 'diff', 'vcount impl %s model %s' % (hdr['vcount'], d['vcount'])
    zi = mt.index('z')
    want = {t.split(':')[0]: t.split(':')[1:] for t in mt[zi + 1:]}
    def tyset(s):
        # the lists of types to zero are sets: the implementation's may name a type twice (two later providers of it)
        return ','.join(str(x) for x in sorted({int(x) for x in s.split(',') if x != '-'})) or '-'
    for f in fs:
        if f['inc'] != '1' or f['id'] not in want:
            continue
        zs = f['zs']; zin = f['zi']
        pos = int(fs.index(f))
        if pos < int(hdr['invokeIndex']):
            if f['class'] == 'fallible-static-injector' and tyset(zs) != tyset(want[f['id']][0]):
                return 'diff', 'zero-if-skipped of %s impl %s model %s' % (f['id'], zs, want[f['id']][0])
        else:
            if f['class'] in ('wrapper-func', 'fallible-injector') and tyset(zin) != tyset(want[f['id']][1]):
                return 'diff', 'zero-if-inner-not-called of %s impl %s model %s' % (f['id'], zin, want[f['id']][1])
    return 'same', ''


# ---------------------------------------------------------------- validators on the implementation's bound chain

def v5(case):
    d = {}
    for l in case.mlines:
        if l.startswith('v5 '):
            t = l.split()
            d[t[1]] = t[2] if len(t) > 2 else '-'
    return d


def known_open(prop_id, signature):
    return [k for k in load_known().get('open', []) if k.get('property') == prop_id and k.get('signature') == signature]


def known_here(prop_id, signature, case):
    """A listed finding accounts for what is seen on this case only if the implementation does on this case what the
    model (the transcription in which the finding was analysed) does: where the include computation of the two differs,
    something else is going on and the signature must not swallow it."""
    k = known_open(prop_id, signature)
    if not k:
        return k
    try:
        st, _ = s5_compare(case)
    except Exception:
        st = 'skip'
    return k if st != 'diff' else []


def include_family(ctx, prop_id, checks, nontrivial, rule, extra=None, modes=(('run', None, 'default'),)):
    """shared driver for the properties decided on the include stage (S5):
    checks: list of (v5 key, ok value, message, known-finding signature or None)"""
    ob, dis, details = proof_obligations(ctx, prop_id)
    total = []; 
    for mode, n, profile in modes:
        cs = load_cases(ctx, mode, n, profile)
        if cs is not None:
            total += cs
    corpus = load_corpus(ctx, prop_id)
    cases = corpus + total
    ctx.cov['corpus_cases'] = len(corpus)
    st5 = stage_stats(ctx, cases, s5_compare, 'S5')
    n = 0; distinct = set(); kf = collections.Counter()
    deps = collections.Counter()
    for c in cases:
        md = next((l for l in c.mlines if l.startswith('m5deps ')), None)
        if md is not None:
            deps[md] += 1
            if 'bad' in md:
                ctx.violations.append(('the hypotheses of the fixpoint theorems (C03_bound_chain_is_a_fixpoint, C15_bound_chain_consumes_returns) do not hold of the '
                                       'model\'s dependency records for this chain: %s (case %s)' % (md, c.key), write_replay(ctx, 'case_%s.txt' % c.key, c.text()), False))
    ctx.cov['fixpoint_hypotheses_checked'] = sum(deps.values())
    ctx.cov['fixpoint_hypotheses_failed'] = sum(v for k, v in deps.items() if 'bad' in k)
    for c in cases:
        if not c.ok or c.skip:
            continue
        n += 1
        vv = v5(c)
        for key, okval, msg, sig in checks:
            got = vv.get(key)
            if got is None:
                continue
            if got != okval:
                if sig and key == 'unjustified' and all(final_drop_signature(c, i) or final_rematch_signature(c, i) for i in got.split(',')) and known_here(prop_id, sig, c):
                    kf[sig] += 1
                    continue
                if key == 'unjustified' and all(final_drop_signature(c, i) or final_rematch_signature(c, i) or up_shadow_signature(c, i) for i in got.split(',')) \
                        and known_here(prop_id, 'unjustified_upshadow', c) and (known_here(prop_id, sig, c) or all(up_shadow_signature(c, i) for i in got.split(','))):
                    kf['unjustified_upshadow'] += 1
                    continue
                ctx.violations.append(('%s: %s (case %s)' % (msg, got, c.key), write_replay(ctx, 'case_%s.txt' % c.key, c.text()), True))
        for key, sig, what in ((k, s, m) for k, _, m, s in checks if s):
            got = vv.get(key + '_' + sig.split('_')[-1]) if False else None
        if nontrivial(c):
            distinct.add(c.shape_key())
        if extra:
            extra(ctx, c, kf)
        if len(ctx.samples) < 3 and nontrivial(c):
            ctx.samples.append({'case': c.key, 'providers': [l for l in c.lines if l.startswith(('p ', 'invoke', 'init'))],
                                'included': [f['id'] for f in c.s7_funcs() if f['inc'] == '1'],
                                'excluded': [f['id'] for f in c.s7_funcs() if f['inc'] == '0']})
    for sig, cnt in kf.items():
        for k in known_open(prop_id, sig):
            ctx.known.append('KNOWN-FINDING: property=%s %s (%d cases in this run match signature %s)' % (prop_id, k['what'], cnt, sig))
    ctx.cov['programs'] = n
    ctx.cov['evaluations'] = len(cases)
    ctx.cov['traces_validated_against_impl'] = n
    ctx.cov['distinct_nontrivial'] = len(distinct)
    ctx.cov['known_finding_hits'] = dict(kf)
    if len(ctx.violations) > 5:
        ctx.notes.append('%d violations; first 5 reported' % len(ctx.violations)); ctx.violations.sort(key=lambda v: not v[2]); ctx.violations = ctx.violations[:5]
    return finish(ctx, 'proof', ob, dis, details, rule)


def excluded_never_run(ctx, c, kf):
    inc = {f['id'] for f in c.s7_funcs() if f['inc'] == '1'}
    for l in c.t:
        tk = l.split()
        if tk[0] in ('call', 'wenter') and tk[1] not in inc:
            ctx.violations.append(('provider %s is excluded but was called (case %s)' % (tk[1], c.key),
                                   write_replay(ctx, 'case_%s.txt' % c.key, c.text()), True))
            break


def known_f5(prop_id, key):
    def f(ctx, c, kf):
        got = v5(c).get(key)
        if got and got != '-':
            if known_here(prop_id, key, c):
                kf[key] += 1
            else:
                ctx.violations.append(('%s: %s (case %s)' % (key, got, c.key), write_replay(ctx, 'case_%s.txt' % c.key, c.text()), True))
    return f


def final_drop_signature(c, fid):
    """known finding F4b: provider `fid` was kept for a consumer (named in whyIncluded) that the FINAL flow
    recomputation either drops or re-matches to another concrete type, so that nothing `fid` outputs is
    still an input of that consumer"""
    fs = c.s7_funcs()
    f = next((x for x in fs if x['id'] == fid), None)
    if f is None:
        return False
    # kept because a consumer used it, or because a trial elimination of it made that consumer fail
    # (whyIncluded names the consumer as <origin>(<index in its collection>): the index is not the harness id when the
    #  list was built through nested sub-collections)
    m = re.match(r'(?:used_by|if_excluded_then:)_[a-z-]+:_([A-Za-z_]*)\((\d+)\)', f.get('why', ''))
    if not m:
        return False
    cands = [x for x in fs if x.get('origin') == m.group(1) and x.get('index') == m.group(2) and x['id'] != fid]
    outs = set(ints(f['out']))
    for g in cands:
        if g['inc'] == '0':
            return True
        rm = dict(kvp.split('>') for kvp in (g['drm'].split(',') if g['drm'] != '-' else []))
        ins = {int(rm.get(str(t), t)) for t in ints(g['in'])}
        changed = any(a != b for a, b in rm.items())
        if changed and not (ins & outs):
            return True
    return False


IMPLEMENTS = {10: {5, 6}, 11: {6, 7}, 12: {6}}


def final_rematch_signature(c, fid):
    """F4b, told from the chain instead of from the wording of whyIncluded (which names whoever the failed trial complained
    about -- the invoke function, say -- not necessarily the consumer): provider `fid` is Loose for an interface I that one of
    its outputs implements, and a provider listed after it asks for I but is, in the final flow computation, either left out
    or matched to a concrete type that `fid` does not output.  `fid` was that parameter's candidate while the trials ran."""
    fs = c.s7_funcs()
    idx = next((i for i, x in enumerate(fs) if x['id'] == fid), None)
    if idx is None:
        return False
    f = fs[idx]
    outs = set(ints(f['out']))
    pl = next((p for p in c.provs if str(p.get('idx')) == str(fid)), None)
    loose = set(ints(pl.get('loose', '-'))) if pl else set()
    for g in fs[idx + 1:]:
        rm = dict(kvp.split('>') for kvp in (g['drm'].split(',') if g['drm'] != '-' else []))
        for t in ints(g['in']):
            if t in IMPLEMENTS and t in loose and (IMPLEMENTS[t] & outs):
                if g['inc'] == '0' or int(rm.get(str(t), t)) not in outs:
                    return True
    return False


def up_shadow_signature(c, fid):
    """known finding F13: provider `fid` is a wrapper; every type it returns is returned again, without being received, by
    an included wrapper listed before it (nearer to the receiver), and nobody takes what it hands to inner()"""
    fs = c.s7_funcs()
    idx = next((i for i, x in enumerate(fs) if x['id'] == fid), None)
    if idx is None or fs[idx]['class'] != 'wrapper-func':
        return False
    f = fs[idx]
    rets = [t for t in f['ret'].split(',') if t != '-']
    if not rets:
        return False
    for t in rets:
        if not any(g['inc'] == '1' and g['class'] == 'wrapper-func' and t in g['ret'].split(',') and t not in g['recv'].split(',')
                   for g in fs[:idx]):
            return False
    outs = {t for t in f['out'].split(',') if t != '-'}
    for gi in range(idx + 1, len(fs)):
        g = fs[gi]
        if g['inc'] != '1':
            continue
        rm = dict(kvp.split('>') for kvp in (g['drm'].split(',') if g['drm'] != '-' else []))
        for t in {rm.get(t, t) for t in g['in'].split(',') if t != '-'} & outs:
            # g takes a type the wrapper hands to inner(): it receives the wrapper's value unless a provider in between supplies it again
            if not any(h['inc'] == '1' and t in h['out'].split(',') for h in fs[idx + 1:gi]):
                return False
    return True


@prop('C03')
def c03(ctx):
    def extra(ctx, c, kf):
        excluded_never_run(ctx, c, kf)
        known_f5('C03', 'unjustified_f5')(ctx, c, kf)
        who, i = classify_diff(c.t, c.s)
        if who == 'C05':
            ctx.violations.append(('a provider that should run did not, or vice versa (trace differs from Spec at event %d, case %s)' % (i, c.key),
                                   write_replay(ctx, 'case_%s.txt' % c.key, c.text()), True))
    rule = ('generated chains (duplicate providers of a type, Shun/Desired/Required/MustConsume, unused outputs, unsatisfiable inputs, Cluster groups); the model '
            'computeInclusion is compared with the implementation\'s include flags and remaps (S5) on every case; validators proved sound in '
            'Lean run on the implementation\'s own bound chain: Required included, every included provider justified by an actual receiver; '
            'excluded providers never appear in the real trace; non-trivial = at least one user provider excluded; distinct = provider lists')
    return include_family(ctx, 'C03',
                          [('required', 'ok', 'a Required provider is not in the bound chain', None),
                           ('unjustified', '-', 'included provider(s) that nothing receives anything from', 'unjustified_finaldrop')],
                          lambda c: any(f['inc'] == '0' and int(f['id']) < 900 for f in c.s7_funcs()), rule, extra,
                          modes=(('run', None, 'default'), ('run', None, 'plain'), ('run', 800 if ctx.tier == 'quick' else 10000, 'cluster'),
                                 ('run', 600 if ctx.tier == 'quick' else 8000, 'reorderplain')))


@prop('C15')
def c15(ctx):
    def extra(ctx, c, kf):
        hdr, fs = dump_funcs(c, 'S3')
        for f in fs or []:
            if f['class'] in ('fallible-injector', 'fallible-static-injector'):
                if not fallible_flows_ok(ctx, c, f):
                    break
    rule = ('generated chains and invoke signatures incl. unreceived return types and shadowing wrappers; S5 correspondence (bind verdict, '
            'include flags) on every case; validators proved sound in Lean on the implementation\'s bound chain: every non-optional returned type '
            'of an included provider has an included receiver above; checkShadowing accepts the bound list; non-trivial = chain with a wrapper '
            'or fallible injector (something returns upward); distinct = provider lists')
    expected_probes(ctx, ['annotation-leak/AllowReturnShadowing', 'annotation-leak/ConsumptionOptional'])
    return include_family(ctx, 'C15',
                          [('consumed', 'ok', 'a returned value has no included receiver above and is not ConsumptionOptional', None),
                           ('shadow', 'ok', 'a wrapper overrides a returned type it did not receive (checkForShadowing would reject)', None)],
                          lambda c: bool(c.features() & {'wrapper', 'fallible'}), rule, extra)


# ---------------------------------------------------------------- metamorphic pairs: C13 C14 C16

def pair_lines(case):
    return [l for l in case.lines if l.startswith('pair ')]


def pair_family(ctx, prop_id, mode, profile, n, kinds, rule, extra=None, also_s5=True, diff_known=None, corpus_mode=None):
    ob, dis, details = proof_obligations(ctx, prop_id)
    profiles = profile if isinstance(profile, (list, tuple)) else [(profile, n)]
    cases = None
    if corpus_mode:
        cases = load_corpus(ctx, prop_id, corpus_mode)
        ctx.cov['corpus_cases'] = len(cases)
    for ent in profiles:
        m, prof, cnt = ent if len(ent) == 3 else (mode,) + tuple(ent)
        cs = load_cases(ctx, m, cnt, prof)
        if cs is not None:
            cases = (cases or []) + cs
    stats = collections.Counter(); distinct = set()
    if cases is not None:
        if also_s5:
            stage_stats(ctx, cases, s5_compare, 'S5')
        for c in cases:
            for l in pair_lines(c):
                tk = l.split()
                kind = re.sub(r'[:\[].*', '', tk[1])
                if kinds and not any(kind.startswith(k) for k in kinds):
                    continue
                if tk[2] == 'diff' and diff_known is not None:
                    sig = diff_known(c, l)
                    if sig and known_here(prop_id, sig, c):
                        stats['known:' + sig] += 1
                        continue
                stats[kind + '-' + tk[2]] += 1
                if tk[2] == 'diff':
                    ctx.violations.append(('%s pair differs: %s (case %s)' % (tk[1], ' '.join(tk[3:])[:160], c.key),
                                           write_replay(ctx, 'case_%s.txt' % c.key, c.text()), True))
                else:
                    distinct.add((kind, c.shape_key()))
            if extra:
                extra(ctx, c, stats)
            if len(ctx.samples) < 3 and pair_lines(c):
                ctx.samples.append({'case': c.key, 'providers': [l for l in c.lines if l.startswith(('p ', 'invoke', 'init'))][:10],
                                    'pairs': pair_lines(c)})
    for sig, cnt in list(stats.items()):
        if sig.startswith('known:'):
            for k in known_open(prop_id, sig[6:]):
                ctx.known.append('KNOWN-FINDING: property=%s %s (%d cases in this run match signature %s)' % (prop_id, k['what'], cnt, sig[6:]))
    ctx.cov['evaluations'] = sum(v for k, v in stats.items() if not k.startswith('known:'))
    ctx.cov['programs'] = len(cases or [])
    ctx.cov['distinct_nontrivial'] = len(distinct)
    ctx.cov['traces_validated_against_impl'] = sum(v for k, v in stats.items() if k.endswith('-same'))
    ctx.cov['pair_outcomes'] = dict(stats)
    if len(ctx.violations) > 5:
        ctx.notes.append('%d violations; first 5 reported' % len(ctx.violations)); ctx.violations.sort(key=lambda v: not v[2]); ctx.violations = ctx.violations[:5]
    return finish(ctx, 'proof', ob, dis, details, rule)


@prop('C13')
def c13(ctx):
    n = 600 if ctx.tier == 'quick' else 6000
    rule = ('each generated chain is re-run (real nject) in variants that must be indistinguishable: nested in random sub-Sequences, built '
            'with Append, with Provide names, with an annotation applied to a sub-collection instead of to each member (derivations from the '
            'annotated things made and discarded on the side), and with an Unused '
            'parameter added to the final function / a Required provider / invoke / init; chains with named edits (edit generator) with each '
            'run of equal directives applied to a sub-collection instead of to each member; compared: bind verdict class, included providers, '
            'full call trace (Unused arguments stripped); evaluations = pairs compared; distinct = (variant kind, provider list)')
    return pair_family(ctx, 'C13', 'neutral', [('neutral', 'default', n), ('editcoll', 'default', n)], n, None, rule, also_s5=False,
                       corpus_mode='neutralfile')


@prop('C16')
def c16(ctx):
    n = 1500 if ctx.tier == 'quick' else 15000
    rule = ('chains without Reorder/Cluster/Cacheable-family annotations (profile "plain": Shun, Desired, Required, MustConsume, unsatisfiable '
            'inputs, shadowed providers): every excluded provider is deleted from the list and the chain is bound again; compared: bind '
            'verdict, included providers, full trace; the include model is compared with the implementation on both (S5)')
    def diff_known(c, line):
        # the base chain contains a provider nothing receives from (open C03 findings F4b / F5); deleting the excluded providers makes the
        # include pass drop exactly those: same root, other symptom
        if 'bind "bind ok" vs "bind err E_INTERNAL' in line:
            # the pruned list is refused by the FINAL validation ("uh oh #2"): the trials accepted an elimination on the frozen
            # matching, the final flow computation matches an interface parameter anew and finds no Loose candidate (F19)
            v2b = next((l for l in c.lines if l.startswith('v2 bind ')), '')
            if 'uh oh #2' in v2b.replace('_', ' ') and 'has no match for its input parameter' in v2b.replace('_', ' ') \
                    and any(q.get('loose', '-') != '-' for q in c.provs) \
                    and any(x in ('10', '11', '12') for pl in c.provs for x in pl.get('in', '').split(',')):
                return 'prune_rebind_final_validation'
            return None
        m = re.search(r'included \[([0-9 ]*)\] vs \[([0-9 ]*)\]', line)
        if not m:
            return None
        a = set(m.group(1).split()); b = set(m.group(2).split())
        vv = v5(c)
        unj = set()
        for k in ('unjustified', 'unjustified_f5'):
            if vv.get(k, '-') != '-':
                unj |= set(vv[k].split(','))
        if b <= a and (a - b) and (a - b) <= unj:
            return 'prune_drops_unjustified'
        # interface parameters matched through Loose providers: match.go scores a concrete type by the layer of its FIRST provider,
        # excluded ones included, and the matching is frozen during the elimination rounds (root of the open findings F5 / F4b)
        for pl in c.provs:
            if any(x in ('10', '11') for x in pl.get('in', '').split(',')) and any(q.get('loose', '-') != '-' for q in c.provs):
                return 'prune_interface_rematch'
        return None
    return pair_family(ctx, 'C16', 'prune', 'plain', n, ['prune'], rule, diff_known=diff_known, corpus_mode='prunefile')


@prop('C14')
def c14(ctx):
    n = 1500 if ctx.tier == 'quick' else 15000

    def extra(ctx, c, stats):
        if not c.ok or c.skip:
            return
        mt = v5(c).get('mctaken', '-')
        if mt != '-':
            ctx.violations.append(('MustConsume provider(s) %s included although no included provider after them takes the type (the conclusion of '
                                   'C14_bound_chain_mustconsume_is_consumed fails on the implementation\'s bound chain, case %s)'
                                   % (mt, c.key), write_replay(ctx, 'case_%s.txt' % c.key, c.text()), True))
        mc = v5(c).get('mustconsume', '-')
        if mc != '-':
            if known_here('C14', 'mustconsume_shadowed', c):
                stats['known:mustconsume_shadowed'] += 1
            else:
                ctx.violations.append(('MustConsume provider(s) %s included although no running provider receives the value they produce (case %s)'
                                       % (mc, c.key), write_replay(ctx, 'case_%s.txt' % c.key, c.text()), True))
    rule = ('for a Desired or auto-desired provider d of a generated chain (not Shun\'d, not in a Cluster) the chain is re-run with d marked '
            'Required: d must be included in the base exactly when the variant binds, and then both behave identically (verdict, included '
            'set, trace); MustConsume: verified validator on the implementation\'s bound chain (nearest actual consumer); S5 correspondence')
    expected_probes(ctx, ['annotation-leak/MustConsume'])
    return pair_family(ctx, 'C14', 'desired', [('plain', n), ('reorderplain', n // 3), ('cluster', n // 3)], n, ['desired'], rule, extra)


# ---------------------------------------------------------------- concurrency family: C08 C09 C10 (C12 below)

def conc_family(ctx, prop_id, tests, rule, seq_extra=None):
    ob, dis, details = proof_obligations(ctx, prop_id)
    rounds = 6 if ctx.tier == 'quick' else 60
    lines, races, stderr = vcheck.conc_run(ctx, rounds)
    st = collections.Counter(); cdistinct = set()
    if lines is not None:
        for l in lines:
            tk = l.split()
            if not any(tk[1].startswith(t) for t in tests):
                continue
            st[tk[1] + '-' + tk[2]] += 1
            if tk[2] == 'ok':
                cdistinct.add((tk[1], ' '.join(tk[3:5])))
            if tk[2] != 'ok':
                ctx.violations.append(('concurrent workload %s: %s' % (tk[1], ' '.join(tk[3:])), write_replay(ctx, 'conc_%s.txt' % tk[1], '\n'.join(lines) + '\n' + stderr), True))
            elif len(ctx.samples) < 4:
                ctx.samples.append(l)
        if races:
            ctx.violations.append(('the race detector reported %d data race(s) in the concurrent workloads' % races,
                                   write_replay(ctx, 'race_report.txt', stderr), True))
    if seq_extra:
        seq_extra(ctx, st)
    # sequential part (seq_extra -> s7_check) has already put its own counts into ctx.cov: add the workloads to them
    ctx.cov['evaluations'] = ctx.cov.get('evaluations', 0) + sum(st.values())
    ctx.cov['distinct_nontrivial'] = ctx.cov.get('distinct_nontrivial', 0) + len(cdistinct)   # distinct (workload, goroutine/key configuration)
    ctx.cov['traces_validated_against_impl'] = ctx.cov.get('traces_validated_against_impl', 0) + sum(v for k, v in st.items() if k.endswith('-ok'))
    ctx.cov['workload_outcomes'] = dict(st)
    ctx.cov['race_reports'] = races
    ctx.assumptions += ['the Go memory model, sync.Mutex/RWMutex/Once and the runtime scheduler are modelled as sequentially consistent primitives, not verified',
                        'the race detector and the randomised goroutine workloads support the validation of the model against the code; they do not stand in for the theorems']
    if len(ctx.violations) > 5:
        ctx.violations.sort(key=lambda v: not v[2]); ctx.violations = ctx.violations[:5]
    return finish(ctx, 'proof', ob, dis, details, rule)


@prop('C09')
def c09(ctx):
    def seq(ctx, st):
        # sequential cache behaviour across invocations and chains is part of the S7 correspondence ("memo" profile)
        cases = load_cases(ctx, 'run', 600 if ctx.tier == 'quick' else 6000, 'memo')
        if cases is not None:
            corpus = load_corpus(ctx, 'C09')
            s7_check(ctx, 'C09x', corpus + cases)
            for c in corpus + cases:
                if not c.ok or c.skip:
                    continue
                who, i = classify_diff(c.t, c.s)
                if who is not None and 'memoize' in c.features():
                    ctx.violations.append(('memoized chain differs from Spec (one call per distinct input tuple) at event %d (case %s)' % (i, c.key),
                                           write_replay(ctx, 'case_%s.txt' % c.key, c.text()), True))
    rule = ('theorems over the cacher phase machine for all threads/schedules/key histories; the four cachers and the registry functions '
            'extracted from cache.go on this run must satisfy the wellLocked/wellRegistered recognisers (decide); goroutine workloads on the '
            'real nject under -race: a memoized provider shared by two chains, 4-16 goroutines, 1-6 keys (calls per key, every observed '
            'result equals the one call\'s result), key distinctness (nil vs ""), unmappable keys; sequential memo behaviour via the S7 '
            'correspondence with the memo-heavy generator profile')
    return conc_family(ctx, 'C09', ['memo'], rule, seq)


@prop('C10')
def c10(ctx):
    rule = ('theorems over the sync.Once phase machine for all threads and schedules; extracted closures (singleton, initImp, lazy init, '
            'generateSingleton) must satisfy wellOnced*/wellRegistered (decide); workloads under -race: a Singleton shared by 4 chains, '
            'static chain with and without init function, 4-16 goroutines racing on init/first invoke with different arguments')
    return conc_family(ctx, 'C10', ['singleton', 'static'], rule)


@prop('C08')
def c08(ctx):
    rule = ('invokeImpl extracted from bind.go must satisfy wellIsolatedInvoke (private copy after lazy init; decide); Exec theorems: an '
            'invocation never writes the shared base; workloads under -race: nested wrappers calling inner twice (and a Parallel wrapper '
            'calling it from two goroutines), 4-16 goroutines x 10-50 invocations with distinct arguments, every result compared with the '
            'sequential expectation; memoized/singleton sharing across chains covered by the C09/C10 workloads in the same run')
    def seq(ctx, st):
        # isolation between the inner() calls of one wrapper and between successive invocations is also visible sequentially:
        # the Spec keeps them apart by construction, so any difference in a chain with a wrapper that calls inner() more than
        # once, or in a later invocation, is something that leaked
        for prof, cnt in (('default', None), ('memo', 600 if ctx.tier == 'quick' else 6000)):
            cases = load_cases(ctx, 'run', cnt, prof)
            if cases is None:
                continue
            n = 0
            for c in cases:
                if not c.ok or c.skip:
                    continue
                n += 1
                who, i = classify_diff(c.t, c.s)
                if who is not None:
                    multi = any(' calls=2' in l or ' calls=3' in l for l in c.lines if l.startswith('p ') and 'kind=wrap' in l)
                    later = sum(1 for l in c.lines if l.startswith('op invoke')) > 1
                    if multi or later:
                        ctx.violations.append(('trace differs from the Spec at event %d in a chain with %s: a value from another inner() call or invocation is visible (case %s)'
                                               % (i, 'a wrapper calling inner() several times' if multi else 'several invocations', c.key),
                                               write_replay(ctx, 'case_%s.txt' % c.key, c.text()), True))
            ctx.cov['sequential_traces_' + prof] = n
    return conc_family(ctx, 'C08', ['isolation', 'memo', 'singleton', 'static'], rule, seq)


@prop('C12')
def c12(ctx):
    rule = ('each generated chain is re-bound with a *Debugging parameter added to the final function: included set and trace must be '
            'unchanged (neutrality); the NamesIncluded / IncludeExclude the body receives are compared with the bound chain in the S7 dump '
            '(same providers, same order, every other provider EXCLUDED); concurrent failing/succeeding/Debugging Binds from 3-10 goroutines '
            'under -race with a deadlock watchdog, DetailedError prefix checked on every failing Bind; theorems over the debug-lock machine')
    ob, dis, details = proof_obligations(ctx, 'C12')
    n = 1500 if ctx.tier == 'quick' else 15000
    cases = (load_cases(ctx, 'debug', n) or []) + (load_cases(ctx, 'debug', n // 3, 'reorderplain') or [])
    st = collections.Counter(); distinct = set()
    for c in cases or []:
        for l in pair_lines(c):
            tk = l.split()
            st[tk[1] + '-' + tk[2]] += 1
            if tk[2] == 'diff':
                ctx.violations.append(('%s: %s (case %s)' % (tk[1], ' '.join(tk[3:])[:200], c.key), write_replay(ctx, 'case_%s.txt' % c.key, c.text()), True))
            elif tk[1] == 'dbgnames':
                distinct.add(c.shape_key())
        if len(ctx.samples) < 2 and any(l.startswith('pair dbgnames') for l in c.lines):
            ctx.samples.append({'case': c.key, 'pairs': pair_lines(c)})
    rounds = 6 if ctx.tier == 'quick' else 60
    lines, races, stderr = vcheck.conc_run(ctx, rounds)
    for l in lines or []:
        tk = l.split()
        if tk[1] != 'bind':
            continue
        st['conc-bind-' + tk[2]] += 1
        if tk[2] != 'ok':
            ctx.violations.append(('concurrent Bind workload: %s' % ' '.join(tk[3:]), write_replay(ctx, 'conc_bind.txt', '\n'.join(lines) + '\n' + stderr), True))
        elif len(ctx.samples) < 4:
            ctx.samples.append(l)
    if races:
        ctx.violations.append(('the race detector reported %d data race(s)' % races, write_replay(ctx, 'race_report.txt', stderr), True))
    ctx.cov['evaluations'] = sum(st.values())
    ctx.cov['programs'] = len(cases or [])
    ctx.cov['distinct_nontrivial'] = len(distinct)
    ctx.cov['traces_validated_against_impl'] = sum(v for k, v in st.items() if k.endswith('-same') or k.endswith('-ok'))
    ctx.cov['outcomes'] = dict(st)
    ctx.assumptions += ['no user callback re-enters Bind while the debug lock is held (ReplaceSelf of generated providers runs under the read lock)',
                        'with an init function, Debugging is only filled once init has been called (documented contract)']
    if len(ctx.violations) > 5:
        ctx.violations.sort(key=lambda v: not v[2]); ctx.violations = ctx.violations[:5]
    return finish(ctx, 'proof', ob, dis, details, rule)


@prop('C11')
def c11(ctx):
    rule = ('random histories of API operations (Sequence, Append, every annotation, Cluster, Bind, SetCallback, Condense, Down/UpFlows, '
            'String, named edits) over a pool of collections that share providers: after EVERY operation every collection that existed '
            'before is mirrored field by field (ids, order, names, all annotations, cluster partition) and compared with its mirror at '
            'creation; every 5 operations each is re-bound and run and compared with its behaviour at creation; finally 8 goroutines bind '
            'the shared collections concurrently under the race detector; write inventory regenerated from the source (decide)')
    ob, dis, details = proof_obligations(ctx, 'C11')
    expected_probes(ctx, ['annotation-leak/'])
    rounds = 40 if ctx.tier == 'quick' else 400
    lines, races, stderr = vcheck.history_run(ctx, rounds)
    ndiff = 0; nhist = 0; ncoll = 0; steps = 0
    for l in lines or []:
        if l.startswith('history diff'):
            ndiff += 1
            if ndiff <= 5:
                ctx.violations.append(('an existing collection changed: %s' % l[13:260], write_replay(ctx, 'history_%d.txt' % ndiff, '\n'.join(lines[:200])), True))
        elif l.startswith('history done'):
            nhist += 1
            d = kv(l)
            ncoll += int(d.get('collections', 0)); steps += int(d.get('steps', 0))
            if len(ctx.samples) < 3:
                ctx.samples.append(l)
    if races:
        ctx.violations.append(('the race detector reported %d data race(s) while collections were bound concurrently' % races,
                               write_replay(ctx, 'race_report.txt', stderr), True))
    # also the determinism/neutrality pairs: re-binding the same description
    cases = load_cases(ctx, 'neutral', 300 if ctx.tier == 'quick' else 3000)
    same = 0
    for c in cases or []:
        for l in pair_lines(c):
            tk = l.split()
            if tk[1].startswith('group-') or tk[1] == 'named':
                if tk[2] == 'same':
                    same += 1
                else:
                    ctx.violations.append(('same description built differently behaves differently: %s (case %s)' % (' '.join(tk[1:])[:160], c.key),
                                           write_replay(ctx, 'case_%s.txt' % c.key, c.text()), True))
    ctx.cov['evaluations'] = steps + same
    ctx.cov['programs'] = nhist
    ctx.cov['distinct_nontrivial'] = nhist + same
    ctx.cov['traces_validated_against_impl'] = steps
    ctx.cov['histories'] = nhist; ctx.cov['operations'] = steps; ctx.cov['collections_tracked'] = ncoll
    ctx.cov['history_diffs'] = ndiff; ctx.cov['race_reports'] = races; ctx.cov['rebuild_pairs_same'] = same
    ctx.assumptions += ['the extractor\'s freshness classification is syntactic (object created in the same function / closure parameter of modify / private array)',
                        'Go memory model not modelled; the race detector supports the validation']
    return finish(ctx, 'proof', ob, dis, details, rule)


# ---------------------------------------------------------------- C04: errors up front, nothing panics

def probes_run(ctx):
    tag = os.path.join(ctx.dir, 'probes.txt')
    if os.path.exists(tag):
        return open(tag).read().split('\n')
    hb, log = vcheck.build_harness(ctx)
    if hb is None:
        ctx.violations.append(('harness does not build', write_replay(ctx, 'harness_build.txt', log[-6000:]), False))
        return None
    import subprocess
    lines = []; start = 0
    for _ in range(40):
        # (after a probe that hangs, the harness hands back "resume <k>": the rest runs in a fresh process)
        try:
            p = subprocess.run([hb, 'probes', '-start', str(start)], stdout=subprocess.PIPE, stderr=subprocess.PIPE, text=True, timeout=900)
            got = p.stdout.split('\n')
        except subprocess.TimeoutExpired:
            got = ['probe "(probe run from number %d on)" hang: no answer from the harness within 900s' % start]
        nxt = next((l for l in got if l.startswith('resume ')), None)
        lines += [l for l in got if l and not l.startswith('resume ')]
        if nxt is None:
            break
        start = int(nxt.split()[1])
    open(tag, 'w').write('\n'.join(lines) + '\n')
    return lines


def expected_probes(ctx, prefixes):
    """probes whose name ends in `expect=<verdict>`: the API must answer exactly that (used for the annotation-leak probes:
    deriving F[B](p) from p must not give p itself the annotation)"""
    n = 0
    for l in probes_run(ctx) or []:
        if not l.startswith('probe '):
            continue
        name = l.split('"')[1]; verdict = l.split('"')[2].strip().split(':')[0].split()[0]
        if ' expect=' not in name or not any(name.startswith(p) for p in prefixes):
            continue
        n += 1
        want = name.split(' expect=')[1]
        if verdict != want:
            ctx.violations.append(('probe %s: answered %s' % (name, verdict), write_replay(ctx, 'probe_%s.txt' % re.sub(r'[^A-Za-z]+', '_', name), l), True))
    ctx.cov['expected_probes'] = n


@prop('C04')
def c04(ctx):
    rule = ('(1) API-misuse probes (nil/ill-typed Bind, SetCallback, Run, Condense, Curry, SaveTo, MakeStructBuilder arguments, nil entries, '
            'wrapper/literal last, func pointers, anonymous func parameters, conflicting annotations, variadics, channels/maps) each under '
            'recover + watchdog; (2) malformed chains from a perturbing generator (unsatisfiable inputs, unconsumed returns, wrapper/literal '
            'last, Reorder/Cluster/ConsumptionOptional/named-edit mixes): Bind must return (error or ok), never panic/hang, and on error leave '
            'the function variables nil; the model bindModel must predict the same verdict class; (3) every successful bind of every '
            'generated chain is invoked with scripted bodies: no panic, no invalid argument (model event `bad`); non-trivial = a case that '
            'does not bind or a probe; distinct = provider lists / probe names')
    ob, dis, details = proof_obligations(ctx, 'C04')
    st = collections.Counter(); distinct = set()
    for l in probes_run(ctx) or []:
        if not l.startswith('probe '):
            continue
        name = l.split('"')[1]; verdict = l.split('"')[2].strip()
        st['probe-' + verdict.split(':')[0].split()[0]] += 1
        distinct.add('probe ' + name)
        if verdict.startswith(('panic', 'hang')):
            ctx.violations.append(('API misuse probe %s: %s' % (name, verdict[:160]), write_replay(ctx, 'probe.txt', l), True))
        elif len(ctx.samples) < 3:
            ctx.samples.append(l)
    total = []
    for mode, n, prof in (('malformed', 2000 if ctx.tier == 'quick' else 20000, 'default'), ('run', None, 'default'), ('edit', 1000 if ctx.tier == 'quick' else 10000, 'default'),
                          ('run', 600 if ctx.tier == 'quick' else 6000, 'memo')):   # repeated invocations hitting the memo caches
        cs = load_cases(ctx, mode, n, prof)
        if cs is not None:
            total += [(mode, c) for c in cs]
    total = [('corpus', c) for c in load_corpus(ctx, 'C04')] + total
    for mode, c in total:
        b = c.bind.split()
        cls = ' '.join(b[1:3]) if len(b) > 2 and b[1] == 'err' else b[1] if len(b) > 1 else 'none'
        st[mode + '-bind-' + cls.split(':')[0]] += 1
        if b[1].startswith(('panic', 'hang')):
            ctx.violations.append(('Bind %s (case %s %s)' % (' '.join(b[1:])[:160], mode, c.key), write_replay(ctx, 'case_%s_%s.txt' % (mode, c.key), c.text()), True))
        if any(l.startswith('t partialbind') for l in c.lines):
            ctx.violations.append(('Bind returned an error but set a function variable (case %s %s)' % (mode, c.key), write_replay(ctx, 'case_%s_%s.txt' % (mode, c.key), c.text()), True))
        for l in c.t:
            if l.startswith(('panic', 'hang')):
                ctx.violations.append(('init/invoke of a bound chain: %s (case %s %s)' % (l[:160], mode, c.key), write_replay(ctx, 'case_%s_%s.txt' % (mode, c.key), c.text()), True))
                break
        if any(l.startswith(('x bad', 's bad')) for l in c.mlines):
            ctx.violations.append(('the model hands a provider an invalid argument on the implementation\'s own compiled chain (case %s %s)' % (mode, c.key),
                                   write_replay(ctx, 'case_%s_%s.txt' % (mode, c.key), c.text()), True))
        if not c.ok:
            distinct.add(c.shape_key())
    # verdict correspondence of the model on malformed chains (not Reorder: reorder.go is not modelled)
    mal = [c for mode, c in total if mode == 'malformed']
    stage_stats(ctx, mal, s5_compare, 'S5malformed')
    ctx.cov['evaluations'] = sum(st.values())
    ctx.cov['programs'] = len(total)
    ctx.cov['distinct_nontrivial'] = len(distinct)
    ctx.cov['traces_validated_against_impl'] = sum(1 for _, c in total if c.ok)
    ctx.cov['outcomes'] = dict(st)
    ctx.assumptions += ['a user-supplied provider that itself panics is outside the property', 'reflect-level panics on shapes the harness universe does not contain are only reached by the probes']
    if len(ctx.violations) > 5:
        ctx.violations.sort(key=lambda v: not v[2]); ctx.violations = ctx.violations[:5]
    return finish(ctx, 'proof', ob, dis, details, rule)


# ---------------------------------------------------------------- C20: Reflective twins and generated helpers

def helper_compare(ctx, mode, n, st, distinct):
    impl, model = vcheck.flat_run(ctx, mode, n)
    if impl is None:
        return
    if len(impl) != len(model):
        ctx.violations.append(('model produced %d records for %d %s records' % (len(model), len(impl), mode),
                               write_replay(ctx, 'helper_%s.txt' % mode, '\n'.join(impl[:50] + model[:50])), False))
        return
    for a, b in zip(impl, model):
        x = a.split(); y = b.split()
        d = dict(t.split('=', 1) for t in x[2:] if '=' in t)
        m = dict(t.split('=', 1) for t in y[3:] if '=' in t)
        r = d.get('result', '?')
        if r == 'err':
            ok = y[2] == 'err'
        elif r == 'ok' and y[2] == 'ok':
            if mode == 'curry':
                ok = d['src'] == m['src'] and d['curried'] == m['curried'] and d['ret'] == 'true'
            elif mode == 'filler':
                ok = d['inputs'] == m['inputs'] and d['fields'] == m['fields']
            elif mode == 'postact':
                ok = d['inputs'] == m['inputs'] and d['acts'] == m['acts'] and d['final'] == m['final']
            else:
                ok = d['stored'] == m['stored']
        else:
            ok = False
        st['%s-%s-%s' % (mode, r.split(':')[0], 'agree' if ok else 'DIFFER')] += 1
        if ok:
            sig = d.get('s') or d.get('fields', '') + d.get('bytag', '') + d.get('byname', '') + d.get('bytype', '') or (d.get('o', '') + '>' + d.get('n', '') + '/' + d.get('oo', '') + '>' + d.get('no', '')) if mode != 'saveto' else d.get('types')
            distinct.add((mode, sig))
            if len(ctx.samples) < 6 and r == 'ok' and len(a) > 60 and not any(isinstance(x_, dict) and x_.get('mode') == mode for x_ in ctx.samples):
                ctx.samples.append({'mode': mode, 'implementation': a, 'model': b})
        else:
            found = not r.startswith(('err',)) or y[2] != 'err'
            what = {'curry': 'Curry', 'filler': 'MakeStructBuilder', 'saveto': 'SaveTo', 'postact': 'MakeStructBuilder post-actions'}[mode]
            ctx.violations.append(('%s differs from its model: implementation "%s" model "%s"' % (what, a[:200], b[:160]),
                                   write_replay(ctx, 'helper_%s_%s.txt' % (mode, x[1]), a + '\n' + b + '\n# replay: harness %s -seed %d -n %d, record %s\n' % (mode, ctx.seed, n, x[1])), True))


@prop('C20')
def c20(ctx):
    rule = ('(1) Reflective twins: every generated chain is run with all function providers as plain functions, with ALL of them supplied '
            'through Reflective/ReflectiveWrapper (MakeReflective*) and with a random subset so supplied: bind verdict, included set, full '
            'trace and the S3/S7 stage records (class, group, flows, parameter maps, slots) must be identical; (2) Curry: random original '
            'and curried signatures (permuted, repeated types, results; ~35% must be rejected): verdict, requested types, the source of '
            'every argument the original receives and the results compared with curryModel/curriedCall; (3) MakeStructBuilder: random '
            'struct shapes via reflect.StructOf (nesting depth 3, unexported fields, comma-separated tags incl. invalid ones, pointer and '
            'value models): verdict, requested inputs and every visible leaf of the built struct compared with FDesc.inputs/fillerCall; '
            '(4) SaveTo: random pointer lists (repeated types). distinct = distinct signatures / shapes / provider lists')
    ob, dis, details = proof_obligations(ctx, 'C20')
    # the signature a Reflective provider reports is the one it was given, also when several are described from one table
    expected_probes(ctx, ['reflective-args/'])
    st = collections.Counter(); distinct = set()
    q = ctx.tier == 'quick'
    helper_compare(ctx, 'curry', 3000 if q else 60000, st, distinct)
    helper_compare(ctx, 'filler', 3000 if q else 60000, st, distinct)
    helper_compare(ctx, 'saveto', 300 if q else 5000, st, distinct)
    helper_compare(ctx, 'postact', 3000 if q else 60000, st, distinct)
    # WithMethodCall: the builder with the method call against its twin (plain builder + an ordinary provider calling the method)
    hb, log = vcheck.build_harness(ctx)
    if hb is not None:
        p = subprocess.run([hb, 'methodcall', '-seed', str(ctx.seed), '-n', '1'], stdout=subprocess.PIPE, stderr=subprocess.PIPE, text=True, timeout=600)
        for l in p.stdout.split('\n'):
            tk = l.split()
            if len(tk) < 3 or tk[0] != 'mcall':
                continue
            st['methodcall-' + tk[2]] += 1
            if tk[2] != 'same':
                ctx.violations.append(('MakeStructBuilder(WithMethodCall) differs from the plain builder followed by a provider calling the method: %s' % ' '.join(tk[1:])[:300],
                                       write_replay(ctx, 'methodcall_%s.txt' % tk[1], l + '\n# replay: harness methodcall'), True))
            else:
                distinct.add(('methodcall', tk[1]))
    cases = load_cases(ctx, 'refl', 1200 if q else 15000)
    for c in cases or []:
        for l in pair_lines(c):
            tk = l.split()
            st[tk[1] + '-' + tk[2]] += 1
            if tk[2] == 'diff':
                ctx.violations.append(('Reflective twin differs: %s (case %s)' % (' '.join(tk[1:])[:200], c.key),
                                       write_replay(ctx, 'case_%s.txt' % c.key, c.text()), True))
            else:
                distinct.add((tk[1], c.shape_key()))
    if cases:
        stage_stats(ctx, cases, s3_compare, 'S3')
    ctx.cov['evaluations'] = sum(st.values())
    ctx.cov['programs'] = len(cases or [])
    ctx.cov['distinct_nontrivial'] = len(distinct)
    ctx.cov['traces_validated_against_impl'] = sum(v for k, v in st.items() if k.endswith(('-agree', '-same')))
    ctx.cov['outcomes'] = dict(st)
    ctx.assumptions += ['post-actions are modelled for flat structs; WithMethodCall is exercised as twins (six hand-written scenarios), not modelled',
                        'reflect.StructOf cannot create embedded (anonymous) fields with methods; embedded structs are generated as named nested fields',
                        'the value a generated provider is fed for each requested type is C01']
    if len(ctx.violations) > 5:
        ctx.violations.sort(key=lambda v: not v[2]); ctx.violations = ctx.violations[:5]
    return finish(ctx, 'proof', ob, dis, details, rule)


# ---------------------------------------------------------------- C19: Condense and flows

def condense_run(ctx, n):
    """two passes: the model computes each generated collection's flows; the harness then condenses, binds directly with
    those flows, embeds the condensed provider in an outer chain and compares"""
    import subprocess
    out2 = os.path.join(ctx.dir, 'condense-%d.txt' % n)
    mod2 = os.path.join(ctx.dir, 'condense-model-%d.txt' % n)
    if not (os.path.exists(out2) and os.path.exists(mod2)):
        hb, log = vcheck.build_harness(ctx)
        if hb is None:
            ctx.violations.append(('harness does not build against /repo', write_replay(ctx, 'harness_build.txt', log[-6000:]), False))
            return None, None
        ok, log = vcheck.lean_build(('njmodel',))
        if not ok:
            ctx.violations.append(('model driver does not build', write_replay(ctx, 'lean_build_failed.txt', log[-6000:]), False))
            return None, None
        base = [hb, 'condense', '-seed', str(ctx.seed), '-n', str(n)]
        p1 = subprocess.run(base, stdout=subprocess.PIPE, stderr=subprocess.PIPE, text=True, timeout=3600)
        if p1.returncode != 0:
            ctx.violations.append(('harness crashed (condense, pass 1)', write_replay(ctx, 'harness_crash.txt', p1.stderr[-6000:]), False))
            return None, None
        m1 = subprocess.run([vcheck.model_bin()], input=p1.stdout, stdout=subprocess.PIPE, stderr=subprocess.PIPE, text=True, timeout=3600)
        flows = os.path.join(ctx.dir, 'condense-flows-%d.txt' % n)
        open(flows, 'w').write(m1.stdout)
        p2 = subprocess.run(base + ['-flows', flows], stdout=subprocess.PIPE, stderr=subprocess.PIPE, text=True, timeout=3600,
                            env=dict(os.environ, GOMEMLIMIT='8GiB'))
        if p2.returncode != 0:
            ctx.violations.append(('harness crashed (condense, pass 2, exit %d)' % p2.returncode,
                                   write_replay(ctx, 'harness_crash.txt', p2.stdout[-2000:] + p2.stderr[-6000:]), False))
            return None, None
        open(out2, 'w').write(p2.stdout)
        open(mod2, 'w').write(m1.stdout)
    cases = collections.OrderedDict(); cur = None
    for l in open(out2).read().split('\n'):
        if l.startswith('case '):
            cur = int(l.split()[1]); cases[cur] = []
        if cur is not None and l:
            cases[cur].append(l)
    model = {}
    for l in open(mod2).read().split('\n'):
        t = l.split()
        if len(t) >= 3 and t[0] == 'mflows':
            model[int(t[1])] = dict(x.split('=', 1) for x in t[2:] if '=' in x) if t[2] != 'none' else None
    return cases, model


@prop('C19')
def c19(ctx):
    rule = ('generated collections (wrappers, fallible injectors, Cacheable/Memoize, interface inputs with Loose providers, unresolved inputs) '
            'are (a) condensed with a random error treatment and the condensed provider\'s inputs/outputs compared with the model '
            '(characterizeAll + netFlows / netReturns); (b) bound directly to func(inputs) outputs using the MODEL\'s flows: Condense must '
            'succeed exactly when that direct bind does; (c) embedded (input supplier, condensed provider, final consumer) in an outer '
            'chain and invoked: full trace of the members and every delivered value compared with the direct invocation, a non-nil error '
            'either delivered as a value or, when terminal, stopping the outer chain before its final function; distinct = provider lists')
    ob, dis, details = proof_obligations(ctx, 'C19')
    expected_probes(ctx, ['reflective-args/'])
    n = 1500 if ctx.tier == 'quick' else 20000
    cases, model = condense_run(ctx, n)
    st = collections.Counter(); distinct = set()
    for k, ls in (cases or {}).items():
        text = '\n'.join(ls) + '\n# replay: harness condense -seed %d -n %d (two passes, see tools/props.py condense_run), case %d\n' % (ctx.seed, n, k)
        rec = {x.split()[0]: x for x in ls if x.split()[0] in ('condense', 'directspec', 'direct', 'embedded', 'cpair')}
        if 'condense' not in rec:
            continue
        c = rec['condense'].split(); cv = c[3].split('=', 1)[1]
        ckv = dict(x.split('=', 1) for x in c[2:] if '=' in x)
        dv = rec['directspec'].split()[2].split('=', 1)[1] if 'directspec' in rec else 'skip'
        mf = model.get(k)
        st['condense-' + cv.split(':')[-1]] += 1
        key = tuple(x.split(' name=')[0] for x in ls if x.startswith('p '))
        if cv.startswith(('panic', 'hang')):
            ctx.violations.append(('Condense %s (case %d)' % (cv[:120], k), write_replay(ctx, 'condense_%d.txt' % k, text), True)); continue
        # (a) flows against the model
        if mf is None:
            if cv != 'err:E_CLASSIFY':
                st['verdict-DIFFER'] += 1
                ctx.violations.append(('model: a member matches no registry entry; Condense says %s (case %d)' % (cv, k), write_replay(ctx, 'condense_%d.txt' % k, text), True))
            else:
                st['verdict-agree'] += 1
            continue
        if cv == 'ok':
            # with treatErrorAsTerminal the error the collection returns becomes a TerminalError output (code 21)
            tet = ckv.get('tet') == '1'
            iout = sorted(ckv['out'].split(',')); mout = sorted(('21' if (x == '20' and tet) else x) for x in mf['out'].split(','))
            if ckv['in'] != mf['in'] or iout != mout:
                st['flows-DIFFER'] += 1
                ctx.violations.append(('condensed provider asks for %s and returns %s; the model says %s / %s (case %d)' % (ckv['in'], ckv['out'], mf['in'], mf['out'], k),
                                       write_replay(ctx, 'condense_%d.txt' % k, text), True))
            else:
                st['flows-agree'] += 1
        # (b) Condense succeeds exactly when the collection binds directly with the model's flows
        if dv != 'skip':
            if (cv == 'ok') != (dv == 'ok'):
                st['verdict-DIFFER'] += 1
                what = ('the collection binds directly to func(%s) (%s) but Condense fails with %s' % (mf['in'], mf['true'], cv)) if dv == 'ok' else \
                       ('Condense succeeds but the collection does not bind directly with its reported flows (%s)' % dv)
                ctx.violations.append((what + ' (case %d)' % k, write_replay(ctx, 'condense_%d.txt' % k, text), True))
            else:
                st['verdict-agree'] += 1
        # (c) embedded equals direct
        if 'cpair' in rec:
            t = rec['cpair'].split()
            st['pair-' + t[2]] += 1
            if t[2] == 'diff':
                ctx.violations.append(('embedded condensed provider differs from direct invocation: %s (case %d)' % (' '.join(t[3:])[:200], k),
                                       write_replay(ctx, 'condense_%d.txt' % k, text), True))
            elif t[2] == 'same':
                distinct.add(key)
                if len(ctx.samples) < 3 and len(ls) > 6:
                    ctx.samples.append({'case': k, 'records': [x for x in ls if not x.startswith('cflows')][:14], 'model': mf})
    ctx.cov['evaluations'] = sum(v for k_, v in st.items() if k_.startswith(('pair-', 'verdict-', 'flows-')))
    ctx.cov['programs'] = len(cases or {})
    ctx.cov['distinct_nontrivial'] = len(distinct)
    ctx.cov['traces_validated_against_impl'] = st['pair-same']
    ctx.cov['outcomes'] = dict(st)
    ctx.assumptions += ['one generated collection in five has *Debugging consumers (Condense then returns carrier + condensed provider; flows are read from the condensed provider proper and the direct twin gets a *Debugging consumer in front, as Condense puts one there); the content of the Debugging value is not compared',
                        'the public Collection.UpFlows()/DownFlows() on an unbound collection cannot know which member is final; the flows checked are the ones Condense binds with',
                        'interface-typed received (upward) parameters are not generated']
    if len(ctx.violations) > 5:
        ctx.violations.sort(key=lambda v: not v[2]); ctx.violations = ctx.violations[:5]
    return finish(ctx, 'proof', ob, dis, details, rule)


# ---------------------------------------------------------------- C17: Reorder

@prop('C17')
def c17(ctx):
    rule = ('(0) S4: the Lean transcription of reorder.go, run on the model\'s own assembled list, must give exactly the order and the given-up set of the implementation\'s S4 dump; '
            '(1) generated chains with Reorder\'d injectors and wrappers (profile "reorder"): the verified validators are run on '
            'the implementation\'s S3 -> S4 dumps (permutation; providers not marked Reorder keep their relative order; the list up to the invoke '
            'function untouched; nothing includable after the final function); the include/slot model is run on the order reorder chose (S5, S6) '
            'and the bound chain is executed by the Exec model and compared with the Spec (every executed provider receives its inputs per C01); '
            '(2) displacement pairs: chains in which every type has exactly one source and every provider is needed are bound, then EVERY plain '
            'injector is marked Reorder and listed at EVERY other position (up to ~20 variants per chain): must bind, include the same providers, '
            'run the same providers, and every provider and the invoke function must be handed each value by the same producer (tags identify '
            'producers); distinct = provider lists x displaced provider x target position')
    ob, dis, details = proof_obligations(ctx, 'C17')
    q = ctx.tier == 'quick'
    cases = load_cases(ctx, 'run', 2000 if q else 30000, 'reorder')
    st = collections.Counter(); distinct = set()
    if cases is not None:
        corpus = load_corpus(ctx, 'C17')
        allc = corpus + cases
        s7_check(ctx, 'C17', allc)
        stage_stats(ctx, allc, s4_compare, 'S4')
        stage_stats(ctx, allc, s5_compare, 'S5')
        stage_stats(ctx, allc, s6_compare, 'S6')
        for c in allc:
            m4 = next((l for l in c.mlines if l.startswith('m4 ')), None)
            if m4 is None:
                continue
            t = m4.split(); d = kv(m4)
            if d.get('reorder') != '1':
                continue
            st['validated'] += 1
            h3, f3 = dump_funcs(c, 'S3'); h4, f4 = dump_funcs(c, 'S4')
            if f3 and f4 and [f['id'] for f in f3] != [f['id'] for f in f4]:
                st['reorder-changed-the-order'] += 1
            if f4 and any('dependencies_not_met' in f.get('why', '') for f in f4):
                st['reorder-gave-up-on-some'] += 1
            # statistic only: an included provider listed behind the final function (reorder gave up on it, the include pass took it
            # back).  Not a violation by itself: if the position-based bookkeeping is wrong for it, checkWF / the Spec comparison say so.
            hdr7, fs7 = dump_funcs(c, 'S7')
            if fs7:
                fi = next((i for i, f in enumerate(fs7) if f['class'] == 'final-func'), None)
                if fi is not None and any(f['inc'] == '1' for f in fs7[fi + 1:]):
                    st['included-after-final'] += 1
            bad = [k for k in ('prefix', 'final') if d.get(k) != 'ok'] + (['order'] if t[1] != 'ok' else [])
            if bad:
                st['validator-bad'] += 1
                what = {'order': 'reorder\'s result is not a rearrangement that keeps the providers not marked Reorder in their relative order',
                        'prefix': 'reorder moved a provider in front of the invoke function (Bind keeps using the old index of the invoke function)',
                        'final': 'reorder placed a provider that can be included after the final function'}[bad[0]]
                ctx.violations.append(('%s (case %s)' % (what, c.key), write_replay(ctx, 'case_%s.txt' % c.key, c.text()), True))
        # the order condition of the placement theorem (C17_displaced_provider_is_placed_before_its_consumers), evaluated by
        # the driver for every provider still marked Reorder: where it holds, the implementation must not have given up on it
        for c in allc:
            ml = next((l for l in c.mlines if l.startswith('m4live ')), None)
            hdr, fs = dump_funcs(c, 'S4')
            if ml is None or fs is None or ml.strip() == 'm4live -':
                continue
            gave = {f['id'] for f in fs if 'dependencies_not_met' in f.get('why', '')}
            for ent in ml.split()[1:]:
                pid, kx = ent.split(':')
                if kx == 'none':
                    st['placement_condition_not_met'] += 1
                    continue
                st['placement_condition_met'] += 1
                if pid in gave:
                    ctx.violations.append(('reorder gave up on provider %s although the order condition of the placement theorem holds for it '
                                           '(kx=%s, case %s)' % (pid, kx, c.key), write_replay(ctx, 'case_%s.txt' % c.key, c.text()), True))
    # displaced variants as cases of their own: S4 correspondence, and the order condition of the placement theorem must
    # hold for the displaced provider (that C17's preconditions imply it is not proved: it is evaluated on every variant)
    dvar = load_cases(ctx, 'displacevar', 250 if q else 3000)
    for c in dvar or []:
        sres, sd = s4_compare(c)
        st['displaced_S4_' + sres] += 1
        if sres == 'diff':
            ctx.violations.append(('S4 correspondence on a displaced variant: %s (case %s)' % (sd, c.key), write_replay(ctx, 'case_%s.txt' % c.key, c.text()), False))
        ml = next((l for l in c.mlines if l.startswith('m4live ')), None)
        note = next((l for l in c.lines if l.startswith('case ')), '')
        mm = re.search(r'note=displaced=(\d+)', note)
        if ml is None or not mm:
            continue
        ent = dict(e.split(':') for e in ml.split()[1:] if ':' in e)
        kx = ent.get(mm.group(1))
        if kx is None:
            continue
        st['displaced_condition_' + ('not_met' if kx == 'none' else 'met')] += 1
        hdr, fs = dump_funcs(c, 'S4')
        if kx != 'none' and fs is not None and any(f['id'] == mm.group(1) and 'dependencies_not_met' in f.get('why', '') for f in fs):
            ctx.violations.append(('reorder gave up on the displaced provider %s although the order condition of the placement theorem holds (case %s)'
                                   % (mm.group(1), c.key), write_replay(ctx, 'case_%s.txt' % c.key, c.text()), True))
    ctx.cov['displaced_variants_S4_same'] = st['displaced_S4_same']
    ctx.cov['displaced_condition_met'] = st['displaced_condition_met']; ctx.cov['displaced_condition_not_met'] = st['displaced_condition_not_met']
    # keep s7_check's numbers, add the pairs
    base_eval = ctx.cov.get('evaluations', 0); base_dist = ctx.cov.get('distinct_nontrivial', 0); base_tr = ctx.cov.get('traces_validated_against_impl', 0)
    pairs = load_cases(ctx, 'displace', 600 if q else 8000)
    for c in pairs or []:
        for l in pair_lines(c):
            tk = l.split()
            st['displace-' + tk[2]] += 1
            if tk[2] == 'diff':
                ctx.violations.append(('displaced Reorder\'d injector changes the chain: %s (case %s)' % (' '.join(tk[1:])[:220], c.key),
                                       write_replay(ctx, 'case_%s.txt' % c.key, c.text()), True))
            else:
                distinct.add((c.shape_key(), tk[1]))
    ctx.cov['evaluations'] = base_eval + st['displace-same'] + st['displace-diff']
    ctx.cov['distinct_nontrivial'] = base_dist + len(distinct)
    ctx.cov['traces_validated_against_impl'] = base_tr + st['displace-same']
    ctx.cov['displacement_pairs'] = st['displace-same'] + st['displace-diff']
    ctx.cov['reorder_chains_validated'] = st['validated']
    ctx.cov['placement_condition_met'] = st['placement_condition_met']; ctx.cov['placement_condition_not_met'] = st['placement_condition_not_met']
    ctx.cov['outcomes'] = dict(st)
    ctx.assumptions += ['reorder.go is transcribed (Nject/ReorderAlg.lean): Go maps used as sets are duplicate-free lists, container/heap is pop-minimum over a list, the loop of topo.run has fuel; the transcription must give exactly the order of the implementation\'s S4 dump on every generated chain (S4 correspondence)',
                        'the placement theorem holds under a decidable order condition on the constraint graph (liveHypB); that C17\'s preconditions imply that condition is not proved: the driver evaluates it for every Reorder\'d provider of every generated chain',
                        'Reorder with Loose/interface matching is documented as not playing well together; about 15% of the generated reorder chains use interfaces all the same']
    if len(ctx.violations) > 5:
        ctx.violations.sort(key=lambda v: not v[2]); ctx.violations = ctx.violations[:5]
    return finish(ctx, 'proof', ob, dis, details, rule)
