#!/usr/bin/env python3
"""Regenerates /verif/MANIFEST.json from tools/manifest_src.json (claims) and properties.jsonl."""
import json, os
V = os.path.dirname(os.path.dirname(os.path.abspath(__file__)))
src = json.load(open(os.path.join(V, 'tools', 'manifest_src.json')))
props = [json.loads(l)['id'] for l in open(os.path.join(V, 'properties.jsonl'))]
checks = []
for pid in props:
    c = src['claims'].get(pid)
    if not c:
        continue
    checks.append({
        'property_id': pid,
        'quick_cmd': './check %s --tier quick' % pid,
        'thorough_cmd': './check %s --tier thorough' % pid,
        'evidence_file': 'evidence/%s.json' % pid,
        'replay_cmd_template': './check %s --replay {path}' % pid,
        'engine': 'lean-proof+correspondence',
        'level_claimed': {'category': c.get('category', 'proof'), 'text': c['text'], 'design_ref': c.get('design_ref', 'DESIGN.md §7 ' + pid)},
        'level_note': c['note'],
        'technique': c['technique'],
    })
na = [{'property_id': pid, 'reason': src['not_applicable'].get(pid, 'no check built yet in this round; see DESIGN.md')}
      for pid in props if pid not in src['claims']]
m = {
    'version': 1,
    'setup_cmd': src['setup_cmd'],
    'hooks': src['hooks'],
    'engines': src['engines'],
    'checks': checks,
    'not_applicable': na,
    'notes': src['notes'],
}
json.dump(m, open(os.path.join(V, 'MANIFEST.json'), 'w'), indent=1)
print('checks', len(checks), 'not_applicable', len(na))
