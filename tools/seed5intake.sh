#!/bin/sh
# intake of round-5 deliveries found in /tmp/seed5: skips textual duplicates of seeds already kept, verifies, runs the check
cd /verif
for f in /tmp/seed5/*.patch.diff; do
  b=$(basename $f .patch.diff); P=${b%%.*}; x=${b##*.}; id=$P-r5$x
  [ -d seeded/$id ] && continue
  [ -f /tmp/seed5/$b.skip ] && continue
  dup=""
  for old in seeded/$P-*/patch.diff; do
    if diff -q <(grep '^[+-]' $f | grep -v '^+++\|^---' | sed 's/\s//g' | sort) <(grep '^[+-]' $old | grep -v '^+++\|^---' | sed 's/\s//g' | sort) >/dev/null 2>&1; then dup=$old; fi
  done
  if [ -n "$dup" ]; then echo "$id DUPLICATE of $dup"; touch /tmp/seed5/$b.skip; continue; fi
  sh tools/seedintake.sh $id $f /tmp/seed5/${b}_demo_test.go 2>&1 | tail -3 | tr '\n' ' '; echo
  echo "== $id"; sh tools/seedrun.sh /verif/seeded/$id/patch.diff $P 2>&1 | tail -2 | cut -c1-220
done
