#!/bin/sh
# usage: seedintake.sh <seed id> <patch file> <demo test file>
# files a sub-agent's change under seeded/<id>/ and re-verifies it in a scratch worktree
ID=$1; P=$2; T=$3
D=/verif/seeded/$ID
mkdir -p $D
cp "$P" $D/patch.diff
cp "$T" $D/seeded_demo_test.go
sh /verif/tools/seedverify.sh $D
