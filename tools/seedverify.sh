#!/bin/sh
# usage: seedverify.sh <seed dir>  -- confirms in a scratch worktree: suite passes with patch, demo fails with patch, demo passes without
export GOFLAGS=-mod=mod GOPROXY=off GOSUMDB=off GOTOOLCHAIN=local
D=$1; W=/tmp/seedverify.$$
git -C /repo worktree add -q --detach $W HEAD || exit 2
cd $W
cp $D/*_test.go . 2>/dev/null
echo "without patch, demo: $(go test -vet=off -count=1 -run 'Seeded' . 2>&1 | tail -1)"
git apply $D/patch.diff || echo "PATCH DOES NOT APPLY"
echo "with patch, demo:    $(go test -vet=off -count=1 -run 'Seeded' . 2>&1 | tail -1)"
echo "with patch, suite:   $(go test -vet=off -count=1 -skip 'Seeded' ./... 2>&1 | tail -1)"
cd /; git -C /repo worktree remove --force $W
