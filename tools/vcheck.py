"""Shared machinery behind /verif/check."""
import sys, os, json, time, hashlib, subprocess, glob, collections, itertools, shutil, re

VERIF = os.path.dirname(os.path.dirname(os.path.abspath(__file__)))
REPO = os.environ.get('VERIF_REPO', '/repo')
LEAN = os.path.join(VERIF, 'lean')
CACHE = os.path.join(VERIF, '.cache')
GOENV = dict(os.environ, GOFLAGS='-mod=mod', GOPROXY='off', GOSUMDB='off', GOTOOLCHAIN='local',
             CGO_ENABLED='0')
ALLOWED_AXIOMS = {'propext', 'Classical.choice', 'Quot.sound'}


def sh(cmd, cwd=None, env=None, timeout=None, inp=None):
    p = subprocess.run(cmd, cwd=cwd, env=env, timeout=timeout, input=inp, stdout=subprocess.PIPE,
                       stderr=subprocess.STDOUT, text=True, shell=isinstance(cmd, str))
    return p.returncode, p.stdout


def tree_hash():
    h = hashlib.sha256()
    files = sorted(glob.glob(os.path.join(REPO, '*.go'))) + [os.path.join(REPO, 'go.mod'), os.path.join(REPO, 'go.sum')]
    for f in files:
        if os.path.exists(f):
            h.update(f.encode()); h.update(open(f, 'rb').read())
    for f in sorted(glob.glob(os.path.join(VERIF, 'harness', '*.go')) + glob.glob(os.path.join(VERIF, 'extract', '*.go'))
                    + glob.glob(os.path.join(LEAN, 'Nject', '*.lean')) + glob.glob(os.path.join(LEAN, 'NjectGen', '*.lean'))
                    + glob.glob(os.path.join(VERIF, 'corpus', '*', '*.case'))):
        h.update(f.encode()); h.update(open(f, 'rb').read())
    return h.hexdigest()[:16]


def regenerate():
    """Run the go/ast extractor on /repo's working tree: rewrites lean/NjectGen/*.lean.
    Returns (ok, log, differs_from_committed)."""
    xd = os.path.join(VERIF, 'extract')
    h = hashlib.sha256()
    for f in sorted(glob.glob(os.path.join(xd, '*.go'))):
        h.update(open(f, 'rb').read())
    bindir = os.path.join(CACHE, 'bin'); os.makedirs(bindir, exist_ok=True)
    xb = os.path.join(bindir, 'extract-' + h.hexdigest()[:12])
    if not os.path.exists(xb):
        rc, log = sh(['go', 'build', '-o', xb, '.'], cwd=xd, env=GOENV, timeout=600)
        if rc != 0:
            return False, log, None
    rc, log = sh([xb, REPO, os.path.join(LEAN, 'NjectGen')], timeout=120)
    if rc != 0:
        return False, log, None
    rc2, _ = sh(['git', 'diff', '--quiet', '--', 'lean/NjectGen'], cwd=VERIF)
    return True, log.strip(), rc2 != 0


class Ctx:
    def __init__(self, prop, tier, seed):
        self.prop, self.tier, self.seed = prop, tier, seed
        self.t0 = time.time()
        self.regen = regenerate()
        self.hash = tree_hash()
        self.dir = os.path.join(CACHE, '%s-%d-%s' % (self.hash, seed, tier))
        os.makedirs(self.dir, exist_ok=True)
        self.violations = []       # (what, replay_path, found_input: bool)
        self.known = []            # KNOWN-FINDING lines
        self.notes = []
        self.cov = collections.OrderedDict()
        self.samples = []
        self.assumptions = []

    def replay_path(self, name):
        d = os.path.join(VERIF, 'replays', self.prop)
        os.makedirs(d, exist_ok=True)
        return os.path.join(d, name)


# ---------------------------------------------------------------- builds

def build_harness(ctx):
    """go build -tags verif of the harness against /repo's working tree (cached per tree hash)."""
    bindir = os.path.join(CACHE, 'bin'); os.makedirs(bindir, exist_ok=True)
    out = os.path.join(bindir, 'harness-' + ctx.hash)
    if os.path.exists(out):
        return out, ''
    hd = os.path.join(VERIF, 'harness')
    shutil.copyfile(os.path.join(REPO, 'go.sum'), os.path.join(hd, 'go.sum'))
    rc, log = sh(['go', 'build', '-tags', 'verif', '-o', out, '.'], cwd=hd, env=GOENV, timeout=600)
    if rc != 0:
        return None, log
    # keep the cache small
    for old in glob.glob(os.path.join(bindir, 'harness-*')):
        if old != out and time.time() - os.path.getmtime(old) > 3600:
            os.remove(old)
    return out, log


def build_harness_race(ctx):
    """harness built with the race detector (cgo); cached per tree hash"""
    bindir = os.path.join(CACHE, 'bin'); os.makedirs(bindir, exist_ok=True)
    out = os.path.join(bindir, 'hrace-' + ctx.hash)
    if os.path.exists(out):
        return out, ''
    hd = os.path.join(VERIF, 'harness')
    shutil.copyfile(os.path.join(REPO, 'go.sum'), os.path.join(hd, 'go.sum'))
    env = dict(GOENV, CGO_ENABLED='1')
    rc, log = sh(['go', 'build', '-race', '-tags', 'verif', '-o', out, '.'], cwd=hd, env=env, timeout=900)
    if rc != 0:
        return None, log
    for old in glob.glob(os.path.join(bindir, 'hrace-*')):
        if old != out and time.time() - os.path.getmtime(old) > 3600:
            os.remove(old)
    return out, log


def conc_run(ctx, rounds):
    """concurrent workloads under the race detector -> (lines, race_reports, stderr)"""
    tag = os.path.join(ctx.dir, 'conc-%d.txt' % rounds)
    if os.path.exists(tag):
        d = json.load(open(tag))
        return d['lines'], d['races'], d['stderr']
    hb, log = build_harness_race(ctx)
    if hb is None:
        ctx.violations.append(('race-enabled harness does not build', write_replay(ctx, 'harness_build.txt', log[-6000:]), False))
        return None, 0, ''
    p = subprocess.run([hb, 'conc', '-seed', str(ctx.seed), '-n', str(rounds)], stdout=subprocess.PIPE, stderr=subprocess.PIPE,
                       text=True, timeout=3600, env=dict(os.environ, GORACE='halt_on_error=0'))
    lines = [l for l in p.stdout.split('\n') if l.startswith('conc ')]
    races = p.stderr.count('WARNING: DATA RACE')
    json.dump({'lines': lines, 'races': races, 'stderr': p.stderr[-8000:]}, open(tag, 'w'))
    return lines, races, p.stderr[-8000:]


def history_run(ctx, rounds):
    """API histories over a pool of collections, under the race detector"""
    tag = os.path.join(ctx.dir, 'history-%d.txt' % rounds)
    if os.path.exists(tag):
        d = json.load(open(tag))
        return d['lines'], d['races'], d['stderr']
    hb, log = build_harness_race(ctx)
    if hb is None:
        ctx.violations.append(('race-enabled harness does not build', write_replay(ctx, 'harness_build.txt', log[-6000:]), False))
        return None, 0, ''
    p = subprocess.run([hb, 'history', '-seed', str(ctx.seed), '-n', str(rounds)], stdout=subprocess.PIPE, stderr=subprocess.PIPE,
                       text=True, timeout=3600, env=dict(os.environ, GORACE='halt_on_error=0'))
    lines = [l for l in p.stdout.split('\n') if l.startswith('history ')]
    races = p.stderr.count('WARNING: DATA RACE')
    json.dump({'lines': lines, 'races': races, 'stderr': p.stderr[-8000:]}, open(tag, 'w'))
    return lines, races, p.stderr[-8000:]


def lean_build(targets=('Nject', 'NjectGen', 'NjectProofs', 'NjectProps', 'njmodel')):
    rc, log = sh(['lake', 'build'] + list(targets), cwd=LEAN, timeout=3600)
    return rc == 0, log


def model_bin():
    return os.path.join(LEAN, '.lake', 'build', 'bin', 'njmodel')


_audit_cache = {}


def theorem_modules(names):
    """the Lean modules that state the given theorems (found by name in the sources)"""
    mods = set(); missing = []
    srcs = {}
    for f in glob.glob(os.path.join(LEAN, 'Nject*', '*.lean')):
        srcs[f] = open(f).read()
    for n in names:
        short = n.split('.')[-1]
        pat = re.compile(r'^\s*(?:private\s+)?(?:theorem|lemma)\s+(?:Nject\.)?%s\b' % re.escape(short), re.M)
        hit = [f for f, t in srcs.items() if pat.search(t)]
        if not hit:
            missing.append(n)
        for f in hit:
            rel = os.path.relpath(f, LEAN)[:-5]
            mods.add(rel.replace(os.sep, '.'))
    return sorted(mods), missing


def audit_theorems(names, imports=('NjectProps',)):
    """#print axioms for each theorem; returns {name: [axioms]} or raises with the lean log."""
    key = (tuple(names), tuple(imports))
    if key in _audit_cache:
        return _audit_cache[key]
    src = ''.join('import %s\n' % m for m in imports) + ''.join('#print axioms %s\n' % n for n in names)
    f = os.path.join(LEAN, '.lake', 'audit_%d.lean' % os.getpid())
    open(f, 'w').write(src)
    rc, log = sh(['lake', 'env', 'lean', f], cwd=LEAN, timeout=1800)
    os.remove(f)
    res = {}
    # output: 'Name' depends on axioms: [a, b]   |   'Name' does not depend on any axioms
    for m in re.finditer(r"'([^']+)' (does not depend on any axioms|depends on axioms: \[([^\]]*)\])", log.replace('\n', ' ')):
        nm = m.group(1)
        res[nm] = [] if m.group(3) is None else [a.strip() for a in m.group(3).split(',') if a.strip()]
    _audit_cache[key] = (rc, res, log)
    return rc, res, log


def grep_forbidden():
    """sorry/admit/axiom/native_decide/... outside comments in the Lean sources."""
    bad = []
    pat = re.compile(r'\b(sorry|admit|native_decide|bv_decide|implemented_by|unsafe)\b|^\s*axiom\s|maxHeartbeats\s+0')
    for f in glob.glob(os.path.join(LEAN, '**', '*.lean'), recursive=True):
        if '/.lake/' in f:
            continue
        incomment = 0
        for i, line in enumerate(open(f), 1):
            code = line
            # strip block comments (coarse but sufficient: our sources do not nest them on one line)
            if incomment:
                if '-/' in code:
                    code = code.split('-/', 1)[1]; incomment = 0
                else:
                    continue
            while '/-' in code:
                pre, rest = code.split('/-', 1)
                if '-/' in rest:
                    code = pre + rest.split('-/', 1)[1]
                else:
                    code = pre; incomment = 1
            code = code.split('--', 1)[0]
            if pat.search(code):
                bad.append('%s:%d: %s' % (os.path.relpath(f, VERIF), i, line.strip()))
    return bad


# ---------------------------------------------------------------- theorem registry

def load_theorems():
    return json.load(open(os.path.join(VERIF, 'theorems.json')))


def proof_obligations(ctx, prop):
    """Build + audit the theorems registered for `prop`. Returns (obligations, discharged, details)."""
    reg = load_theorems().get(prop, [])
    names = [t['name'] for t in reg]
    if not ctx.regen[0]:
        ctx.violations.append(('extractor failed on /repo (translator tie broken)', write_replay(ctx, 'extract_failed.txt', ctx.regen[1][-4000:]), False))
    ctx.cov['translator'] = {'status': 'regenerated' if ctx.regen[0] else 'failed', 'log': ctx.regen[1][-200:] if ctx.regen[1] else '',
                             'differs_from_committed_snapshot': ctx.regen[2]}
    ok, log = lean_build()
    details = []
    imports = ('NjectProps',)
    if not ok:
        # Some module no longer builds (a regenerated table changed, a theorem over it no longer checks).  That concerns this
        # property only if one of the modules stating ITS theorems (or the model driver) is affected: build just those.
        failing = sorted(set(re.findall(r'error: ([^\s:]+\.lean)', log)))
        mods, missing = theorem_modules(names)
        ok2, log2 = (False, '') if (missing or not mods) else lean_build(tuple(mods) + ('njmodel',))
        if not ok2:
            failing2 = sorted(set(re.findall(r'error: ([^\s:]+\.lean)', log2))) or failing
            ctx.violations.append(('lean build failed: %s' % (', '.join(failing2) or 'see log'),
                                   write_replay(ctx, 'lean_build_failed.txt', (log2 or log)[-6000:]), False))
            return len(names), 0, [{'name': n, 'status': 'unchecked (build failed)'} for n in names]
        imports = tuple(mods)
        ctx.cov['unrelated_modules_failing'] = failing
        ctx.assumptions.append('other Lean modules (%s) do not build against the current /repo; none of them is imported by the modules that state this property\'s theorems, which were built and audited on their own' % ', '.join(failing))
    bad = grep_forbidden()
    if bad:
        ctx.violations.append(('forbidden construct in Lean sources', write_replay(ctx, 'forbidden.txt', '\n'.join(bad)), False))
    if not names:
        return 0, 0, []
    rc, ax, alog = audit_theorems(names, imports)
    discharged = 0
    for t in reg:
        n = t['name']
        if n not in ax:
            details.append({'name': n, 'status': 'MISSING', 'kind': t.get('kind', 'full')})
            ctx.violations.append(('theorem %s not found by #print axioms' % n, write_replay(ctx, 'audit.txt', alog[-4000:]), False))
            continue
        extra = [a for a in ax[n] if a not in ALLOWED_AXIOMS]
        if extra:
            details.append({'name': n, 'status': 'BAD-AXIOMS', 'axioms': ax[n]})
            ctx.violations.append(('theorem %s depends on %s' % (n, extra), write_replay(ctx, 'audit.txt', alog[-4000:]), False))
            continue
        discharged += 1
        details.append({'name': n, 'status': 'proved', 'kind': t.get('kind', 'full'), 'axioms': ax[n], 'says': t.get('says', '')})
    return len(names), discharged, details


def write_replay(ctx, name, text):
    p = ctx.replay_path(name)
    open(p, 'w').write(text)
    return p


# ---------------------------------------------------------------- harness runs

def read_cases(path):
    cases = collections.OrderedDict(); cur = None
    with open(path) as fh:
        for line in fh:
            line = line.rstrip('\n')
            if line.startswith('case '):
                cur = line.split()[1]; cases[cur] = [line]
            elif cur is not None:
                cases[cur].append(line)
    return cases


TMPSUF = '.tmp%d' % os.getpid()   # two checks may share a cache directory


def harness_run(ctx, mode, n, profile='default', extra=(), tag=None):
    """Run the harness (real nject) then the Lean model driver on its output. Cached per ctx.dir."""
    tag = tag or '%s-%s-%d' % (mode, profile, n)
    impl = os.path.join(ctx.dir, 'impl-%s.txt' % tag)
    model = os.path.join(ctx.dir, 'model-%s.txt' % tag)
    if not (os.path.exists(impl) and os.path.exists(model)):
        hb, log = build_harness(ctx)
        if hb is None:
            ctx.violations.append(('harness does not build against /repo', write_replay(ctx, 'harness_build.txt', log[-6000:]), False))
            return None, None
        start = 0
        with open(impl + TMPSUF, 'w') as out:
            while True:
                p = subprocess.run([hb, mode, '-seed', str(ctx.seed), '-n', str(n), '-profile', profile, '-start', str(start)] + list(extra),
                                   stdout=subprocess.PIPE, stderr=subprocess.PIPE, text=True, timeout=3600,
                                   env=dict(os.environ, GOMEMLIMIT='8GiB'))
                out.write(p.stdout)
                if p.returncode == 3:
                    # a case hung inside nject: the harness exits after reporting it; resume after that case
                    last = [l for l in p.stdout.split('\n') if l.startswith('case ')]
                    if not last:
                        break
                    start = int(last[-1].split()[1]) + 1
                    continue
                break
        if p.returncode not in (0, 3):
            ctx.violations.append(('harness crashed (exit %d)' % p.returncode,
                                   write_replay(ctx, 'harness_crash.txt', p.stderr[-6000:]), False))
            return None, None
        os.rename(impl + TMPSUF, impl)
        ok, log = lean_build(('njmodel',))
        if not ok:
            ctx.violations.append(('model driver does not build', write_replay(ctx, 'lean_build_failed.txt', log[-6000:]), False))
            return None, None
        with open(impl) as inp, open(model + TMPSUF, 'w') as out:
            p = subprocess.run([model_bin()], stdin=inp, stdout=out, stderr=subprocess.PIPE, text=True, timeout=3600)
        if p.returncode != 0:
            ctx.violations.append(('model driver crashed', write_replay(ctx, 'model_crash.txt', p.stderr[-6000:]), False))
            return None, None
        os.rename(model + TMPSUF, model)
    return read_cases(impl), read_cases(model)



def flat_run(ctx, mode, n):
    """Helper modes (one record per line, no cases): harness lines and the model's line for each."""
    impl = os.path.join(ctx.dir, 'flat-impl-%s-%d.txt' % (mode, n))
    model = os.path.join(ctx.dir, 'flat-model-%s-%d.txt' % (mode, n))
    if not (os.path.exists(impl) and os.path.exists(model)):
        hb, log = build_harness(ctx)
        if hb is None:
            ctx.violations.append(('harness does not build against /repo', write_replay(ctx, 'harness_build.txt', log[-6000:]), False))
            return None, None
        p = subprocess.run([hb, mode, '-seed', str(ctx.seed), '-n', str(n)], stdout=subprocess.PIPE, stderr=subprocess.PIPE,
                           text=True, timeout=3600, env=dict(os.environ, GOMEMLIMIT='8GiB'))
        if p.returncode != 0:
            ctx.violations.append(('harness crashed in mode %s (exit %d)' % (mode, p.returncode),
                                   write_replay(ctx, 'harness_crash.txt', (p.stdout[-3000:] + p.stderr[-6000:])), False))
            return None, None
        open(impl, 'w').write(p.stdout)
        ok, log = lean_build(('njmodel',))
        if not ok:
            ctx.violations.append(('model driver does not build', write_replay(ctx, 'lean_build_failed.txt', log[-6000:]), False))
            return None, None
        with open(impl) as inp, open(model + TMPSUF, 'w') as out:
            p = subprocess.run([model_bin()], stdin=inp, stdout=out, stderr=subprocess.PIPE, text=True, timeout=3600)
        if p.returncode != 0:
            ctx.violations.append(('model driver crashed', write_replay(ctx, 'model_crash.txt', p.stderr[-6000:]), False))
            return None, None
        os.rename(model + TMPSUF, model)
    return [l for l in open(impl).read().split('\n') if l], [l for l in open(model).read().split('\n') if l]

# ---------------------------------------------------------------- known findings

def load_known():
    p = os.path.join(VERIF, 'known_findings.json')
    if not os.path.exists(p):
        return {'open': [], 'fixed': []}
    return json.load(open(p))


# ---------------------------------------------------------------- evidence / exit

def finish(ctx, level, obligations, discharged, details, rule, extra_cov=None):
    cov = collections.OrderedDict()
    cov['obligations'] = obligations
    cov['discharged'] = discharged
    cov['checker_cmd'] = 'cd /verif/lean && lake build NjectProps && lake env lean <#print axioms of every listed theorem>'
    cov['trusted_base'] = [
        'Lean 4.33.0 kernel; axioms per theorem listed under theorems (only propext, Classical.choice, Quot.sound accepted)',
        'go/ast extractor /verif/extract (regenerated tables) and harness /verif/harness (differential correspondence, canonicalisation)',
        'verif-tagged dump hooks in /repo (verif_on.go) mirror internal state faithfully',
        'reflect, sync, container/heap and the Go memory model are modelled, not verified',
    ]
    cov['theorems'] = details
    cov['rule'] = rule
    cov.update(ctx.cov)
    if extra_cov:
        cov.update(extra_cov)
    cov['samples'] = ctx.samples[:6] if ctx.samples else [d for d in details[:3]]
    cov['notes'] = ctx.notes
    ev = {
        'property_id': ctx.prop, 'tier': ctx.tier, 'seed': ctx.seed, 'level': level,
        'coverage': cov, 'assumptions': ctx.assumptions, 'wall_s': round(time.time() - ctx.t0, 2),
        'violations': len(ctx.violations),
    }
    evdir = os.environ.get('VERIF_EVIDENCE_DIR') or os.path.join(VERIF, 'evidence')   # seeded-change runs write elsewhere
    os.makedirs(evdir, exist_ok=True)
    with open(os.path.join(evdir, ctx.prop + '.json'), 'w') as fh:
        json.dump(ev, fh, indent=1)
    ctx.violations.sort(key=lambda v: not v[2])
    for k in ctx.known:
        print(k)
    for what, replay, found in ctx.violations:
        print('# %s' % what)
        print('VIOLATION property=%s replay=%s%s' % (ctx.prop, replay, '' if found else ' no-failing-input-found'))
    print('%s %s: obligations %d/%d, %s, %.1fs' % (ctx.prop, 'FAIL' if ctx.violations else 'ok', discharged, obligations,
                                                    ' '.join('%s=%s' % (k, v) for k, v in ctx.cov.items() if isinstance(v, int)),
                                                    time.time() - ctx.t0))
    return 1 if ctx.violations else 0


def main(argv):
    import argparse
    ap = argparse.ArgumentParser()
    ap.add_argument('prop')
    ap.add_argument('--tier', default=os.environ.get('VERIF_TIER', 'quick'))
    ap.add_argument('--replay')
    a = ap.parse_args(argv)
    seed = int(os.environ.get('VERIF_SEED', '1') or 1)
    tier = a.tier if a.tier in ('quick', 'thorough') else 'quick'
    import props
    fn = props.PROPS.get(a.prop)
    if fn is None:
        print('unknown property', a.prop); return 2
    ctx = Ctx(a.prop, tier, seed)
    if a.replay:
        return props.replay(ctx, a.replay)
    return fn(ctx)
