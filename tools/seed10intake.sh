#!/bin/bash
# intake of round-10 deliveries: usage seed10intake.sh <PROP>...   (only after the sub-agent's completion notice)
cd /verif
for P in "$@"; do for x in A B; do
  f=/tmp/seed10/$P.$x.patch.diff; id=$P-r10$x
  [ -f $f ] || { echo "$id: no delivery"; continue; }
  [ -d seeded/$id ] && continue
  dup=""
  for old in seeded/$P-*/patch.diff; do
    if diff -q <(grep '^[+-]' $f | grep -v '^+++\|^---' | sed 's/\s//g' | sort) <(grep '^[+-]' $old | grep -v '^+++\|^---' | sed 's/\s//g' | sort) >/dev/null 2>&1; then dup=$old; fi
  done
  if [ -n "$dup" ]; then echo "$id DUPLICATE of $dup"; continue; fi
  sh tools/seedintake.sh $id $f /tmp/seed10/$P.${x}_demo_test.go 2>&1 | tail -3 | tr '\n' ' '; echo
  echo "== $id"; sh tools/seedrun.sh /verif/seeded/$id/patch.diff $P 2>&1 | tail -2 | cut -c1-220
done; done
