#!/bin/sh
# usage: seedrun.sh <patch.diff> <prop> [prop...]  -- applies the patch to /repo, runs the quick checks, undoes it
P=$1; shift
cd /repo && git apply "$P" || { echo "patch does not apply"; exit 2; }
(cd /repo && go build ./... && go test -vet=off -count=1 ./... 2>&1 | tail -1)
cd /verif
export VERIF_EVIDENCE_DIR=/verif/.cache/seed-evidence
for p in "$@"; do ./check $p 2>&1 | grep -v '^#' | tail -3; done
git -C /repo checkout -- . ; git -C /verif checkout -- lean/NjectGen 2>/dev/null
