#!/usr/bin/env python3
"""Compare the implementation's traces (t lines) with the model's Exec (x) and Spec (s) traces."""
import sys, collections

def read_cases(path):
    cases = collections.OrderedDict(); cur = None
    for line in open(path):
        line = line.rstrip('\n')
        if line.startswith('case '):
            cur = line.split()[1]; cases[cur] = []
        elif cur is not None:
            cases[cur].append(line)
    return cases

def main():
    impl = read_cases(sys.argv[1]); model = read_cases(sys.argv[2])
    nx = ns = n = 0
    shown = 0
    for k, lines in impl.items():
        m = model.get(k)
        if m is None or any(l.startswith('skip') for l in m):
            continue
        n += 1
        t = [l[2:] for l in lines if l.startswith('t ')]
        x = [l[2:] for l in m if l.startswith('x ')]
        s = [l[2:] for l in m if l.startswith('s ')]
        badx = t != x; bads = t != s
        nx += badx; ns += bads
        if (badx or bads) and shown < int(sys.argv[3]) if len(sys.argv) > 3 else False:
            shown += 1
            print('=== case', k, 'exec-diff' if badx else '', 'spec-diff' if bads else '')
            for l in lines:
                if l.startswith('p ') or l.startswith('invoke') or l.startswith('init'): print('   ', l)
            import itertools
            for a, b, c in itertools.zip_longest(t, x, s, fillvalue=''):
                mark = '  ' if a == b == c else '!!'
                print(mark, 'T', a, '| X', b if b != a else '=', '| S', c if c != a else '=')
    print('cases', n, 'exec-mismatch', nx, 'spec-mismatch', ns)
main()
