#!/bin/sh
# usage (from a snapshot of /verif with its own copy of the repository):
#   vp run --with-repo -- tools/seedsweep.sh            -- every seeded change against the check of the property it breaks
# Uses $VP_RUN_REPO (a private copy of /repo's HEAD) so that /repo itself is not touched.
R=${VP_RUN_REPO:?needs a private repository copy}
V=$(pwd)
export VERIF_REPO=$R VERIF_EVIDENCE_DIR=$V/.cache/seed-evidence GOFLAGS=-mod=mod GOPROXY=off GOSUMDB=off GOTOOLCHAIN=local
sed -i "s|=> /repo|=> $R|" harness/go.mod
./setup.sh >/dev/null 2>&1 || echo "setup failed"
# SEEDS="id id ..." restricts the sweep; PROP=Cxx checks that property instead of the one the seed breaks
for d in seeded/*/; do
  id=$(basename $d)
  if [ -n "$SEEDS" ]; then case " $SEEDS " in *" $id "*) ;; *) continue;; esac; fi
  prop=${PROP:-$(python3 -c "import json;print(json.load(open('$d/meta.json'))['breaks_property'])")}
  (cd $R && git apply $V/$d/patch.diff) || { echo "$id $prop PATCH-DOES-NOT-APPLY"; continue; }
  out=$(./check $prop 2>&1 | grep -v '^#' | tail -1 | cut -c1-160)
  n=$(ls replays/$prop 2>/dev/null | wc -l)
  case "$out" in
    *FAIL*) echo "$id $prop caught: $out";;
    *) echo "$id $prop MISSED: $out";;
  esac
  (cd $R && git checkout -- .)
  git checkout -- lean/NjectGen 2>/dev/null
done
