#!/bin/sh
# every property's thorough tier, one after the other (for vp run: rebuilds in the snapshot first)
./setup.sh >/dev/null 2>&1 || echo "setup failed"
for p in ${PROPS:-C01 C02 C03 C04 C05 C06 C07 C08 C09 C10 C11 C12 C13 C14 C15 C16 C17 C18 C19 C20}; do
  VERIF_SEED=${VERIF_SEED:-1} ./check $p --tier thorough 2>&1 | grep -v '^#' | tail -3 | cut -c1-400
done
