import NjectProofs.Slots
import NjectProofs.Refine
import NjectProofs.Static
import NjectProofs.Machine
import NjectProofs.EditProofs
import NjectProofs.ConcProofs
import NjectProofs.HelperProofs
import NjectProofs.CondenseProofs
