import NjectProps.S7
import NjectProps.C18
import NjectProps.C06
import NjectProps.C06b
import NjectProps.C03C15
import NjectProps.C13
import NjectProps.Concurrency
import NjectProps.C12
