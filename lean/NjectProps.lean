import NjectProps.S7
import NjectProps.C18
