import NjectProps.S7
