import Nject.Driver
def main : IO Unit := Nject.Driver.main
