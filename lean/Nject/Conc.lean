import Nject.Basic
/-
  Interleaving models of the shared-state closures of nject (cache.go cachers and singletons,
  bind.go init/invoke with sync.Once).  Any number of threads, any schedule, any history.

  The straight-line Go closures are extracted into a small IR (`NjectGen/Micro.lean`); recognisers
  (`wellLocked`, `wellOnced`, …) decide that an extracted closure follows the locking discipline the
  phase machines below assume.  The theorems are about the phase machines.
-/
namespace Nject.Conc

/-! ## IR of the extracted closures -/

inductive Instr where
  | bypassIfUnmappable        -- if okayCheck != nil && !okayCheck(in) { return fv.Call(in) }
  | lock (m : String)
  | deferUnlock (m : String)
  | unlock (m : String)
  | rlock (m : String)
  | deferRUnlock (m : String)
  | mkKey (arity : Nat)       -- var key inN; fillKeyFromInputs(key[:], in)
  | lookupRet (c : String)    -- if out, found := c[key]; found { return out }
  | call                      -- out := fv.Call(in)
  | store (c : String)        -- c[key] = out
  | ret                       -- return out
  | onceBegin (o : String)    -- once.Do(func() {
  | onceEnd                   -- })
  | assign (v : String)       -- out = …  (captured variable written inside once.Do)
  | copyBase (v : String)     -- values := baseValues.Copy()
  | writeLocal (v : String)   -- outMap(values, inputs)
  | runChain (v : String)     -- f(values)
  | readLocal (v : String)    -- return inMap(values)
  | readBase                  -- inMap(baseValues) / use of baseValues outside the once body
  | writeBase                 -- outMap(baseValues, …) / runStaticChain()
  | callInit                  -- initFunc()
  | registryGet (r : String)  -- if x, ok := r[id]; ok { return x }
  | registryPut (r : String)  -- r[id] = x
  | other (s : String)
deriving Repr, DecidableEq, Inhabited

/-- the memoizing closure: optional run-time key check, then everything under one mutex -/
def wellLocked (arity : Nat) : List Instr → Bool
  | [.bypassIfUnmappable, .lock m, .deferUnlock m', .mkKey a, .lookupRet c, .call, .store c', .ret] =>
    m == m' && c == c' && a == arity
  | _ => false

/-- the singleton closure: the call and the write of the result happen inside once.Do, the read after it -/
def wellOnced : List Instr → Bool
  | [.onceBegin _, .call, .assign v, .onceEnd, .ret] => v == "out"
  | _ => false

/-- registry access (`generateCache`, `generateSingleton`): lookup and insertion under the same write lock -/
def wellRegistered : List Instr → Bool
  | [.lock m, .deferUnlock m', .registryGet r, .other _, .registryPut r', .ret] => m == m' && r == r'
  | [.lock m, .deferUnlock m', .registryGet r, .other _, .other _, .other _, .registryPut r', .ret] => m == m' && r == r'
  | _ => false

/-- invoke: lazy static initialisation first, then a private copy of the base values; nothing after
    the copy touches the shared base -/
def wellIsolatedInvoke : List Instr → Bool
  | [.callInit, .copyBase v, .writeLocal v1, .runChain v2, .readLocal v3] => v == v1 && v == v2 && v == v3
  | _ => false

/-- init: all writes to the base values inside once.Do; the read of the results after it -/
def wellOncedInit : List Instr → Bool
  | [.onceBegin _, .writeBase, .writeBase, .onceEnd, .readBase] => true
  | _ => false

/-- lazy init (no init function): the static chain runs inside once.Do -/
def wellOncedLazy : List Instr → Bool
  | [.onceBegin _, .writeBase, .onceEnd] => true
  | _ => false

/-! ## Phase machine of a memoizing cacher (all threads, all keys, all schedules) -/

inductive Phase (K V : Type) where
  | idle
  | want (k : K)               -- before lock.Lock()
  | locked (k : K)             -- holds the lock, before the lookup
  | called (k : K) (v : V)     -- holds the lock, called the function, before the store
  | done (k : K) (v : V)       -- returned v (lock released by the deferred Unlock)
deriving Repr

structure CState (K V : Type) where
  lock : Option Nat
  cache : List (K × V)
  ncalls : Nat
  calls : List (K × Nat)       -- log of real calls: key and global call number
  th : Nat → Phase K V

def CState.init {K V : Type} : CState K V :=
  { lock := none, cache := [], ncalls := 0, calls := [], th := fun _ => .idle }

def setTh {K V : Type} (th : Nat → Phase K V) (t : Nat) (p : Phase K V) : Nat → Phase K V :=
  fun t' => if t' = t then p else th t'

/-- one step of thread `t`; `k` is the key of the invocation it starts when idle.
    `f k n` is what the user function returns on the `n`-th real call (it need not be deterministic). -/
def cstep {K V : Type} [DecidableEq K] (f : K → Nat → V) (s : CState K V) (t : Nat) (k : K) : Option (CState K V) :=
  match s.th t with
  | .idle => some { s with th := setTh s.th t (.want k) }
  | .want k' =>
    match s.lock with
    | none => some { s with lock := some t, th := setTh s.th t (.locked k') }
    | some _ => none                                            -- blocked
  | .locked k' =>
    match s.cache.lookup k' with
    | some v => some { s with lock := none, th := setTh s.th t (.done k' v) }
    | none =>
      some { s with ncalls := s.ncalls + 1, calls := (k', s.ncalls) :: s.calls,
                    th := setTh s.th t (.called k' (f k' s.ncalls)) }
  | .called k' v => some { s with cache := (k', v) :: s.cache, lock := none, th := setTh s.th t (.done k' v) }
  | .done _ _ => some { s with th := setTh s.th t .idle }

/-- run a schedule (blocked steps are skipped) -/
def crun {K V : Type} [DecidableEq K] (f : K → Nat → V) : List (Nat × K) → CState K V → CState K V
  | [], s => s
  | (t, k) :: rest, s =>
    match cstep f s t k with
    | some s' => crun f rest s'
    | none => crun f rest s

/-! ## Phase machine of sync.Once-guarded initialisation -/

inductive OPhase (V : Type) where
  | idle
  | entered                    -- inside once.Do, this thread runs the body
  | waiting                    -- inside once.Do, another thread runs the body
  | done (v : V)               -- returned from Do and read the result
deriving Repr

structure OState (V : Type) where
  runner : Option Nat          -- thread currently running the body
  finished : Bool
  out : Option V
  nruns : Nat                  -- how often the body ran
  th : Nat → OPhase V

def OState.init {V : Type} : OState V :=
  { runner := none, finished := false, out := none, nruns := 0, th := fun _ => .idle }

def setOTh {V : Type} (th : Nat → OPhase V) (t : Nat) (p : OPhase V) : Nat → OPhase V :=
  fun t' => if t' = t then p else th t'

/-- `body n` is what the body computes on its `n`-th execution -/
def ostep {V : Type} (body : Nat → V) (dflt : V) (s : OState V) (t : Nat) : Option (OState V) :=
  match s.th t with
  | .idle =>
    if s.finished then some { s with th := setOTh s.th t (.done (s.out.getD dflt)) }
    else match s.runner with
      | none => some { s with runner := some t, th := setOTh s.th t .entered }
      | some _ => some { s with th := setOTh s.th t .waiting }
  | .entered =>
    -- the body runs to completion, publishes its result, Do returns
    some { s with runner := none, finished := true, out := some (body s.nruns), nruns := s.nruns + 1,
                  th := setOTh s.th t (.done (body s.nruns)) }
  | .waiting =>
    if s.finished then some { s with th := setOTh s.th t (.done (s.out.getD dflt)) } else none
  | .done _ => some { s with th := setOTh s.th t .idle }

def orun {V : Type} (body : Nat → V) (dflt : V) : List Nat → OState V → OState V
  | [], s => s
  | t :: rest, s =>
    match ostep body dflt s t with
    | some s' => orun body dflt rest s'
    | none => orun body dflt rest s

end Nject.Conc

namespace Nject.Conc

/-! ## debug.go / api.go: the debug lock (RWMutex) and the debug flag -/

inductive LPhase where
  | idle
  | reading        -- bindFast: holds debugLock.RLock
  | capturing      -- captureDoBindDebugging: holds debugLock.Lock, debug = 1
  | stuck          -- captureDoBindDebugging returned "already capturing" WITHOUT unlocking
deriving DecidableEq, Repr

structure LState where
  readers : Nat
  writer : Option Nat
  debug : Bool
  th : Nat → LPhase

def LState.init : LState := { readers := 0, writer := none, debug := false, th := fun _ => .idle }

def setL (th : Nat → LPhase) (t : Nat) (p : LPhase) : Nat → LPhase := fun t' => if t' = t then p else th t'

/-- `capture = false`: a Bind takes/releases the read lock; `capture = true`: a capture of the debug trace -/
def lstep (s : LState) (t : Nat) (capture : Bool) : Option LState :=
  match s.th t with
  | .idle =>
    if capture then
      if s.writer.isNone && s.readers == 0 then
        if s.debug then some { s with writer := some t, th := setL s.th t .stuck }
        else some { s with writer := some t, debug := true, th := setL s.th t .capturing }
      else none
    else
      if s.writer.isNone then some { s with readers := s.readers + 1, th := setL s.th t .reading } else none
  | .reading => some { s with readers := s.readers - 1, th := setL s.th t .idle }
  | .capturing => some { s with writer := none, debug := false, th := setL s.th t .idle }
  | .stuck => none

def lrun : List (Nat × Bool) → LState → LState
  | [], s => s
  | (t, c) :: rest, s =>
    match lstep s t c with
    | some s' => lrun rest s'
    | none => lrun rest s

end Nject.Conc
