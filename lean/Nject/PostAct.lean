import Nject.Basic
/-
  C20: MakeStructBuilder's post-actions (filler.go `mapStruct`'s handleFieldFiller and
  `addFieldFiller`), for flat structs.  The ORDER in which the actions run is the documented one
  (filler_api.go: PostActionByTag, then PostActionByName, then PostActionByType); which actions exist,
  what each is handed and which fields are still filled transcribes the code.
-/
namespace Nject

inductive PTag where
  | skip | nofill | fill
  | custom (id : Nat)      -- a tag value registered with PostActionByTag
  | unknown
deriving DecidableEq, Repr, Inhabited

/-- the shape of a post-action function's parameter -/
inductive FnKind where
  | anyval                 -- func(x any): handed the field's value
  | anyopen                -- func(x any) with MatchToOpenInterface: handed a pointer to the field
  | anyopenX (e : Ty)      -- func(x any, extra E) with MatchToOpenInterface: `x` is handed a pointer to the field,
                           -- `extra` is an ordinary input taken from the chain (whatever its type)
  | ptr (t : Ty)           -- func(p *T)
  | val (t : Ty)           -- func(v T)
deriving DecidableEq, Repr, Inhabited

structure PAOpt where
  fn : FnKind
  fillSet : Bool := false  -- WithFill given
  fill : Bool := false
deriving DecidableEq, Repr, Inhabited

structure PField where
  exported : Bool
  ty : Ty
  tags : List PTag
deriving Repr, Inhabited

structure PAOptions where
  byTag : List (Nat × PAOpt)
  byName : List (Nat × PAOpt)     -- keyed by field position
  byType : List PAOpt             -- in registration order
  pointerModel : Bool
deriving Repr, Inhabited

inductive PAKind where
  | tag | name | type
deriving DecidableEq, Repr, Inhabited

/-- one post-action provider: which kind of registration, which field, pointer or value -/
structure PAct where
  kind : PAKind
  field : Nat
  ty : Ty
  ptr : Bool
  extra : Option Ty := none     -- a further parameter of the action, requested from the chain
deriving DecidableEq, Repr, Inhabited

/-- `addFieldFiller`'s matching: `some addressOf`, or `none` = MakeStructBuilder returns an error -/
def fnMatch (k : FnKind) (t : Ty) : Option Bool :=
  match k with
  | .anyval => some false
  | .anyopen => some true
  | .anyopenX _ => some true
  | .ptr t' => if t' == t then some true else none
  | .val t' => if t' == t then some false else none

structure FSt where
  skip : Bool := false
  noSkip : Bool := false
  hardSkip : Bool := false
  acts : List PAct := []
deriving Repr, Inhabited

/-- `handleFieldFiller` -/
def handleFiller (i : Nat) (t : Ty) (kind : PAKind) (o : PAOpt) (st : FSt) : Option FSt :=
  if st.hardSkip then some st else
  match fnMatch o.fn t with
  | none => none
  | some ptr =>
    let skip :=
      if o.fillSet then (if st.noSkip then st.skip else !o.fill)
      else if ptr then (if st.noSkip then st.skip else true)
      else st.skip
    let extra := match o.fn with | .anyopenX e => some e | _ => none
    some { st with skip := skip, acts := st.acts ++ [{ kind := kind, field := i, ty := t, ptr := ptr, extra := extra }] }

def tagStep (opts : PAOptions) (i : Nat) (t : Ty) (st : FSt) : PTag → Option FSt
  | .nofill => some { st with skip := true }
  | .fill => some { st with skip := false, noSkip := true }
  | .skip => some { st with skip := true, hardSkip := true }
  | .custom id => match opts.byTag.lookup id with
    | some o => handleFiller i t .tag o st
    | none => none
  | .unknown => none

def foldOpt {α β} (f : β → α → Option β) : List α → β → Option β
  | [], b => some b
  | a :: as, b => match f b a with
    | none => none
    | some b' => foldOpt f as b'

/-- the functions registered with PostActionByType that apply to a field of type `t`: for a pointer
    model first those taking `*T`, then those taking `T` -/
def typeFns (opts : PAOptions) (t : Ty) : List PAOpt :=
  (if opts.pointerModel then opts.byType.filter (fun o => o.fn == .ptr t) else [])
  ++ opts.byType.filter (fun o => o.fn == .val t)

/-- one field of `mapStruct`: its post-actions (tags left to right, then by name, then by type) and
    whether it is still filled from the chain -/
def fieldActs (opts : PAOptions) (i : Nat) (f : PField) : Option FSt :=
  if !f.exported then some { skip := true } else
  match foldOpt (fun st tg => tagStep opts i f.ty st tg) f.tags {} with
  | none => none
  | some st =>
    match (match opts.byName.lookup i with
           | some o => handleFiller i f.ty .name o st
           | none => some st) with
    | none => none
    | some st => foldOpt (fun st o => handleFiller i f.ty .type o st) (typeFns opts f.ty) st

def allFields (opts : PAOptions) : List PField → Nat → Option (List FSt)
  | [], _ => some []
  | f :: fs, i => match fieldActs opts i f with
    | none => none
    | some st => (allFields opts fs (i + 1)).map (st :: ·)

structure PAPlan where
  filled : List Bool          -- per field: filled from the chain
  acts : List PAct            -- in the order they run
deriving Repr, Inhabited

/-- documented order: every PostActionByTag action, then every PostActionByName action, then every
    PostActionByType action (each group in field order) -/
def paPlan (opts : PAOptions) (fields : List PField) : Option PAPlan :=
  (allFields opts fields 0).map fun sts =>
    let all := sts.flatMap (·.acts)
    { filled := sts.map (!·.skip),
      acts := all.filter (·.kind == .tag) ++ all.filter (·.kind == .name) ++ all.filter (·.kind == .type) }

/-- running the chain: the builder fills, then each action sees the field as it is and, when it has
    a pointer, overwrites it with `mark ty` -/
def paRun (plan : PAPlan) (fields : List PField) (supply mark : Ty → Nat) : List (PAct × Nat) × List Nat :=
  let store0 := (fields.zip plan.filled).map fun (f, b) => if b then supply f.ty else 0
  plan.acts.foldl (fun (acc : List (PAct × Nat) × List Nat) a =>
    let seen := acc.2.getD a.field 0
    (acc.1 ++ [(a, seen)], if a.ptr then acc.2.set a.field (mark a.ty) else acc.2)) ([], store0)

end Nject
