import Nject.Spec
/-
  Executable well-formedness check for a compiled chain (run on every chain the
  implementation dumps).  `NjectProofs` shows `checkWF c = none → WF c`, and `WF c` is the
  hypothesis of the refinement theorem `exec_refines_spec`.
-/
namespace Nject

def allDistinct : List Nat → Bool
  | [] => true
  | x :: xs => !xs.contains x && allDistinct xs

/-- every return type of the nodes at or below -/
def upTypes (fin : Node) : List Node → List Ty
  | [] => fin.rets
  | n :: rest => n.rets ++ upTypes fin rest

def hasSlot (m : List (Ty × Nat)) (t : Ty) : Bool := (m.lookup t).isSome

/-- zero lists of wrappers cover every slotted up-type written at or below them -/
def zeroCover (umap : List (Ty × Nat)) (fin : Node) : List Node → Bool
  | [] => true
  | n :: rest =>
    (n.kind != .wrapper ||
      (upTypes fin (n :: rest)).all (fun t => !hasSlot umap t || n.zero.contains t))
    && zeroCover umap fin rest

def runReadsOk (c : Compiled) : Bool :=
  c.run.all (fun n => n.ins.all (hasSlot c.dmap) && n.recv.all (hasSlot c.umap))
  && c.fin.ins.all (hasSlot c.dmap)
  && c.invokeRecv.all (hasSlot c.umap)

/-- a fallible node's error slot exists -/
def errSlotOk (c : Compiled) : Bool :=
  c.run.all (fun n => n.kind != .fallible || hasSlot c.umap c.errTy)

def staticZeroOk (dmap : List (Ty × Nat)) : List SNode → Bool
  | [] => true
  | n :: rest =>
    (!n.fallible ||
      ((laterOuts rest).all (fun t => !hasSlot dmap t || n.zero.contains t)
       && n.zero.all (fun t => !hasSlot dmap t || (laterOuts rest).contains t)))
    && staticZeroOk dmap rest

def staticReadsOk (c : Compiled) : Bool :=
  c.statics.all (fun n => n.ins.all (hasSlot c.dmap))
  && (match c.init with
      | none => true
      | some sig => sig.bypass.all (hasSlot c.dmap))

def slotsOk (c : Compiled) : Bool :=
  let ds := c.dmap.map (·.2)
  let us := c.umap.map (·.2)
  allDistinct (ds ++ us) && (ds ++ us).all (· < c.vcount)
  && allDistinct (c.dmap.map (·.1)) && allDistinct (c.umap.map (·.1))

/-- `none` = well-formed; otherwise the name of the first clause that fails -/
def checkWF (c : Compiled) : Option String :=
  if !slotsOk c then some "slots"
  else if !runReadsOk c then some "run-reads"
  else if !errSlotOk c then some "err-slot"
  else if !zeroCover c.umap c.fin c.run then some "zero-cover"
  else if !staticReadsOk c then some "static-reads"
  else if !staticZeroOk c.dmap c.statics then some "static-zero"
  else none

/-! ### supply: every read type has a writer upstream (C01 "never a zero value") -/

def supplyRun (fin : Node) : List Node → List Ty → Bool
  | [], avail => fin.ins.all avail.contains
  | n :: rest, avail => n.ins.all avail.contains && supplyRun fin rest (n.outs ++ avail)

def supplyStatic : List SNode → List Ty → Bool × List Ty
  | [], avail => (true, avail)
  | n :: rest, avail =>
    let r := supplyStatic rest (n.outs ++ avail)
    (n.ins.all avail.contains && r.1, r.2)

def checkSupply (c : Compiled) : Bool :=
  let a0 := c.lits.map (·.1) ++ (match c.init with | none => [] | some s => s.outs)
  let r := supplyStatic c.statics a0
  r.1 && (match c.init with | none => true | some s => s.bypass.all r.2.contains)
  && supplyRun c.fin c.run (c.invokeOuts ++ r.2)

end Nject
