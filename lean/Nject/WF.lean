import Nject.Spec
/-
  Executable well-formedness check for a compiled chain (run on every chain the
  implementation dumps).  `NjectProofs` shows `checkWF c = none → WF c`, and `WF c` is the
  hypothesis of the refinement theorem `exec_refines_spec`.
-/
namespace Nject

def allDistinct (l : List Nat) : Bool := decide l.Nodup

/-- every return type of the nodes at or below -/
def upTypes (fin : Node) : List Node → List Ty
  | [] => fin.rets
  | n :: rest => n.rets ++ upTypes fin rest

def hasSlot (m : List (Ty × Nat)) (t : Ty) : Bool := (m.lookup t).isSome

/-- per-node hypotheses of the refinement theorem, in list order:
    reads have slots; a fallible injector returns `error`; a wrapper's zero list covers every
    slotted up-type written at or below it. -/
def wfRun (m : Maps) (errTy : Ty) (fin : Node) : List Node → Bool
  | [] => fin.ins.all (fun t => (m.d t).isSome)
  | n :: rest =>
    n.ins.all (fun t => (m.d t).isSome) && n.recv.all (fun t => (m.u t).isSome)
    && (n.kind != .fallible || n.rets.contains errTy)
    && (n.kind != .wrapper ||
        (upTypes fin (n :: rest)).all (fun t => !(m.u t).isSome || n.zero.contains t))
    && wfRun m errTy fin rest

/-- a fallible node's error slot exists -/
def errSlotOk (c : Compiled) : Bool :=
  c.run.all (fun n => n.kind != .fallible || hasSlot c.umap c.errTy)

/-- hypotheses on the static part: reads have slots; a fallible static injector's zero list is, on
    slotted types, exactly what later static injectors output -/
def wfStatic (d : Ty → Option Nat) : List SNode → Bool
  | [] => true
  | n :: rest =>
    (n.lit.isSome || n.ins.all (fun t => (d t).isSome))
    && (!n.fallible ||
        ((laterOuts rest).all (fun t => !(d t).isSome || n.zero.contains t)
         && n.zero.all (fun t => !(d t).isSome || (laterOuts rest).contains t)))
    && wfStatic d rest

def initOk (c : Compiled) : Bool :=
  match c.init with
  | none => true
  | some sig => sig.bypass.all (fun t => (c.maps.d t).isSome)

def slotsOk (c : Compiled) : Bool :=
  let ds := c.dmap.map (·.2)
  let us := c.umap.map (·.2)
  allDistinct (ds ++ us) && (ds ++ us).all (· < c.vcount)
  && allDistinct (c.dmap.map (·.1)) && allDistinct (c.umap.map (·.1))

/-- `none` = well-formed; otherwise the name of the first clause that fails -/
def checkWF (c : Compiled) : Option String :=
  if !slotsOk c then some "slots"
  else if !wfRun c.maps c.errTy c.fin c.run then some "run-wf"
  else if !c.invokeRecv.all (fun t => (c.maps.u t).isSome) then some "invoke-recv"
  else if !errSlotOk c then some "err-slot"
  else if !wfStatic c.maps.d c.statics then some "static-wf"
  else if !initOk c then some "init-bypass"
  else none

/-! ### supply: every read type has a writer upstream (C01 "never a zero value") -/

def supplyRun (fin : Node) : List Node → List Ty → Bool
  | [], avail => fin.ins.all avail.contains
  | n :: rest, avail => n.ins.all avail.contains && supplyRun fin rest (n.outs ++ avail)

def supplyStatic : List SNode → List Ty → Bool × List Ty
  | [], avail => (true, avail)
  | n :: rest, avail =>
    let r := supplyStatic rest (n.outs ++ avail)
    (n.ins.all avail.contains && r.1, r.2)

def checkSupply (c : Compiled) : Bool :=
  let a0 := c.lits.map (·.1) ++ (match c.init with | none => [] | some s => s.outs)
  let r := supplyStatic c.statics a0
  r.1 && (match c.init with | none => true | some s => s.bypass.all r.2.contains)
  && supplyRun c.fin c.run (c.invokeOuts ++ r.2)

end Nject
