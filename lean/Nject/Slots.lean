import Nject.Include
/-
  S6: slot assignment (bind.go:129-177), `checkForShadowing` (shadowing.go), and the whole of
  `doBind` as a function from the user-level description to a compiled chain.
-/
namespace Nject

inductive BindErr where
  | edit (e : EditErr)
  | classify
  | required | wanted | internal
  | shadow
  | initType
  | fuel
deriving Repr, Inhabited

def remapT (rm : List (Ty × Ty)) (t : Ty) : Ty := (rm.lookup t).getD t

/-- the return types of one provider that it does not itself receive, checked against what is
    returned below; `none` = a forbidden override -/
def shadowEach (fm : IP) : List Ty → List Ty → Option (List Ty)
  | [], returned => some returned
  | t :: ts, returned =>
    if !returned.contains t then shadowEach fm ts (t :: returned)
    else if (fm.c.cls == .fallibleStaticInjectorFunc || fm.c.cls == .fallibleInjectorFunc) && (t == tError || t == tTerminal) then
      shadowEach fm ts returned
    else if fm.c.shadowOK.contains t then shadowEach fm ts returned
    else none

/-- walk from the last provider to the first -/
def shadowGo : List IP → List Ty → Bool
  | [], _ => true
  | fm :: rest, returned =>
    match shadowEach fm (fm.c.ret.filter fun t => !fm.c.recv.contains t) returned with
    | none => false
    | some returned =>
      -- what it received and passes on is returned from here on, too (the value may have been returned below
      -- under another type, matched through Loose)
      shadowGo rest (returned ++ (fm.c.ret.filter fun t => fm.c.recv.contains t && !returned.contains t))

/-- `checkForShadowing`, over all funcs (included or not), from the last to the first -/
def checkShadowing (ch : Chain) : Bool := shadowGo ch.reverse []

structure SlotState where
  reg : List Ty                 -- types registered (value -1) by the pre-fill loop
  dmap : List (Ty × Nat) := []
  umap : List (Ty × Nat) := []
  count : Nat := 0
deriving Repr, Inhabited

/-- `addToVmap` on one of the two maps -/
def addToVmap (reg : List Ty) (m : List (Ty × Nat)) (count : Nat) (rm : List (Ty × Ty)) :
    List Ty → List (Ty × Nat) × Nat
  | [] => (m, count)
  | t :: ts =>
    let t := remapT rm t
    if reg.contains t && (m.lookup t).isNone then addToVmap reg (m ++ [(t, count)]) (count + 1) rm ts
    else addToVmap reg m count rm ts

structure SlotOut where
  st : SlotState
  staticD : List (Ty × Nat) := []  -- the downward map as it stands after the static set (what the init check looks at)
  zskip : List (Nat × List Ty)     -- position ↦ mustZeroIfRemainderSkipped
  zinner : List (Nat × List Ty)    -- position ↦ mustZeroIfInnerNotCalled
deriving Repr, Inhabited

def assignSlots (ch : Chain) (invokeIndex : Nat) : SlotOut :=
  let reg := (ch.filter (·.inc)).foldl (fun r f => r ++ f.c.ret ++ f.c.out ++ f.c.inp ++ f.c.recv ++ f.c.byp) []
  let st0 : SlotState := { reg := reg }
  -- static set, backwards
  let (st1, zskip, _) := (List.range invokeIndex).reverse.foldl
    (fun (acc : SlotState × List (Nat × List Ty) × List Ty) i =>
      let (st, zs, skipped) := acc
      let fm := ch.get i
      if !fm.inc then acc else
      -- (outputs are stored under their own types: downRmap only says under which type an input is found)
      let (dm, cnt) := addToVmap st.reg st.dmap st.count [] fm.c.out
      let st := { st with dmap := dm, count := cnt }
      let skipped' :=
        if fm.c.group == .staticGroup then
          skipped ++ fm.c.out.filter fun t => (st.dmap.lookup t).isSome
        else skipped
      (st, (i, skipped) :: zs, skipped')) (st0, [], [])
  -- run set, backwards (all funcs, included or not)
  let (st2, zinner) := ((List.range ch.length).filter (· ≥ invokeIndex)).reverse.foldl
    (fun (acc : SlotState × List (Nat × List Ty)) i =>
      let (st, zi) := acc
      let fm := ch.get i
      let (dm, cnt) := addToVmap st.reg st.dmap st.count fm.downRmap fm.c.inp
      let (um, cnt) := addToVmap st.reg st.umap cnt [] fm.c.ret
      let st := { st with dmap := dm, umap := um, count := cnt }
      (st, (i, st.umap.map (·.1)) :: zi)) (st1, [])
  { st := st2, staticD := st1.dmap, zskip := zskip, zinner := zinner }

structure BindOut where
  chain : Chain
  invokeIndex : Nat
  slots : SlotOut
deriving Repr, Inhabited

/-- put the assembled funcs into the order `reorder` chose (ids); `none` unless it is a permutation -/
def permuteTo (funcs : List CP) (order : List Nat) : Option (List CP) :=
  let picked := order.filterMap fun id => funcs.find? (·.id == id)
  if order.length == funcs.length && picked.length == funcs.length && order.eraseDups.length == order.length then some picked
  else none

/-- `doBind` from the inclusion computation on: inclusion, shadowing check, slot assignment, the check of the init
    function's results -/
def bindTail (ti : TyInfo) (asm : Assembled) (cannot4 : List Nat) : Except BindErr BindOut :=
  match computeInclusion ti asm.funcs cannot4 with
  | .error .required => .error .required
  | .error .wanted => .error .wanted
  | .error .internal => .error .internal
  | .error .fuel => .error .fuel
  | .ok ch =>
    if !checkShadowing ch then .error .shadow else
    let so := assignSlots ch asm.invokeIndex
    let initBad := match ch.find? (·.c.cls == .initFunc) with
      -- (bind.go looks the type up through downRmap, not bypassRmap, and before the run set gets its slots)
      | some f => f.c.byp.any fun t => so.st.reg.contains (remapT f.downRmap t) && (so.staticD.lookup (remapT f.downRmap t)).isNone
      | none => false
    if initBad then .error .initType
    else .ok { chain := ch, invokeIndex := asm.invokeIndex, slots := so }

/-- the order `reorder` chose, when it is given -/
def applyOrder (asm0 : Assembled) (order4 : Option (List Nat)) : Option Assembled :=
  match order4 with
  | none => some asm0
  | some o => (permuteTo asm0.funcs o).map fun fs => { asm0 with funcs := fs }

/-- `doBind` up to the point where the closures are generated.  reorder.go is not modelled HERE (it is in
    `ReorderAlg.lean`): for a chain with Reorder'd providers the order it chose (and the providers it gave up on) is
    taken from the implementation's S4 dump, after the validators of C17 accepted it. -/
def bindModel (ti : TyInfo) (enodes : List ENode) (descs : List PDesc) (inv : Sig) (ini : Option Sig)
    (order4 : Option (List Nat) := none) (cannot4 : List Nat := []) :
    Except BindErr BindOut :=
  match editAll enodes with
  | .error e => .error (.edit e)
  | .ok order =>
    match assemble (order.filterMap fun n => descs.find? (·.idx == n.idx)) inv ini with
    | none => .error .classify
    | some asm0 =>
      match applyOrder asm0 order4 with
      | none => .error .internal
      | some asm => bindTail ti asm cannot4

end Nject
