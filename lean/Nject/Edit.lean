import Nject.Basic
/-
  S1: named edits (replace.go `handleReplaceByName`) and NonFinal (nject.go `reorderNonFinal`)
  as list machines.  Names are numbers (0 = no name).
-/
namespace Nject

structure ENode where
  idx : Nat            -- position in the supplied list (unique)
  origin : Nat := 0    -- name given by Provide / the collection (0 = none)
  rep : Nat := 0       -- ReplaceNamed target
  bef : Nat := 0       -- InsertBeforeNamed target
  aft : Nat := 0       -- InsertAfterNamed target
  nonFinal : Bool := false
  gen : Bool := false  -- supplied through GenerateFromInjectionChain: `nonFinal` is the generator's own mark ...
  inf : Bool := false  -- ... and this is the NonFinal mark of the (single) provider it is replaced by
deriving Repr, DecidableEq, Inhabited

inductive EditErr where
  | twoTags | missing | dup
  | selfTarget    -- a directive whose target is the provider's own name
  | fuel
deriving Repr, DecidableEq, Inhabited

def ENode.tags (n : ENode) : Nat :=
  (if n.rep != 0 then 1 else 0) + (if n.bef != 0 then 1 else 0) + (if n.aft != 0 then 1 else 0)

def ENode.plain (n : ENode) : Bool := n.rep == 0 && n.bef == 0 && n.aft == 0

def ENode.selfTarget (n : ENode) : Bool :=
  n.origin != 0 && (n.rep == n.origin || n.bef == n.origin || n.aft == n.origin)

/-- step 1: the per-provider checks, in list order -/
def preCheck : List ENode → Option EditErr
  | [] => none
  | n :: rest =>
    if n.tags > 1 then some .twoTags
    else if n.selfTarget then some .selfTarget
    else preCheck rest

/-- step 2: the name index.  `(name, firstIdx, lastIdx, duplicated)`; the first block of a name wins,
    a second non-adjacent block only sets `duplicated`. -/
structure NameEntry where
  name : Nat
  first : Nat
  last : Nat
  dup : Bool
deriving Repr, DecidableEq, Inhabited

def nameIndexGo : List ENode → (lastName : Nat) → (cur : Option NameEntry) → List NameEntry → List NameEntry
  | [], _, cur, acc => match cur with
    | some e => acc ++ [e]
    | none => acc
  | n :: rest, lastName, cur, acc =>
    if n.origin == 0 then
      -- the open block (if it was recorded) is closed
      nameIndexGo rest 0 none (match cur with | some e => acc ++ [e] | none => acc)
    else if n.origin == lastName then
      -- extend the current block (recorded or not)
      nameIndexGo rest lastName (cur.map fun e => { e with last := n.idx }) acc
    else
      let acc := match cur with | some e => acc ++ [e] | none => acc
      if acc.any (·.name == n.origin) then
        -- a second block with this name: mark the first as duplicated; this block is not recorded
        nameIndexGo rest n.origin none (acc.map fun e => if e.name == n.origin then { e with dup := true } else e)
      else
        nameIndexGo rest n.origin (some { name := n.origin, first := n.idx, last := n.idx, dup := false }) acc

def nameIndex (l : List ENode) : List NameEntry := nameIndexGo l 0 none []

def lookupName (names : List NameEntry) (name : Nat) : Except EditErr NameEntry :=
  match names.find? (·.name == name) with
  | none => .error .missing
  | some e => if e.dup then .error .dup else .ok e

def idxs (l : List ENode) : List Nat := l.map (·.idx)

structure EState where
  cur : List ENode
  processed : List Nat
  names : List NameEntry
  pos : Nat
deriving Repr

/-- position of the node with index `k`, or the length (the tail sentinel) -/
def posOf (l : List ENode) (k : Option Nat) : Nat :=
  match k with
  | none => l.length
  | some k => (l.takeWhile (·.idx != k)).length

/-- cut the block that starts at the node with index `k` and extends while `p` holds:
    `(before, block, after)` with `l = before ++ block ++ after` -/
def cutAt (l : List ENode) (k : Nat) (p : ENode → Bool) : List ENode × List ENode × List ENode :=
  let fr := l.dropWhile (·.idx != k)
  (l.takeWhile (·.idx != k), fr.takeWhile p, fr.dropWhile p)

def insertAtPos (l b : List ENode) (p : Nat) : List ENode := l.take p ++ b ++ l.drop p

def headIdx (l : List ENode) : Option Nat := l.head?.map (·.idx)

/-- InsertBeforeNamed: cut the block of consecutive `bef = name` providers at the cursor node and
    put it immediately before the target's first provider. Returns (new list, moved block, node after the block). -/
def moveBefore (cur : List ENode) (n : ENode) (ent : NameEntry) : List ENode × List ENode × Option Nat :=
  let c := cutAt cur n.idx (·.bef == n.bef)
  let cur2 := c.1 ++ c.2.2
  (insertAtPos cur2 c.2.1 (posOf cur2 (some ent.first)), c.2.1, headIdx c.2.2)

/-- InsertAfterNamed: … immediately after the target's last provider -/
def moveAfter (cur : List ENode) (n : ENode) (ent : NameEntry) : List ENode × List ENode × Option Nat :=
  let c := cutAt cur n.idx (·.aft == n.aft)
  let cur2 := c.1 ++ c.2.2
  (insertAtPos cur2 c.2.1 (posOf cur2 (some ent.last) + 1), c.2.1, headIdx c.2.2)

/-- ReplaceNamed: cut the target block (consecutive providers named `name` from the target's first),
    cut the moving block from what is left, and put the moving block where the target was.
    Returns (new list, removed target block, moved block, node after the moving block). -/
def moveReplace (cur : List ENode) (n : ENode) (ent : NameEntry) :
    List ENode × List ENode × List ENode × Option Nat :=
  let ct := cutAt cur ent.first (·.origin == n.rep)
  let cur1 := ct.1 ++ ct.2.2
  let cm := cutAt cur1 n.idx (·.rep == n.rep)
  let cur2 := cm.1 ++ cm.2.2
  -- where the target was: before the node that followed it; if that node is in the moving block,
  -- before the node that follows the moving block
  let ins : Option Nat :=
    match headIdx ct.2.2 with
    | none => none
    | some xi => if (idxs cm.2.1).contains xi then headIdx cm.2.2 else some xi
  (insertAtPos cur2 cm.2.1 (posOf cur2 ins), ct.2.1, cm.2.1, headIdx cm.2.2)

/-- one iteration of the step-3 loop at cursor `pos`; `none` = loop finished -/
def editStep (s : EState) : Except EditErr (Option EState) :=
  match s.cur[s.pos]? with
  | none => .ok none
  | some n =>
    if s.processed.contains n.idx || n.plain then .ok (some { s with pos := s.pos + 1 })
    else if n.rep != 0 then
      match lookupName s.names n.rep with
      | .error e => .error e
      | .ok ent =>
        let r := moveReplace s.cur n ent
        .ok (some { cur := r.1, processed := s.processed ++ idxs r.2.1 ++ idxs r.2.2.1,
                    names := s.names.filter (·.name != n.rep), pos := posOf r.1 r.2.2.2 })
    else if n.bef != 0 then
      match lookupName s.names n.bef with
      | .error e => .error e
      | .ok ent =>
        let r := moveBefore s.cur n ent
        .ok (some { s with cur := r.1, processed := s.processed ++ idxs r.2.1, pos := posOf r.1 r.2.2 })
    else
      match lookupName s.names n.aft with
      | .error e => .error e
      | .ok ent =>
        let r := moveAfter s.cur n ent
        .ok (some { s with cur := r.1, processed := s.processed ++ idxs r.2.1, pos := posOf r.1 r.2.2 })

def editLoop : Nat → EState → Except EditErr (List ENode)
  | 0, _ => .error .fuel
  | fuel + 1, s =>
    match editStep s with
    | .error e => .error e
    | .ok none => .ok s.cur
    | .ok (some s') => editLoop fuel s'

/-- `handleReplaceByName` -/
def handleReplaceByName (l : List ENode) : Except EditErr (List ENode) :=
  if l.all (·.plain) then .ok l
  else match preCheck l with
  | some e => .error e
  | none => editLoop ((l.length + 1) * (l.length + 2)) { cur := l, processed := [], names := nameIndex l, pos := 0 }

/-- `reorderNonFinal`: the last provider not marked NonFinal moves to the end -/
def reorderNonFinal (l : List ENode) : List ENode :=
  match l.reverse.dropWhile (·.nonFinal) with
  | [] => l                        -- all NonFinal: unchanged
  | f :: before => before.reverse ++ (l.reverse.takeWhile (·.nonFinal)).reverse ++ [f]

/-- nject.go `characterizeAndFlatten`, "handle mutations": a generated provider is replaced by what its generator returns
    (here: one provider, which keeps the generator's place) -/
def ENode.replaced (n : ENode) : ENode := if n.gen then { n with nonFinal := n.inf, gen := false } else n

/-- named edits, NonFinal, replacement of the generated providers, and NonFinal again if anything was replaced -/
def editAll (l : List ENode) : Except EditErr (List ENode) :=
  (handleReplaceByName l).map fun l =>
    let l1 := reorderNonFinal l
    if l1.any (·.gen) then reorderNonFinal (l1.map ENode.replaced) else l1

end Nject
