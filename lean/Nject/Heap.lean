import Nject.Basic
/-
  A minimal heap for C11: objects (providers, contents arrays) with identity.  An API operation
  allocates objects and writes cells; it is *fresh-writing* when every cell it writes belongs to an
  object it allocated itself.
-/
namespace Nject.Heap

abbrev Obj := Nat
/-- contents of an object (a provider's fields / an array's elements), abstractly a list of numbers -/
abbrev Content := List Nat
abbrev Heap := Obj → Option Content

structure Op where
  allocs : List (Obj × Content)     -- objects created by the operation, with their initial contents
  writes : List (Obj × Content)     -- later (re)writes, in order

def applyWrites (h : Heap) : List (Obj × Content) → Heap
  | [] => h
  | (o, c) :: rest => applyWrites (fun o' => if o' = o then some c else h o') rest

def Op.apply (op : Op) (h : Heap) : Heap := applyWrites (applyWrites h op.allocs) op.writes

/-- every allocated object is new, and every write targets an object allocated by this very operation -/
def Op.freshWriting (op : Op) (h : Heap) : Prop :=
  (∀ p ∈ op.allocs, h p.1 = none) ∧ (∀ p ∈ op.writes, ∃ q ∈ op.allocs, q.1 = p.1)

def run (h : Heap) : List Op → Heap
  | [] => h
  | op :: rest => run (op.apply h) rest

/-- all operations of a history are fresh-writing at the moment they run -/
def History (h : Heap) : List Op → Prop
  | [] => True
  | op :: rest => op.freshWriting h ∧ History (op.apply h) rest

end Nject.Heap
