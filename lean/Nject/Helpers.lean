import Nject.Basic
/-
  The generated helpers of C20: MakeStructBuilder's field mapping (filler.go `mapStruct` and
  `(*filler).Call`), Curry's position maps and curried call (utils.go `Curry`), and SaveTo.
-/
namespace Nject

/-! ## MakeStructBuilder -/

/-- one comma-separated element of an `nject:"…"` struct tag -/
inductive FTag where
  | skip      -- "-" or "skip"
  | nofill
  | fill
  | whole     -- "whole" or "blob"
  | fields    -- "fields"   (filler.go accepts only this spelling, "field" is reserved but rejected)
  | unknown   -- anything else without a PostActionByTag registration: an error
deriving DecidableEq, Repr, Inhabited

abbrev Path := List Nat

mutual
/-- a struct type as reflect shows it -/
inductive FDesc where
  | leaf (t : Ty)                        -- a field type whose Kind is not Struct
  | struct (id : Ty) (fields : FFields)  -- Kind Struct; `id` is the code of the struct type itself
inductive FFields where
  | nil
  | cons (exported : Bool) (tags : List FTag) (d : FDesc) (rest : FFields)
end

def FDesc.isStruct : FDesc → Bool
  | .leaf _ => false
  | .struct _ _ => true

/-- the per-field flags of `mapStruct` -/
structure TagSt where
  skip : Bool := false
  whole : Bool := false
deriving DecidableEq, Repr, Inhabited

/-- the `switch tv` of mapStruct (without post-actions); `none` = MakeStructBuilder returns an error -/
def applyTag (isStruct : Bool) (s : TagSt) : FTag → Option TagSt
  | .nofill => some { s with skip := true }
  | .fill => some { s with skip := false }
  | .skip => some { s with skip := true }
  | .whole => if isStruct then some { s with whole := true } else none
  | .fields => if isStruct then some { s with whole := false } else none
  | .unknown => none

def applyTags (isStruct : Bool) : List FTag → TagSt → Option TagSt
  | [], s => some s
  | t :: ts, s => match applyTag isStruct s t with
    | none => none
    | some s' => applyTags isStruct ts s'

mutual
/-- `mapStruct`: the inputs the builder asks for, as (field index path, type), in order;
    `none` when MakeStructBuilder returns an error. -/
def FDesc.inputs (path : Path) : FDesc → Option (List (Path × Ty))
  | .leaf _ => some []
  | .struct _ fields => fields.inputs path 0
def FFields.inputs (path : Path) (i : Nat) : FFields → Option (List (Path × Ty))
  | .nil => some []
  | .cons exported tags d rest =>
    if !exported then rest.inputs path (i + 1)
    else match applyTags d.isStruct tags {} with
      | none => none
      | some st =>
        if st.skip then rest.inputs path (i + 1)
        else match d with
          | .leaf t => (rest.inputs path (i + 1)).map ((path ++ [i], t) :: ·)
          | .struct id fs =>
            if st.whole then (rest.inputs path (i + 1)).map ((path ++ [i], id) :: ·)
            else match fs.inputs (path ++ [i]) 0 with
              | none => none
              | some a => (rest.inputs path (i + 1)).map (a ++ ·)
end

mutual
/-- every leaf reachable through exported fields, whatever the tags: what a reader of the built
    struct can see -/
def FDesc.leaves (path : Path) : FDesc → List (Path × Ty)
  | .leaf _ => []
  | .struct _ fields => fields.leaves path 0
def FFields.leaves (path : Path) (i : Nat) : FFields → List (Path × Ty)
  | .nil => []
  | .cons exported _ d rest =>
    (if !exported then [] else match d with
      | .leaf t => [(path ++ [i], t)]
      | .struct _ fs => fs.leaves (path ++ [i]) 0) ++ rest.leaves path (i + 1)
end

/-- the struct being built: the log of `fv.Set(input)` operations (field path, value), in order.
    Setting a nested struct (a whole-filled field) sets every leaf below it. -/
abbrev StructVal := List (Path × Nat)

/-- value of the leaf at path `p`: the last write at `p` or above it; zero value when never written -/
def StructVal.get (s : StructVal) (p : Path) : Nat :=
  match s.reverse.find? (fun w => w.1.isPrefixOf p) with
  | some w => w.2
  | none => 0

/-- `(*filler).Call`: a fresh zero struct, then one Set per input -/
def fillerCall (ins : List (Path × Ty)) (vals : List Nat) : StructVal :=
  (ins.zip vals).map fun (pt, v) => (pt.1, v)

/-- what each visible leaf holds after the builder ran in a chain where the value of type `t` is
    `supply t` -/
def fillerFields (d : FDesc) (supply : Ty → Nat) : Option (List (Path × Nat)) :=
  match d.inputs [] with
  | none => none
  | some ins =>
    let s := fillerCall ins (ins.map fun pt => supply pt.2)
    some ((d.leaves []).map fun pt => (pt.1, s.get pt.1))

/-- `FillExisting`: the struct is not made afresh but taken from the chain; a leaf that no input
    writes keeps what it held (`base`) -/
def StructVal.getOr (s : StructVal) (p : Path) (base : Nat) : Nat :=
  match s.reverse.find? (fun w => w.1.isPrefixOf p) with
  | some w => w.2
  | none => base

def fillerFieldsExisting (d : FDesc) (supply : Ty → Nat) (base : Nat) : Option (List (Path × Nat)) :=
  match d.inputs [] with
  | none => none
  | some ins =>
    let s := fillerCall ins (ins.map fun pt => supply pt.2)
    some ((d.leaves []).map fun pt => (pt.1, s.getOr pt.1 base))

/-! ## Curry -/

/-- state of the loop over the original function's parameters -/
structure CW where
  used : Ty → Nat := fun _ => 0
  pass : List (Nat × Nat) := []    -- (position in the curried function, position in the original)
  cm : List Nat := []              -- curryMap: injected position ↦ original position
  cur : List Ty := []              -- types injected from the chain

/-- positions in `n` holding type `t`, in order (`ntypes[t]`) -/
def positionsOf (n : List Ty) (t : Ty) : List Nat :=
  (List.range n.length).filter fun j => n[j]? == some t

def curryStep (n : List Ty) (s : CW) (i : Nat) (t : Ty) : Option CW :=
  let plist := positionsOf n t
  if plist.isEmpty then
    if s.cur.contains t then none          -- cannot curry the same type more than once
    else some { s with cm := s.cm ++ [i], cur := s.cur ++ [t] }
  else if s.used t < plist.length then
    some { s with used := fun x => if x = t then s.used x + 1 else s.used x,
                  pass := s.pass ++ [(plist.getD (s.used t) 0, i)] }
  else none                                -- original takes more of this type than the curried function

def curryWalk (n : List Ty) : List Ty → Nat → CW → Option CW
  | [], _, s => some s
  | t :: rest, i, s => match curryStep n s i t with
    | none => none
    | some s' => curryWalk n rest (i + 1) s'

structure CurryMaps where
  passMap : List Nat       -- indexed by position in the curried function
  curryMap : List Nat      -- indexed by position among the injected inputs
  curried : List Ty
deriving Repr, DecidableEq, Inhabited

/-- `passMap := make([]int, NumIn)` then `passMap[j] = i` for each recorded pair -/
def mkPassMap (len : Nat) (pass : List (Nat × Nat)) : List Nat :=
  pass.foldl (fun m ji => m.set ji.1 ji.2) (List.replicate len 0)

def headIsFunc (isFunc : Ty → Bool) : List Ty → Bool
  | t :: _ => isFunc t
  | [] => false

/-- utils.go `Curry`: `o`/`oOut` = parameter/result types of the original function, `n`/`nOut` = of the
    curried one; `none` when Curry returns an error. -/
def curryModel (isFunc : Ty → Bool) (o oOut n nOut : List Ty) : Option CurryMaps :=
  if oOut ≠ nOut then none
  else if o.length ≤ n.length then none      -- must take fewer arguments
  else match curryWalk n o 0 {} with
    | none => none
    | some s =>
      if n.any fun t => s.used t < (positionsOf n t).length then none   -- curried parameter never used
      else if headIsFunc isFunc s.cur then none                         -- first curried input may not be a function
      else some { passMap := mkPassMap n.length s.pass, curryMap := s.cm, curried := s.cur }

/-- `curryFunc`: the argument list handed to the original function -/
def curriedCall {α} (m : CurryMaps) (numIn : Nat) (args injected : List α) : List (Option α) :=
  let oi : List (Option α) := List.replicate numIn none
  let oi := (m.passMap.zip args).foldl (fun oi pa => oi.set pa.1 (some pa.2)) oi
  (m.curryMap.zip injected).foldl (fun oi pa => oi.set pa.1 (some pa.2)) oi

/-! ## SaveTo -/

/-- SaveTo's provider: `pointers[i].Elem().Set(in[i])`; the store maps pointer number to value -/
def saveToCall (npointers : Nat) (ins : List Nat) : List (Option Nat) :=
  ((List.range ins.length).zip ins).foldl (fun st iv => st.set iv.1 (some iv.2)) (List.replicate npointers none)

end Nject
