import Nject.Exec
/-
  The reference semantics the properties are read against.  No slots, no copies, no
  aliasing: an environment (one value per type) flows down, an environment flows up.

  * C01: an argument of type t is `down t` — the most recent write of t on the path.
  * C02: what comes up is what the providers below returned during this inner() call; a
         wrapper's own results override; nothing below ran ⇒ empty (zero values).
  * C05: providers run in list order, the rest of the list once per inner() call.
  * C07: a failing fallible injector stops the rest and sends its error up, everything else zero.
-/
namespace Nject

def specFinal (b : Beh) (fin : Node) (down : Env) (st : St) : Env × St :=
  let r := callFn b fin.id false (fin.ins.map down.rd) st
  (Env.empty.set fin.rets r.1, r.2)

/-- the wrapper body's behaviour tree; `last` is what the most recent inner() call sent up -/
def specTree (n : Node) (next : Env → St → Env × St) (down : Env) :
    WStep → Env → St → Env × St
  | .ret outs, last, st => (last.set n.rets outs, st.push (.wret n.id outs))
  | .call args k, last, st =>
    let r := next (down.set n.outs args) (st.push (.winner n.id args))
    let vals := n.recv.map r.1.rd
    specTree n next down (k vals) (if n.parallel then last else r.1) (r.2.push (.wrecv n.id vals))

def specNodes (b : Beh) (errTy : Ty) (fin : Node) : List Node → Env → St → Env × St
  | [], down, st => specFinal b fin down st
  | n :: rest, down, st =>
    match n.kind with
    | .wrapper =>
      let args := n.ins.map down.rd
      let tree := b.wrap n.id (st.count n.id) args
      specTree n (specNodes b errTy fin rest) down tree Env.empty (st.push (.wenter n.id args))
    | .fallible =>
      let r := callFn b n.id n.memo (n.ins.map down.rd) st
      let e := r.1.getD n.errIdx (zeroV errTy)
      if isErr e then (Env.empty.set1 errTy e, r.2)
      else specNodes b errTy fin rest (down.set n.outs (r.1.eraseIdx n.errIdx)) r.2
    | _ =>
      let r := callFn b n.id n.memo (n.ins.map down.rd) st
      specNodes b errTy fin rest (down.set n.outs r.1) r.2

/-- zero every listed type -/
def Env.zero (e : Env) : List Ty → Env
  | [] => e
  | t :: ts => Env.zero (e.set1 t (zeroV t)) ts

/-- all types later static injectors would have written -/
def laterOuts : List SNode → List Ty
  | [] => []
  | n :: rest => (if n.lit.isSome then [] else n.outs) ++ laterOuts rest

/-- the literal values listed further down still take effect when the injectors are skipped -/
def applyLitsE : List SNode → Env → Env
  | [], e => e
  | n :: rest, e =>
    match n.lit with
    | some x => applyLitsE rest (e.set n.outs [x])
    | none => applyLitsE rest e

def specStatic (b : Beh) : List SNode → Env → St → Env × St
  | [], down, st => (down, st)
  | n :: rest, down, st =>
    match n.lit with
    | some x => specStatic b rest (down.set n.outs [x]) st      -- a value: in effect from here on
    | none =>
      let r := callStatic b n (n.ins.map down.rd) st
      if n.fallible && isErr (r.1.getD n.errIdx (zeroV 0)) then
        -- the skipped injectors' types are zero; this injector's own results (its error) are visible;
        -- values listed after it are in place
        (applyLitsE rest ((down.zero (laterOuts rest)).set n.outs r.1), r.2)
      else specStatic b rest (down.set n.outs r.1) r.2

structure SBound where
  base : Env
  staticDone : Bool := false
  st : St := {}

def Compiled.specBindState (c : Compiled) : SBound :=
  { base := c.lits.foldl (fun e (p : Ty × Val) => e.set1 p.1 p.2) Env.empty }

def Compiled.specInit (c : Compiled) (b : Beh) (s : SBound) (args : List Val) : List Val × SBound :=
  match c.init with
  | none => ([], s)
  | some sig =>
    let s :=
      if s.staticDone then s
      else
        let r := specStatic b c.statics (s.base.set sig.outs args) s.st
        { base := r.1, staticDone := true, st := r.2 }
    (sig.bypass.map s.base.rd, s)

def Compiled.specInvoke (c : Compiled) (b : Beh) (s : SBound) (args : List Val) : List Val × SBound :=
  let s :=
    if c.init.isNone && !s.staticDone then
      let r := specStatic b c.statics s.base s.st
      { base := r.1, staticDone := true, st := r.2 }
    else s
  let r := specNodes b c.errTy c.fin c.run (s.base.set c.invokeOuts args) s.st
  (c.invokeRecv.map r.1.rd, { s with st := r.2 })

end Nject
