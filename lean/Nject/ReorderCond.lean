import Nject.ReorderAlg
/-
  The order condition of the placement theorem (`NjectProps/C17c.lean`,
  `C17_displaced_provider_is_placed_before_its_consumers`) as a decidable check, so that the driver can
  evaluate it on the graph of every generated chain.
-/
namespace Nject

def releasesB (s : TopoS) (q j : Nat) : Bool :=
  (s.outOf q).any (fun t => s.downTypes.lookup t == some j) || (s.recvOf q).any (fun t => s.upTypes.lookup t == some j)

def initReleasesB (fs : List CP) (g : RGraph) (hasInit : Bool) (j : Nat) : Bool :=
  hasInit && match fs.find? (·.cls == .initFunc) with
    | some f => (noNoType f.out).any (fun t => g.downTypes.lookup t == some j)
    | none => false

def okSetB (s : TopoS) (NR : List Nat) (fs : List CP) (g : RGraph) (hasInit : Bool) (m j : Nat) : Bool :=
  (NR.take m).contains j || (decide (s.n < j) && (initReleasesB fs g hasInit j || (NR.take m).any fun q => releasesB s q j))

/-- the order condition of `C17_displaced_provider_is_placed_before_its_consumers`, decidable -/
def liveHypB (ti : TyInfo) (fs : List CP) (hasInit : Bool) (xr kx : Nat) : Bool :=
  let g := buildGraph ti fs hasInit
  let s := topoStatic fs g
  let NR := g.cannotReorder
  let after0 := (buildNodes g).after
  decide (xr < s.n) && !(after0.get xr).isEmpty && decide (kx ≤ NR.length) &&
  ((List.range NR.length).all fun k =>
    match NR[k]? with
    | some p => (after0.get p).all fun j =>
        okSetB s NR fs g hasInit k j || (decide (kx ≤ k) && decide (s.n < j) && releasesB s xr j)
    | none => true) &&
  (after0.get xr).all fun j => okSetB s NR fs g hasInit kx j

/-- the least `kx` for which the order condition holds for the provider at position `xr`, if any -/
def liveHypSearch (ti : TyInfo) (fs : List CP) (hasInit : Bool) (xr : Nat) : Option Nat :=
  (List.range ((buildGraph ti fs hasInit).cannotReorder.length + 1)).find? fun kx => liveHypB ti fs hasInit xr kx

end Nject
