import Nject.Slots
/-
  Executable validators over a bound chain (run on the implementation's own S7 dump and on the
  model's output).  `NjectProps` proves what each one implies.
-/
namespace Nject

/-- types provider `g` reads from below, after `upRmap` -/
def IP.recvTypes (g : IP) : List Ty := g.c.recv.map (remapT g.upRmap)
/-- types provider `g` reads from above, after `downRmap` -/
def IP.inTypes (g : IP) : List Ty := (g.c.inp.filter (· != tNoType)).map (remapT g.downRmap)

/-- C15: every returned type of an included provider that is not ConsumptionOptional (and not Unused)
    is received by an included provider listed before it -/
def returnsConsumedB (ch : Chain) : Bool :=
  ch.all fun f =>
    !f.inc || f.c.ret.all fun t =>
      f.c.consOpt.contains t || t == tUnused ||
      ch.any fun g => g.inc && g.pos < f.pos && g.recvTypes.contains t

/-- C03 (positive): every Required provider (the final function is Required) is included -/
def requiredIncludedB (ch : Chain) : Bool := ch.all fun f => !f.c.required || f.inc

/-- the included provider nearest before position `p` that writes type `t` downward -/
def nearestDownSource (ch : Chain) (p : Nat) (t : Ty) : Option Nat :=
  ((ch.filter fun f => f.inc && f.pos < p && f.c.out.contains t).getLast?).map (·.pos)

/-- the included provider nearest after position `p` that returns type `t` upward -/
def nearestUpSource (ch : Chain) (p : Nat) (t : Ty) : Option Nat :=
  -- a fallible injector only returns (its error) when it stops the chain; when it succeeds the
  -- returners below it are what the receiver sees, so it does not hide them
  ((ch.filter fun f => f.inc && f.pos > p && f.c.ret.contains t && f.c.cls != .fallibleInjectorFunc).head?).map (·.pos)

def invokePos (ch : Chain) : Nat :=
  ((ch.find? fun f => f.c.cls == .invokeFunc).map (·.pos)).getD ch.length

/-- C03 (negative): an included provider is Required, Desired, auto-desired, in a Cluster, the consumer
    of a must-consume flow, or some
    included provider actually receives something from it: it is the nearest included source of one
    of that provider's input types, or the nearest included returner of one of its received types. -/
def justifiedB (ch : Chain) (f : IP) : Bool :=
  f.c.required || f.c.desired || f.wanted || f.c.cluster != 0 || f.c.synthetic ||
  -- it is the consumer a must-consume flow needs: a returned value (must be consumed unless
  -- ConsumptionOptional) or an output marked MustConsume
  (f.recvTypes.any fun t => ch.any fun g => g.inc && g.pos > f.pos && g.c.ret.contains t && !g.c.consOpt.contains t) ||
  (f.inTypes.any fun t => ch.any fun g => g.inc && g.pos < f.pos && g.c.out.contains t && g.c.mustConsume.contains t) ||
  -- a fallible injector's terminal error reaches whoever receives error above it
  (f.c.cls == .fallibleInjectorFunc && ch.any fun g => g.inc && g.pos < f.pos && g.recvTypes.contains tError) ||
  (ch.any fun g => g.inc && (
      (g.inTypes.any fun t => nearestDownSource ch g.pos t == some f.pos) ||
      (g.c.byp.any fun t => nearestDownSource ch (invokePos ch) (remapT g.bypassRmap t) == some f.pos) ||
      (g.recvTypes.any fun t => nearestUpSource ch g.pos t == some f.pos)))

/-! ### what the final validation rests on (checked on the model's own state for every case, see
     `NjectProofs/IncludeFix.lean`) -/

/-- the providers whose include flag `localCheck` reads for `f` -/
def IP.watch (f : IP) : List Nat :=
  (f.usesIn ++ f.usesRecv ++ f.usesByp).flatMap (·.2)
  ++ (if f.mcOut then f.usedByOut.flatMap (·.2) else [])
  ++ (if f.mcRet then f.usedByRet.flatMap (·.2) else [])

/-- dependencies are recorded in both directions: whoever `f`'s validity depends on lists `f` in its
    `usedBy` (so that `f` is re-checked when that provider drops out) -/
def depsSymB (ch : Chain) : Bool :=
  (List.range ch.length).all fun j => (ch.get j).watch.all fun p => (ch.get p).usedBy.contains j

/-- where the consumers recorded for a returned type come from: listed before the returner, and
    they do receive that type; positions are list indices; returns must be consumed.  (Entries are
    keyed on the type the consumer ASKED for; only keys that are returned types of `f` are ever looked
    up -- an interface asked for and matched to a Loose concrete type sits under the interface.) -/
def provOKB (ch : Chain) : Bool :=
  (List.range ch.length).all fun i =>
    let f := ch.get i
    f.pos == i && f.mcRet &&
    f.usedByRet.all fun e => !f.c.ret.contains e.1 || e.1 == tUnused || e.2.all fun q => decide (q < i) && (ch.get q).recvTypes.contains e.1

def allJustifiedB (ch : Chain) : List Nat :=
  (ch.filter fun f => f.inc && !justifiedB ch f).map (·.c.id)

/-- C14: an included provider marked MustConsume for `t` has an included consumer listed after it
    for which it is the nearest included source of `t` -/
def mustConsumeOKB (ch : Chain) : List Nat :=
  (ch.filter fun f => f.inc && f.c.mustConsume.any fun t =>
      t != tUnused && f.c.out.contains t &&
      !(ch.any fun g => g.inc && g.pos > f.pos && g.inTypes.contains t && nearestDownSource ch g.pos t == some f.pos)).map (·.c.id)

/-- C14 (what `C14_bound_chain_mustconsume_is_consumed` proves of the model, evaluated on the
    implementation's bound chain): an included provider marked MustConsume for `t` has an included
    provider listed after it that takes `t` as an input -- or the init function takes it as a parameter
    bypassing invoke -/
def mustConsumeTakenB (ch : Chain) : List Nat :=
  let ip := (ch.find? fun f => f.c.cls == .initFunc).map (·.pos)
  (ch.filter fun f => f.inc && f.c.mustConsume.any fun t =>
      t != tUnused && f.c.out.contains t &&
      !(ch.any fun g => g.inc && ((decide (g.pos > f.pos) && g.c.inp.contains t) || (ip == some g.pos && g.c.byp.contains t)))).map (·.c.id)

/-- C01 (Loose clause): the interface inputs `(consumer id, interface, concrete type)` of included
    providers that are satisfied by another type although the nearest included source of that type is not
    marked Loose for the interface -/
def looseBad (ch : Chain) : List (IP × Ty × Ty) :=
  (ch.filter (·.inc)).flatMap fun g =>
    ((g.c.inp.filter (· != tNoType)).filterMap fun t =>
      let r := remapT g.downRmap t
      if r == t then none else
      match nearestDownSource ch g.pos r with
      | some p => if (ch.getD p default).c.loose.contains t then none else some (g, t, r)
      | none => some (g, t, r))

/-- known finding F5: such an input for which an earlier included provider of the concrete type IS
    marked Loose for the interface (the match was legitimate, a later non-Loose provider of the same
    type shadows the value) -/
def isF5 (ch : Chain) (x : IP × Ty × Ty) : Bool :=
  ch.any fun f => f.inc && f.pos < x.1.pos && f.c.out.contains x.2.2 && f.c.loose.contains x.2.1

def looseF5B (ch : Chain) : List Nat := ((looseBad ch).filter (isF5 ch)).map (·.1.c.id)
def looseOKB (ch : Chain) : List Nat := ((looseBad ch).filter fun x => !isF5 ch x).map (·.1.c.id)

/-- an unjustified provider that is explained by F5: it is the Loose provider some included consumer's
    interface input was matched with -/
def unjustifiedF5 (ch : Chain) (f : IP) : Bool :=
  (looseBad ch).any fun x => isF5 ch x && f.pos < x.1.pos && f.c.out.contains x.2.2 && f.c.loose.contains x.2.1

def unjustifiedSplit (ch : Chain) : List Nat × List Nat :=
  let bad := ch.filter fun f => f.inc && !justifiedB ch f
  ((bad.filter fun f => !unjustifiedF5 ch f).map (·.c.id), (bad.filter (unjustifiedF5 ch)).map (·.c.id))

end Nject
