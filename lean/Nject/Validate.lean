import Nject.Slots
/-
  Executable validators over a bound chain (run on the implementation's own S7 dump and on the
  model's output).  `NjectProps` proves what each one implies.
-/
namespace Nject

/-- types provider `g` reads from below, after `upRmap` -/
def IP.recvTypes (g : IP) : List Ty := g.c.recv.map (remapT g.upRmap)
/-- types provider `g` reads from above, after `downRmap` -/
def IP.inTypes (g : IP) : List Ty := (g.c.inp.filter (· != tNoType)).map (remapT g.downRmap)

/-- C15: every returned type of an included provider that is not ConsumptionOptional (and not Unused)
    is received by an included provider listed before it -/
def returnsConsumedB (ch : Chain) : Bool :=
  ch.all fun f =>
    !f.inc || f.c.ret.all fun t =>
      f.c.consOpt.contains t || t == tUnused ||
      ch.any fun g => g.inc && g.pos < f.pos && g.recvTypes.contains t

/-- C03 (positive): every Required provider (the final function is Required) is included -/
def requiredIncludedB (ch : Chain) : Bool := ch.all fun f => !f.c.required || f.inc

/-- the included provider nearest before position `p` that writes type `t` downward -/
def nearestDownSource (ch : Chain) (p : Nat) (t : Ty) : Option Nat :=
  ((ch.filter fun f => f.inc && f.pos < p && f.c.out.contains t).getLast?).map (·.pos)

/-- the included provider nearest after position `p` that returns type `t` upward -/
def nearestUpSource (ch : Chain) (p : Nat) (t : Ty) : Option Nat :=
  ((ch.filter fun f => f.inc && f.pos > p && f.c.ret.contains t).head?).map (·.pos)

def invokePos (ch : Chain) : Nat :=
  ((ch.find? fun f => f.c.cls == .invokeFunc).map (·.pos)).getD ch.length

/-- C03 (negative): an included provider is Required, Desired, auto-desired, in a Cluster, the consumer
    of a must-consume flow, or some
    included provider actually receives something from it: it is the nearest included source of one
    of that provider's input types, or the nearest included returner of one of its received types. -/
def justifiedB (ch : Chain) (f : IP) : Bool :=
  f.c.required || f.c.desired || f.wanted || f.c.cluster != 0 || f.c.synthetic ||
  -- it is the consumer a must-consume flow needs: a returned value (must be consumed unless
  -- ConsumptionOptional) or an output marked MustConsume
  (f.recvTypes.any fun t => ch.any fun g => g.inc && g.pos > f.pos && g.c.ret.contains t && !g.c.consOpt.contains t) ||
  (f.inTypes.any fun t => ch.any fun g => g.inc && g.pos < f.pos && g.c.out.contains t && g.c.mustConsume.contains t) ||
  (ch.any fun g => g.inc && (
      (g.inTypes.any fun t => nearestDownSource ch g.pos t == some f.pos) ||
      (g.c.byp.any fun t => nearestDownSource ch (invokePos ch) (remapT g.bypassRmap t) == some f.pos) ||
      (g.recvTypes.any fun t => nearestUpSource ch g.pos t == some f.pos)))

def allJustifiedB (ch : Chain) : List Nat :=
  (ch.filter fun f => f.inc && !justifiedB ch f).map (·.c.id)

/-- C14: an included provider marked MustConsume for `t` has an included consumer listed after it
    for which it is the nearest included source of `t` -/
def mustConsumeOKB (ch : Chain) : List Nat :=
  (ch.filter fun f => f.inc && f.c.mustConsume.any fun t =>
      t != tUnused && f.c.out.contains t &&
      !(ch.any fun g => g.inc && g.pos > f.pos && g.inTypes.contains t && nearestDownSource ch g.pos t == some f.pos)).map (·.c.id)

/-- C01 (Loose clause): an interface input is remapped to another type only when the nearest included
    source of that type is marked Loose for the interface -/
def looseOKB (ch : Chain) : List Nat :=
  (ch.filter fun g => g.inc && (g.c.inp.filter (· != tNoType)).any fun t =>
      let r := remapT g.downRmap t
      r != t && (match nearestDownSource ch g.pos r with
                 | some p => !((ch.getD p default).c.loose.contains t)
                 | none => true)).map (·.c.id)

end Nject
