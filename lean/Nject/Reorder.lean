import Nject.Basic
/-
  C17: reorder.go is not transcribed; what it must guarantee about its result is stated as a
  validator that is run on every S3 → S4 pair of dumps of the implementation (verified in
  NjectProps/C17.lean), and as a theorem about moving one provider in a list.
-/
namespace Nject

/-- one provider as reorder sees it: identity and whether it is marked Reorder -/
structure RItem where
  id : Nat
  reorder : Bool
deriving DecidableEq, Repr, Inhabited

/-- the result is a rearrangement of the input in which the providers not marked Reorder keep their
    relative order -/
def reorderValidB (pre post : List RItem) : Bool :=
  (post.map (·.id)).isPerm (pre.map (·.id)) && (post.filter (!·.reorder)) == (pre.filter (!·.reorder))

/-- an item of the list with what Bind later uses positions for -/
structure RItem2 where
  id : Nat
  reorder : Bool
  isInvoke : Bool     -- the invoke function: everything up to it is the static part of the list
  isFinal : Bool
  gaveUp : Bool       -- reorder found its dependencies unmet: it is excluded
deriving DecidableEq, Repr, Inhabited

/-- the part of the list up to and including the invoke function is not touched (Bind keeps using the
    index of the invoke function computed before reordering) -/
def staticPrefixKeptB (pre post : List RItem2) : Bool :=
  let k := (pre.takeWhile (!·.isInvoke)).length + 1
  (post.take k).map (·.id) == (pre.take k).map (·.id)

/-- nothing that can be included follows the final function, unless the final function itself may move -/
def finalLastB (post : List RItem2) : Bool :=
  match post.dropWhile (!·.isFinal) with
  | [] => true
  | fin :: rest => fin.reorder || rest.all (·.gaveUp)

/-- a provider for the displacement theorem: identity, types consumed, types produced -/
structure DP where
  id : Nat
  ins : List Ty
  outs : List Ty
deriving DecidableEq, Repr, Inhabited

/-- the provider a consumer standing after `pre` gets type `t` from: the nearest one before it (C01) -/
def nearestIn (pre : List DP) (t : Ty) : Option Nat :=
  ((pre.filter fun p => p.outs.contains t).getLast?).map (·.id)

/-- source of `t` for provider `y` in chain `l` -/
def sourceOf (l : List DP) (y : Nat) (t : Ty) : Option Nat :=
  nearestIn (l.takeWhile (·.id != y)) t

/-- does `a` come before `b` in `l`? -/
def beforeB (l : List DP) (a b : Nat) : Bool :=
  (l.takeWhile (·.id != b)).any (·.id == a)

/-- the displaced provider `x` sits after every producer of its inputs and before every consumer of
    its outputs -/
def placedOKB (l : List DP) (x : DP) : Bool :=
  (l.all fun p => p.id == x.id || !(p.outs.any fun t => x.ins.contains t) || beforeB l p.id x.id)
  && (l.all fun p => p.id == x.id || !(p.ins.any fun t => x.outs.contains t) || beforeB l x.id p.id)

end Nject
