import Nject.Chain
/-
  S7: what the generated closures do (generate.go, bind.go:249-410), over the slot array.
  Arrays are passed and returned functionally; where the Go code aliases one array (the
  first inner() call runs on the caller's array) the model threads that array, where it
  copies (`vCopy.Copy()`) the model starts from the snapshot.
-/
namespace Nject

/-! ### calling user code (shared by Exec and Spec) -/

def callFn (b : Beh) (id : Nat) (memo : Bool) (args : List Val) (st : St) : List Val × St :=
  if memo then
    match st.cache.lookup (id, args) with
    | some outs => (outs, st)
    | none =>
      let outs := b.inj id (st.count id) args
      let st := st.push (.call id args outs)
      (outs, { st with cache := ((id, args), outs) :: st.cache })
  else
    let outs := b.inj id (st.count id) args
    (outs, st.push (.call id args outs))

/-! ### slot access -/

/-- `generateInputMapper`: all parameters, `none` if some parameter type has no slot -/
def rdIns (m : Ty → Option Nat) (v : VC) : List Ty → Option (List Val)
  | [] => some []
  | t :: ts =>
    match m t, rdIns m v ts with
    | some i, some rest => some (((v.getD i none).getD (zeroV t)) :: rest)
    | _, _ => none

/-- `generateOutputMapper`: positions whose type has no slot are skipped -/
def wrOuts (m : Ty → Option Nat) (v : VC) : List Ty → List Val → VC
  | t :: ts, x :: xs =>
    match m t with
    | some i => wrOuts m (v.set i (some x)) ts xs
    | none => wrOuts m v ts xs
  | _, _ => v

/-- `makeZero` -/
def zeroSlots (m : Ty → Option Nat) (v : VC) : List Ty → VC
  | [] => v
  | t :: ts =>
    match m t with
    | some i => zeroSlots m (v.set i (some (zeroV t))) ts
    | none => zeroSlots m v ts

/-- copy the slots of the listed types from `src` into `dst` -/
def copySlots (m : Ty → Option Nat) (src dst : VC) : List Ty → VC
  | [] => dst
  | t :: ts =>
    match m t with
    | some i => copySlots m src (dst.set i (src.getD i none)) ts
    | none => copySlots m src dst ts

/-! ### the RUN chain -/

/-- generate.go `wrapWrapper`: interpret the wrapper body's behaviour tree.
    `cur` is the caller's array `v`, `snap` is `vCopy`, `cnt` is `callCount`. -/
def execTree (m : Maps) (n : Node) (next : VC → St → VC × St) (snap : VC) :
    WStep → VC → Nat → St → VC × St
  | .ret outs, cur, cnt, st =>
    let cur := if cnt = 0 then zeroSlots m.u cur n.zero else cur
    (wrOuts m.u cur n.rets outs, st.push (.wret n.id outs))
  | .call args k, cur, cnt, st =>
    let st := st.push (.winner n.id args)
    if n.parallel then
      let r := next (wrOuts m.d snap n.outs args) st
      match rdIns m.u r.1 n.recv with
      | none => (cur, r.2.push (.bad n.id))
      | some vals => execTree m n next snap (k vals) cur (cnt + 1) (r.2.push (.wrecv n.id vals))
    else if cnt = 0 then
      let r := next (wrOuts m.d cur n.outs args) st
      match rdIns m.u r.1 n.recv with
      | none => (r.1, r.2.push (.bad n.id))
      | some vals => execTree m n next snap (k vals) r.1 (cnt + 1) (r.2.push (.wrecv n.id vals))
    else
      let r := next (wrOuts m.d snap n.outs args) st
      match rdIns m.u r.1 n.recv with
      | none => (cur, r.2.push (.bad n.id))
      | some vals =>
        execTree m n next snap (k vals) (copySlots m.u r.1 cur n.zero) (cnt + 1)
          (r.2.push (.wrecv n.id vals))

def execFinal (b : Beh) (m : Maps) (fin : Node) (v : VC) (st : St) : VC × St :=
  match rdIns m.d v fin.ins with
  | none => (v, st.push (.bad fin.id))
  | some args =>
    let r := callFn b fin.id false args st
    (wrOuts m.u v fin.rets r.1, r.2)

/-- the function `f` of bind.go:253-297 for the included RUN providers followed by the final one -/
def execNodes (b : Beh) (m : Maps) (errTy : Ty) (fin : Node) : List Node → VC → St → VC × St
  | [], v, st => execFinal b m fin v st
  | n :: rest, v, st =>
    match n.kind with
    | .wrapper =>
      match rdIns m.d v n.ins with
      | none => (v, st.push (.bad n.id))
      | some args =>
        let tree := b.wrap n.id (st.count n.id) args
        execTree m n (execNodes b m errTy fin rest) v tree v 0 (st.push (.wenter n.id args))
    | .fallible =>
      match rdIns m.d v n.ins with
      | none => (v, st.push (.bad n.id))
      | some args =>
        let r := callFn b n.id n.memo args st
        let e := r.1.getD n.errIdx (zeroV errTy)
        if isErr e then
          (wrOuts m.u (zeroSlots m.u v n.zero) [errTy] [e], r.2)
        else
          execNodes b m errTy fin rest (wrOuts m.d v n.outs (r.1.eraseIdx n.errIdx)) r.2
    | _ =>
      match rdIns m.d v n.ins with
      | none => (v, st.push (.bad n.id))
      | some args =>
        let r := callFn b n.id n.memo args st
        execNodes b m errTy fin rest (wrOuts m.d v n.outs r.1) r.2

/-! ### the STATIC chain -/

/-- generate.go:369: a fallible static injector's TerminalError is converted to `error` before it
    is stored; a nil TerminalError becomes a nil `error` (the zero value of the retyped output) -/
def retypeErr (n : SNode) (outs : List Val) : List Val :=
  if n.fallible then
    match outs[n.errIdx]? with
    | some v => if v.tag = 0 then outs.set n.errIdx (zeroV (n.outs.getD n.errIdx v.ty)) else outs
    | none => outs
  else outs

def callStaticRaw (b : Beh) (n : SNode) (args : List Val) (st : St) : List Val × St :=
  if n.singleton then
    match st.cache.lookup (n.id, []) with
    | some outs => (outs, st)
    | none =>
      let outs := b.inj n.id (st.count n.id) args
      let st := st.push (.call n.id args outs)
      (outs, { st with cache := ((n.id, []), outs) :: st.cache })
  else callFn b n.id n.memo args st

def callStatic (b : Beh) (n : SNode) (args : List Val) (st : St) : List Val × St :=
  let r := callStaticRaw b n args st
  (retypeErr n r.1, r.2)

/-- after a fallible static injector failed the remaining injectors are skipped; the remaining
    literal values still take effect, in order -/
def applyLitsV (m : Maps) : List SNode → VC → VC
  | [], v => v
  | n :: rest, v =>
    match n.lit with
    | some x => applyLitsV m rest (wrOuts m.d v n.outs [x])
    | none => applyLitsV m rest v

/-- `runStaticChain` over `baseValues`: literal values and static injectors in listed order -/
def execStatic (b : Beh) (m : Maps) : List SNode → VC → St → VC × St
  | [], v, st => (v, st)
  | n :: rest, v, st =>
    match n.lit with
    | some x => execStatic b m rest (wrOuts m.d v n.outs [x]) st
    | none =>
      match rdIns m.d v n.ins with
      | none => (v, st.push (.bad n.id))
      | some args =>
        let r := callStatic b n args st
        if n.fallible && isErr (r.1.getD n.errIdx (zeroV 0)) then
          -- zero what the skipped injectors would have provided, then store this injector's results
          (applyLitsV m rest (wrOuts m.d (zeroSlots m.d v n.zero) n.outs r.1), r.2)
        else execStatic b m rest (wrOuts m.d v n.outs r.1) r.2

/-! ### a bound chain as a state machine -/

structure Bound where
  base : VC
  staticDone : Bool := false
  st : St := {}
deriving Repr

def Compiled.bindState (c : Compiled) : Bound :=
  { base := c.lits.foldl (fun v (p : Ty × Val) =>
      match c.dmap.lookup p.1 with
      | some i => v.set i (some p.2)
      | none => v) (List.replicate c.vcount none) }

/-- calling the bound init function -/
def Compiled.execInit (c : Compiled) (b : Beh) (s : Bound) (args : List Val) : List Val × Bound :=
  match c.init with
  | none => ([], s)
  | some sig =>
    let s :=
      if s.staticDone then s
      else
        let v := wrOuts c.maps.d s.base sig.outs args
        let r := execStatic b c.maps c.statics v s.st
        { base := r.1, staticDone := true, st := r.2 }
    ((rdIns c.maps.d s.base sig.bypass).getD [], s)

/-- calling the bound invoke function -/
def Compiled.execInvoke (c : Compiled) (b : Beh) (s : Bound) (args : List Val) : List Val × Bound :=
  let s :=
    if c.init.isNone && !s.staticDone then
      let r := execStatic b c.maps c.statics s.base s.st
      { base := r.1, staticDone := true, st := r.2 }
    else s
  let v := wrOuts c.maps.d s.base c.invokeOuts args
  let r := execNodes b c.maps c.errTy c.fin c.run v s.st
  ((rdIns c.maps.u r.1 c.invokeRecv).getD [], { s with st := r.2 })

end Nject
