import Nject.Basic
/-
  Vocabulary of the classification tables (types.go enums, characterize.go predicates).
  The tables themselves are regenerated into NjectGen/Registry.lean on every run.
-/
namespace Nject

inductive GroupT where
  | invokeGroup | literalGroup | staticGroup | runGroup | finalGroup
deriving DecidableEq, Repr, Inhabited

inductive ClassT where
  | unsetClassType | fallibleInjectorFunc | fallibleStaticInjectorFunc | injectorFunc | wrapperFunc
  | finalFunc | staticInjectorFunc | literalValue | initFunc | invokeFunc
deriving DecidableEq, Repr, Inhabited

inductive FlowT where
  | returnParams | outputParams | inputParams | receivedParams | bypassParams
deriving DecidableEq, Repr, Inhabited

/-- where a mutate function takes a flow list from -/
inductive FlowSrc where
  | typesIn | typesOut | remapTE | redactTE | errorOnly | selfType | wrapperIn | innerIn | innerOut
  | other (s : String)
deriving DecidableEq, Repr, Inhabited

/-- everything the predicates of characterize.go look at -/
structure PredCtx where
  isNil : Bool := false
  kindFunc : Bool := true
  isLast : Bool := false
  inputsAreStatic : Bool := true
  mustCache : Bool := false
  memoize : Bool := false
  cacheable : Bool := false
  singleton : Bool := false
  reorder : Bool := false
  notCacheable : Bool := false
  hasOutputs : Bool := true
  mappableInputs : Bool := true
  possibleMapKey : Bool := true
  returnsTerminalError : Bool := false
  noAnonymousFuncs : Bool := true
  noAnonymousExceptFirstInput : Bool := true
  isWrapper : Bool := false
  isFuncPointer : Bool := false
deriving DecidableEq, Repr, Inhabited

end Nject
