import Nject.Include
/-
  S4: reorder.go transcribed.  `reorder` builds a constraint graph (strong / weak "comes after"
  pairs between providers and per-type pseudo nodes), then runs a priority topological sort
  (`topo.run`) over two heaps and the list of providers that may not move.

  What is modelled rather than transcribed:
  * Go maps used as sets (`before`, `after`, `weakBefore`, `weakAfter`) are duplicate-free lists;
    the algorithm only inserts, deletes, tests emptiness and iterates to call `release`, whose
    effects for different members commute (each touches another node's sets and pushes on a heap);
  * `container/heap` over `[2]int{priority, index}` is a list with pop-minimum; priorities are an
    injective function of the index, so equal priorities are equal entries and the popped value
    does not depend on the heap's internal layout;
  * the loop `for { ... }` of `topo.run` takes a fuel argument; `reorderFuel` is an upper bound on
    the number of pushes plus the number of fixed providers (the correspondence reports `FUEL` if
    it were ever exhausted).
-/
namespace Nject

def noNoType (l : List Ty) : List Ty := l.filter (· != tNoType)

structure RNode where
  before : List Nat := []
  after : List Nat := []
  weakBefore : List Nat := []
  weakAfter : List Nat := []
deriving Repr, Inhabited

def setIns (l : List Nat) (x : Nat) : List Nat := if l.contains x then l else l ++ [x]
def setDel (l : List Nat) (x : Nat) : List Nat := l.filter (· != x)

/-- the constraint graph before the sort -/
structure RGraph where
  n : Nat                                -- len(funcs)
  counter : Nat
  strong : List (Nat × Nat) := []        -- (i, j): i comes after j
  weak : List (Nat × Nat) := []
  downTypes : List (Ty × Nat) := []
  upTypes : List (Ty × Nat) := []
  cannotReorder : List Nat := []
  lastNoReorder : Option Nat := none
deriving Repr, Inhabited

/-- reorder.go:61-73: Reorder on values and static providers is dropped -/
def clearReorder (funcs : List CP) : List CP :=
  funcs.map fun f => if f.reorder && (f.group == .literalGroup || f.group == .staticGroup) then { f with reorder := false } else f

def enumL {α} (l : List α) : List (Nat × α) := (List.range l.length).zip l

/-- `availableDown` / `availableUp` -/
def availDown (funcs : List CP) (hasInit : Bool) : IMap :=
  let m0 : IMap := if hasInit then
      match (enumL funcs).find? (·.2.cls == .initFunc) with
      | some (i, f) => (noNoType f.out).foldl (fun m t => m.add t 0 i) []
      | none => []
    else []
  (enumL funcs).foldl (fun m (i, f) => (noNoType f.out).foldl (fun m t => m.add t i i) m) m0

def availUp (funcs : List CP) : IMap :=
  (enumL funcs).foldl (fun m (i, f) => (noNoType f.ret).foldl (fun m t => m.add t i i) m) []

def lastIdx (funcs : List CP) (p : CP → Bool) : Option Nat :=
  ((enumL funcs).filter (p ·.2)).getLast?.map (·.1)

/-- `provideByNotRequire[t]` without the `-1` entries (which `aAfterB` ignores) -/
def provByNotReq (funcs : List CP) (t : Ty) : List Nat :=
  (enumL funcs).flatMap fun (i, f) =>
    ((noNoType f.out).filter fun t' => t' == t && !(noNoType f.inp).contains t').map fun _ => i

def recvNotRet (funcs : List CP) (t : Ty) : List Nat :=
  (enumL funcs).flatMap fun (i, f) =>
    ((noNoType f.recv).filter fun t' => t' == t && !(noNoType f.ret).contains t').map fun _ => i

def RGraph.after (g : RGraph) (strong : Bool) (i : Nat) (j : Option Nat) : RGraph :=
  match j with
  | none => g
  | some j => if strong then { g with strong := g.strong ++ [(i, j)] } else { g with weak := g.weak ++ [(i, j)] }

/-- reorder.go:170-190 for one input type -/
def RGraph.downType (g : RGraph) (funcs : List CP) (i : Nat) (t : Ty) : RGraph :=
  let g := match g.downTypes.lookup t with
    | some num => g.after true i (some num)
    | none => { (g.after true i (some g.counter)) with downTypes := g.downTypes ++ [(t, g.counter)], counter := g.counter + 1 }
  (provByNotReq funcs t).foldl (fun g j => g.after false i (some j)) g

/-- reorder.go:192-214 for one returned type -/
def RGraph.upType (g : RGraph) (funcs : List CP) (i : Nat) (t : Ty) (consOpt : Bool) : RGraph :=
  let g := match g.upTypes.lookup t with
    | some num => g.after (!consOpt) i (some num)
    | none => { (g.after (!consOpt) i (some g.counter)) with upTypes := g.upTypes ++ [(t, g.counter)], counter := g.counter + 1 }
  (recvNotRet funcs t).foldl (fun g j => g.after false i (some j)) g

/-- reorder.go:151-215: the pairs contributed by provider `i` -/
def RGraph.addProvider (ti : TyInfo) (funcs : List CP) (aDown aUp : IMap) (lastStatic finalFunc : Option Nat)
    (g : RGraph) (i : Nat) (fm : CP) : RGraph :=
  let loose := fun p => (funcs.getD p default).loose
  let g := if fm.reorder && fm.group == .runGroup then g.after true i lastStatic else g
  let g := if fm.reorder && some i != finalFunc then
      (match finalFunc with | some ff => g.after false ff (some i) | none => g) else g
  let g := if !fm.reorder then
      { (g.after true i g.lastNoReorder) with cannotReorder := g.cannotReorder ++ [i], lastNoReorder := some i } else g
  let g := (noNoType fm.inp).foldl (fun g tRaw =>
    match bestMatch ti loose aDown tRaw with
    | none => g
    | some (t, _) => g.downType funcs i t) g
  (noNoType fm.ret).foldl (fun g tRaw =>
    match bestMatch ti loose aUp tRaw with
    | none => g
    | some (t, _) => g.upType funcs i t (fm.consOpt.contains t)) g

def buildGraph (ti : TyInfo) (funcs : List CP) (hasInit : Bool) : RGraph :=
  let aDown := availDown funcs hasInit
  let aUp := availUp funcs
  let lastStatic := lastIdx funcs fun f => (f.group == .staticGroup || f.group == .invokeGroup) && !f.reorder
  let finalFunc := lastIdx funcs fun f => f.group == .finalGroup
  (enumL funcs).foldl (fun g (i, fm) => g.addProvider ti funcs aDown aUp lastStatic finalFunc i fm)
    { n := funcs.length, counter := funcs.length + 1 }

abbrev Nodes := List RNode

def Nodes.upd (ns : Nodes) (i : Nat) (f : RNode → RNode) : Nodes := ns.set i (f (ns.getD i default))
def Nodes.at (ns : Nodes) (i : Nat) : RNode := ns.getD i default

/-- reorder.go:217-255 -/
def buildNodes (g : RGraph) : Nodes :=
  let ns : Nodes := List.replicate g.counter {}
  let ns := g.strong.foldl (fun ns (p : Nat × Nat) =>
    (ns.upd p.2 fun nd => { nd with before := setIns nd.before p.1 }).upd p.1 fun nd => { nd with after := setIns nd.after p.2 }) ns
  let ns := g.weak.foldl (fun ns (p : Nat × Nat) =>
    (ns.upd p.2 fun nd => { nd with weakBefore := setIns nd.weakBefore p.1 }).upd p.1 fun nd => { nd with weakAfter := setIns nd.weakAfter p.2 }) ns
  g.weak.foldl (fun ns (p : Nat × Nat) =>
    if !(ns.at p.1).weakBefore.contains p.2 then ns else
    let ns := ns.upd p.2 fun nd => { nd with weakBefore := setDel nd.weakBefore p.1 }
    let ns := ns.upd p.1 fun nd => { nd with weakBefore := setDel nd.weakBefore p.1 }
    let ns := ns.upd p.1 fun nd => { nd with weakAfter := setDel nd.weakAfter p.2 }
    ns.upd p.2 fun nd => { nd with weakAfter := setDel nd.weakAfter p.2 }) ns

/-- a heap entry: (priority, index) -/
abbrev RHeap := List (Nat × Nat)

/-- intheap.go `push`: Reorder'd providers come first (Go: `i - len(funcs)`; here the others are
    shifted up by `len(funcs)` instead, which orders the same way without negative numbers) -/
def prio (n : Nat) (isReorder : Nat → Bool) (i : Nat) : Nat := if i < n && isReorder i then i else i + n

def heapMin : RHeap → Option (Nat × Nat)
  | [] => none
  | e :: rest => match heapMin rest with
    | none => some e
    | some m => if e.1 ≤ m.1 then some e else some m

/-- `heap.Pop`: the index with the least priority and the heap without (one copy of) it -/
def heapPop (h : RHeap) : Option (Nat × RHeap) :=
  match heapMin h with
  | none => none
  | some m => some (m.2, h.erase m)

structure Topo where
  n : Nat
  isReorder : Nat → Bool
  outOf : Nat → List Ty        -- noNoType(flows[outputParams]) of provider i
  recvOf : Nat → List Ty
  downTypes : List (Ty × Nat)
  upTypes : List (Ty × Nat)
  nodes : Nodes
  cannotReorder : List Nat
  unblocked : RHeap := []
  weakBlocked : RHeap := []
  done : List Nat := []
  out : List Nat := []
  fuelOut : Bool := false

def Topo.pushU (x : Topo) (i : Nat) : Topo := { x with unblocked := (prio x.n x.isReorder i, i) :: x.unblocked }
def Topo.pushW (x : Topo) (i : Nat) : Topo := { x with weakBlocked := (prio x.n x.isReorder i, i) :: x.weakBlocked }

/-- reorder.go `release` -/
def Topo.release (x : Topo) (n i : Nat) : Topo :=
  if n ≥ x.n then x.pushU n else
  let x := { x with nodes := x.nodes.upd n fun nd => { nd with after := setDel nd.after i, weakAfter := setDel nd.weakAfter i } }
  if (x.nodes.at n).after.isEmpty then
    if (x.nodes.at n).weakAfter.isEmpty then x.pushU n else x.pushW n
  else x

/-- reorder.go `releaseNode` -/
def Topo.releaseNode (x : Topo) (i : Nat) : Topo :=
  let x := (x.nodes.at i).weakBefore.foldl (fun (x : Topo) n =>
    { x with nodes := x.nodes.upd n fun nd => { nd with weakAfter := setDel nd.weakAfter i } }) x
  (x.nodes.at i).before.foldl (fun x n => x.release n i) x

/-- reorder.go `releaseProvider` -/
def Topo.releaseProvider (x : Topo) (i : Nat) : Topo :=
  let x := (x.outOf i).foldl (fun x t => match x.downTypes.lookup t with | some num => x.release num i | none => x) x
  (x.recvOf i).foldl (fun x t => match x.upTypes.lookup t with | some num => x.release num i | none => x) x

/-- reorder.go `processOne` -/
def Topo.processOne (x : Topo) (i : Nat) (release : Bool) : Topo :=
  if x.done.contains i then x else
  let x := { x with done := i :: x.done }
  if i > x.n then (if release then x.releaseNode i else x) else
  let x := { x with out := x.out ++ [i] }
  if !release then x.releaseNode i
  else (x.releaseNode i).releaseProvider i

/-- reorder.go `topo.run`, the loop -/
def Topo.loop : Nat → Topo → Topo
  | 0, x => { x with fuelOut := true }
  | fuel + 1, x =>
    match heapPop x.unblocked with
    | some (i, rest) => Topo.loop fuel (Topo.processOne { x with unblocked := rest } i true)
    | none =>
      match heapPop x.weakBlocked with
      | some (i, rest) => Topo.loop fuel (Topo.processOne { x with weakBlocked := rest } i true)
      | none =>
        match x.cannotReorder with
        | i :: cr => Topo.loop fuel (Topo.processOne { x with cannotReorder := cr } i (x.nodes.at i).after.isEmpty)
        | [] => x

/-- providers never reached: "dependencies not met, excluded", appended in listed order -/
def Topo.leftOver (x : Topo) : List Nat := (List.range x.n).filter fun i => !x.done.contains i

structure ReorderOut where
  order : List Nat        -- positions in the input list, in the new order
  gaveUp : List Nat       -- positions given up on
  fuelOut : Bool
deriving Repr, Inhabited

def reorderFuel (g : RGraph) (funcs : List CP) : Nat :=
  g.strong.length + g.weak.length + (funcs.foldl (fun a f => a + f.out.length + f.recv.length) 0) * 2 + funcs.length + 2

/-- `reorder` on positions; `none` when no provider is (still) marked Reorder: the list is kept -/
def reorderIdx (ti : TyInfo) (funcs0 : List CP) (hasInit : Bool) : Option ReorderOut :=
  let funcs := clearReorder funcs0
  if !funcs.any (·.reorder) then none else
  let g := buildGraph ti funcs hasInit
  let x0 : Topo :=
    { n := funcs.length, isReorder := fun i => (funcs.getD i default).reorder,
      outOf := fun i => noNoType (funcs.getD i default).out, recvOf := fun i => noNoType (funcs.getD i default).recv,
      downTypes := g.downTypes, upTypes := g.upTypes, nodes := buildNodes g, cannotReorder := g.cannotReorder }
  let x0 := if hasInit then
      match funcs.find? (·.cls == .initFunc) with
      | some f => (noNoType f.out).foldl (fun (x : Topo) t => match x.downTypes.lookup t with | some num => x.pushU num | none => x) x0
      | none => x0
    else x0
  let x := Topo.loop (reorderFuel g funcs) x0
  some { order := x.out ++ x.leftOver, gaveUp := x.leftOver, fuelOut := x.fuelOut }

/-- `reorder` on the assembled list: the new list and the ids of the providers given up on -/
def reorderModel (ti : TyInfo) (funcs : List CP) (hasInit : Bool) : List CP × List Nat × Bool :=
  match reorderIdx ti funcs hasInit with
  | none => (clearReorder funcs, [], false)
  | some r =>
    let fs := clearReorder funcs
    (r.order.filterMap fun i => fs[i]?, r.gaveUp.filterMap fun i => fs[i]?.map (·.id), r.fuelOut)

end Nject
