import Nject.Include
/-
  S4: reorder.go transcribed.  `reorder` builds a constraint graph (strong / weak "comes after"
  pairs between providers and per-type pseudo nodes), then runs a priority topological sort
  (`topo.run`) over two heaps and the list of providers that may not move.

  What is modelled rather than transcribed:
  * Go maps used as sets (`before`, `after`, `weakBefore`, `weakAfter`) are duplicate-free lists;
    the algorithm only inserts, deletes, tests emptiness and iterates to call `release`, whose
    effects for different members commute (each touches another node's sets and pushes on a heap);
  * `container/heap` over `[2]int{priority, index}` is a list with pop-minimum; priorities are an
    injective function of the index, so equal priorities are equal entries and the popped value
    does not depend on the heap's internal layout;
  * the loop `for { ... }` of `topo.run` takes a fuel argument; `reorderFuel` is an upper bound on
    the number of pushes plus the number of fixed providers (the correspondence reports `FUEL` if
    it were ever exhausted).
-/
namespace Nject

def noNoType (l : List Ty) : List Ty := l.filter (· != tNoType)

structure RNode where
  before : List Nat := []
  after : List Nat := []
  weakBefore : List Nat := []
  weakAfter : List Nat := []
deriving Repr, Inhabited

def setIns (l : List Nat) (x : Nat) : List Nat := if l.contains x then l else l ++ [x]
def setDel (l : List Nat) (x : Nat) : List Nat := l.filter (· != x)

/-- the constraint graph before the sort -/
structure RGraph where
  n : Nat                                -- len(funcs)
  counter : Nat
  strong : List (Nat × Nat) := []        -- (i, j): i comes after j
  weak : List (Nat × Nat) := []
  downTypes : List (Ty × Nat) := []
  upTypes : List (Ty × Nat) := []
  cannotReorder : List Nat := []
  lastNoReorder : Option Nat := none
deriving Repr, Inhabited

/-- reorder.go:61-73: Reorder on values and static providers is dropped -/
def clearReorder (funcs : List CP) : List CP :=
  funcs.map fun f => if f.reorder && (f.group == .literalGroup || f.group == .staticGroup) then { f with reorder := false } else f

def enumL {α} (l : List α) : List (Nat × α) := (List.range l.length).zip l

/-- `availableDown` / `availableUp` -/
def availDown (funcs : List CP) (hasInit : Bool) : IMap :=
  let m0 : IMap := if hasInit then
      match (enumL funcs).find? (·.2.cls == .initFunc) with
      | some (i, f) => (noNoType f.out).foldl (fun m t => m.add t 0 i) []
      | none => []
    else []
  (enumL funcs).foldl (fun m (i, f) => (noNoType f.out).foldl (fun m t => m.add t i i) m) m0

def availUp (funcs : List CP) : IMap :=
  (enumL funcs).foldl (fun m (i, f) => (noNoType f.ret).foldl (fun m t => m.add t i i) m) []

def lastIdx (funcs : List CP) (p : CP → Bool) : Option Nat :=
  ((enumL funcs).filter (p ·.2)).getLast?.map (·.1)

/-- `provideByNotRequire[t]` without the `-1` entries (which `aAfterB` ignores) -/
def provByNotReq (funcs : List CP) (t : Ty) : List Nat :=
  (enumL funcs).flatMap fun (i, f) =>
    ((noNoType f.out).filter fun t' => t' == t && !(noNoType f.inp).contains t').map fun _ => i

def recvNotRet (funcs : List CP) (t : Ty) : List Nat :=
  (enumL funcs).flatMap fun (i, f) =>
    ((noNoType f.recv).filter fun t' => t' == t && !(noNoType f.ret).contains t').map fun _ => i

def RGraph.after (g : RGraph) (strong : Bool) (i : Nat) (j : Option Nat) : RGraph :=
  match j with
  | none => g
  | some j => if strong then { g with strong := g.strong ++ [(i, j)] } else { g with weak := g.weak ++ [(i, j)] }

/-- reorder.go:170-190 for one input type -/
def RGraph.downType (g : RGraph) (funcs : List CP) (i : Nat) (t : Ty) : RGraph :=
  let g := match g.downTypes.lookup t with
    | some num => g.after true i (some num)
    | none => { (g.after true i (some g.counter)) with downTypes := g.downTypes ++ [(t, g.counter)], counter := g.counter + 1 }
  (provByNotReq funcs t).foldl (fun g j => g.after false i (some j)) g

/-- reorder.go:192-214 for one returned type -/
def RGraph.upType (g : RGraph) (funcs : List CP) (i : Nat) (t : Ty) (consOpt : Bool) : RGraph :=
  let g := match g.upTypes.lookup t with
    | some num => g.after (!consOpt) i (some num)
    | none => { (g.after (!consOpt) i (some g.counter)) with upTypes := g.upTypes ++ [(t, g.counter)], counter := g.counter + 1 }
  (recvNotRet funcs t).foldl (fun g j => g.after false i (some j)) g

/-- reorder.go:151-215: the pairs contributed by provider `i` -/
def RGraph.addProvider (ti : TyInfo) (funcs : List CP) (aDown aUp : IMap) (lastStatic finalFunc : Option Nat)
    (g : RGraph) (i : Nat) (fm : CP) : RGraph :=
  let loose := fun p => (funcs.getD p default).loose
  let g := if fm.reorder && fm.group == .runGroup then g.after true i lastStatic else g
  let g := if fm.reorder && some i != finalFunc then
      (match finalFunc with | some ff => g.after false ff (some i) | none => g) else g
  let g := if !fm.reorder then
      { (g.after true i g.lastNoReorder) with cannotReorder := g.cannotReorder ++ [i], lastNoReorder := some i } else g
  let g := (noNoType fm.inp).foldl (fun g tRaw =>
    match bestMatch ti loose aDown tRaw with
    | none => g
    | some (t, _) => g.downType funcs i t) g
  (noNoType fm.ret).foldl (fun g tRaw =>
    match bestMatch ti loose aUp tRaw with
    | none => g
    | some (t, _) => g.upType funcs i t (fm.consOpt.contains t)) g

def buildGraph (ti : TyInfo) (funcs : List CP) (hasInit : Bool) : RGraph :=
  let aDown := availDown funcs hasInit
  let aUp := availUp funcs
  let lastStatic := lastIdx funcs fun f => (f.group == .staticGroup || f.group == .invokeGroup) && !f.reorder
  let finalFunc := lastIdx funcs fun f => f.group == .finalGroup
  (List.range funcs.length).foldl (fun g i => g.addProvider ti funcs aDown aUp lastStatic finalFunc i (funcs.getD i default))
    { n := funcs.length, counter := funcs.length + 1 }

/-- a map from node index to a set of node indices, total: absent keys read as the empty set.
    (Go indexes a slice of `counter` nodes, never out of range.)  Strict data, so that the compiled
    driver does not re-evaluate closures; `get_set` is the only fact the proofs use. -/
abbrev NMap := List (Nat × List Nat)
def NMap.get (m : NMap) (k : Nat) : List Nat := (m.lookup k).getD []
def NMap.set (m : NMap) (k : Nat) (v : List Nat) : NMap := (k, v) :: m

structure Nodes where
  before : NMap := []
  after : NMap := []
  weakBefore : NMap := []
  weakAfter : NMap := []
deriving Repr, Inhabited

/-- reorder.go:217-255 -/
def buildNodes (g : RGraph) : Nodes :=
  let ns : Nodes := {}
  let ns := g.strong.foldl (fun (ns : Nodes) (p : Nat × Nat) =>
    { ns with before := ns.before.set p.2 (setIns (ns.before.get p.2) p.1),
              after := ns.after.set p.1 (setIns (ns.after.get p.1) p.2) }) ns
  let ns := g.weak.foldl (fun (ns : Nodes) (p : Nat × Nat) =>
    { ns with weakBefore := ns.weakBefore.set p.2 (setIns (ns.weakBefore.get p.2) p.1),
              weakAfter := ns.weakAfter.set p.1 (setIns (ns.weakAfter.get p.1) p.2) }) ns
  g.weak.foldl (fun (ns : Nodes) (p : Nat × Nat) =>
    if !(ns.weakBefore.get p.1).contains p.2 then ns else
    let wb := ns.weakBefore.set p.2 (setDel (ns.weakBefore.get p.2) p.1)
    let wb := wb.set p.1 (setDel (wb.get p.1) p.1)
    let wa := ns.weakAfter.set p.1 (setDel (ns.weakAfter.get p.1) p.2)
    let wa := wa.set p.2 (setDel (wa.get p.2) p.2)
    { ns with weakBefore := wb, weakAfter := wa }) ns

/-- a heap entry: (priority, index) -/
abbrev RHeap := List (Nat × Nat)

/-- intheap.go `push`: Reorder'd providers come first (Go: `i - len(funcs)`; here the others are
    shifted up by `len(funcs)` instead, which orders the same way without negative numbers) -/
def prio (n : Nat) (isReorder : Nat → Bool) (i : Nat) : Nat := if i < n && isReorder i then i else i + n

def heapMin : RHeap → Option (Nat × Nat)
  | [] => none
  | e :: rest => match heapMin rest with
    | none => some e
    | some m => if e.1 ≤ m.1 then some e else some m

/-- `heap.Pop`: the index with the least priority and the heap without (one copy of) it -/
def heapPop (h : RHeap) : Option (Nat × RHeap) :=
  match heapMin h with
  | none => none
  | some m => some (m.2, h.erase m)

/-- what `topo.run` reads but never writes -/
structure TopoS where
  n : Nat
  isReorder : Nat → Bool
  outOf : Nat → List Ty        -- noNoType(flows[outputParams]) of provider i
  recvOf : Nat → List Ty
  downTypes : List (Ty × Nat)
  upTypes : List (Ty × Nat)
  before : NMap
  weakBefore : NMap

/-- what `topo.run` changes -/
structure Topo where
  after : NMap
  weakAfter : NMap
  cannotReorder : List Nat
  unblocked : RHeap := []
  weakBlocked : RHeap := []
  done : List Nat := []
  out : List Nat := []
  fuelOut : Bool := false

def Topo.pushU (s : TopoS) (x : Topo) (i : Nat) : Topo := { x with unblocked := (prio s.n s.isReorder i, i) :: x.unblocked }
def Topo.pushW (s : TopoS) (x : Topo) (i : Nat) : Topo := { x with weakBlocked := (prio s.n s.isReorder i, i) :: x.weakBlocked }

/-- reorder.go `release` -/
def Topo.release (s : TopoS) (x : Topo) (n i : Nat) : Topo :=
  if n ≥ s.n then x.pushU s n else
  let x := { x with after := x.after.set n (setDel (x.after.get n) i), weakAfter := x.weakAfter.set n (setDel (x.weakAfter.get n) i) }
  if (x.after.get n).isEmpty then
    if (x.weakAfter.get n).isEmpty then x.pushU s n else x.pushW s n
  else x

/-- reorder.go `releaseNode` -/
def Topo.releaseNode (s : TopoS) (x : Topo) (i : Nat) : Topo :=
  let x := (s.weakBefore.get i).foldl (fun (x : Topo) n => { x with weakAfter := x.weakAfter.set n (setDel (x.weakAfter.get n) i) }) x
  (s.before.get i).foldl (fun x n => x.release s n i) x

/-- reorder.go `releaseProvider` -/
def Topo.releaseProvider (s : TopoS) (x : Topo) (i : Nat) : Topo :=
  let x := (s.outOf i).foldl (fun x t => match s.downTypes.lookup t with | some num => x.release s num i | none => x) x
  (s.recvOf i).foldl (fun x t => match s.upTypes.lookup t with | some num => x.release s num i | none => x) x

/-- reorder.go `processOne` -/
def Topo.processOne (s : TopoS) (x : Topo) (i : Nat) (release : Bool) : Topo :=
  if x.done.contains i then x else
  let x := { x with done := i :: x.done }
  if i > s.n then (if release then x.releaseNode s i else x) else
  let x := { x with out := x.out ++ [i] }
  if !release then x.releaseNode s i
  else (x.releaseNode s i).releaseProvider s i

/-- reorder.go `topo.run`, the loop -/
def Topo.loop (s : TopoS) : Nat → Topo → Topo
  | 0, x => { x with fuelOut := true }
  | fuel + 1, x =>
    match heapPop x.unblocked with
    | some (i, rest) => Topo.loop s fuel (Topo.processOne s { x with unblocked := rest } i true)
    | none =>
      match heapPop x.weakBlocked with
      | some (i, rest) => Topo.loop s fuel (Topo.processOne s { x with weakBlocked := rest } i true)
      | none =>
        match x.cannotReorder with
        | i :: cr => Topo.loop s fuel (Topo.processOne s { x with cannotReorder := cr } i (x.after.get i).isEmpty)
        | [] => x

/-- providers never reached: "dependencies not met, excluded", appended in listed order -/
def Topo.leftOver (s : TopoS) (x : Topo) : List Nat := (List.range s.n).filter fun i => !x.done.contains i

/-- the new order (positions in the input list) -/
def Topo.order (s : TopoS) (x : Topo) : List Nat := x.out ++ x.leftOver s

structure ReorderOut where
  order : List Nat        -- positions in the input list, in the new order
  gaveUp : List Nat       -- positions given up on
  fuelOut : Bool
deriving Repr, Inhabited

/-- every node index that occurs is below this (providers, and the second components of the strong pairs) -/
def keyBound (g : RGraph) (n : Nat) : Nat := (g.strong.map (·.2)).foldl max n + 1

/-- fuel for `topo.run`: more than the number of iterations it can make (proved in
    `NjectProofs/ReorderTerm.lean`: every iteration removes a queue entry, and a node's first
    processing adds at most one entry per member of its `before` set and per output / received type).
    The loop stops by itself when the queues are empty, so a generous bound costs nothing. -/
def reorderFuel (g : RGraph) (funcs : List CP) : Nat :=
  let o := (funcs.map (·.out.length)).sum
  let r := (funcs.map (·.recv.length)).sum
  keyBound g funcs.length * (g.strong.length + o + r + 1) + o + funcs.length + 2

def topoStatic (funcs : List CP) (g : RGraph) : TopoS :=
  let ns := buildNodes g
  { n := funcs.length, isReorder := fun i => (funcs.getD i default).reorder,
    outOf := fun i => noNoType (funcs.getD i default).out, recvOf := fun i => noNoType (funcs.getD i default).recv,
    downTypes := g.downTypes, upTypes := g.upTypes, before := ns.before, weakBefore := ns.weakBefore }

/-- reorder.go:257-280: the state `topo.run` starts from -/
def topoInit (funcs : List CP) (g : RGraph) (hasInit : Bool) : Topo :=
  let ns := buildNodes g
  let s := topoStatic funcs g
  let x0 : Topo := { after := ns.after, weakAfter := ns.weakAfter, cannotReorder := g.cannotReorder }
  if hasInit then
    match funcs.find? (·.cls == .initFunc) with
    | some f => (noNoType f.out).foldl (fun (x : Topo) t => match g.downTypes.lookup t with | some num => x.pushU s num | none => x) x0
    | none => x0
  else x0

/-- `reorder` on positions; `none` when no provider is (still) marked Reorder: the list is kept -/
def reorderIdx (ti : TyInfo) (funcs0 : List CP) (hasInit : Bool) : Option ReorderOut :=
  let funcs := clearReorder funcs0
  if !funcs.any (·.reorder) then none else
  let g := buildGraph ti funcs hasInit
  let s := topoStatic funcs g
  let x := Topo.loop s (reorderFuel g funcs) (topoInit funcs g hasInit)
  some { order := x.order s, gaveUp := x.leftOver s, fuelOut := x.fuelOut }

/-- `reorder` on the assembled list: the new list and the ids of the providers given up on -/
def reorderModel (ti : TyInfo) (funcs : List CP) (hasInit : Bool) : List CP × List Nat × Bool :=
  match reorderIdx ti funcs hasInit with
  | none => (clearReorder funcs, [], false)
  | some r =>
    let fs := clearReorder funcs
    (r.order.filterMap fun i => fs[i]?, r.gaveUp.filterMap fun i => fs[i]?.map (·.id), r.fuelOut)

end Nject
