/-
  Basic data for the nject model.  Core Lean only (no Mathlib) so that the
  driver links as a `lean_exe`.
-/
namespace Nject

/-- A type code.  The harness fixes a universe of Go types and numbers them. -/
abbrev Ty := Nat

/-- A run-time value: its dynamic type and a provenance tag.  Tag 0 is the
    zero value of the type (`reflect.Zero`). -/
structure Val where
  ty : Ty
  tag : Nat
deriving DecidableEq, Repr, Inhabited

def zeroV (t : Ty) : Val := ⟨t, 0⟩

/-- `valueCollection`: `none` is an invalid (unset) `reflect.Value`. -/
abbrev VC := List (Option Val)

/-- The reference semantics' environment: a value per type. -/
abbrev Env := Ty → Option Val

def Env.empty : Env := fun _ => none

def Env.set1 (e : Env) (t : Ty) (v : Val) : Env := fun t' => if t' = t then some v else e t'

/-- sequential writes, later positions win (like the Go output mapper loop) -/
def Env.set (e : Env) : List Ty → List Val → Env
  | t :: ts, v :: vs => Env.set (e.set1 t v) ts vs
  | _, _ => e

/-- reading a parameter of type `t`: an unset value reads as the zero value -/
def Env.rd (e : Env) (t : Ty) : Val := (e t).getD (zeroV t)

/-- events a user-supplied provider body can observe -/
inductive Ev where
  | call (id : Nat) (args outs : List Val)   -- injector / final / static injector body ran
  | wenter (id : Nat) (args : List Val)      -- wrapper body entered
  | winner (id : Nat) (args : List Val)      -- wrapper called inner(args)
  | wrecv (id : Nat) (vals : List Val)       -- inner() returned vals to the wrapper
  | wret (id : Nat) (outs : List Val)        -- wrapper body returned
  | bad (id : Nat)                           -- an argument had no slot (Go: invalid reflect.Value)
deriving DecidableEq, Repr

/-- What a wrapper body does: return, or call inner and continue with what it received. -/
inductive WStep where
  | ret (outs : List Val)
  | call (args : List Val) (k : List Val → WStep)

/-- User behaviour: any function of (provider id, how often it ran before, arguments). -/
structure Beh where
  inj : Nat → Nat → List Val → List Val
  wrap : Nat → Nat → List Val → WStep

/-- state threaded through a run: the trace and the process-wide memo caches -/
structure St where
  trace : List Ev := []
  cache : List ((Nat × List Val) × List Val) := []
deriving Repr

def St.push (s : St) (e : Ev) : St := { s with trace := s.trace ++ [e] }

def evId : Ev → Nat
  | .call id _ _ => id
  | .wenter id _ => id
  | .winner id _ => id
  | .wrecv id _ => id
  | .wret id _ => id
  | .bad id => id

def isEntry : Ev → Bool
  | .call _ _ _ => true
  | .wenter _ _ => true
  | _ => false

/-- how many times provider `id`'s body has been entered so far -/
def St.count (s : St) (id : Nat) : Nat :=
  (s.trace.filter (fun e => isEntry e && evId e == id)).length

def isErr (v : Val) : Bool := v.tag != 0

end Nject
