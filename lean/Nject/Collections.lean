import Nject.Basic
/-
  S0: how collections are built (nject.go `newCollection`, `modify`; api.go `Sequence`, `Append`,
  annotation functions): a collection holds a FLAT list of providers; nesting only concatenates.
-/
namespace Nject

/-- what the user writes: providers nested in (sub-)sequences -/
inductive Coll (α : Type) where
  | leaf (p : α)
  | seq (items : List (Coll α))

mutual
/-- `newCollection`: sub-collections contribute their (already flat) contents, in order -/
def Coll.flatten {α : Type} : Coll α → List α
  | .leaf p => [p]
  | .seq items => Coll.flattenList items
def Coll.flattenList {α : Type} : List (Coll α) → List α
  | [] => []
  | c :: cs => c.flatten ++ Coll.flattenList cs
end

mutual
/-- an annotation function applied to a provider or to a whole collection (`thing.modify`) -/
def Coll.annotate {α : Type} (f : α → α) : Coll α → Coll α
  | .leaf p => .leaf (f p)
  | .seq items => .seq (Coll.annotateList f items)
def Coll.annotateList {α : Type} (f : α → α) : List (Coll α) → List (Coll α)
  | [] => []
  | c :: cs => c.annotate f :: Coll.annotateList f cs
end

/-- `c.Append(name, funcs...)` -/
def Coll.append {α : Type} (c : Coll α) (more : List (Coll α)) : Coll α := .seq [c, .seq more]

end Nject
