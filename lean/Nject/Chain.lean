import Nject.Basic
/-
  The compiled chain, as `doBind` leaves it (bind.go:129-297): per included provider the
  typed flows with the remaps already applied, plus the two slot maps.
-/
namespace Nject

inductive Kind where
  | inj | fallible | wrapper | final
deriving DecidableEq, Repr, Inhabited

/-- one included RUN/FINAL provider -/
structure Node where
  id : Nat
  kind : Kind
  /-- input parameter types after `downRmap` (a wrapper's `inner` parameter is left out) -/
  ins : List Ty := []
  /-- types written downward: injector results (TerminalError removed), or a wrapper's inner() arguments -/
  outs : List Ty := []
  /-- types written upward: final/wrapper results; `[error]` for a fallible injector -/
  rets : List Ty := []
  /-- types read from below after `upRmap` (what inner() returns to a wrapper) -/
  recv : List Ty := []
  /-- `mustZeroIfInnerNotCalled` -/
  zero : List Ty := []
  /-- position of the TerminalError among a fallible injector's raw results -/
  errIdx : Nat := 0
  memo : Bool := false
  parallel : Bool := false
deriving Repr, Inhabited

/-- one step of the static sequence: an included STATIC injector, or (when `lit` is set) an included
    literal value, which takes effect at its listed position -/
structure SNode where
  id : Nat
  /-- a literal value: no body, `outs = [its type]`, the value stored is this one -/
  lit : Option Val := none
  fallible : Bool := false
  ins : List Ty := []
  /-- outputs; for a fallible one TerminalError has been retyped to error and stays in place -/
  outs : List Ty := []
  /-- `mustZeroIfRemainderSkipped` -/
  zero : List Ty := []
  errIdx : Nat := 0
  memo : Bool := false
  singleton : Bool := false
deriving Repr, Inhabited

/-- slot maps (`downVmap`, `upVmap`): type ↦ index in the value collection -/
structure Maps where
  d : Ty → Option Nat
  u : Ty → Option Nat

structure InitSig where
  outs : List Ty       -- init's parameters (written into the base values)
  bypass : List Ty     -- init's results after `bypassRmap`
deriving Repr, Inhabited

structure Compiled where
  vcount : Nat
  errTy : Ty
  dmap : List (Ty × Nat)
  umap : List (Ty × Nat)
  lits : List (Ty × Val)
  statics : List SNode
  run : List Node
  fin : Node
  invokeOuts : List Ty
  invokeRecv : List Ty
  init : Option InitSig
deriving Repr, Inhabited

def Compiled.maps (c : Compiled) : Maps :=
  { d := fun t => c.dmap.lookup t, u := fun t => c.umap.lookup t }

/-! ### bind.go:249-297 — the closure nest, as data -/

inductive Prog where
  | endpoint (fin : Node)
  | batch (injs : List Node) (next : Prog)
  | wrap (w : Node) (inner : Prog)
deriving Repr, Inhabited

def isWrapper (n : Node) : Bool := n.kind == .wrapper

/-- The backward loop of bind.go:254-297 over the reversed RUN list. `acc` is `f`; `open_` is
    the maximal run of consecutive (fallible) injectors collected by the `j` scan so far (kept in
    forward order); a wrapper closes the open batch and nests. -/
def buildProgRev : List Node → List Node → Prog → Prog
  | [], [], acc => acc
  | [], n :: open_, acc => .batch (n :: open_) acc
  | n :: rest, open_, acc =>
    if isWrapper n then
      match open_ with
      | [] => buildProgRev rest [] (.wrap n acc)
      | o :: os => buildProgRev rest [] (.wrap n (.batch (o :: os) acc))
    else buildProgRev rest (n :: open_) acc

def buildProg (run : List Node) (fin : Node) : Prog := buildProgRev run.reverse [] (.endpoint fin)

def Prog.flatten : Prog → List Node × Node
  | .endpoint f => ([], f)
  | .batch injs next => let (l, f) := next.flatten; (injs ++ l, f)
  | .wrap w inner => let (l, f) := inner.flatten; (w :: l, f)

end Nject
