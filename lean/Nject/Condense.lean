import Nject.Include
/-
  C19: net flows of a collection (flows.go `netFlows`) and the flows Condense binds with
  (condense.go).
-/
namespace Nject

/-- loop state of `netFlows` -/
structure NF where
  avail : IMap := []
  uniqueIn : List Ty := []     -- `uniqueIn`, in order (`seenIn` is its membership test)
  uniqueOut : List Ty := []    -- `uniqueOut` / `seenOut`
deriving Repr, Inhabited

/-- the type an input is looked up as: the best match among what earlier members produce, else itself -/
def resolveInput (ti : TyInfo) (loose : Nat → List Ty) (avail : IMap) (input : Ty) : Ty :=
  match bestMatch ti loose avail input with
  | some (t, _) => t
  | none => input

/-- the loop over one member's inputs: returns the state and `inputsByType` -/
def netInputs (ti : TyInfo) (loose : Nat → List Ty) : List Ty → NF → List Ty → NF × List Ty
  | [], s, ibt => (s, ibt)
  | input :: rest, s, ibt =>
    let input := resolveInput ti loose s.avail input
    let ibt := input :: ibt
    if s.uniqueOut.contains input || s.uniqueIn.contains input then netInputs ti loose rest s ibt
    else netInputs ti loose rest { s with uniqueIn := s.uniqueIn ++ [input] } ibt

/-- the loop over one member's outputs -/
def netOutputs (i : Nat) (ibt : List Ty) : List Ty → NF → NF
  | [], s => s
  | output :: rest, s =>
    let s := { s with avail := s.avail.add output i i }
    if ibt.contains output || s.uniqueIn.contains output || s.uniqueOut.contains output then netOutputs i ibt rest s
    else netOutputs i ibt rest { s with uniqueOut := s.uniqueOut ++ [output] }

def netMember (ti : TyInfo) (loose : Nat → List Ty) (s : NF) (i : Nat) (io : List Ty × List Ty) : NF :=
  let (s, ibt) := netInputs ti loose io.1 s []
  netOutputs i ibt io.2 s

/-- `netFlows` over the members' (inputs, outputs), from member number `i` on -/
def netFrom (ti : TyInfo) (loose : Nat → List Ty) : List (List Ty × List Ty) → Nat → NF → NF
  | [], _, s => s
  | io :: rest, i, s => netFrom ti loose rest (i + 1) (netMember ti loose s i io)

def netFlows (ti : TyInfo) (loose : Nat → List Ty) (members : List (List Ty × List Ty)) : List Ty × List Ty :=
  let s := netFrom ti loose members 0 {}
  (s.uniqueIn, s.uniqueOut)

/-- a classified provider's DownFlows / UpFlows (flows.go: the `default` branches); a wrapper's
    inner function (`noType`) is not a flow -/
def CP.downFlows (c : CP) : List Ty × List Ty := (c.inp.filter (· != tNoType), c.out)
def CP.upFlows (c : CP) : List Ty × List Ty := (c.recv, c.ret)

/-- What the surroundings of a collection get back (flows.go `netReturns`): a returned type reaches
    the surroundings unless a member *above* the returner receives it. -/
def returnedToSurroundings (members : List (List Ty × List Ty)) : List Ty :=
  let rec go : List (List Ty × List Ty) → List Ty → List Ty → List Ty
    | [], _, acc => acc
    | (recv, ret) :: rest, above, acc =>
      let acc := ret.foldl (fun acc t => if above.contains t || acc.contains t then acc else acc ++ [t]) acc
      go rest (above ++ recv) acc
  go members [] []

structure CondenseFlows where
  downIn : List Ty
  upOut : List Ty       -- what Condense binds with: flows.go `netReturns`
  upNet : List Ty       -- what `UpFlows` (netFlows of the up flows) reports as produced
deriving Repr, Inhabited, DecidableEq

/-- the flows of the collection when the types in `arrives` come from outside with every call -/
def condenseFlowsWith (ti : TyInfo) (provs : List PDesc) (arrives : List Ty) : Option CondenseFlows :=
  match provs.reverse with
  | [] => none
  | last :: revInit =>
    let provs := (revInit.reverse ++ [{ last with required := true }])
    match characterizeAll provs arrives with
    | none => none
    | some (bi, ai) =>
      let cps := bi ++ ai
      let loose := fun p => (cps.getD p default).loose
      some { downIn := (netFlows ti loose (cps.map CP.downFlows)).1,
             upOut := returnedToSurroundings (cps.map CP.upFlows),
             upNet := (netFlows ti loose (cps.map CP.upFlows)).2 }

/-- what the collection leaves unresolved arrives from outside: those types are per-invocation
    values for its members (a Cacheable member that consumes one is not static).  The set only
    grows; repeat until stable. -/
def condenseIter (ti : TyInfo) (provs : List PDesc) : Nat → List Ty → Option CondenseFlows
  | 0, arrives => condenseFlowsWith ti provs arrives
  | fuel + 1, arrives =>
    match condenseFlowsWith ti provs arrives with
    | none => none
    | some f =>
      if f.downIn.all arrives.contains then some f
      else condenseIter ti provs fuel (arrives ++ f.downIn.filter fun t => !arrives.contains t)

/-- condense.go: the flows Condense binds with.
    `none`: some member matches no registry entry (Condense returns that error). -/
def condenseFlows (ti : TyInfo) (provs : List PDesc) : Option CondenseFlows := condenseIter ti provs 32 []

end Nject
