import NjectGen.Registry
/-
  S2: `characterizeFuncDetails` — the first registry entry all of whose predicates hold.
  The registries are the regenerated `Gen.handlerRegistry` / `Gen.invokeRegistry`.
-/
namespace Nject
open Gen

def fires (c : PredCtx) (e : Entry) : Bool := e.tests.all (Pred.holds c)

def classifyWith (reg : List Entry) (c : PredCtx) : Option Entry := reg.find? (fires c)

def classify (c : PredCtx) : Option Entry := classifyWith handlerRegistry c
def classifyInvoke (c : PredCtx) : Option Entry := classifyWith invokeRegistry c

end Nject
