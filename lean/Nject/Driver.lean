import Nject.WF
import Nject.Edit
import Nject.Pipeline
import Nject.Slots
import Nject.Validate
import Nject.Helpers
import Nject.Condense
import Nject.Reorder
import Nject.ReorderAlg
import Nject.ReorderCond
import Nject.PostAct
/-
  Line-protocol driver: reads the case blocks the Go harness writes, rebuilds the compiled
  chain from the implementation's own S7 dump, runs `Exec` and `Spec` with the scripted
  behaviours and prints their traces in the harness's trace syntax.
-/
namespace Nject.Driver
open Nject

def parseNats (s : String) : List Nat :=
  if s == "-" || s == "" then [] else (s.splitOn ",").filterMap String.toNat?

/-- value of `key=` in a token list ("" if absent) -/
def field (toks : List String) (key : String) : String :=
  match toks.find? (fun t => t.startsWith (key ++ "=")) with
  | some t => (t.drop (key.length + 1)).toString
  | none => ""

def fieldNats (toks : List String) (key : String) : List Nat := parseNats (field toks key)
def fieldNat (toks : List String) (key : String) : Nat := (field toks key).toNat?.getD 0
def hasFlag (toks : List String) (key flag : String) : Bool := ((field toks key).splitOn ",").contains flag

/-- "a>b,c>d" -/
def parseRmap (s : String) : List (Nat × Nat) :=
  if s == "-" || s == "" then [] else
  (s.splitOn ",").filterMap fun kv =>
    match kv.splitOn ">" with
    | [a, b] => match a.toNat?, b.toNat? with
      | some x, some y => some (x, y)
      | _, _ => none
    | _ => none

/-- "t:slot,..." ; entries with slot -1 are unmapped -/
def parseVmap (s : String) : List (Nat × Nat) :=
  if s == "-" || s == "" then [] else
  (s.splitOn ",").filterMap fun kv =>
    match kv.splitOn ":" with
    | [a, b] => match a.toNat?, b.toNat? with
      | some x, some y => some (x, y)
      | _, _ => none
    | _ => none

def parseVals (s : String) : List Val :=
  (parseVmap s).map fun p => ⟨p.1, p.2⟩

def remap (rm : List (Nat × Nat)) (ts : List Ty) : List Ty := ts.map fun t => (rm.lookup t).getD t

structure Script where
  idx : Nat
  kind : String
  ins : List Ty
  outs : List Ty
  iin : List Ty
  iout : List Ty
  fail : Nat
  calls : Nat
  pass : Bool
deriving Repr, Inhabited

def cError : Ty := 20
def cTE : Ty := 21
def cUnus : Ty := 22
def cDebug : Ty := 23
def cNoTy : Ty := 30

def dynCode (c : Ty) : Ty :=
  if c == 10 then 5 else if c == 11 then 7 else if c == 12 then 6 else if c == cTE then cError else c

def freshTag (idx k j p : Nat) : Nat := (idx + 1) * 100000 + (k + 1) * 100 + j * 10 + p + 1

def freshOut (s : Script) (oc k j pos : Nat) : Val :=
  if oc == cTE then
    if (s.fail >>> (k % 8)) % 2 == 1 then
      -- (now and then a nil *Err inside a non-nil interface: tag 9999999 -- as an error it is not nil)
      (if (s.idx + k) % 5 == 4 then ⟨cError, 9999999⟩ else ⟨cError, freshTag s.idx k j pos⟩)
    else ⟨cTE, 0⟩
  else if oc == cUnus then ⟨cUnus, 0⟩
  else if oc == cDebug then ⟨cDebug, 0⟩
  else if (oc == 10 || oc == 11) && (s.idx + k) % 4 == 3 then ⟨oc, 0⟩   -- now and then a nil interface value
  else ⟨dynCode oc, freshTag s.idx k j pos⟩

def enumFrom' {α} (l : List α) : List (Nat × α) := (List.range l.length).zip l

def scriptInj (s : Script) (k : Nat) : List Val :=
  (enumFrom' s.outs).map fun (j, oc) => freshOut s oc k 0 j

def indexOf? (l : List Nat) (x : Nat) : Option Nat :=
  (enumFrom' l).findSome? fun (i, y) => if y == x then some i else none

/-- the wrapper script as a behaviour tree: `rem` inner() calls still to make -/
def scriptWrapGo (s : Script) (k : Nat) : Nat → Nat → Option (List Val) → WStep
  | 0, _, last =>
    .ret ((enumFrom' s.outs).map fun (pos, rc) =>
      match last, indexOf? s.iout rc with
      | some vals, some q => if s.pass then vals.getD q ⟨0, 0⟩ else freshOut s rc k 0 pos
      | _, _ => freshOut s rc k 0 pos)
  | rem + 1, j, _ =>
    .call ((enumFrom' s.iin).map fun (pos, ic) => freshOut s ic k j pos)
      (fun vals => scriptWrapGo s k rem (j + 1) (some vals))

def mkBeh (scripts : List Script) : Beh where
  inj := fun id k _ =>
    if id == 900 then [⟨cDebug, 1⟩] else
    match scripts.find? (·.idx == id) with
    | some s => scriptInj s k
    | none => []
  wrap := fun id k _ =>
    if id == 902 then .call [] (fun _ => .ret [⟨cUnus, 0⟩]) else
    match scripts.find? (·.idx == id) with
    | some s => scriptWrapGo s k s.calls 1 none
    | none => .ret []

structure FLine where
  id : Nat
  cls : String
  group : String
  inc : Bool
  ret : List Ty
  out : List Ty
  inp : List Ty
  recv : List Ty
  byp : List Ty
  drm : List (Nat × Nat)
  urm : List (Nat × Nat)
  brm : List (Nat × Nat)
  zs : List Ty
  zi : List Ty
  ei : Nat
  memo : Bool
  parallel : Bool
  singleton : Bool
  required : Bool := false
  desired : Bool := false
  shun : Bool := false
  wanted : Bool := false
  synthetic : Bool := false
  reorder : Bool := false
  gaveUp : Bool := false          -- reorder: "dependencies not met, excluded"
deriving Repr, Inhabited

def parseF (toks : List String) : FLine :=
  { id := fieldNat toks "id", cls := field toks "class", group := field toks "group",
    inc := fieldNat toks "inc" == 1,
    ret := fieldNats toks "ret", out := fieldNats toks "out", inp := fieldNats toks "in",
    recv := fieldNats toks "recv", byp := fieldNats toks "byp",
    drm := parseRmap (field toks "drm"), urm := parseRmap (field toks "urm"), brm := parseRmap (field toks "brm"),
    zs := fieldNats toks "zs", zi := fieldNats toks "zi", ei := fieldNat toks "ei",
    memo := hasFlag toks "flags" "memoized", parallel := hasFlag toks "flags" "parallel",
    singleton := hasFlag toks "flags" "singleton", required := hasFlag toks "flags" "required",
    desired := hasFlag toks "flags" "desired", shun := hasFlag toks "flags" "shun",
    wanted := hasFlag toks "flags" "wanted", synthetic := hasFlag toks "flags" "synthetic",
    reorder := hasFlag toks "flags" "reorder",
    gaveUp := ((field toks "why").splitOn "dependencies_not_met").length > 1 }

def parseScript (toks : List String) : Script :=
  { idx := (toks.getD 1 "0").toNat?.getD 0, kind := field toks "kind",
    ins := fieldNats toks "in", outs := fieldNats toks "out", iin := fieldNats toks "iin", iout := fieldNats toks "iout",
    fail := fieldNat toks "fail", calls := fieldNat toks "calls", pass := fieldNat toks "pass" == 1 }

def parsePDesc (toks : List String) : PDesc :=
  let k := field toks "kind"
  { idx := (toks.getD 1 "0").toNat?.getD 0,
    kind := if k == "lit" then .lit else if k == "wrap" then .wrap else .func,
    ins := fieldNats toks "in", outs := fieldNats toks "out", iin := fieldNats toks "iin", iout := fieldNats toks "iout",
    required := hasFlag toks "ann" "required", desired := hasFlag toks "ann" "desired", shun := hasFlag toks "ann" "shun",
    cacheable := hasFlag toks "ann" "cacheable" || hasFlag toks "ann" "mustcache" || hasFlag toks "ann" "memoize" || hasFlag toks "ann" "singleton",
    mustCache := hasFlag toks "ann" "mustcache" || hasFlag toks "ann" "singleton",
    notCacheable := hasFlag toks "ann" "notcacheable", memoize := hasFlag toks "ann" "memoize",
    singleton := hasFlag toks "ann" "singleton", nonFinal := hasFlag toks "ann" "nonfinal",
    reorder := hasFlag toks "ann" "reorder", parallel := hasFlag toks "ann" "parallel", refl := hasFlag toks "ann" "refl",
    loose := fieldNats toks "loose", mustConsume := fieldNats toks "mc", consOpt := fieldNats toks "co",
    shadowOK := fieldNats toks "sh", cluster := fieldNat toks "cluster" }

def toNode (f : FLine) : Node :=
  let kind : Kind :=
    if f.cls == "wrapper-func" then .wrapper
    else if f.cls == "fallible-injector" then .fallible
    else if f.cls == "final-func" then .final
    else .inj
  { id := f.id, kind := kind,
    ins := remap f.drm (f.inp.filter (· != cNoTy)),
    outs := f.out, rets := f.ret, recv := remap f.urm f.recv, zero := f.zi,
    errIdx := f.ei, memo := f.memo, parallel := f.parallel }

def toSNode (f : FLine) : SNode :=
  { id := f.id, fallible := f.cls == "fallible-static-injector",
    ins := remap f.drm f.inp, outs := f.out, zero := f.zs, errIdx := f.ei,
    memo := f.memo, singleton := f.singleton }

def litValue (f : FLine) : Val :=
  let t := f.out.headD 0
  if f.id == 901 then ⟨cUnus, 0⟩ else ⟨t, freshTag f.id 0 0 0⟩

def mkCompiled (vcount : Nat) (fs : List FLine) (dv uv : List (Nat × Nat)) : Option Compiled :=
  let inc := fs.filter (·.inc)
  let fins := inc.filter (·.group == "final")
  let invs := inc.filter (·.cls == "invoke-func")
  match fins, invs with
  | [fin], [inv] =>
    let initF := (inc.filter (·.cls == "init-func")).head?
    some {
      vcount := vcount, errTy := cError, dmap := dv, umap := uv,
      lits := (inc.filter (·.group == "literal")).map fun f => (f.out.headD 0, litValue f),
      -- the static sequence: literal values and static injectors in listed order
      statics := (inc.filter fun f => f.group == "static" || f.group == "literal").map fun f =>
        if f.group == "literal" then { id := f.id, lit := some (litValue f), outs := [f.out.headD 0] } else toSNode f,
      run := (inc.filter (·.group == "run")).map toNode,
      fin := toNode fin,
      invokeOuts := inv.out, invokeRecv := remap inv.urm inv.recv,
      init := initF.map fun f => { outs := f.out, bypass := remap f.brm f.byp } }
  | _, _ => none

/-! ### printing -/

def fmtVal (v : Val) : String := s!"{v.ty}:{v.tag}"
def fmtVals (vs : List Val) : String := if vs.isEmpty then "-" else ",".intercalate (vs.map fmtVal)

def fmtEv : Ev → Option String
  | .call id a o => if id >= 900 then none else some s!"call {id} {fmtVals a} -> {fmtVals o}"
  | .wenter id a => if id >= 900 then none else some s!"wenter {id} {fmtVals a}"
  | .winner id a => if id >= 900 then none else some s!"winner {id} {fmtVals a}"
  | .wrecv id a => if id >= 900 then none else some s!"wrecv {id} {fmtVals a}"
  | .wret id a => if id >= 900 then none else some s!"wret {id} {fmtVals a}"
  | .bad id => some s!"bad {id}"

structure CaseAcc where
  n : String := ""
  scripts : List Script := []
  flines : List FLine := []       -- of the S7 dump
  inS7 : Bool := false
  stage : String := ""
  s3 : List FLine := []           -- reversed
  s4 : List FLine := []           -- reversed
  vcount : Nat := 0
  dv : List (Nat × Nat) := []
  uv : List (Nat × Nat) := []
  bindOk : Bool := false
  ops : List (String × List Val) := []
  enodes : List ENode := []        -- pre-edit list (reversed)
  pdescs : List PDesc := []        -- reversed
  invSig : Sig := ⟨[], []⟩
  initSig : Option Sig := none
deriving Inhabited

def fmtEditErr : EditErr → String
  | .twoTags => "E_EDIT_TWO_TAGS"
  | .missing => "E_EDIT_MISSING"
  | .dup => "E_EDIT_DUP"
  | .selfTarget => "E_EDIT_SELF"
  | .fuel => "FUEL"

/-- S1: the model's edited order -/
def runEdit (a : CaseAcc) : String :=
  match editAll a.enodes.reverse with
  | .ok l => "m1 ok " ++ (if l.isEmpty then "-" else ",".intercalate (l.map fun n => toString n.idx))
  | .error e => "m1 err " ++ fmtEditErr e

def classStr : ClassT → String
  | .unsetClassType => "?" | .fallibleInjectorFunc => "fallible-injector"
  | .fallibleStaticInjectorFunc => "fallible-static-injector" | .injectorFunc => "injector"
  | .wrapperFunc => "wrapper-func" | .finalFunc => "final-func" | .staticInjectorFunc => "static-injector"
  | .literalValue => "literal-value" | .initFunc => "init-func" | .invokeFunc => "invoke-func"

def groupStr : GroupT → String
  | .invokeGroup => "invoke" | .literalGroup => "literal" | .staticGroup => "static" | .runGroup => "run"
  | .finalGroup => "final"

def fmtTys (l : List Ty) : String := if l.isEmpty then "-" else ",".intercalate (l.map toString)

def fmtCP (c : CP) : String :=
  s!"{c.id}:{classStr c.cls}:{groupStr c.group}:{fmtTys c.ret}/{fmtTys c.out}/{fmtTys c.inp}/{fmtTys c.recv}/{fmtTys c.byp}"

/-- S2/S3: the model's assembled function list -/
def runAssemble (a : CaseAcc) : List String :=
  match editAll a.enodes.reverse with
  | .error _ => []
  | .ok order =>
    let provs := order.filterMap fun n => a.pdescs.find? (·.idx == n.idx)
    match assemble provs a.invSig a.initSig with
    | none => ["m3 err E_CLASSIFY"]
    | some asm => [s!"m3 ok inv={asm.invokeIndex} " ++ " ".intercalate (asm.funcs.map fmtCP)]

def sortNat (l : List Nat) : List Nat := (l.toArray.qsort (· < ·)).toList

def fmtRm (m : List (Ty × Ty)) : String :=
  if m.isEmpty then "-" else
  let strs := (m.map fun p => s!"{p.1}>{p.2}").toArray.qsort (· < ·)
  ",".intercalate strs.toList

def fmtBindErr : BindErr → String
  | .edit e => fmtEditErr e
  | .classify => "E_CLASSIFY"
  | .required => "E_REQUIRED"
  | .wanted => "E_WANTED"
  | .internal => "E_INTERNAL"
  | .shadow => "E_SHADOW"
  | .initType => "E_INIT_TYPE"
  | .fuel => "FUEL"

def dedup (l : List Nat) : List Nat := l.foldl (fun acc x => if acc.contains x then acc else acc ++ [x]) []

/-- S5/S6: the model's include flags, remaps, slot partition and zero lists -/
def hasReorder (a : CaseAcc) : Bool := a.pdescs.any (·.reorder)

/-- C17 validators on the implementation's S3 → S4 dumps -/
def runReorderCheck (a : CaseAcc) : List String :=
  if a.s4.isEmpty then [] else
  let item := fun (f : FLine) => ({ id := f.id, reorder := f.reorder } : RItem)
  let item2 := fun (f : FLine) => ({ id := f.id, reorder := f.reorder, isInvoke := f.cls == "invoke-func",
                                     isFinal := f.cls == "final-func", gaveUp := f.gaveUp } : RItem2)
  let ok := fun (b : Bool) => if b then "ok" else "bad"
  [s!"m4 {ok (reorderValidB (a.s3.reverse.map item) (a.s4.reverse.map item))} prefix={ok (staticPrefixKeptB (a.s3.reverse.map item2) (a.s4.reverse.map item2))} final={ok (finalLastB (a.s4.reverse.map item2))} reorder={if hasReorder a then 1 else 0} gaveup={fmtTys ((a.s4.filter (·.gaveUp)).map (·.id))}"]

/-- S4: the model of reorder.go on the model's own assembled list -/
def runReorderModel (a : CaseAcc) : List String :=
  if a.s4.isEmpty then [] else
  match editAll a.enodes.reverse with
  | .error _ => []
  | .ok order =>
    let provs := order.filterMap fun n => a.pdescs.find? (·.idx == n.idx)
    match assemble provs a.invSig a.initSig with
    | none => []
    | some asm =>
      let (fs, gave, fuelOut) := reorderModel stdTyInfo asm.funcs a.initSig.isSome
      -- the order condition of the placement theorem, for every provider still marked Reorder
      let cfs := clearReorder asm.funcs
      let live := (List.range cfs.length).filterMap fun i =>
        if (cfs.getD i default).reorder then
          some (match liveHypSearch stdTyInfo cfs a.initSig.isSome i with
            | some kx => s!"{(cfs.getD i default).id}:{kx}"
            | none => s!"{(cfs.getD i default).id}:none")
        else none
      [s!"m4o order={fmtTys (fs.map (·.id))} gaveup={fmtTys gave} fuel={if fuelOut then "FUEL" else "ok"}",
       "m4live " ++ (if live.isEmpty then "-" else " ".intercalate live)]

/-- the hypotheses of the fixpoint theorems (NjectProps/C15b.lean), evaluated on the model's own state
    before the final validation -/
def runDepsCheck (a : CaseAcc) : List String :=
  let order4 := if hasReorder a && !a.s4.isEmpty then some (a.s4.reverse.map (·.id)) else none
  let cannot4 := (a.s4.filter (·.gaveUp)).map (·.id)
  match editAll a.enodes.reverse with
  | .error _ => []
  | .ok order =>
    let provs := order.filterMap fun n => a.pdescs.find? (·.idx == n.idx)
    match assemble provs a.invSig a.initSig with
    | none => []
    | some asm0 =>
      let funcs? := match order4 with
        | none => some asm0.funcs
        | some o => permuteTo asm0.funcs o
      match funcs? with
      | none => []
      | some funcs =>
        match inclusionBeforeFinal stdTyInfo funcs cannot4 with
        | .error _ => []
        | .ok pre => [s!"m5deps sym={if depsSymB pre then "ok" else "bad"} prov={if provOKB pre then "ok" else "bad"}"]

def runBindModel (a : CaseAcc) : List String :=
  let order4 := if hasReorder a && !a.s4.isEmpty then some (a.s4.reverse.map (·.id)) else none
  let cannot4 := (a.s4.filter (·.gaveUp)).map (·.id)
  match bindModel stdTyInfo a.enodes.reverse a.pdescs a.invSig a.initSig order4 cannot4 with
  | .error e => ["m5 err " ++ fmtBindErr e]
  | .ok bo =>
    let fl := bo.chain.map fun f =>
      s!"{f.c.id}:{if f.inc then 1 else 0}:{fmtRm f.downRmap}:{fmtRm f.upRmap}:{fmtRm f.bypassRmap}:{if f.wanted then 1 else 0}"
    let zl := bo.chain.filterMap fun f =>
      if !f.inc then none else
      let zs := sortNat (dedup ((bo.slots.zskip.lookup f.pos).getD []))
      let zi := sortNat (dedup ((bo.slots.zinner.lookup f.pos).getD []))
      some s!"{f.c.id}:{fmtTys zs}:{fmtTys zi}"
    -- the dependency lists after the final flow computation, as provider ids
    let idAt := fun (p : Nat) => (bo.chain.get p).c.id
    let fmtIds := fun (l : List Nat) => if l.isEmpty then "-" else ",".intercalate (l.map fun p => toString (idAt p))
    let ul := bo.chain.map fun f => s!"{f.c.id}:{fmtIds f.uses}:{fmtIds f.usedBy}"
    -- the same relation per flow (0 returns, 1 outputs, 2 inputs, 3 received, 4 bypass) and per requested type
    let fmtDet := fun (flow : Nat) (m : List (Ty × List Nat)) =>
      (m.filter (fun e => !e.2.isEmpty)).map fun e => (flow, e.1, s!"{flow}/{e.1}>{fmtIds e.2}")
    let sortDet := fun (l : List (Nat × Nat × String)) =>
      (l.toArray.qsort (fun a b => a.1 < b.1 || (a.1 == b.1 && a.2.1 < b.2.1))).toList.map (·.2.2)
    let joinDet := fun (l : List String) => if l.isEmpty then "-" else ";".intercalate l
    let dl := bo.chain.map fun f =>
      let ud := sortDet (fmtDet 2 f.usesIn ++ fmtDet 3 f.usesRecv ++ fmtDet 4 f.usesByp)
      let ubd := sortDet (fmtDet 1 f.usedByOut ++ fmtDet 0 f.usedByRet)
      s!"{f.c.id}:{joinDet ud}:{joinDet ubd}"
    [ "m5 ok " ++ " ".intercalate fl,
      "m5u " ++ " ".intercalate ul,
      "m5d " ++ " ".intercalate dl,
      s!"m6 vcount={bo.slots.st.count} d={fmtTys (sortNat (bo.slots.st.dmap.map (·.1)))} u={fmtTys (sortNat (bo.slots.st.umap.map (·.1)))} z " ++ " ".intercalate zl ]

def classOfStr (s : String) : ClassT :=
  if s == "fallible-injector" then .fallibleInjectorFunc else if s == "fallible-static-injector" then .fallibleStaticInjectorFunc
  else if s == "injector" then .injectorFunc else if s == "wrapper-func" then .wrapperFunc else if s == "final-func" then .finalFunc
  else if s == "static-injector" then .staticInjectorFunc else if s == "literal-value" then .literalValue
  else if s == "init-func" then .initFunc else if s == "invoke-func" then .invokeFunc else .unsetClassType

def groupOfStr (s : String) : GroupT :=
  if s == "literal" then .literalGroup else if s == "static" then .staticGroup else if s == "run" then .runGroup
  else if s == "final" then .finalGroup else .invokeGroup

/-- the implementation's bound chain (S7 dump + the providers' annotations) as a model `Chain` -/
def dumpChain (a : CaseAcc) : Chain :=
  let fs := a.flines.reverse
  (fs.zip (List.range fs.length)).map fun (f, i) =>
    let d := a.pdescs.find? (·.idx == f.id)
    let c : CP :=
      { id := f.id, cls := classOfStr f.cls, group := groupOfStr f.group,
        ret := f.ret, out := f.out, inp := f.inp, recv := f.recv, byp := f.byp,
        required := f.required, desired := f.desired, shun := f.shun, synthetic := f.synthetic,
        loose := (d.map (·.loose)).getD [], mustConsume := (d.map (·.mustConsume)).getD [],
        consOpt := if f.id == 901 || f.id == 902 then [tUnused] else (d.map (·.consOpt)).getD [],
        shadowOK := (d.map (·.shadowOK)).getD [], cluster := (d.map (·.cluster)).getD 0 }
    { c := c, pos := i, inc := f.inc, wanted := f.wanted, downRmap := f.drm, upRmap := f.urm, bypassRmap := f.brm }

def idsOrDash (l : List Nat) : String := if l.isEmpty then "-" else ",".intercalate (l.map toString)

/-- validators on the implementation's own bound chain -/
def runValidators (a : CaseAcc) : List String :=
  let ch := dumpChain a
  let okf (b : Bool) : String := if b then "ok" else "fail"
  [ "v5 consumed " ++ okf (returnsConsumedB ch),
    "v5 required " ++ okf (requiredIncludedB ch),
    "v5 shadow " ++ okf (checkShadowing ch),
    s!"v5 unjustified {idsOrDash (unjustifiedSplit ch).1}",
    s!"v5 unjustified_f5 {idsOrDash (unjustifiedSplit ch).2}",
    s!"v5 mustconsume {idsOrDash (mustConsumeOKB ch)}",
    s!"v5 mctaken {idsOrDash (mustConsumeTakenB ch)}",
    s!"v5 loose {idsOrDash (looseOKB ch)}",
    s!"v5 loose_f5 {idsOrDash (looseF5B ch)}" ]

/-- run all ops through Exec and Spec; returns output lines -/
def runCase (a : CaseAcc) : List String :=
  if !a.bindOk then [s!"case {a.n}", runEdit a] ++ runAssemble a ++ runReorderCheck a ++ runReorderModel a ++ runBindModel a ++ runDepsCheck a ++ ["skip nobind", "end"] else
  match mkCompiled a.vcount a.flines.reverse a.dv a.uv with
  | none => [s!"case {a.n}", runEdit a] ++ runAssemble a ++ runReorderCheck a ++ runReorderModel a ++ runBindModel a ++ runDepsCheck a ++ ["skip nodump", "end"]
  | some c =>
    let b := mkBeh a.scripts
    let wf := match checkWF c with
      | none => "wf ok"
      | some r => s!"wf fail {r}"
    let sup := if checkSupply c then "supply ok" else "supply fail"
    -- Exec
    let (xl, _) := a.ops.reverse.foldl (fun (acc : List String × Bound) op =>
      let (ls, s) := acc
      let before := s.st.trace.length
      let (res, s') := if op.1 == "init" then c.execInit b s op.2 else c.execInvoke b s op.2
      let evs := (s'.st.trace.drop before).filterMap fmtEv
      (ls ++ evs.map ("x " ++ ·) ++ [s!"x ret {fmtVals res}"], s')) ([], c.bindState)
    let (sl, _) := a.ops.reverse.foldl (fun (acc : List String × SBound) op =>
      let (ls, s) := acc
      let before := s.st.trace.length
      let (res, s') := if op.1 == "init" then c.specInit b s op.2 else c.specInvoke b s op.2
      let evs := (s'.st.trace.drop before).filterMap fmtEv
      (ls ++ evs.map ("s " ++ ·) ++ [s!"s ret {fmtVals res}"], s')) ([], c.specBindState)
    let (fl, fnode) := (buildProg c.run c.fin).flatten
    let prog := if fl.map (·.id) == c.run.map (·.id) && fnode.id == c.fin.id then "prog ok" else "prog fail"
    [s!"case {a.n}", runEdit a] ++ runAssemble a ++ runReorderCheck a ++ runReorderModel a ++ runBindModel a ++ runDepsCheck a ++ runValidators a ++ [wf, sup, prog] ++ xl ++ sl ++ ["end"]


/-! ### C20 helper records -/

def runCurryLine (toks : List String) : String :=
  let i := toks.getD 1 "?"
  let o := fieldNats toks "o"
  let n := fieldNats toks "n"
  match curryModel (fun _ => false) o (fieldNats toks "oo") n (fieldNats toks "no") with
  | none => s!"mcurry {i} err"
  | some m =>
    let args := (List.range n.length).map fun j => s!"a{j}"
    let res := curriedCall m o.length args (m.curried.map fun _ => "c")
    let src := ",".intercalate (res.map fun | some x => x | none => "INVALID")
    s!"mcurry {i} ok src={src} curried={fmtTys m.curried}"

def tagOfStr (s : String) : FTag :=
  if s == "skip" || s == "-" then .skip else if s == "nofill" then .nofill else if s == "fill" then .fill
  else if s == "whole" || s == "blob" then .whole else if s == "fields" then .fields else .unknown

mutual
/-- desc := NAT | '(' NAT '|' field (';' field)* ')' ;  field := ('X'|'x') ':' tags ':' desc -/
partial def parseFDesc (cs : List Char) : Option (FDesc × List Char) :=
  match cs with
  | '(' :: rest =>
    let (num, rest) := rest.span Char.isDigit
    match rest with
    | '|' :: rest =>
      match parseFFields rest with
      | some (fs, ')' :: rest) => some (.struct (String.ofList num).toNat! fs, rest)
      | _ => none
    | _ => none
  | _ =>
    let (num, rest) := cs.span Char.isDigit
    if num.isEmpty then none else some (.leaf (String.ofList num).toNat!, rest)
partial def parseFFields (cs : List Char) : Option (FFields × List Char) :=
  match cs with
  | ')' :: _ => some (.nil, cs)
  | ';' :: rest => parseFFields rest
  | e :: ':' :: rest =>
    let (tagS, rest) := rest.span (· != ':')
    match rest with
    | ':' :: rest =>
      match parseFDesc rest with
      | some (d, rest) =>
        match parseFFields rest with
        | some (fs, rest) =>
          let tags := if String.ofList tagS == "none" then [] else ((String.ofList tagS).splitOn "+").map tagOfStr
          some (.cons (e == 'X') tags d fs, rest)
        | none => none
      | none => none
    | _ => none
  | _ => none
end

def fmtPath (p : Path) : String := ".".intercalate (p.map toString)

def runFillerLine (toks : List String) : String :=
  let i := toks.getD 1 "?"
  match parseFDesc (field toks "s").toList with
  | some (d, []) =>
    let supply : Ty → Nat := fun t => if t ≥ 100 || t == 44 then 77 else 1000 + t
    let existing := fieldNat toks "ex" == 1
    match d.inputs [], (if existing then fillerFieldsExisting d supply 55 else fillerFields d supply) with
    | some ins, some fl =>
      let f := ",".intercalate (fl.map fun pv => s!"{fmtPath pv.1}={pv.2}")
      -- with FillExisting the first input is the struct (pointer) itself: code 98
      s!"mfiller {i} ok inputs={fmtTys ((if existing then [98] else []) ++ ins.map (·.2))} fields={if f.isEmpty then "-" else f}"
    | _, _ => s!"mfiller {i} err"
  | _ => s!"mfiller {i} parse-error"

def runSaveToLine (toks : List String) : String :=
  let i := toks.getD 1 "?"
  let ts := fieldNats toks "types"
  let st := saveToCall ts.length (ts.map fun t => 1000 + t)
  let f := ",".intercalate (st.map fun | some v => toString v | none => "unset")
  s!"msaveto {i} ok stored={f}"


/-! ### post-actions -/

def parsePTag (s : String) : PTag :=
  if s == "skip" || s == "-" then .skip else if s == "nofill" then .nofill else if s == "fill" then .fill
  else if s.startsWith "pa" then .custom ((s.drop 2).toString.toNat?.getD 0) else .unknown

def parsePFields (s : String) : List PField :=
  if s == "-" || s == "" then [] else
  (s.splitOn ";").map fun f =>
    match f.splitOn ":" with
    | [e, t, tags] => { exported := e == "X", ty := t.toNat?.getD 0,
                        tags := if tags == "none" then [] else (tags.splitOn "+").map parsePTag }
    | _ => { exported := false, ty := 0, tags := [] }

def parseFn (s : String) : FnKind :=
  if s == "anyval" then .anyval else if s == "anyopen" then .anyopen
  else if s.startsWith "anyopenx" then .anyopenX ((s.drop 8).toString.toNat?.getD 0)
  else if s.startsWith "ptr" then .ptr ((s.drop 3).toString.toNat?.getD 0)
  else .val ((s.drop 3).toString.toNat?.getD 0)

def parsePAOpts (s : String) : List (Nat × PAOpt) :=
  if s == "-" || s == "" then [] else
  (s.splitOn ",").filterMap fun e =>
    match e.splitOn "/" with
    | [k, fn, fl] => some (k.toNat?.getD 0, { fn := parseFn fn, fillSet := fl != "-", fill := fl == "t" })
    | _ => none

def runPostActLine (toks : List String) : String :=
  let i := toks.getD 1 "?"
  let fields := parsePFields (field toks "fields")
  let opts : PAOptions := { byTag := parsePAOpts (field toks "bytag"), byName := parsePAOpts (field toks "byname"),
                            byType := (parsePAOpts (field toks "bytype")).map (·.2), pointerModel := fieldNat toks "ptr" == 1 }
  match paPlan opts fields with
  | none => s!"mpostact {i} err"
  | some plan =>
    let (log, final) := paRun plan fields (fun t => 1000 + t) (fun t => 5000 + t)
    let kindS := fun (k : PAKind) => match k with | .tag => "tag" | .name => "name" | .type => "type"
    let acts := ",".intercalate (log.map fun (a, seen) => s!"{kindS a.kind}:{a.ty}:{if a.ptr then "p" else "v"}:{seen}")
    let exportedFinal := (fields.zip final).filterMap fun (f, v) => if f.exported then some (toString v) else none
    let extras := plan.acts.filterMap (·.extra)
    s!"mpostact {i} ok inputs={fmtTys (sortNat (dedup (((fields.zip plan.filled).filterMap fun (f, b) => if b then some f.ty else none) ++ extras)))} acts={if acts.isEmpty then "-" else acts} final={if exportedFinal.isEmpty then "-" else ",".intercalate exportedFinal}"

def runCondenseFlows (a : CaseAcc) : String :=
  match condenseFlows stdTyInfo a.pdescs.reverse with
  | none => s!"mflows {a.n} none"
  | some f => s!"mflows {a.n} in={fmtTys f.downIn} out={fmtTys f.upOut} true={fmtTys f.upOut} upnet={fmtTys f.upNet}"

def stepLine (a : CaseAcc) (line : String) : CaseAcc × List String :=
  let toks := (line.splitOn " ").filter (· != "")
  match toks with
  | "case" :: n :: _ => ({ n := n }, [])
  | "p" :: _ => ({ a with scripts := parseScript toks :: a.scripts, pdescs := parsePDesc toks :: a.pdescs }, [])
  | "invoke" :: _ => ({ a with invSig := ⟨fieldNats toks "in", fieldNats toks "out"⟩ }, [])
  | "init" :: "none" :: _ => ({ a with initSig := none }, [])
  | "init" :: _ => ({ a with initSig := some ⟨fieldNats toks "in", fieldNats toks "out"⟩ }, [])
  | "e" :: i :: _ =>
    ({ a with enodes := { idx := i.toNat?.getD 0, origin := fieldNat toks "origin", rep := fieldNat toks "rep",
                          bef := fieldNat toks "bef", aft := fieldNat toks "aft",
                          nonFinal := fieldNat toks "nf" == 1, gen := fieldNat toks "gen" == 1,
                          inf := fieldNat toks "inf" == 1 } :: a.enodes }, [])
  | "dump" :: stage :: _ =>
    if stage == "S7" then ({ a with inS7 := true, stage := stage, flines := [], vcount := fieldNat toks "vcount" }, [])
    else if stage == "S3" then ({ a with inS7 := false, stage := stage, s3 := [] }, [])
    else if stage == "S4" then ({ a with inS7 := false, stage := stage, s4 := [] }, [])
    else ({ a with inS7 := false, stage := stage }, [])
  | "f" :: _ =>
    if a.inS7 then ({ a with flines := parseF toks :: a.flines }, [])
    else if a.stage == "S3" then ({ a with s3 := parseF toks :: a.s3 }, [])
    else if a.stage == "S4" then ({ a with s4 := parseF toks :: a.s4 }, [])
    else (a, [])
  | ["dv", s] => ({ a with dv := parseVmap s }, [])
  | ["uv", s] => ({ a with uv := parseVmap s }, [])
  | "bind" :: "ok" :: _ => ({ a with bindOk := true }, [])
  | "op" :: kind :: vals :: _ => ({ a with ops := (kind, parseVals vals) :: a.ops }, [])
  | "end" :: _ => ({}, runCase a)
  | "cflows" :: _ => (a, [runCondenseFlows a])
  | "postact" :: _ => (a, [runPostActLine toks])
  | "curry" :: _ => (a, [runCurryLine toks])
  | "filler" :: _ => (a, [runFillerLine toks])
  | "saveto" :: _ => (a, [runSaveToLine toks])
  | _ => (a, [])

partial def loop (h : IO.FS.Stream) (a : CaseAcc) : IO Unit := do
  let line ← h.getLine
  if line.isEmpty then return ()
  let line := (line.dropEndWhile (fun c => c == '\n' || c == '\r')).toString
  let (a', out) := stepLine a line
  for l in out do IO.println l
  loop h a'

def main : IO Unit := do
  loop (← IO.getStdin) {}

end Nject.Driver
