import Nject.Pipeline
/-
  S5: which providers are included (include.go `computeDependenciesAndInclusion`, match.go
  `bestMatch`), as a functional transcription over a list indexed by chain position.
-/
namespace Nject

/-- what the harness type universe knows about a type (match.go scoring) -/
structure TyInfo where
  isIface : Ty → Bool
  implements : Ty → Ty → Bool     -- concrete → interface
  numMethods : Ty → Nat

def stdTyInfo : TyInfo :=
  { isIface := fun t => t == 10 || t == 11 || t == 12 || t == 20 || t == 21
    implements := fun c i =>
      (i == 10 && (c == 5 || c == 6 || c == 12)) || (i == 11 && (c == 6 || c == 7 || c == 12)) || (i == 12 && c == 6)
      -- error / TerminalError are interfaces with the same method set: each implements the other
      || (i == 20 && c == 21) || (i == 21 && c == 20)
    numMethods := fun t => if t == 5 || t == 7 || t == 10 || t == 11 || t == 20 || t == 21 then 1 else if t == 6 || t == 12 then 2 else 0 }

/-- per-provider working data (`provider` + `includeWorkingData`) -/
structure IP where
  c : CP
  pos : Nat := 0
  cannot : Bool := false
  inc : Bool := false
  excluded : Bool := false
  wanted : Bool := false
  wantedInCluster : Bool := false
  mcOut : Bool := false
  mcRet : Bool := false
  downRmap : List (Ty × Ty) := []
  upRmap : List (Ty × Ty) := []
  bypassRmap : List (Ty × Ty) := []
  usesIn : List (Ty × List Nat) := []
  usesRecv : List (Ty × List Nat) := []
  usesByp : List (Ty × List Nat) := []
  errIn : List Ty := []
  errRecv : List Ty := []
  errByp : List Ty := []
  uses : List Nat := []
  usedBy : List Nat := []
  usedByOut : List (Ty × List Nat) := []
  usedByRet : List (Ty × List Nat) := []
  clusterMembers : Option (List Nat) := none
deriving Repr, Inhabited

abbrev Chain := List IP

def Chain.get (ch : Chain) (i : Nat) : IP := ch.getD i default
def Chain.upd (ch : Chain) (i : Nat) (f : IP → IP) : Chain := ch.set i (f (ch.get i))

/-- assoc-list update: set key -/
def setKey (m : List (Ty × Ty)) (k v : Ty) : List (Ty × Ty) :=
  if m.any (·.1 == k) then m.map fun p => if p.1 == k then (k, v) else p else m ++ [(k, v)]

def appendAt (m : List (Ty × List Nat)) (k : Ty) (v : Nat) : List (Ty × List Nat) :=
  if m.any (·.1 == k) then m.map fun p => if p.1 == k then (k, p.2 ++ [v]) else p else m ++ [(k, [v])]

/-- `interfaceMap`: type ↦ (layer of its first provider, providers in order) -/
abbrev IMap := List (Ty × Nat × List Nat)

def IMap.add (m : IMap) (t : Ty) (layer : Nat) (p : Nat) : IMap :=
  if m.any (·.1 == t) then m.map fun e => if e.1 == t then (t, e.2.1, e.2.2 ++ [p]) else e
  else m ++ [(t, layer, [p])]

/-- lexicographic `aGreaterBInts` on equal-length score lists -/
def scoreGE : List Nat → List Nat → Bool
  | a :: as, b :: bs => if a > b then true else if a < b then false else scoreGE as bs
  | _, _ => true

/-- match.go `bestMatch`: `(found type, dependsOn)` or `none` -/
def bestMatch (ti : TyInfo) (loose : Nat → List Ty) (m : IMap) (want : Ty) : Option (Ty × List Nat) :=
  match m.find? (·.1 == want) with
  | some e => some (want, e.2.2)
  | none =>
    if !ti.isIface want then none else
    let cands := m.filter fun e => ti.implements e.1 want
    -- highest (layer, samePkg = 1, numMethods, typeCode); the harness universe has no ties before typeCode
    let best := cands.foldl (fun (b : Option (Ty × Nat × List Nat)) e =>
      match b with
      | none => some e
      | some be =>
        if scoreGE [e.2.1, ti.numMethods e.1, e.1] [be.2.1, ti.numMethods be.1, be.1] then some e else some be) none
    match best with
    | none => none
    | some be =>
      let ls := be.2.2.filter fun p => (loose p).contains want
      if ls.isEmpty then none else some (be.1, ls)

inductive Param where
  | inp | recv | byp
deriving DecidableEq, Repr

/-- `requireParameters` for provider `i` -/
def requireParams (ti : TyInfo) (ch : Chain) (i : Nat) (avail : IMap) (param : Param) : Chain :=
  let fm := ch.get i
  let flow := match param with | .inp => fm.c.inp | .recv => fm.c.recv | .byp => fm.c.byp
  let isDown := param != .recv
  -- reset
  let ch := ch.upd i fun f => match param with
    | .inp => { f with usesIn := [], errIn := [] }
    | .recv => { f with usesRecv := [], errRecv := [] }
    | .byp => { f with usesByp := [], errByp := [] }
  (flow.filter (· != tNoType)).foldl (fun ch t =>
    match bestMatch ti (fun p => (ch.get p).c.loose) avail t with
    | none => ch.upd i fun f => match param with
        | .inp => { f with errIn := f.errIn ++ [t] }
        | .recv => { f with errRecv := f.errRecv ++ [t] }
        | .byp => { f with errByp := f.errByp ++ [t] }
    | some (found, deps) =>
      let ch := ch.upd i fun f => match param with
        | .inp => { f with downRmap := setKey f.downRmap t found }
        | .recv => { f with upRmap := setKey f.upRmap t found }
        | .byp => { f with bypassRmap := setKey f.bypassRmap t found }
      deps.foldl (fun ch d =>
        let ch := ch.upd i fun f => match param with
          | .inp => { f with usesIn := appendAt f.usesIn t d, uses := f.uses ++ [d] }
          | .recv => { f with usesRecv := appendAt f.usesRecv t d, uses := f.uses ++ [d] }
          | .byp => { f with usesByp := appendAt f.usesByp t d, uses := f.uses ++ [d] }
        let ch := ch.upd d fun g =>
          if isDown then { g with usedBy := g.usedBy ++ [i], usedByOut := appendAt g.usedByOut t i }
          else { g with usedBy := g.usedBy ++ [i], usedByRet := appendAt g.usedByRet t i }
        let dmc := if isDown then (ch.get d).mcOut else (ch.get d).mcRet
        if dmc then ch.upd i fun f => { f with usedBy := f.usedBy ++ [d] } else ch) ch) ch

def provideParams (ch : Chain) (i : Nat) (avail : IMap) (down : Bool) (layer : Nat) : Chain × IMap :=
  let fm := ch.get i
  let ch := ch.upd i fun f => if down then { f with usedByOut := [] } else { f with usedByRet := [] }
  let flow := if down then fm.c.out else fm.c.ret
  -- (an `Unused` is on offer only from the automatic providers, invoke and init: include.go provideParameters)
  (ch, (flow.filter (fun t => t != tNoType && (t != tUnused || fm.c.synthetic))).foldl (fun m t => m.add t layer i) avail)

/-- `providesReturns` -/
def providesReturns (ti : TyInfo) (ch : Chain) (initPos : Option Nat) : Chain :=
  let n := ch.length
  let ch := ch.map fun f => { f with usedByOut := [], usedByRet := [], usesIn := [], usesRecv := [], usesByp := [],
                                       uses := [], errIn := [], errRecv := [], errByp := [], usedBy := [] }
  let (ch, _) := (List.range n).foldl (fun (acc : Chain × IMap) i =>
    let (ch, avail) := acc
    if (ch.get i).cannot then acc else
    let ch :=
      match initPos with
      | some ip =>
        if (ch.get i).c.cls == .invokeFunc then
          requireParams ti (ch.upd ip fun f => { f with bypassRmap := [] }) ip avail .byp
        else ch
      | none => ch
    let ch := requireParams ti ch i avail .inp
    provideParams ch i avail true (i + 2)) (ch, ([] : IMap))
  let (ch, _) := (List.range n).reverse.foldl (fun (acc : Chain × IMap) i =>
    let (ch, avail) := acc
    if (ch.get i).cannot then acc else
    let ch := requireParams ti ch i avail .recv
    provideParams ch i avail false (n - i + 2)) (ch, ([] : IMap))
  ch

inductive IncErr where
  | required | wanted | internal | fuel
deriving DecidableEq, Repr, Inhabited

/-- does provider `fm` still have what it needs among the currently included providers? -/
def localCheck (ch : Chain) (fm : IP) : Bool :=
  fm.errIn.isEmpty && fm.errRecv.isEmpty && fm.errByp.isEmpty
  && (fm.usesIn ++ fm.usesRecv ++ fm.usesByp).all (fun e => e.2.any fun p => (ch.get p).inc)
  && (!fm.mcOut || fm.c.out.all fun t =>
        !fm.c.mustConsume.contains t || t == tUnused ||
        ((fm.usedByOut.lookup t).getD []).any fun p => (ch.get p).inc)
  && (!fm.mcRet || fm.c.ret.all fun t =>
        fm.c.consOpt.contains t || t == tUnused ||
        ((fm.usedByRet.lookup t).getD []).any fun p => (ch.get p).inc)

/-- one pass of the `checkFlows` worklist over `todo`; returns the new chain and the redo list -/
def checkPass (canRemoveDesired : Bool) :
    List Nat → Chain → List Nat → List Nat → Except IncErr (Chain × List Nat)
  | [], ch, _, redo => .ok (ch, redo)
  | i :: todo, ch, seen, redo =>
    if seen.contains i then checkPass canRemoveDesired todo ch seen redo else
    let seen := i :: seen
    let fm := ch.get i
    if fm.cannot then
      if fm.c.required then .error .required
      else if (fm.wanted || fm.c.desired) && !canRemoveDesired && !fm.excluded then .error .wanted
      else if fm.inc then
        checkPass canRemoveDesired todo (ch.upd i fun f => { f with inc := false }) seen (redo ++ fm.usedBy)
      else checkPass canRemoveDesired todo ch seen redo
    else if localCheck ch fm then checkPass canRemoveDesired todo ch seen redo
    else checkPass canRemoveDesired todo (ch.upd i fun f => { f with cannot := true }) seen (redo ++ [i])

def checkFlows (canRemoveDesired : Bool) : Nat → List Nat → Chain → Except IncErr Chain
  | 0, _, _ => .error .fuel
  | fuel + 1, todo, ch =>
    if todo.isEmpty then .ok ch else
    match checkPass canRemoveDesired todo ch [] [] with
    | .error e => .error e
    | .ok (ch, redo) => checkFlows canRemoveDesired fuel redo ch

/-- first loop of `validateChainMarkIncludeExclude`: everything not excluded is assumed included -/
def markAll : List Nat → Chain → List Nat → Except IncErr (Chain × List Nat)
  | [], ch, rem => .ok (ch, rem)
  | i :: rest, ch, rem =>
    if !(ch.get i).excluded then markAll rest (ch.upd i fun f => { f with inc := true, cannot := false }) (rem ++ [i])
    else if (ch.get i).c.required then .error .required
    else markAll rest (ch.upd i fun f => { f with cannot := true, inc := false }) rem

/-- `validateChainMarkIncludeExclude` -/
def validate (canRemoveDesired : Bool) (ch : Chain) : Except IncErr Chain :=
  match markAll (List.range ch.length) ch [] with
  | .error e => .error e
  | .ok (ch, rem) => checkFlows canRemoveDesired (4 * ch.length * ch.length + 8) rem ch

/-- `eliminateUnused` -/
def eliminateUnused : Nat → List Nat → Chain → Chain
  | 0, _, ch => ch
  | _, [], ch => ch
  | fuel + 1, i :: check, ch =>
    let fm := ch.get i
    if fm.c.required || fm.c.desired || fm.wanted || !fm.inc || fm.excluded || fm.c.cluster != 0 then
      eliminateUnused fuel check ch
    else if fm.usedBy.any fun d => (ch.get d).inc then eliminateUnused fuel check ch
    else
      eliminateUnused fuel (check ++ fm.uses)
        (ch.upd i fun f => { f with inc := false, cannot := true, excluded := true })

/-- keep-closure of one direction of `proposeEliminations` -/
def keepClosure (ch : Chain) (down : Bool) : Nat → List Nat → List Nat → List Nat
  | 0, _, keep => keep
  | _, [], keep => keep
  | fuel + 1, i :: toKeep, keep =>
    if keep.contains i then keepClosure ch down fuel toKeep keep else
    let fm := ch.get i
    let srcs := if down then fm.usesIn ++ fm.usesByp else fm.usesRecv
    let next := srcs.filterMap fun e =>
      let deps := e.2.filter fun d => !(ch.get d).cannot && !(ch.get d).excluded
      if down then deps.getLast? else deps.head?
    keepClosure ch down fuel (toKeep ++ next.filter fun k => !(i :: keep).contains k) (i :: keep)

def proposeEliminations (ch : Chain) : List Nat :=
  let n := ch.length
  let seeds := (List.range n).filter fun i =>
    let fm := ch.get i
    !fm.excluded && (fm.c.required || fm.c.desired || (fm.wanted && !fm.wantedInCluster))
  -- (fuel: one step per entry of the work list, which starts with the seeds and grows by at most one entry per
  --  requested type of a provider when that provider is first kept; proved sufficient in `NjectProofs/IncludeTerm2.lean`)
  let fuel := n + (ch.map fun f => (f.usesIn ++ f.usesByp).length + f.usesRecv.length).sum + 8
  let kept := keepClosure ch true fuel seeds [] ++ keepClosure ch false fuel seeds []
  ((List.range n).filter fun i => (ch.get i).c.shun)
  ++ ((List.range n).filter fun i => !kept.contains i && !(ch.get i).c.shun)

/-- `tryWithout` -/
def tryWithout (ch : Chain) (without : List Nat) : Chain :=
  match without with
  | [w] =>
    if (ch.get w).wanted && (ch.get w).wantedInCluster then ch else
    let ch1 := ch.upd w fun f => { f with excluded := true }
    match validate false ch1 with
    | .ok ch2 => ch2
    | .error _ => -- state as left by the failed validation is overwritten by the next one; restore the flag
      ch1.upd w fun f => { f with excluded := false }
  | _ =>
    let ch1 := without.foldl (fun ch w => ch.upd w fun f =>
      { f with excluded := true, wanted := if f.wantedInCluster then false else f.wanted }) ch
    let restore (c : Chain) (ok : Bool) : Chain := without.foldl (fun c w => c.upd w fun f =>
      { f with excluded := ok, wanted := if f.wantedInCluster then true else f.wanted }) c
    match validate false ch1 with
    | .ok ch2 => restore ch2 true
    | .error _ => restore ch1 false

def initState (funcs : List CP) (cannot0 : List Nat := []) : Chain :=
  (funcs.zip (List.range funcs.length)).map fun (c, i) =>
    let autoDesired := !c.required && !c.desired && c.cls != .finalFunc && (stripUnusedT c.out).isEmpty
    { c := c, pos := i, inc := c.required, cannot := cannot0.contains c.id,
      mcOut := c.hasMustConsume, mcRet := true,
      wanted := autoDesired, wantedInCluster := autoDesired && c.cluster != 0 }

/-- cluster leaders -/
def clusters (ch : Chain) : Chain :=
  (List.range ch.length).foldl (fun (acc : Chain × List (Nat × Nat)) i =>
    let (ch, leaders) := acc
    let fm := ch.get i
    if fm.c.cluster == 0 || fm.excluded then acc else
    let (ch, leaders) :=
      match leaders.lookup fm.c.cluster with
      | some l => ((ch.upd l fun f => { f with clusterMembers := some ((f.clusterMembers.getD []) ++ [i]) }).upd i
                    (fun f => { f with clusterMembers := none }), leaders)
      | none => (ch.upd i fun f => { f with clusterMembers := some [i] }, leaders ++ [(fm.c.cluster, i)])
    let ch := if !fm.c.required && !fm.c.desired && fm.wanted then ch.upd i fun f => { f with wantedInCluster := true } else ch
    (ch, leaders)) (ch, ([] : List (Nat × Nat))) |>.1

/-- one round: try to eliminate every proposed provider -/
def proposalRound (ch : Chain) : Chain :=
  (proposeEliminations ch).foldl (fun ch i =>
    let fm := ch.get i
    if fm.excluded then ch
    else if fm.c.cluster != 0 then
      match fm.clusterMembers with
      | some ms => tryWithout ch ms
      | none => ch
    else tryWithout ch [i]) ch

def countExcluded (ch : Chain) : Nat := (ch.filter (·.excluded)).length

/-- repeat the round until nothing more is eliminated -/
def proposalLoop : Nat → Chain → Chain
  | 0, ch => ch
  | fuel + 1, ch =>
    let ch' := proposalRound ch
    if countExcluded ch' == countExcluded ch then ch' else proposalLoop fuel ch'

/-- position of the init function in the list, if there is one -/
def initPosOf (funcs : List CP) : Option Nat :=
  (funcs.zip (List.range funcs.length)).findSome? fun (c, i) => if c.cls == .initFunc then some i else none

/-- include.go:78-137: first flow computation and validation with nothing excluded -/
def firstValidation (ti : TyInfo) (funcs : List CP) (cannot0 : List Nat := []) : Except IncErr Chain :=
  validate true (providesReturns ti (initState funcs cannot0) (initPosOf funcs))

/-- include.go:139-192: drop what cannot be included, clusters, unused providers, trial eliminations -/
def pruneStages (ch : Chain) : Chain :=
  let ch := ch.map fun f => if f.cannot then { f with excluded := true, inc := false } else f
  let ch := clusters ch
  let n := ch.length
  -- (fuel: one step per entry of the work list, which grows by a provider's `uses` when it is eliminated --
  --  at most once each; proved sufficient in `NjectProofs/IncludeTerm.lean`)
  let ch := eliminateUnused (n + (ch.map (·.uses.length)).sum + 8) (List.range n) ch
  let ch := proposalLoop (n + 1) ch
  ch.map fun f => { f with cannot := f.excluded }

/-- `computeDependenciesAndInclusion` (after reorder) up to the final recomputation of the flows
    over the survivors (include.go:194-212); what is left is the final validation -/
def inclusionBeforeFinal (ti : TyInfo) (funcs : List CP) (cannot0 : List Nat := []) : Except IncErr Chain :=
  match firstValidation ti funcs cannot0 with
  | .error e => .error e
  | .ok ch => .ok (providesReturns ti (pruneStages ch) (initPosOf funcs))

/-- `computeDependenciesAndInclusion` (after reorder) -/
def computeInclusion (ti : TyInfo) (funcs : List CP) (cannot0 : List Nat := []) : Except IncErr Chain :=
  match inclusionBeforeFinal ti funcs cannot0 with
  | .error e => .error e
  | .ok ch =>
    match validate true ch with
    | .error _ => .error .internal
    | .ok ch => .ok ch

end Nject
