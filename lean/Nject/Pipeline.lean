import Nject.Classify
import Nject.Edit
import Nject.Chain
/-
  S2/S3: `characterizeAndFlatten` (nject.go) and the assembly of `funcs` in `doBind`
  (bind.go:13-95), from the user-level description of the providers.
-/
namespace Nject
open Gen

def tNoType : Ty := 30
def tError : Ty := 20
def tTerminal : Ty := 21
def tUnused : Ty := 22
def tDebug : Ty := 23

inductive PKind where
  | lit | func | wrap
deriving DecidableEq, Repr, Inhabited

/-- a user-supplied provider as the harness describes it -/
structure PDesc where
  idx : Nat
  kind : PKind := .func
  ins : List Ty := []
  outs : List Ty := []
  iin : List Ty := []
  iout : List Ty := []
  required : Bool := false
  desired : Bool := false
  shun : Bool := false
  cacheable : Bool := false
  mustCache : Bool := false
  notCacheable : Bool := false
  memoize : Bool := false
  singleton : Bool := false
  nonFinal : Bool := false
  reorder : Bool := false
  parallel : Bool := false
  refl : Bool := false
  loose : List Ty := []
  mustConsume : List Ty := []
  consOpt : List Ty := []
  shadowOK : List Ty := []
  cluster : Nat := 0
deriving Repr, Inhabited

/-- a characterised provider (the fields of `provider` the later stages read) -/
structure CP where
  id : Nat
  cls : ClassT
  group : GroupT
  ret : List Ty := []
  out : List Ty := []
  inp : List Ty := []
  recv : List Ty := []
  byp : List Ty := []
  required : Bool := false
  desired : Bool := false
  shun : Bool := false
  reorder : Bool := false
  nonFinal : Bool := false
  memoized : Bool := false
  parallel : Bool := false
  singleton : Bool := false
  synthetic : Bool := false
  loose : List Ty := []
  mustConsume : List Ty := []
  hasMustConsume : Bool := false
  consOpt : List Ty := []
  hasConsOpt : Bool := false
  shadowOK : List Ty := []
  cluster : Nat := 0
deriving Repr, Inhabited

def stripUnusedT (l : List Ty) : List Ty := l.filter (· != tUnused)

/-- the predicate context of a provider at a position -/
def mkCtx (p : PDesc) (isLast inputsAreStatic : Bool) : PredCtx :=
  let isW := p.kind == .wrap
  { isNil := false
    kindFunc := p.kind != .lit
    isLast := isLast
    inputsAreStatic := inputsAreStatic
    mustCache := p.mustCache
    memoize := p.memoize
    cacheable := p.cacheable
    singleton := p.singleton
    reorder := p.reorder
    notCacheable := p.notCacheable
    hasOutputs := p.kind != .lit && !(stripUnusedT p.outs).isEmpty
    -- a wrapper's first parameter is a func: not mappable, not a possible map key
    mappableInputs := !isW
    possibleMapKey := !isW
    returnsTerminalError := p.kind != .lit && p.outs.contains tTerminal
    -- the inner parameter of a wrapper is an anonymous func; a ReflectiveWrapper fails the test outright
    noAnonymousFuncs := !isW
    noAnonymousExceptFirstInput := true
    isWrapper := isW
    isFuncPointer := false }

def flowOf (p : PDesc) : FlowSrc → List Ty
  | .typesIn => p.ins
  | .typesOut => p.outs
  | .remapTE => p.outs.map fun t => if t == tTerminal then tError else t
  | .redactTE => p.outs.filter (· != tTerminal)
  | .errorOnly => [tError]
  | .selfType => p.outs.take 1
  | .wrapperIn => tNoType :: p.ins
  | .innerIn => p.iin
  | .innerOut => p.iout
  | .other _ => []

def flowFor (p : PDesc) (e : Entry) (k : FlowT) : List Ty :=
  match e.flows.find? (·.1 == k) with
  | some (_, s) => flowOf p s
  | none => []

def characterize (p : PDesc) (isLast inputsAreStatic : Bool) : Option CP :=
  (classify (mkCtx p isLast inputsAreStatic)).map fun e =>
    { id := p.idx, cls := e.cls, group := e.group,
      ret := flowFor p e .returnParams, out := flowFor p e .outputParams, inp := flowFor p e .inputParams,
      recv := flowFor p e .receivedParams, byp := flowFor p e .bypassParams,
      required := p.required || e.required, desired := p.desired, shun := p.shun, reorder := p.reorder,
      nonFinal := p.nonFinal, memoized := e.memoized, parallel := p.parallel, singleton := p.singleton,
      loose := p.loose, mustConsume := p.mustConsume, hasMustConsume := !p.mustConsume.isEmpty,
      consOpt := p.consOpt, hasConsOpt := !p.consOpt.isEmpty, shadowOK := p.shadowOK, cluster := p.cluster }

/-- `characterizeAndFlatten`: classify in list order, demoting a static candidate whose inputs are
    tainted by invoke arguments or by the outputs of RUN providers listed before it.
    Returns (beforeInvoke, afterInvoke) or `none` when some provider matches no registry entry. -/
def characterizeAll : List PDesc → (nonStatic : List Ty) → Option (List CP × List CP)
  | [], _ => some ([], [])
  | p :: rest, nonStatic =>
    let isLast := rest.isEmpty
    match characterize p isLast true with
    | none => none
    | some c0 =>
      let c? :=
        if c0.group == .staticGroup && c0.inp.any (fun t => t != tUnused && nonStatic.contains t) then characterize p isLast false
        else some c0
      match c? with
      | none => none
      | some c =>
        let nonStatic := if c.group == .runGroup || c.group == .invokeGroup then c.out ++ nonStatic else nonStatic
        match characterizeAll rest nonStatic with
        | none => none
        | some (bi, ai) =>
          if c.group == .staticGroup || c.group == .literalGroup then some (c :: bi, ai)
          else some (bi, c :: ai)

def debugCP : CP :=
  { id := 900, cls := .staticInjectorFunc, group := .staticGroup, out := [tDebug], nonFinal := true, synthetic := true }

def unusedInCP : CP :=
  { id := 901, cls := .literalValue, group := .literalGroup, out := [tUnused], nonFinal := true, synthetic := true,
    shun := false, consOpt := [tUnused], hasConsOpt := true }

def unusedRetCP : CP :=
  { id := 902, cls := .wrapperFunc, group := .runGroup, inp := [tNoType], ret := [tUnused], nonFinal := true,
    synthetic := true, shun := true, consOpt := [tUnused], hasConsOpt := true }

structure Sig where
  ins : List Ty
  outs : List Ty
deriving Repr, Inhabited

def invokeCP (s : Sig) : CP :=
  { id := 990, cls := .invokeFunc, group := .invokeGroup, out := s.ins, recv := s.outs, required := true, synthetic := true }

def initCP (s : Sig) : CP :=
  { id := 991, cls := .initFunc, group := .invokeGroup, out := s.ins, byp := s.outs, required := true, synthetic := true }

structure Assembled where
  funcs : List CP
  invokeIndex : Nat
deriving Repr, Inhabited

/-- bind.go:59-94: the synthetic providers for `Unused` -- a literal in front when somebody takes it as an input,
    a receiver in front of the final function when somebody receives it -/
def addUnused (funcs : List CP) (invokeIndex : Nat) : Assembled :=
  let consumesUnused := funcs.any fun f => f.inp.contains tUnused || f.byp.contains tUnused
  let receivesUnused := funcs.any fun f => f.recv.contains tUnused
  let funcs1 := if consumesUnused then unusedInCP :: funcs else funcs
  let invokeIndex1 := if consumesUnused then invokeIndex + 1 else invokeIndex
  let funcs2 := if receivesUnused then funcs1.dropLast ++ [unusedRetCP] ++ (funcs1.drop (funcs1.length - 1)) else funcs1
  { funcs := funcs2, invokeIndex := invokeIndex1 }

/-- bind.go:13-95 -/
def assemble (provs : List PDesc) (inv : Sig) (ini : Option Sig) : Option Assembled :=
  match characterizeAll provs inv.ins with
  | none => none
  | some (bi, ai) =>
    let head := debugCP :: (match ini with | some s => [initCP s] | none => [])
    some (addUnused (head ++ bi ++ [invokeCP inv] ++ ai) (head.length + bi.length))

end Nject
