import NjectGen.Registry
import NjectGen.Micro
