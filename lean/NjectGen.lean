import NjectGen.Registry
import NjectGen.Micro
import NjectGen.Consts
import NjectGen.Writes
