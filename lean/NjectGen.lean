import NjectGen.Registry
