import NjectProofs.ConcProofs
import NjectGen.Micro
import NjectProofs.Machine
/-
  C08, C09, C10 — theorems over the interleaving models, and `decide`d facts saying the closures
  extracted from /repo on this run follow the discipline the models assume.
-/
namespace Nject
open Conc

/-! ## C09 — Memoize -/

/-- for every number of threads, every schedule and every history of keys: the function is really
    called at most once per key -/
theorem C09_at_most_once_per_key {K V : Type} [DecidableEq K] (f : K → Nat → V) (sched : List (Nat × K)) :
    ((crun f sched CState.init).calls.map (·.1)).Nodup :=
  (run_inv f sched _ (init_inv f)).callsNodup

/-- every use of a key (hit or miss, any thread) returns exactly the result of that one call -/
theorem C09_hit_returns_stored {K V : Type} [DecidableEq K] (f : K → Nat → V) (sched : List (Nat × K))
    (t : Nat) (k : K) (v : V) (h : (crun f sched CState.init).th t = .done k v) :
    ∃ i, (k, i) ∈ (crun f sched CState.init).calls ∧ v = f k i :=
  (run_inv f sched _ (init_inv f)).doneOK t k v h

/-- what is stored is never altered: every cache entry is the result of the logged call for its key -/
theorem C09_cache_entries_are_call_results {K V : Type} [DecidableEq K] (f : K → Nat → V) (sched : List (Nat × K))
    (k : K) (v : V) (h : (k, v) ∈ (crun f sched CState.init).cache) :
    ∃ i, (k, i) ∈ (crun f sched CState.init).calls ∧ v = f k i :=
  (run_inv f sched _ (init_inv f)).cacheOK k v h

/-- mutual exclusion: at most one thread is between Lock and the deferred Unlock -/
theorem C09_mutual_exclusion {K V : Type} [DecidableEq K] (f : K → Nat → V) (sched : List (Nat × K))
    (t1 t2 : Nat) (h1 : holds (crun f sched CState.init) t1) (h2 : holds (crun f sched CState.init) t2) : t1 = t2 := by
  have inv := run_inv f sched _ (init_inv f)
  have a := (inv.lockIff t1).mpr h1
  have b := (inv.lockIff t2).mpr h2
  rw [a] at b; exact Option.some.inj b

/-- the four cachers extracted from cache.go follow the discipline (run-time key check, then lookup, call and
    store under one mutex held to the end), each with a key array as large as its arity threshold -/
theorem C09_cachers_wellLocked :
    wellLocked 3 Gen.cacher3 = true ∧ wellLocked 10 Gen.cacher10 = true ∧
    wellLocked 30 Gen.cacher30 = true ∧ wellLocked 90 Gen.cacher90 = true := by decide

theorem C09_thresholds : Gen.cacherThresholds = [3, 10, 30, 90] := by decide

/-- one cacher per provider id, shared by every chain: lookup and insertion in the registry under `lockLock` -/
theorem C09_registry_locked : wellRegistered Gen.generateCache = true := by decide

/-- model of `fillKeyFromInputs`: what one input contributes to the map key -/
inductive KeyElem where
  | val (v : Val)          -- v.Interface()
  | str (s : String)       -- a string input
  | noValue                -- nil interface / invalid value / padding (a value of an unexported type)
deriving DecidableEq, Repr

inductive KeyInput where
  | nil | value (v : Val) | string (s : String)
deriving DecidableEq, Repr

def keyOf : KeyInput → KeyElem
  | .nil => .noValue
  | .value v => .val v
  | .string s => .str s

/-- key of a tuple in a key array of size `n` (padding with `noValue`) -/
def tupleKey (n : Nat) (a : List KeyInput) : List KeyElem := a.map keyOf ++ List.replicate (n - a.length) .noValue

/-- distinct input tuples of the same arity get distinct keys -/
theorem C09_key_injective (n : Nat) (a b : List KeyInput) (hlen : a.length = b.length)
    (h : tupleKey n a = tupleKey n b) : a = b := by
  unfold tupleKey at h
  rw [hlen] at h
  have h1 : a.map keyOf = b.map keyOf := by
    have := List.append_inj_left h (by simp [hlen])
    exact this
  have hinj : ∀ x y : KeyInput, keyOf x = keyOf y → x = y := by
    intro x y hxy; cases x <;> cases y <;> simp_all [keyOf]
  clear h hlen
  induction a generalizing b with
  | nil => cases b with
    | nil => rfl
    | cons y ys => simp at h1
  | cons x xs ih =>
    cases b with
    | nil => simp at h1
    | cons y ys =>
      simp only [List.map_cons, List.cons.injEq] at h1
      rw [hinj x y h1.1, ih ys h1.2]

/-! ## C10 — Singleton / the static chain under sync.Once -/

/-- any threads, any schedule: the body runs at most once -/
theorem C10_once_at_most_once {V : Type} (body : Nat → V) (dflt : V) (sched : List Nat) :
    (orun body dflt sched OState.init).nruns ≤ 1 := by
  have inv := orun_inv body dflt sched _ (oinit_inv body)
  cases hf : (orun body dflt sched OState.init).finished with
  | true => rw [(inv.fin hf).2.1]; exact Nat.le_refl 1
  | false => rw [(inv.notFin hf).1]; exact Nat.zero_le 1

/-- every caller that returned observed the result of that single execution, and it did run -/
theorem C10_all_observe_the_one_result {V : Type} (body : Nat → V) (dflt : V) (sched : List Nat) (t : Nat) (v : V)
    (h : (orun body dflt sched OState.init).th t = .done v) :
    v = body 0 ∧ (orun body dflt sched OState.init).nruns = 1 := by
  have inv := orun_inv body dflt sched _ (oinit_inv body)
  obtain ⟨hf, hv⟩ := inv.doneOK t v h
  exact ⟨hv, (inv.fin hf).2.1⟩

/-- nobody returns from Do before the body has completed -/
theorem C10_no_return_before_completion {V : Type} (body : Nat → V) (dflt : V) (sched : List Nat) (t : Nat) (v : V)
    (h : (orun body dflt sched OState.init).th t = .done v) :
    (orun body dflt sched OState.init).finished = true :=
  ((orun_inv body dflt sched _ (oinit_inv body)).doneOK t v h).1

theorem C10_closures_wellOnced :
    wellOnced Gen.singletonClosure = true ∧ wellOncedInit Gen.initImp = true ∧ wellOncedLazy Gen.lazyInit = true ∧
    wellRegistered Gen.generateSingleton = true := by decide

/-- sequential reading: later init calls ignore their arguments and return the same values -/
theorem C10_init_idempotent (c : Compiled) (b : Beh) (s : Bound) (a1 a2 : List Val) (h : s.staticDone = true) :
    (c.execInit b s a1).1 = (c.execInit b s a2).1 ∧ (c.execInit b s a1).2 = s := by
  unfold Compiled.execInit
  cases c.init with
  | none => exact ⟨rfl, rfl⟩
  | some sig => simp [h]

/-! ## C08 — invocations are isolated -/

theorem C08_invoke_wellIsolated : wellIsolatedInvoke Gen.invokeImpl = true := by decide

/-- an invocation never writes the shared base values: whatever it produced is invisible to the next one -/
theorem C08_invoke_preserves_base (c : Compiled) (b : Beh) (s : Bound) (args : List Val)
    (h : (c.init.isNone && !s.staticDone) = false) :
    (c.execInvoke b s args).2.base = s.base ∧ (c.execInvoke b s args).2.staticDone = s.staticDone := by
  simp [Compiled.execInvoke, h]

/-- the values an invocation works on are a function of the base values and its own arguments only -/
theorem C08_invocation_input_is_private (c : Compiled) (b : Beh) (s1 s2 : Bound) (args : List Val)
    (h1 : (c.init.isNone && !s1.staticDone) = false) (h2 : (c.init.isNone && !s2.staticDone) = false)
    (hb : s1.base = s2.base) (hst : s1.st = s2.st) :
    (c.execInvoke b s1 args).1 = (c.execInvoke b s2 args).1 := by
  simp [Compiled.execInvoke, h1, h2, hb, hst]

end Nject
