import NjectProps.C06
import Nject.Pipeline
/-
  C06 (list part): `characterizeAndFlatten` never classifies a provider STATIC when one of its inputs
  is an invoke argument or an output of a per-invocation provider listed before it.
-/
namespace Nject
open Gen

theorem characterize_group (p : PDesc) (isLast st : Bool) (c : CP) (h : characterize p isLast st = some c) :
    ∃ e, classify (mkCtx p isLast st) = some e ∧ c.group = e.group := by
  unfold characterize at h
  cases hc : classify (mkCtx p isLast st) with
  | none => rw [hc] at h; cases h
  | some e => rw [hc] at h; simp at h; exact ⟨e, rfl, by rw [← h]⟩

/-- `ns` = the types tainted so far (invoke arguments and outputs of RUN providers listed earlier).
    Every provider that ends up in the static/literal list and is in the STATIC group has no tainted input
    (other than Unused, which is always available in the static set).
    (The recursion passes the grown taint set to the rest of the list, so the statement covers every
    suffix with the taint accumulated up to it.) -/
theorem C06_taint_sound : ∀ (provs : List PDesc) (ns : List Ty) (bi ai : List CP),
    characterizeAll provs ns = some (bi, ai) →
    ∀ c ∈ bi, c.group = .staticGroup → ∀ t ∈ c.inp, t ≠ tUnused → ns.contains t = false
  | [], ns, bi, ai, h => by
    simp [characterizeAll] at h; intro c hc; rw [h.1] at hc; cases hc
  | p :: rest, ns, bi, ai, h => by
    simp only [characterizeAll] at h
    split at h
    · cases h
    · rename_i c0 hc0
      split at h
      · cases h
      · rename_i c hcsel
        split at h
        · cases h
        · rename_i bi' ai' hrest
          -- what the rest contributes
          have ih := C06_taint_sound rest _ bi' ai' hrest
          have hsub : ∀ t, (if c.group == .runGroup || c.group == .invokeGroup then c.out ++ ns else ns).contains t = false →
              ns.contains t = false := by
            intro t ht
            split at ht
            · simp only [List.contains_eq_mem, List.mem_append, decide_eq_false_iff_not, not_or] at ht
              simpa using ht.2
            · exact ht
          -- the head provider
          have hhead : c.group = .staticGroup → ∀ t ∈ c.inp, t ≠ tUnused → ns.contains t = false := by
            intro hg t ht hnu
            split at hcsel
            · -- re-characterised with inputsAreStatic = false: cannot be static
              rename_i hcond
              obtain ⟨e, he, hge⟩ := characterize_group p _ false c hcsel
              have := C06_never_hoisted_over_run_input _ e he (by simp [mkCtx])
              rw [hge] at hg; exact absurd hg this
            · rename_i hcond
              cases hcsel
              simp only [Bool.and_eq_true, beq_iff_eq, List.any_eq_true, not_and, not_exists] at hcond
              cases hb : ns.contains t with
              | false => rfl
              | true => exact absurd hb (hcond hg t ht (by simpa using hnu))
          split at h
          · cases h
            intro c' hc' hg t ht hnu
            cases List.mem_cons.mp hc' with
            | inl heq => subst heq; exact hhead hg t ht hnu
            | inr hin => exact hsub t (ih c' hin hg t ht hnu)
          · cases h
            intro c' hc' hg t ht hnu
            exact hsub t (ih c' hc' hg t ht hnu)

end Nject
