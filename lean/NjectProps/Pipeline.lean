import NjectProps.C14
import NjectProps.C15b
import NjectProps.C03C15
import NjectProps.IncludeEnds
/-
  The include-stage theorems restated for the whole model of `Bind` (`bindModel`: named edits,
  classification, assembly, [the order reorder chose], inclusion, shadowing check, slot assignment):
  for EVERY list of providers with any annotations and named edits and every invoke / init signature,
  if the model binds, the bound chain has the stated shape.
-/
namespace Nject

/-- what a successful `bindModel` went through -/
theorem bindModel_ok (ti : TyInfo) (enodes : List ENode) (descs : List PDesc) (inv : Sig) (ini : Option Sig)
    (order4 : Option (List Nat)) (cannot4 : List Nat) (bo : BindOut)
    (h : bindModel ti enodes descs inv ini order4 cannot4 = .ok bo) :
    ∃ funcs, computeInclusion ti funcs cannot4 = .ok bo.chain ∧ checkShadowing bo.chain = true := by
  unfold bindModel at h
  cases he : editAll enodes with
  | error e => rw [he] at h; cases h
  | ok order =>
    rw [he] at h
    dsimp only at h
    cases ha : assemble (order.filterMap fun n => descs.find? (·.idx == n.idx)) inv ini with
    | none => rw [ha] at h; cases h
    | some asm0 =>
      rw [ha] at h
      dsimp only at h
      cases hp : applyOrder asm0 order4 with
      | none => rw [hp] at h; cases h
      | some asm =>
        rw [hp] at h
        dsimp only at h
        unfold bindTail at h
        cases hc : computeInclusion ti asm.funcs cannot4 with
        | error e => rw [hc] at h; cases e <;> cases h
        | ok ch =>
          rw [hc] at h
          dsimp only at h
          by_cases hsh : (!checkShadowing ch) = true
          · rw [if_pos hsh] at h; cases h
          · rw [if_neg hsh] at h
            have key : ∀ (b : Bool) (x : BindOut),
                (if b = true then (Except.error BindErr.initType : Except BindErr BindOut) else .ok x) = .ok bo → x = bo := by
              intro b x hx
              cases b
              · simpa using hx
              · simp at hx
            have hbo := key _ _ h
            subst hbo
            exact ⟨asm.funcs, hc, by simpa using hsh⟩

/-- **C15, whole pipeline**: whenever the model binds, every returned value of an included provider that is not
    ConsumptionOptional has an included receiver listed before it, and no provider overrides a type returned from
    below that it did not receive unless AllowReturnShadowing was given (or it is a fallible injector's error). -/
theorem C15_bound_model (ti : TyInfo) (enodes : List ENode) (descs : List PDesc) (inv : Sig) (ini : Option Sig)
    (order4 : Option (List Nat)) (cannot4 : List Nat) (bo : BindOut)
    (h : bindModel ti enodes descs inv ini order4 cannot4 = .ok bo) :
    returnsConsumedB bo.chain = true ∧
    ∀ (above : List IP) (f : IP) (below : List IP), bo.chain = above ++ f :: below →
      ∀ t ∈ f.c.ret, t ∉ f.c.recv → (∃ g ∈ below, t ∈ g.c.ret) →
        ((f.c.cls = .fallibleStaticInjectorFunc ∨ f.c.cls = .fallibleInjectorFunc) ∧ (t = tError ∨ t = tTerminal)) ∨ t ∈ f.c.shadowOK := by
  obtain ⟨funcs, hc, hs⟩ := bindModel_ok ti enodes descs inv ini order4 cannot4 bo h
  exact ⟨C15_bound_chain_consumes_returns ti funcs cannot4 bo.chain hc,
    fun above f below hl t ht hnr hb => C15_no_shadowing bo.chain hs above f below hl t ht hnr hb⟩

/-- **C03, whole pipeline**: whenever the model binds, the bound chain is a fixpoint of the validity check (every
    included provider has included sources for all it takes) and the model never ran out of fuel on the way. -/
theorem C03_bound_model (ti : TyInfo) (enodes : List ENode) (descs : List PDesc) (inv : Sig) (ini : Option Sig)
    (order4 : Option (List Nat)) (cannot4 : List Nat) (bo : BindOut)
    (h : bindModel ti enodes descs inv ini order4 cannot4 = .ok bo) :
    ∀ j, (bo.chain.get j).inc = true → (bo.chain.get j).cannot = false ∧ localCheck bo.chain (bo.chain.get j) = true := by
  obtain ⟨funcs, hc, _⟩ := bindModel_ok ti enodes descs inv ini order4 cannot4 bo h
  exact C03_bound_chain_is_a_fixpoint ti funcs cannot4 bo.chain hc

end Nject
