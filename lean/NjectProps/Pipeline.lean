import NjectProps.C14
import NjectProps.C15b
import NjectProps.C03C15
import NjectProps.IncludeEnds
import NjectProps.C02Returned
/-
  The include-stage theorems restated for the whole model of `Bind` (`bindModel`: named edits,
  classification, assembly, [the order reorder chose], inclusion, shadowing check, slot assignment):
  for EVERY list of providers with any annotations and named edits and every invoke / init signature,
  if the model binds, the bound chain has the stated shape.
-/
namespace Nject

/-- what a successful `bindModel` went through -/
theorem bindModel_ok (ti : TyInfo) (enodes : List ENode) (descs : List PDesc) (inv : Sig) (ini : Option Sig)
    (order4 : Option (List Nat)) (cannot4 : List Nat) (bo : BindOut)
    (h : bindModel ti enodes descs inv ini order4 cannot4 = .ok bo) :
    ∃ funcs, computeInclusion ti funcs cannot4 = .ok bo.chain ∧ checkShadowing bo.chain = true := by
  unfold bindModel at h
  cases he : editAll enodes with
  | error e => rw [he] at h; cases h
  | ok order =>
    rw [he] at h
    dsimp only at h
    cases ha : assemble (order.filterMap fun n => descs.find? (·.idx == n.idx)) inv ini with
    | none => rw [ha] at h; cases h
    | some asm0 =>
      rw [ha] at h
      dsimp only at h
      cases hp : applyOrder asm0 order4 with
      | none => rw [hp] at h; cases h
      | some asm =>
        rw [hp] at h
        dsimp only at h
        unfold bindTail at h
        cases hc : computeInclusion ti asm.funcs cannot4 with
        | error e => rw [hc] at h; cases e <;> cases h
        | ok ch =>
          rw [hc] at h
          dsimp only at h
          by_cases hsh : (!checkShadowing ch) = true
          · rw [if_pos hsh] at h; cases h
          · rw [if_neg hsh] at h
            have key : ∀ (b : Bool) (x : BindOut),
                (if b = true then (Except.error BindErr.initType : Except BindErr BindOut) else .ok x) = .ok bo → x = bo := by
              intro b x hx
              cases b
              · simpa using hx
              · simp at hx
            have hbo := key _ _ h
            subst hbo
            exact ⟨asm.funcs, hc, by simpa using hsh⟩

/-- **C15, whole pipeline**: whenever the model binds, every returned value of an included provider that is not
    ConsumptionOptional has an included receiver listed before it, and no provider overrides a type returned from
    below that it did not receive unless AllowReturnShadowing was given (or it is a fallible injector's error). -/
theorem C15_bound_model (ti : TyInfo) (enodes : List ENode) (descs : List PDesc) (inv : Sig) (ini : Option Sig)
    (order4 : Option (List Nat)) (cannot4 : List Nat) (bo : BindOut)
    (h : bindModel ti enodes descs inv ini order4 cannot4 = .ok bo) :
    returnsConsumedB bo.chain = true ∧
    ∀ (above : List IP) (f : IP) (below : List IP), bo.chain = above ++ f :: below →
      ∀ t ∈ f.c.ret, t ∉ f.c.recv → (∃ g ∈ below, t ∈ g.c.ret) →
        ((f.c.cls = .fallibleStaticInjectorFunc ∨ f.c.cls = .fallibleInjectorFunc) ∧ (t = tError ∨ t = tTerminal)) ∨ t ∈ f.c.shadowOK := by
  obtain ⟨funcs, hc, hs⟩ := bindModel_ok ti enodes descs inv ini order4 cannot4 bo h
  exact ⟨C15_bound_chain_consumes_returns ti funcs cannot4 bo.chain hc,
    fun above f below hl t ht hnr hb => C15_no_shadowing bo.chain hs above f below hl t ht hnr hb⟩

/-- **C03, whole pipeline**: whenever the model binds, the bound chain is a fixpoint of the validity check (every
    included provider has included sources for all it takes) and the model never ran out of fuel on the way. -/
theorem C03_bound_model (ti : TyInfo) (enodes : List ENode) (descs : List PDesc) (inv : Sig) (ini : Option Sig)
    (order4 : Option (List Nat)) (cannot4 : List Nat) (bo : BindOut)
    (h : bindModel ti enodes descs inv ini order4 cannot4 = .ok bo) :
    ∀ j, (bo.chain.get j).inc = true → (bo.chain.get j).cannot = false ∧ localCheck bo.chain (bo.chain.get j) = true := by
  obtain ⟨funcs, hc, _⟩ := bindModel_ok ti enodes descs inv ini order4 cannot4 bo h
  exact C03_bound_chain_is_a_fixpoint ti funcs cannot4 bo.chain hc

end Nject

namespace Nject

/-- every provider `characterizeAll` hands on has the must-consume switch the classification computes -/
theorem characterizeAll_hasMustConsume : ∀ (provs : List PDesc) (ns : List Ty) (bi ai : List CP),
    characterizeAll provs ns = some (bi, ai) → ∀ c ∈ bi ++ ai, c.hasMustConsume = !c.mustConsume.isEmpty
  | [], _, bi, ai, h => by
    simp only [characterizeAll, Option.some.injEq, Prod.mk.injEq] at h
    obtain ⟨rfl, rfl⟩ := h
    intro c hc; cases hc
  | p :: rest, ns, bi, ai, h => by
    simp only [characterizeAll] at h
    cases hc0 : characterize p rest.isEmpty true with
    | none => rw [hc0] at h; cases h
    | some c0 =>
      rw [hc0] at h
      dsimp only at h
      cases hc : (if (c0.group == .staticGroup && c0.inp.any fun t => t != tUnused && ns.contains t) = true then characterize p rest.isEmpty false else some c0) with
      | none => rw [hc] at h; cases h
      | some c =>
        rw [hc] at h
        dsimp only at h
        have hcm : c.hasMustConsume = !c.mustConsume.isEmpty := by
          split at hc
          · exact characterize_hasMustConsume p _ _ c hc
          · injection hc with hc; subst hc; exact characterize_hasMustConsume p _ _ c0 hc0
        cases hr : characterizeAll rest (if (c.group == .runGroup || c.group == .invokeGroup) = true then c.out ++ ns else ns) with
        | none => rw [hr] at h; cases h
        | some r =>
          obtain ⟨bi', ai'⟩ := r
          rw [hr] at h
          dsimp only at h
          have ih := characterizeAll_hasMustConsume rest _ bi' ai' hr
          split at h
          · injection h with h
            simp only [Prod.mk.injEq] at h
            obtain ⟨rfl, rfl⟩ := h
            intro x hx
            simp only [List.cons_append, List.mem_cons] at hx
            rcases hx with rfl | hx
            · exact hcm
            · exact ih x hx
          · injection h with h
            simp only [Prod.mk.injEq] at h
            obtain ⟨rfl, rfl⟩ := h
            intro x hx
            simp only [List.mem_append, List.mem_cons] at hx
            rcases hx with hx | rfl | hx
            · exact ih x (List.mem_append_left _ hx)
            · exact hcm
            · exact ih x (List.mem_append_right _ hx)

end Nject

namespace Nject

def MCok (c : CP) : Prop := c.hasMustConsume = !c.mustConsume.isEmpty

theorem addUnused_mem (funcs : List CP) (k : Nat) : ∀ c ∈ (addUnused funcs k).funcs, c ∈ funcs ∨ c = unusedInCP ∨ c = unusedRetCP := by
  intro c hc
  unfold addUnused at hc
  dsimp only at hc
  have base : ∀ x, x ∈ (if (funcs.any fun f => f.inp.contains tUnused || f.byp.contains tUnused) = true then unusedInCP :: funcs else funcs) →
      x ∈ funcs ∨ x = unusedInCP ∨ x = unusedRetCP := by
    intro x hx
    split at hx
    · rcases List.mem_cons.mp hx with rfl | hx
      · exact Or.inr (Or.inl rfl)
      · exact Or.inl hx
    · exact Or.inl hx
  split at hc
  · rcases List.mem_append.mp hc with hc | hc
    · rcases List.mem_append.mp hc with hc | hc
      · exact base c (List.dropLast_subset _ hc)
      · simp at hc; exact Or.inr (Or.inr hc)
    · exact base c (List.mem_of_mem_drop hc)
  · exact base c hc

theorem assemble_hasMustConsume (provs : List PDesc) (inv : Sig) (ini : Option Sig) (asm : Assembled)
    (h : assemble provs inv ini = some asm) : ∀ c ∈ asm.funcs, MCok c := by
  unfold assemble at h
  cases hc : characterizeAll provs inv.ins with
  | none => rw [hc] at h; cases h
  | some r =>
    obtain ⟨bi, ai⟩ := r
    rw [hc] at h
    dsimp only at h
    have hba := characterizeAll_hasMustConsume provs inv.ins bi ai hc
    injection h with h
    subst h
    intro c hcm
    rcases addUnused_mem _ _ c hcm with hin | rfl | rfl
    · rcases List.mem_append.mp hin with hin | ha
      · rcases List.mem_append.mp hin with hin | hinv
        · rcases List.mem_append.mp hin with hhead | hb
          · rcases List.mem_cons.mp hhead with rfl | hi
            · rfl
            · cases ini with
              | none => cases hi
              | some s => simp at hi; subst hi; rfl
          · exact hba c (List.mem_append_left _ hb)
        · simp at hinv; subst hinv; rfl
      · exact hba c (List.mem_append_right _ ha)
    · rfl
    · rfl

end Nject

namespace Nject

theorem initState_c (funcs : List CP) (cannot0 : List Nat) (j : Nat) :
    ((initState funcs cannot0).get j).c = funcs.getD j default := by
  by_cases hj : j < funcs.length
  · unfold initState Chain.get
    have hz : j < (funcs.zip (List.range funcs.length)).length := by simp [hj]
    simp [List.getD, List.getElem?_map, List.getElem?_eq_getElem hz, List.getElem?_eq_getElem hj]
  · rw [get_default_of_ge _ j (by rw [initState_length]; exact hj)]
    simp [List.getD, List.getElem?_eq_none (Nat.le_of_not_lt hj)]
    rfl

theorem inclusionBeforeFinal_SF (ti : TyInfo) (funcs : List CP) (cannot0 : List Nat) (pre : Chain)
    (h : inclusionBeforeFinal ti funcs cannot0 = .ok pre) : SF (initState funcs cannot0) pre := by
  unfold inclusionBeforeFinal at h
  split at h
  · cases h
  · rename_i ch1 hv
    injection h with h
    subst h
    unfold firstValidation at hv
    exact SF_trans (SF_trans (SF_trans (providesReturns_SF ti _ _) (validate_SF true _ ch1 hv)) (pruneStages_SF ch1)) (providesReturns_SF ti _ _)

theorem inclusionBeforeFinal_c (ti : TyInfo) (funcs : List CP) (cannot0 : List Nat) (pre : Chain)
    (h : inclusionBeforeFinal ti funcs cannot0 = .ok pre) (j : Nat) : (pre.get j).c = funcs.getD j default := by
  rw [((inclusionBeforeFinal_SF ti funcs cannot0 pre h).2 j).2.2.1]
  exact initState_c funcs cannot0 j

/-- the classification of the provider at each position is what was handed to the include computation -/
theorem computeInclusion_c (ti : TyInfo) (funcs : List CP) (cannot0 : List Nat) (ch : Chain)
    (h : computeInclusion ti funcs cannot0 = .ok ch) (j : Nat) : (ch.get j).c = funcs.getD j default := by
  unfold computeInclusion at h
  split at h
  · cases h
  · rename_i pre hpre
    split at h
    · cases h
    · rename_i chf hv
      injection h with h
      subst h
      have hfr := SF_of_FR (validate_FR true pre _ hv)
      rw [(hfr.2 j).2.2.1]
      exact inclusionBeforeFinal_c ti funcs cannot0 pre hpre j

theorem applyOrder_mem (asm0 asm : Assembled) (order4 : Option (List Nat)) (h : applyOrder asm0 order4 = some asm) :
    ∀ c ∈ asm.funcs, c ∈ asm0.funcs := by
  unfold applyOrder at h
  cases order4 with
  | none => simp only [Option.some.injEq] at h; subst h; exact fun _ hc => hc
  | some o =>
    simp only [Option.map_eq_some_iff] at h
    obtain ⟨fs, hp, rfl⟩ := h
    unfold permuteTo at hp
    dsimp only at hp
    split at hp
    · injection hp with hp
      subst hp
      intro c hc
      obtain ⟨id, _, hf⟩ := List.mem_filterMap.mp hc
      exact List.mem_of_find?_eq_some hf
    · cases hp

/-- **C14, whole pipeline**: whenever the model binds, every output an included provider marks MustConsume is taken by
    an included provider listed after it (or by the init function through the invoke bypass). -/
theorem C14_bound_model (ti : TyInfo) (enodes : List ENode) (descs : List PDesc) (inv : Sig) (ini : Option Sig)
    (order4 : Option (List Nat)) (cannot4 : List Nat) (bo : BindOut)
    (h : bindModel ti enodes descs inv ini order4 cannot4 = .ok bo)
    (j : Nat) (hj : (bo.chain.get j).inc = true) (t : Ty) (ht : t ∈ (bo.chain.get j).c.out)
    (hm : (bo.chain.get j).c.mustConsume.contains t = true) (hu : t ≠ tUnused) :
    ∃ q, (bo.chain.get q).inc = true ∧ ((j < q ∧ t ∈ (bo.chain.get q).c.inp) ∨ t ∈ (bo.chain.get q).c.byp) := by
  -- retrace the stages
  unfold bindModel at h
  cases he : editAll enodes with
  | error e => rw [he] at h; cases h
  | ok order =>
    rw [he] at h
    dsimp only at h
    cases ha : assemble (order.filterMap fun n => descs.find? (·.idx == n.idx)) inv ini with
    | none => rw [ha] at h; cases h
    | some asm0 =>
      rw [ha] at h
      dsimp only at h
      cases hp : applyOrder asm0 order4 with
      | none => rw [hp] at h; cases h
      | some asm =>
        rw [hp] at h
        dsimp only at h
        have hbt := h
        unfold bindTail at h
        cases hc : computeInclusion ti asm.funcs cannot4 with
        | error e => rw [hc] at h; cases e <;> cases h
        | ok ch =>
          rw [hc] at h
          dsimp only at h
          by_cases hsh : (!checkShadowing ch) = true
          · rw [if_pos hsh] at h; cases h
          · rw [if_neg hsh] at h
            have key : ∀ (b : Bool) (x : BindOut),
                (if b = true then (Except.error BindErr.initType : Except BindErr BindOut) else .ok x) = .ok bo → x = bo := by
              intro b x hx
              cases b
              · simpa using hx
              · simp at hx
            have hbo := key _ _ h
            subst hbo
            dsimp only at hj ht hm ⊢
            -- the switch of the provider at j
            have hcj := computeInclusion_c ti asm.funcs cannot4 ch hc j
            have hmc : MCok (ch.get j).c := by
              rw [hcj]
              by_cases hjl : j < asm.funcs.length
              · have hmem : asm.funcs.getD j default ∈ asm.funcs := by
                  simp [List.getD, List.getElem?_eq_getElem hjl]
                exact assemble_hasMustConsume _ inv ini asm0 ha _ (applyOrder_mem asm0 asm order4 hp _ hmem)
              · simp [List.getD, List.getElem?_eq_none (Nat.le_of_not_lt hjl)]
                rfl
            obtain ⟨q, hq, hcase⟩ := C14_bound_chain_mustconsume_is_consumed ti asm.funcs cannot4 ch hc j hj t ht hm hu hmc
            refine ⟨q, hq, ?_⟩
            rcases hcase with ⟨hlt, hin⟩ | ⟨_, hb⟩
            · exact Or.inl ⟨hlt, hin⟩
            · exact Or.inr hb


theorem computeInclusion_pre (ti : TyInfo) (funcs : List CP) (cannot0 : List Nat) (ch : Chain)
    (h : computeInclusion ti funcs cannot0 = .ok ch) : ∃ pre, inclusionBeforeFinal ti funcs cannot0 = .ok pre := by
  unfold computeInclusion at h
  split at h
  · cases h
  · rename_i pre hpre; exact ⟨pre, hpre⟩

/-- **C01, whole pipeline**: whenever the model binds, every input type of an included provider is supplied by an
    included provider listed before it that outputs the type itself or a type implementing it. -/
theorem C01_bound_model (ti : TyInfo) (enodes : List ENode) (descs : List PDesc) (inv : Sig) (ini : Option Sig)
    (order4 : Option (List Nat)) (cannot4 : List Nat) (bo : BindOut)
    (h : bindModel ti enodes descs inv ini order4 cannot4 = .ok bo)
    (j : Nat) (hj : (bo.chain.get j).inc = true) (t : Ty) (ht : t ∈ (bo.chain.get j).c.inp) (hn : t ≠ tNoType) :
    ∃ p, p < j ∧ (bo.chain.get p).inc = true ∧ ∃ x, x ∈ (bo.chain.get p).c.out ∧ (x = t ∨ ti.implements x t = true) := by
  obtain ⟨funcs, hc, _⟩ := bindModel_ok ti enodes descs inv ini order4 cannot4 bo h
  obtain ⟨pre, hpre⟩ := computeInclusion_pre ti funcs cannot4 bo.chain hc
  exact C01_bound_chain_inputs_are_supplied ti funcs cannot4 pre bo.chain hpre hc j hj t ht hn

/-- **C02, whole pipeline**: whenever the model binds, every type an included provider expects from below is returned by
    an included provider listed after it that returns the type itself or a type implementing it. -/
theorem C02_bound_model (ti : TyInfo) (enodes : List ENode) (descs : List PDesc) (inv : Sig) (ini : Option Sig)
    (order4 : Option (List Nat)) (cannot4 : List Nat) (bo : BindOut)
    (h : bindModel ti enodes descs inv ini order4 cannot4 = .ok bo)
    (j : Nat) (hj : (bo.chain.get j).inc = true) (t : Ty) (ht : t ∈ (bo.chain.get j).c.recv) (hn : t ≠ tNoType) :
    ∃ p, j < p ∧ (bo.chain.get p).inc = true ∧ ∃ x, x ∈ (bo.chain.get p).c.ret ∧ (x = t ∨ ti.implements x t = true) := by
  obtain ⟨funcs, hc, _⟩ := bindModel_ok ti enodes descs inv ini order4 cannot4 bo h
  obtain ⟨pre, hpre⟩ := computeInclusion_pre ti funcs cannot4 bo.chain hc
  exact C02_bound_chain_received_are_returned ti funcs cannot4 pre bo.chain hpre hc j hj t ht hn

end Nject
