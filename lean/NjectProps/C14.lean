import NjectProofs.IncludeProvDown
import NjectProps.C15b
/-
  C14, about the algorithm: in the chain the include computation accepts, every output that an
  included provider marks MustConsume is taken by an INCLUDED provider -- one listed after it that
  has the type among its inputs, or the init function of an invoke/init pair that takes it as a
  parameter bypassing the invoke function.  Unconditional: it follows from the fixpoint theorem
  (`C03_bound_chain_is_a_fixpoint`), from where the consumers recorded for an output come from
  (`providesReturns_provDown`) and from the must-consume switch being the classification's
  (`inclusionBeforeFinal_mcOut`).

  What it does NOT say (known finding F12): that the consumer's NEAREST included source of the type is
  this provider -- another included provider of the same type may sit in between.  That stronger
  reading is checked per generated chain (`mustConsumeOKB`, record `v5`) against the finding's signature.
-/
namespace Nject

/-- the classification sets the switch exactly when some type is marked -/
theorem characterize_hasMustConsume (p : PDesc) (isLast inputsAreStatic : Bool) (c : CP)
    (h : characterize p isLast inputsAreStatic = some c) : c.hasMustConsume = !c.mustConsume.isEmpty := by
  unfold characterize at h
  cases hc : classify (mkCtx p isLast inputsAreStatic) with
  | none => rw [hc] at h; cases h
  | some e => rw [hc] at h; simp only [Option.map_some, Option.some.injEq] at h; subst h; rfl

/-- **C14 (algorithm), unconditional** -/
theorem C14_bound_chain_mustconsume_is_consumed (ti : TyInfo) (funcs : List CP) (cannot0 : List Nat) (ch : Chain)
    (h : computeInclusion ti funcs cannot0 = .ok ch)
    (j : Nat) (hj : (ch.get j).inc = true) (t : Ty) (ht : t ∈ (ch.get j).c.out)
    (hm : (ch.get j).c.mustConsume.contains t = true) (hu : t ≠ tUnused)
    (hhas : (ch.get j).c.hasMustConsume = !(ch.get j).c.mustConsume.isEmpty) :
    ∃ q, (ch.get q).inc = true ∧
      ((j < q ∧ t ∈ (ch.get q).c.inp) ∨ (initPosOf funcs = some q ∧ t ∈ (ch.get q).c.byp)) := by
  have hfix := C03_bound_chain_is_a_fixpoint ti funcs cannot0 ch h
  unfold computeInclusion at h
  split at h
  · cases h
  · rename_i pre hpre
    split at h
    · cases h
    · rename_i chf hv
      injection h with h
      subst h
      have hfr := validate_FR true pre _ hv
      have hstat : ∀ i, (chf.get i).mcOut = (pre.get i).mcOut ∧ (chf.get i).usedByOut = (pre.get i).usedByOut ∧
          (chf.get i).c = (pre.get i).c := by
        intro i
        have := hfr.2 i
        unfold flagsOnly at this
        rw [← this]
        exact ⟨rfl, rfl, rfl⟩
      have hmc : (chf.get j).mcOut = true := by
        rw [(hstat j).1, inclusionBeforeFinal_mcOut ti funcs cannot0 pre hpre j, ← (hstat j).2.2, hhas]
        cases hl : (chf.get j).c.mustConsume with
        | nil => rw [hl] at hm; cases hm
        | cons a l => rfl
      have hl := (hfix j hj).2
      unfold localCheck at hl
      simp only [Bool.and_eq_true] at hl
      have hout := hl.1.2
      rw [hmc] at hout
      simp only [Bool.not_true, Bool.false_or, List.all_eq_true] at hout
      have := hout t ht
      rw [hm] at this
      simp only [Bool.not_true, Bool.false_or, Bool.or_eq_true, beq_iff_eq, List.any_eq_true] at this
      rcases this with hun | ⟨q, hq, hqinc⟩
      · exact absurd hun hu
      · cases hlk : (chf.get j).usedByOut.lookup t with
        | none => simp [hlk] at hq
        | some l =>
          simp only [hlk, Option.getD_some] at hq
          have hmem : (t, l) ∈ (pre.get j).usedByOut := by rw [← (hstat j).2.1]; exact lookupL_mem hlk
          -- `pre` is what `providesReturns` left
          have hprov : ∀ d e q, e ∈ (pre.get d).usedByOut → q ∈ e.2 →
              (d < q ∧ e.1 ∈ (pre.get q).c.inp) ∨ (initPosOf funcs = some q ∧ e.1 ∈ (pre.get q).c.byp) := by
            unfold inclusionBeforeFinal at hpre
            split at hpre
            · cases hpre
            · injection hpre with hpre
              subst hpre
              exact providesReturns_provDown ti _ (initPosOf funcs)
          refine ⟨q, hqinc, ?_⟩
          rw [(hstat q).2.2]
          exact hprov j (t, l) q hmem hq

/-- the validator run on the implementation's bound chain says what it should -/
theorem C14_mustconsume_taken_validator (ch : Chain) (h : mustConsumeTakenB ch = []) :
    ∀ f ∈ ch, f.inc = true → ∀ t ∈ f.c.mustConsume, t ≠ tUnused → f.c.out.contains t = true →
      ∃ g ∈ ch, g.inc = true ∧ ((g.pos > f.pos ∧ g.c.inp.contains t = true) ∨
        (((ch.find? fun f => f.c.cls == .initFunc).map (·.pos)) = some g.pos ∧ g.c.byp.contains t = true)) := by
  intro f hf hinc t ht hu hout
  unfold mustConsumeTakenB at h
  simp only [List.map_eq_nil_iff, List.filter_eq_nil_iff] at h
  have := h f hf
  simp only [hinc, Bool.true_and, List.any_eq_true, Bool.and_eq_true, bne_iff_ne, ne_eq, Bool.not_eq_true',
    not_exists, not_and] at this
  have h2 := this t ht ⟨hu, hout⟩
  cases hany : (ch.any fun g => g.inc && ((decide (g.pos > f.pos) && g.c.inp.contains t) ||
      (((ch.find? fun f => f.c.cls == .initFunc).map (·.pos)) == some g.pos && g.c.byp.contains t))) with
  | false => rw [hany] at h2; exact absurd rfl h2
  | true =>
    rw [List.any_eq_true] at hany
    obtain ⟨g, hg, hp⟩ := hany
    simp only [Bool.and_eq_true, Bool.or_eq_true, decide_eq_true_eq, beq_iff_eq] at hp
    exact ⟨g, hg, hp.1, hp.2⟩

/-- premises are satisfiable: a provider of a MustConsume type followed by its consumer -/
def c14Example : List CP := [
  { id := 0, cls := .injectorFunc, out := [5], mustConsume := [5], hasMustConsume := true, group := .runGroup },
  { id := 1, cls := .finalFunc, inp := [5], required := true, group := .finalGroup }]

example : (match computeInclusion stdTyInfo c14Example [] with
    | .ok ch => (ch.get 0).inc && (ch.get 0).c.out.contains 5 && (ch.get 0).c.mustConsume.contains 5 &&
                (ch.get 0).c.hasMustConsume == !(ch.get 0).c.mustConsume.isEmpty && (ch.get 1).inc
    | .error _ => false) = true := by decide

end Nject
