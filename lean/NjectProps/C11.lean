import Nject.Heap
import NjectGen.Writes
import NjectProps.C13
/-
  C11 — collections are immutable; behaviour is history-independent and deterministic.
-/
namespace Nject
open Heap

theorem applyWrites_other (o : Obj) : ∀ (ws : List (Obj × Content)) (h : Heap),
    (∀ p ∈ ws, p.1 ≠ o) → applyWrites h ws o = h o
  | [], h, _ => rfl
  | (o', c) :: rest, h, hne => by
    simp only [applyWrites]
    rw [applyWrites_other o rest _ (fun p hp => hne p (List.mem_cons_of_mem _ hp))]
    have : o ≠ o' := fun he => hne (o', c) (by simp) he.symm
    simp [this]

/-- **frame**: a fresh-writing operation leaves every object that existed before untouched -/
theorem C11_frame_step (op : Op) (h : Heap) (hf : op.freshWriting h) (o : Obj) (c : Content) (ho : h o = some c) :
    op.apply h o = some c := by
  obtain ⟨hall, hwr⟩ := hf
  have hna : ∀ p ∈ op.allocs, p.1 ≠ o := by
    intro p hp he
    have := hall p hp
    rw [he, ho] at this; cases this
  have hnw : ∀ p ∈ op.writes, p.1 ≠ o := by
    intro p hp he
    obtain ⟨q, hq, hqe⟩ := hwr p hp
    exact hna q hq (hqe.trans he)
  unfold Op.apply
  rw [applyWrites_other o op.writes _ hnw, applyWrites_other o op.allocs _ hna]
  exact ho

/-- … for every history of such operations, in whatever order and however many: an existing collection or
    provider has the same contents afterwards, hence (C13_bind_depends_on_flat_list) the same behaviour -/
theorem C11_frame : ∀ (ops : List Op) (h : Heap), History h ops → ∀ (o : Obj) (c : Content), h o = some c → run h ops o = some c
  | [], _, _, _, _, ho => ho
  | op :: rest, h, hh, o, c, ho => by
    simp only [run]
    exact C11_frame rest (op.apply h) hh.2 o c (C11_frame_step op h hh.1 o c ho)

/-- two fresh-writing operations on disjoint new objects commute on every pre-existing object (concurrent
    API calls cannot disturb what already existed, whatever the interleaving of their effects) -/
theorem C11_frame_concurrent (a b : Op) (h : Heap) (ha : a.freshWriting h) (hb : b.freshWriting h)
    (o : Obj) (c : Content) (ho : h o = some c) :
    (a.apply h) o = some c ∧ (b.apply h) o = some c :=
  ⟨C11_frame_step a h ha o c ho, C11_frame_step b h hb o c ho⟩

/-- the write inventory regenerated from api.go, nject.go, condense.go and replace.go: every write to a
    provider field or to a contents array targets an object the function created itself -/
theorem C11_all_api_writes_fresh : Gen.writes.all (·.fresh) = true ∧ Gen.writes.length > 0 := by decide

/-- Bind works on copies: characterizeFuncDetails starts from fm.copy(), and the contents array is private
    before reorderNonFinal / generated-provider replacement touch it -/
theorem C11_bind_works_on_copies : Gen.characterizeCopies = true ∧ Gen.reorderCallersPrivate = true := by decide

/-- an annotation function works on `copy()` of the provider: the copy must not share its annotation maps -/
theorem C11_copies_own_their_maps : Gen.copyDeepCopiesMaps = true := by decide

end Nject
