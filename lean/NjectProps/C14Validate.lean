import NjectProofs.IncludeDesReq
import NjectProofs.IncludeDesReq2
import NjectProps.C14Rounds2
/-
  C14, "a Desired provider is included exactly when the same chain with that provider Required would bind", for ONE run of
  the validity check (the first validation of a provider list, or the final one): run on a chain in which provider `d` is
  Desired and run on the same chain with `d` Required instead, the check either keeps `d` in both (and then marks every
  provider alike), or leaves `d` out in the first and fails with "required but ..." in the second.  Together with
  `C14_wanted_reaches_final_validation_unmarked` (pruning, between the two validations, never touches such a provider) this
  is the Desired clause of C14 stage by stage; that the stages of the two whole runs stay in lockstep (the flow computation
  does not look at the Required / Desired flags) is not proved -- it is decided per pair on the implementation.
-/
namespace Nject

theorem RelD_setReq (x : Chain) (d : Nat) (hd : d < x.length) : RelD d x (x.upd d reqF) := by
  refine ⟨upd_length x d reqF, fun j => ?_⟩
  rw [get_upd]
  by_cases hj : j = d
  · rw [if_pos ⟨hj, hd⟩, if_pos hj, hj]
  · rw [if_neg (fun hh => hj hh.1), if_neg hj]

/-- **C14 (one validation)**: the validity check keeps a Desired provider exactly when the same check with the provider
    Required succeeds, and then the two results differ in that flag only -/
theorem C14_validation_keeps_desired_iff_required_succeeds (b : Bool) (x x' : Chain) (d : Nat) (hs : Sym x)
    (hd : d < x.length) (hreq : (x.get d).c.required = false) (hx : (x.get d).excluded = false)
    (h : validate b x = .ok x') :
    ((x'.get d).inc = true ∧ ∃ y', validate b (x.upd d reqF) = .ok y' ∧
        ∀ j, (y'.get j).inc = (x'.get j).inc ∧ (y'.get j).cannot = (x'.get j).cannot) ∨
    ((x'.get d).inc = false ∧ validate b (x.upd d reqF) = .error .required) := by
  rcases validate_desired_vs_required b d x (x.upd d reqF) x' (RelD_setReq x d hd) hs hd hreq hx h with
    ⟨_, hinc, y', hy, hrel⟩ | ⟨hc, hy⟩
  · exact Or.inl ⟨hinc, y', hy, fun j => ⟨(RelD_fields hrel j).1, (RelD_fields hrel j).2.1⟩⟩
  · right
    refine ⟨?_, hy⟩
    have hfix := (validate_fix b x x' h hs).2
    cases hi : (x'.get d).inc with
    | false => rfl
    | true => rw [(hfix d hi).1] at hc; cases hc

/-- **C14 (flow computation + validation)**: compute the flows and validate -- the first stage of the include computation, and
    with the pruned chain as input also its last -- on a chain in which provider `d` is Desired, and on the same chain with
    `d` Required: `d` is kept in the first exactly when the second succeeds, and then every provider is marked alike.  The flow
    computation itself does not look at the two flags (`providesReturns_RelD`). -/
theorem C14_flows_and_validation_desired_vs_required (ti : TyInfo) (x0 x' : Chain) (ip : Option Nat) (d : Nat) (b : Bool)
    (hip : ∀ p, ip = some p → p < x0.length)
    (hd : d < x0.length) (hreq : (x0.get d).c.required = false) (hx : (x0.get d).excluded = false)
    (h : validate b (providesReturns ti x0 ip) = .ok x') :
    ((x'.get d).inc = true ∧ ∃ y', validate b (providesReturns ti (x0.upd d reqF) ip) = .ok y' ∧
        ∀ j, (y'.get j).inc = (x'.get j).inc ∧ (y'.get j).cannot = (x'.get j).cannot) ∨
    ((x'.get d).inc = false ∧ validate b (providesReturns ti (x0.upd d reqF) ip) = .error .required) := by
  have hrel := providesReturns_RelD (RelD_setReq x0 d hd) ti ip
  have hsf := providesReturns_SF ti x0 ip
  have hxf := providesReturns_XF ti x0 ip
  have hs := providesReturns_sym ti x0 ip hip
  rcases validate_desired_vs_required b d _ _ x' hrel hs (by rw [hsf.1]; exact hd)
      (by rw [(hsf.2 d).2.2.1]; exact hreq) (by rw [(hxf.2 d).1]; exact hx) h with ⟨_, hinc, y', hy, hr⟩ | ⟨hc, hy⟩
  · exact Or.inl ⟨hinc, y', hy, fun j => ⟨(RelD_fields hr j).1, (RelD_fields hr j).2.1⟩⟩
  · right
    refine ⟨?_, hy⟩
    have hfix := (validate_fix b _ x' h hs).2
    cases hi : (x'.get d).inc with
    | false => rfl
    | true => rw [(hfix d hi).1] at hc; cases hc

/-- premises are satisfiable, both ways: provider 1 (Desired) asks for a type nobody provides -- it is left out, and the
    check with it Required fails; provider 0 (Desired) is kept, and the check with it Required succeeds -/
def c14ValidateExample : List CP := [
  { id := 0, cls := .injectorFunc, out := [5], desired := true, group := .runGroup },
  { id := 1, cls := .injectorFunc, inp := [7], out := [6], desired := true, group := .runGroup },
  { id := 2, cls := .finalFunc, required := true, group := .finalGroup }]

def c14ValidateChain : Chain := providesReturns stdTyInfo (initState c14ValidateExample []) (initPosOf c14ValidateExample)

example : (match validate true c14ValidateChain, validate true (c14ValidateChain.upd 1 reqF), validate true (c14ValidateChain.upd 0 reqF) with
    | .ok x', .error .required, .ok y' => !(x'.get 1).inc && (x'.get 0).inc && (y'.get 0).inc && !(c14ValidateChain.get 1).c.required
    | _, _, _ => false) = true := by decide

end Nject
