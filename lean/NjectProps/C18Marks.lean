import NjectProofs.EditMarks
/-
  C18 / C05: the named edits look at a provider's name and directives only.  Whatever NonFinal marks the providers carry, and
  whether they are listed themselves or through a generator, the edited list is the same list (with the same marks on the
  same providers); an edit error is the same error.
-/
namespace Nject

/-- set the three marks of every provider by arbitrary rules -/
def remark (a b c : ENode → Bool) (n : ENode) : ENode := { n with nonFinal := a n, gen := b n, inf := c n }

theorem remark_keeps (a b c : ENode → Bool) : KeepsKeys (remark a b c) :=
  ⟨fun _ => rfl, fun _ => rfl, fun _ => rfl, fun _ => rfl, fun _ => rfl⟩

/-- **named edits ignore NonFinal and generator marks** -/
theorem C18_named_edits_ignore_marks (l : List ENode) (a b c : ENode → Bool) :
    handleReplaceByName (l.map (remark a b c)) = (handleReplaceByName l).map (List.map (remark a b c)) :=
  handleReplaceByName_map (remark_keeps a b c) l

/-- in particular the same lists are refused, with the same error -/
theorem C18_edit_errors_ignore_marks (l : List ENode) (a b c : ENode → Bool) (e : EditErr) :
    handleReplaceByName (l.map (remark a b c)) = .error e ↔ handleReplaceByName l = .error e := by
  rw [C18_named_edits_ignore_marks]
  cases handleReplaceByName l with
  | error e' => simp [Except.map]
  | ok r => simp [Except.map]

/-- non-vacuity: marking the moved provider NonFinal and listing the target through a generator changes nothing in where
    the edit puts them -/
example : (match handleReplaceByName ([ { idx := 0, origin := 1, aft := 2 }, { idx := 1, origin := 1 }, { idx := 2, origin := 2 } ].map
      (remark (fun n => n.idx == 0) (fun n => n.idx == 2) (fun _ => false))) with
    | .ok r => idxs r
    | .error _ => []) = [1, 2, 0] := by decide

end Nject
