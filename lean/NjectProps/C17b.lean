import NjectProofs.ReorderProofs
import NjectProofs.ReorderTerm
/-
  C17, second sentence, about the algorithm itself: reorder.go (as transcribed in
  `Nject/ReorderAlg.lean` and compared with the implementation's S4 dump on every run) returns a
  rearrangement of the list it was given in which the providers that are not marked Reorder keep
  their listed relative order -- for every list of providers, every graph the list gives rise to,
  and whatever the amount of fuel given to the loop of `topo.run`.
-/
namespace Nject

theorem range_filterMap_getElem? {α} (l : List α) : ∀ k, k ≤ l.length → (List.range k).filterMap (fun i => l[i]?) = l.take k
  | 0, _ => by simp
  | k + 1, hk => by
    rw [List.range_succ, List.filterMap_append, range_filterMap_getElem? l k (by omega), List.take_add_one]
    have hl : k < l.length := by omega
    simp [List.getElem?_eq_getElem hl]

theorem reorderIdx_perm {ti funcs hasInit r} (h : reorderIdx ti funcs hasInit = some r) :
    r.order.Perm (List.range funcs.length) := by
  unfold reorderIdx at h
  simp only [] at h
  split at h
  · cases h
  · cases h
    have hs := reorderStatic_ok ti (clearReorder funcs) hasInit
    have ⟨f0⟩ := topoInit_full ti (clearReorder funcs) hasInit
    have ⟨f⟩ := loop_full hs (reorderFuel (buildGraph ti (clearReorder funcs) hasInit) (clearReorder funcs)) _ ⟨f0⟩
    have := full_order_perm hs f
    simpa [topoStatic, clearReorder] using this

theorem reorderIdx_fixed {ti funcs hasInit r} (h : reorderIdx ti funcs hasInit = some r) :
    r.order.filter (fun i => !((clearReorder funcs).getD i default).reorder)
      = (List.range funcs.length).filter (fun i => !((clearReorder funcs).getD i default).reorder) := by
  unfold reorderIdx at h
  simp only [] at h
  split at h
  · cases h
  · cases h
    have hs := reorderStatic_ok ti (clearReorder funcs) hasInit
    have ⟨f0⟩ := topoInit_full ti (clearReorder funcs) hasInit
    have ⟨f⟩ := loop_full hs (reorderFuel (buildGraph ti (clearReorder funcs) hasInit) (clearReorder funcs)) _ ⟨f0⟩
    have h1 := full_order_fixed hs f
    rw [hs.nrEq] at h1
    simpa [topoStatic, clearReorder] using h1

/-- **C17 (algorithm)**: whatever reorder does, no provider is lost or duplicated. -/
theorem C17_reorder_is_a_rearrangement (ti : TyInfo) (funcs : List CP) (hasInit : Bool) :
    (reorderModel ti funcs hasInit).1.Perm (clearReorder funcs) := by
  unfold reorderModel
  cases h : reorderIdx ti funcs hasInit with
  | none => exact List.Perm.refl _
  | some r =>
    simp only []
    have hp := (reorderIdx_perm h).filterMap (fun i => (clearReorder funcs)[i]?)
    have hl : funcs.length = (clearReorder funcs).length := by simp [clearReorder]
    rw [hl, range_filterMap_getElem? _ _ (Nat.le_refl _), List.take_length] at hp
    exact hp

/-- **C17 (algorithm)**: the providers not marked Reorder keep their listed relative order. -/
theorem C17_fixed_providers_keep_their_order (ti : TyInfo) (funcs : List CP) (hasInit : Bool) :
    (reorderModel ti funcs hasInit).1.filter (fun f => !f.reorder) = (clearReorder funcs).filter (fun f => !f.reorder) := by
  unfold reorderModel
  cases h : reorderIdx ti funcs hasInit with
  | none => rfl
  | some r =>
    simp only []
    have key : ∀ l : List Nat, (l.filterMap fun i => (clearReorder funcs)[i]?).filter (fun f => !f.reorder)
        = (l.filter (fun i => !((clearReorder funcs).getD i default).reorder)).filterMap fun i => (clearReorder funcs)[i]? := by
      intro l
      rw [List.filter_filterMap, List.filterMap_filter]
      congr 1
      funext i
      rw [List.getD_eq_getElem?_getD]
      cases (clearReorder funcs)[i]? with
      | none => simp
      | some f => cases hr : f.reorder <;> simp [hr]
    rw [key, reorderIdx_fixed h, ← key]
    have hl : funcs.length = (clearReorder funcs).length := by simp [clearReorder]
    rw [hl, range_filterMap_getElem? _ _ (Nat.le_refl _), List.take_length]

/-- the providers reorder gives up on ("dependencies not met") are exactly those the sort never
    reached, and they are listed last, in listed order -/
theorem C17_given_up_are_listed_last {ti funcs hasInit r} (h : reorderIdx ti funcs hasInit = some r) :
    ∃ reached, r.order = reached ++ r.gaveUp := by
  unfold reorderIdx at h
  simp only [] at h
  split at h
  · cases h
  · cases h; exact ⟨_, rfl⟩

/-- **C17 (algorithm)**: `topo.run` ends -- the transcription never uses up the fuel it is given, for
    every list of providers (the measure: queue entries plus the pushes the unprocessed nodes can
    still cause) -/
theorem C17_reorder_always_ends (ti : TyInfo) (funcs : List CP) (hasInit : Bool) :
    (reorderModel ti funcs hasInit).2.2 = false := by
  unfold reorderModel
  cases h : reorderIdx ti funcs hasInit with
  | none => rfl
  | some r => exact reorderIdx_terminates h

/-! ### non-vacuity: a chain on which reorder really moves a provider -/

private def exFuncs : List CP :=
  [ { id := 990, cls := .invokeFunc, group := .invokeGroup, out := [1], recv := [], required := true },
    { id := 0, cls := .injectorFunc, group := .runGroup, inp := [2], out := [3], reorder := true },   -- needs 2: must move behind 1
    { id := 1, cls := .injectorFunc, group := .runGroup, inp := [1], out := [2] },
    { id := 2, cls := .finalFunc, group := .finalGroup, inp := [3], required := true } ]

example : (reorderModel stdTyInfo exFuncs false).1.map (·.id) = [990, 1, 0, 2] := by decide
example : (reorderModel stdTyInfo exFuncs false).2.1 = [] := by decide
-- two Reorder'd providers that wait for each other are given up on and listed last
example : (reorderModel stdTyInfo
    [ { id := 990, cls := .invokeFunc, group := .invokeGroup, out := [1], required := true },
      { id := 0, cls := .injectorFunc, group := .runGroup, inp := [5], out := [6], reorder := true },
      { id := 1, cls := .injectorFunc, group := .runGroup, inp := [6], out := [5], reorder := true },
      { id := 2, cls := .finalFunc, group := .finalGroup, inp := [1], required := true } ] false).2.1 = [0, 1] := by decide

end Nject
