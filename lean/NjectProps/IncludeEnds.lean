import NjectProofs.IncludeTerm
import NjectProofs.IncludeTerm2
/-
  The include computation's validation loops end within the fuel the model gives them: the model never
  answers "out of fuel", so every error it reports is one of the implementation's own (a Required or
  wanted provider that cannot be included, or the final "internal error").  This removes the fuel from
  the trusted base of the C03 / C14 / C15 theorems, which speak about the accepted (`.ok`) outcomes.
-/
namespace Nject

/-- **C03/C14/C15 (algorithm)**: the worklist of `validateChainMarkIncludeExclude` terminates (at most
    `2·n + 1` passes) for every chain, whatever the dependency records look like -/
theorem C03_validation_always_ends (b : Bool) (ch : Chain) : validate b ch ≠ .error .fuel :=
  validate_never_out_of_fuel b ch

/-- the include computation as a whole never reports "out of fuel" -/
theorem C03_include_never_out_of_fuel (ti : TyInfo) (funcs : List CP) (cannot0 : List Nat) :
    computeInclusion ti funcs cannot0 ≠ .error .fuel := by
  unfold computeInclusion inclusionBeforeFinal firstValidation
  cases hv : validate true (providesReturns ti (initState funcs cannot0) (initPosOf funcs)) with
  | error e =>
    simp only []
    intro he
    injection he with he
    subst he
    exact validate_never_out_of_fuel _ _ hv
  | ok ch =>
    simp only []
    split
    · simp
    · simp

/-- the loop that drops unused providers (`eliminateUnused`, called from `pruneStages` with exactly this
    fuel) has used up its work list before the fuel: more fuel gives the same chain.  (Each step takes one
    entry off the work list; eliminating a provider -- at most once each -- puts its `uses` on it.) -/
theorem C03_unused_elimination_fuel_is_enough (ch : Chain) (extra : Nat) :
    eliminateUnused (ch.length + (ch.map (·.uses.length)).sum + 8 + extra) (List.range ch.length) ch
      = eliminateUnused (ch.length + (ch.map (·.uses.length)).sum + 8) (List.range ch.length) ch := by
  have := elimMeasure_range_le ch
  exact eliminateUnused_fuel _ _ _ _ (by omega) (by omega)

/-- the keep-closure of `proposeEliminations` (either direction, started from any seeds taken from the chain's
    positions, with exactly the fuel `proposeEliminations` gives it) has used up its work list before the fuel: more
    fuel gives the same set.  (Each step takes one entry off the work list; a provider -- when it is first kept, at
    most once each -- adds at most one entry per type it asks for.) -/
theorem C03_keep_closure_fuel_is_enough (ch : Chain) (down : Bool) (seeds : List Nat) (hs : seeds.length ≤ ch.length) (extra : Nat) :
    keepClosure ch down (ch.length + (ch.map fun f => (f.usesIn ++ f.usesByp).length + f.usesRecv.length).sum + 8 + extra) seeds []
      = keepClosure ch down (ch.length + (ch.map fun f => (f.usesIn ++ f.usesByp).length + f.usesRecv.length).sum + 8) seeds [] := by
  have := kcMeasure_start_le ch down seeds hs
  exact keepClosure_fuel ch down _ _ _ _ (by omega) (by omega)

/-- the seeds `proposeEliminations` starts from are positions of the chain, each at most once -/
theorem C03_keep_closure_seeds_fit (ch : Chain) (p : Nat → Bool) : ((List.range ch.length).filter p).length ≤ ch.length := by
  have := List.length_filter_le p (List.range ch.length)
  simpa using this

/-- the measure argument is not vacuous: a chain of two providers where the second cannot be satisfied
    needs a second pass -/
example : (match validate true (providesReturns stdTyInfo (initState
    [{ id := 0, cls := .injectorFunc, out := [5], group := .runGroup },
     { id := 1, cls := .injectorFunc, inp := [5, 6], out := [7], group := .runGroup },
     { id := 2, cls := .finalFunc, inp := [5], required := true, group := .finalGroup }] []) none) with
    | .ok ch => ch.map (fun (f : IP) => f.inc)
    | .error _ => []) = [true, false, true] := by decide

end Nject
