import NjectProofs.ConcProofs
import NjectGen.Consts
import Nject.Validate
/-
  C12 — diagnostics describe the chain that actually runs.
-/
namespace Nject
open Conc

/-- the model of bind.go:179-226: what Debugging reports -/
def namesIncluded (ch : Chain) : List Nat := (ch.filter (·.inc)).map (·.c.id)
def includeExcludeLines (ch : Chain) : List (Bool × Nat) := ch.map fun f => (f.inc, f.c.id)
/-- the model of bind.go:233-244: which providers get closures -/
def generated (ch : Chain) : List Nat := (ch.filter (·.inc)).map (·.c.id)

/-- Debugging lists as included exactly the providers that get closures, in the same (funcs) order -/
theorem C12_debugging_lists_included (ch : Chain) : namesIncluded ch = generated ch := rfl

/-- every supplied provider appears exactly once, as INCLUDED or EXCLUDED according to its flag -/
theorem C12_every_provider_reported (ch : Chain) :
    (includeExcludeLines ch).length = ch.length ∧
    ((includeExcludeLines ch).filter (·.1)).map (·.2) = namesIncluded ch := by
  refine ⟨by simp [includeExcludeLines], ?_⟩
  simp only [includeExcludeLines, namesIncluded]
  induction ch with
  | nil => rfl
  | cons f fs ih =>
    by_cases h : f.inc = true
    · simp [List.filter, h, ih]
    · have h' : f.inc = false := by simpa using h
      simp [List.filter, h', ih]

/-- the regenerated facts that tie those two definitions to bind.go: the three loops of the Debugging closure
    filter on `fm.include` (the third lists the rest as EXCLUDED) and the closure-generation loop skips
    exactly the providers with `!fm.include` -/
theorem C12_loops_use_the_include_flag :
    Gen.debugLoops = [1, 1, 2] ∧ Gen.generateLoopSkipsExcluded = true := by
  decide

/-- every non-empty form DetailedError can return starts with the plain error text -/
theorem C12_detailed_error_prefix :
    Gen.detailedErrorStartsWithErr.all id = true ∧ Gen.detailedErrorStartsWithErr ≠ [] := by
  decide

/-- the trace capture keeps the debug (write) lock until it has read the captured output, and every Bind
    holds the read lock around doBind: no other Bind's debug lines can get into a capture (regenerated facts) -/
theorem C12_capture_under_exclusive_lock :
    Gen.captureHoldsLockToTheEnd = true ∧ Gen.bindHoldsReadLock = true := by
  decide

/-- string-level: a concatenation starts with its first part -/
theorem C12_concat_prefix (e rest : List Char) : (e ++ rest).take e.length = e := by simp

/-- debug lock: for any mix of Binds (read lock) and trace captures (write lock, debug flag), in any
    interleaving, the flag is only ever set while its owner holds the write lock … -/
theorem C12_debug_flag_implies_writer (sched : List (Nat × Bool)) (h : (lrun sched LState.init).debug = true) :
    ∃ t, (lrun sched LState.init).writer = some t ∧ (lrun sched LState.init).th t = .capturing :=
  (lrun_inv sched _ linit_inv).dbg h

/-- … hence the early `return "already capturing"` of captureDoBindDebugging, which would leave the write
    lock held for ever, is unreachable -/
theorem C12_never_returns_holding_the_lock (sched : List (Nat × Bool)) (t : Nat) :
    (lrun sched LState.init).th t ≠ .stuck :=
  (lrun_inv sched _ linit_inv).noStuck t

/-- a capture that holds the lock can always finish (no step of a capturing thread is blocked) -/
theorem C12_capture_can_finish (s : LState) (t : Nat) (c : Bool) (h : s.th t = .capturing) : (lstep s t c).isSome = true := by
  simp [lstep, h]

/-- … and so can a Bind that holds the read lock -/
theorem C12_bind_can_finish (s : LState) (t : Nat) (c : Bool) (h : s.th t = .reading) : (lstep s t c).isSome = true := by
  simp [lstep, h]

end Nject
