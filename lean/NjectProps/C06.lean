import Nject.Classify
/-
  C06 (classification part) — theorems over the REGENERATED registry of characterize.go.
  Every statement is either a general fact about first-match classification or a `decide` over the
  entries of the table as extracted from /repo on this run.
-/
namespace Nject
open Gen

/-- the extractor recognised every statement of every mutate function -/
theorem C06_registry_fully_extracted :
    (handlerRegistry ++ invokeRegistry).all (fun e => e.unknown.isEmpty && e.flows.all (fun f => match f.2 with | .other _ => false | _ => true)) = true := by
  decide

/-- the predicates and helper functions that the model binds by name (hand-written transcriptions: `mappable`,
    `canBeMapKey`, `isWrapper`, `hasAnonymousFuncs`, `stripUnused`, ... and the multi-statement predicate bodies) still
    have the source text the model was written against, and every one-expression predicate body is one the
    translator knows -/
theorem C06_hand_modelled_sources_unchanged : modelledByHandChanged = [] := by
  decide

/-- first-match: the chosen entry's predicates all hold -/
theorem classify_tests_hold (reg : List Entry) (c : PredCtx) (e : Entry) (h : classifyWith reg c = some e) :
    ∀ p ∈ e.tests, p.holds c = true := by
  have := List.find?_some h
  exact List.all_eq_true.mp this

theorem classify_mem (reg : List Entry) (c : PredCtx) (e : Entry) (h : classifyWith reg c = some e) : e ∈ reg :=
  List.mem_of_find?_eq_some h

/-- every STATIC entry of the table demands: a function, marked Cacheable, inputs static, not
    NotCacheable, not last, no anonymous func parameters, not a function pointer -/
theorem C06_static_entries_guarded :
    handlerRegistry.all (fun e => e.group != .staticGroup ||
      ([Pred.pIsFunc, .pMarkedCacheable, .pInStatic, .pNotMarkedNoCache, .pNotLast, .pNoAnonymousFuncs, .pIsNotFuncPointer].all
        (fun p => e.tests.contains p))) = true := by decide

/-- … and produces something: a value (hasOutputs) or a TerminalError, unless it is a Singleton -/
theorem C06_static_entries_produce :
    handlerRegistry.all (fun e => e.group != .staticGroup ||
      (e.tests.contains .pHasOutputs || e.tests.contains .pReturnsTerminalError || e.tests.contains .pMarkedSingleton)) = true := by
  decide

/-- every RUN and FINAL entry refuses MustCache (and hence Singleton, which sets MustCache) -/
theorem C06_run_entries_unstaticOkay :
    handlerRegistry.all (fun e => !(e.group == .runGroup || e.group == .finalGroup) || e.tests.contains .pUnstaticOkay) = true := by
  decide

/-- no handler entry yields the invoke group; literal entries demand a non-function -/
theorem C06_groups_of_table :
    handlerRegistry.all (fun e => e.group != .invokeGroup && (e.group != .literalGroup || e.tests.contains .pNotFunc)) = true := by
  decide

theorem mem_all {l : List Entry} {f : Entry → Bool} (h : l.all f = true) {e : Entry} (he : e ∈ l) : f e = true :=
  List.all_eq_true.mp h e he

/-- **static_sound**: a provider is classified STATIC only if it is a function marked Cacheable
    (MustCache/Memoize/Singleton set Cacheable), all its inputs are static, it is not NotCacheable,
    not last, has no anonymous func parameter. -/
theorem C06_static_sound (c : PredCtx) (e : Entry) (h : classify c = some e) (hg : e.group = .staticGroup) :
    c.kindFunc = true ∧ c.cacheable = true ∧ c.inputsAreStatic = true ∧ c.notCacheable = false ∧ c.isLast = false ∧
    c.noAnonymousFuncs = true := by
  have hm := classify_mem _ c e h
  have ht := classify_tests_hold _ c e h
  have hguard := mem_all C06_static_entries_guarded hm
  simp only [hg, bne_self_eq_false, Bool.false_or, List.all_cons, List.all_nil, Bool.and_true, Bool.and_eq_true,
    List.contains_eq_mem, decide_eq_true_eq] at hguard
  obtain ⟨h1, h2, h3, h4, h5, h6, _⟩ := hguard
  have a1 := ht _ h1; have a2 := ht _ h2; have a3 := ht _ h3; have a4 := ht _ h4; have a5 := ht _ h5; have a6 := ht _ h6
  simp only [Pred.holds, Bool.not_eq_true'] at a1 a2 a3 a4 a5 a6
  exact ⟨a1, a2, a3, a4, a5, a6⟩

/-- NotCacheable overrides Cacheable -/
theorem C06_notcacheable_wins (c : PredCtx) (e : Entry) (h : classify c = some e) (hn : c.notCacheable = true) :
    e.group ≠ .staticGroup := by
  intro hg
  have := (C06_static_sound c e h hg).2.2.2.1
  rw [hn] at this; cases this

/-- a provider with a per-invocation input is never hoisted -/
theorem C06_never_hoisted_over_run_input (c : PredCtx) (e : Entry) (h : classify c = some e)
    (hn : c.inputsAreStatic = false) : e.group ≠ .staticGroup := by
  intro hg
  have := (C06_static_sound c e h hg).2.2.1
  rw [hn] at this; cases this

/-- MustCache / Singleton: either the provider is STATIC (or a literal) or classification fails,
    i.e. Bind fails -/
theorem C06_mustcache_or_error (c : PredCtx) (hm : c.mustCache = true) :
    classify c = none ∨ ∃ e, classify c = some e ∧ (e.group = .staticGroup ∨ e.group = .literalGroup) := by
  cases h : classify c with
  | none => exact Or.inl rfl
  | some e =>
    refine Or.inr ⟨e, rfl, ?_⟩
    have hmem := classify_mem _ c e h
    have ht := classify_tests_hold _ c e h
    have h1 := mem_all C06_run_entries_unstaticOkay hmem
    have h2 := mem_all C06_groups_of_table hmem
    cases hg : e.group with
    | staticGroup => exact Or.inl rfl
    | literalGroup => exact Or.inr rfl
    | invokeGroup => simp [hg] at h2
    | runGroup =>
      simp only [hg, beq_self_eq_true, Bool.true_or, Bool.not_true, Bool.false_or, List.contains_eq_mem, decide_eq_true_eq] at h1
      have := ht _ h1
      simp [Pred.holds, hm] at this
    | finalGroup =>
      simp only [hg, beq_self_eq_true, Bool.or_true, Bool.not_true, Bool.false_or, List.contains_eq_mem, decide_eq_true_eq] at h1
      have := ht _ h1
      simp [Pred.holds, hm] at this

/-- completeness for plain Cacheable: a non-last function marked Cacheable (not Memoize, not Singleton, not
    NotCacheable) with outputs, static inputs and no anonymous func parameters IS classified STATIC -/
theorem C06_static_complete_cacheable (c : PredCtx)
    (h1 : c.kindFunc = true) (h2 : c.cacheable = true) (h3 : c.inputsAreStatic = true) (h4 : c.notCacheable = false)
    (h5 : c.isLast = false) (h6 : c.noAnonymousFuncs = true) (h7 : c.hasOutputs = true ∨ c.returnsTerminalError = true)
    (h8 : c.memoize = false) (h9 : c.singleton = false) (h10 : c.isFuncPointer = false) (hr : c.reorder = false) :
    ∃ e, classify c = some e ∧ e.group = .staticGroup := by
  cases hte : c.returnsTerminalError with
  | true =>
    refine ⟨handlerRegistry[5]'(by decide), ?_, ?_⟩
    · simp [classify, classifyWith, handlerRegistry, List.find?, fires, Pred.holds, h1, h2, h3, h4, h5, h6, h8, h9, h10, hte, hr]
    · decide
  | false =>
    have ho : c.hasOutputs = true := by
      cases h7 with
      | inl h => exact h
      | inr h => rw [hte] at h; cases h
    refine ⟨handlerRegistry[8]'(by decide), ?_, ?_⟩
    · simp [classify, classifyWith, handlerRegistry, List.find?, fires, Pred.holds, h1, h2, h3, h4, h5, h6, h8, h9, h10, hte, ho, hr]
    · decide

/-- non-vacuity: a Cacheable `func() T` in the middle of the list -/
example : ∃ e, classify { cacheable := true } = some e ∧ e.group = .staticGroup :=
  C06_static_complete_cacheable _ rfl rfl rfl rfl rfl rfl (Or.inl rfl) rfl rfl rfl rfl

end Nject

namespace Nject
open Gen

/-- C04 (cache keys): every registry entry that memoizes requires inputs that can be map keys and
    installs the run-time key check — a memoized provider can never be asked to hash a slice, map or
    func (regenerated registry; decide). -/
theorem C04_memoized_entries_guard_their_keys :
    ∀ e ∈ handlerRegistry, e.memoized = true →
      e.mapKeyCheck = true ∧ Pred.pMappableInputs ∈ e.tests ∧ Pred.pPossibleMapKey ∈ e.tests := by decide

end Nject
