import NjectProps.C06
/-
  C07 (classification part), over the REGENERATED registry: a provider that returns TerminalError
  is never classified as a plain injector or plain static injector -- the entry chosen for it is one
  whose generated code treats the TerminalError as terminal (fallible injector / fallible static
  injector), or it is the final function, a wrapper or a literal.  The registry is first-match:
  what makes this true is that every plain entry is preceded by a fallible entry asking for nothing
  more than the plain one plus `returnsTerminalError`.
  (On the pinned tree the entry "static injector" lacked `notMarkedReorder`, which the fallible static
  entries have: MustCache(Reorder(func() (T, TerminalError))) was compiled as a plain static injector and
  its non-nil TerminalError did not stop anything.  The first version of this theorem needed the
  hypothesis `reorder = false`; running the implementation at the excluded point showed the defect,
  which is repaired in /repo.)
-/
namespace Nject
open Gen

def plainInjectorEntry (e : Entry) : Bool := e.cls == .injectorFunc || e.cls == .staticInjectorFunc
def fallibleEntry (e : Entry) : Bool := e.cls == .fallibleInjectorFunc || e.cls == .fallibleStaticInjectorFunc

/-- the fallible entry `f` asks for nothing beyond what the plain entry `e` asks for, except that
    the provider returns TerminalError -/
def coveredBy (e f : Entry) : Bool :=
  fallibleEntry f && f.tests.all fun p => p == .pReturnsTerminalError || e.tests.contains p

/-- every plain injector entry of the table is preceded by a fallible entry covering it -/
def teOrderOK : List Entry → List Entry → Bool
  | _, [] => true
  | earlier, e :: rest => (!plainInjectorEntry e || earlier.any (coveredBy e)) && teOrderOK (e :: earlier) rest

theorem C07_registry_fallible_entries_come_first : teOrderOK [] handlerRegistry = true := by decide

theorem teOrder_sound (c : PredCtx) (hte : c.returnsTerminalError = true) :
    ∀ (rest earlier : List Entry), teOrderOK earlier rest = true → (∀ f ∈ earlier, fires c f = false) →
      ∀ e, rest.find? (fires c) = some e → plainInjectorEntry e = false
  | [], _, _, _, e, h => by simp at h
  | x :: rest, earlier, hok, hearly, e, h => by
    unfold teOrderOK at hok
    simp only [Bool.and_eq_true] at hok
    obtain ⟨hx, hrest⟩ := hok
    by_cases hf : fires c x = true
    · -- x is the first match
      have : e = x := by
        rw [List.find?_cons_of_pos (by simpa using hf)] at h
        exact (Option.some.inj h).symm
      subst this
      cases hp : plainInjectorEntry e with
      | false => rfl
      | true =>
        simp only [hp, Bool.not_true, Bool.false_or, List.any_eq_true] at hx
        obtain ⟨f, hfm, hcov⟩ := hx
        unfold coveredBy at hcov
        simp only [Bool.and_eq_true, List.all_eq_true] at hcov
        -- then f fires as well, but f is earlier
        have : fires c f = true := by
          unfold fires
          rw [List.all_eq_true]
          intro p hp'
          have := hcov.2 p hp'
          simp only [Bool.or_eq_true, beq_iff_eq, List.contains_eq_mem, decide_eq_true_eq] at this
          rcases this with rfl | hmem
          · simpa [Pred.holds] using hte
          · have hfe : fires c e = true := hf
            unfold fires at hfe
            exact List.all_eq_true.mp hfe p hmem
        rw [hearly f hfm] at this; cases this
    · have hf' : fires c x = false := by simpa using hf
      rw [List.find?_cons_of_neg (by simpa using hf')] at h
      exact teOrder_sound c hte rest (x :: earlier) hrest
        (fun f hfm => by rcases List.mem_cons.mp hfm with rfl | hfm; exact hf'; exact hearly f hfm) e h

/-- **C07 (classification)**: a provider returning TerminalError is never compiled as a plain
    injector, whatever its annotations: its TerminalError is always treated as terminal. -/
theorem C07_terminal_error_is_never_a_plain_output (c : PredCtx) (e : Entry) (h : classify c = some e)
    (hte : c.returnsTerminalError = true) :
    e.cls ≠ .injectorFunc ∧ e.cls ≠ .staticInjectorFunc := by
  have := teOrder_sound c hte handlerRegistry [] C07_registry_fallible_entries_come_first (fun _ h => by cases h) e h
  unfold plainInjectorEntry at this
  simp only [Bool.or_eq_false_iff, beq_eq_false_iff_ne, ne_eq] at this
  exact this

/-- and a fallible class is only ever given to a provider that does return TerminalError -/
theorem C07_fallible_class_needs_terminal_error :
    handlerRegistry.all (fun e => !fallibleEntry e || e.tests.contains .pReturnsTerminalError) = true := by decide

/-- the flows of a fallible run-group entry: the error goes up (`errorOnly`), TerminalError is taken
    out of what is injected downward (`redactTE`); of a fallible static entry: TerminalError is retyped
    to error (`remapTE`) -/
theorem C07_fallible_flows :
    handlerRegistry.all (fun e =>
      (e.cls != .fallibleInjectorFunc || (e.flows.contains (.outputParams, .redactTE) && e.flows.contains (.returnParams, .errorOnly))) &&
      (e.cls != .fallibleStaticInjectorFunc || e.flows.contains (.outputParams, .remapTE))) = true := by decide

/-- the excluded point of the first version: MustCache + Reorder + TerminalError now matches no entry (Bind fails) -/
example : classify { mustCache := true, cacheable := true, reorder := true, returnsTerminalError := true } = none := by decide

/-- non-vacuity: a memoized per-invocation function returning TerminalError gets the fallible class -/
example : (classify { memoize := true, cacheable := true, inputsAreStatic := false, returnsTerminalError := true }).map (·.cls)
    = some .fallibleInjectorFunc := by decide

end Nject
