import NjectProofs.IncludeIncIrrel
import NjectProps.C14Lockstep
/-
  C14, the Desired clause, in terms of provider lists: `computeInclusion` on a list in which provider `d` is Desired or
  auto-desired (not Required, not Shun'd, not in a Cluster) and on the same list with that provider marked Required.
-/
namespace Nject

/-- the same provider, marked Required -/
def makeRequired (c : CP) : CP := { c with required := true, desired := false }

theorem includeRun_RelI (ti : TyInfo) (ip : Option Nat) {d : Nat} {x y : Chain} (hrel : RelI d x y) (hd : d < x.length) :
    includeRun ti ip y = includeRun ti ip x := by
  unfold includeRun
  rw [validate_RelI true (providesReturns_RelI hrel ti ip) (by rw [(providesReturns_SF ti x ip).1]; exact hd)]

/-- the record `initState` makes for the provider at position `j` -/
theorem initState_rec (funcs : List CP) (cannot0 : List Nat) (j : Nat) (c : CP) (hj : funcs[j]? = some c) :
    (initState funcs cannot0).get j =
      { c := c, pos := j, inc := c.required, cannot := cannot0.contains c.id, mcOut := c.hasMustConsume, mcRet := true,
        wanted := !c.required && !c.desired && c.cls != .finalFunc && (stripUnusedT c.out).isEmpty,
        wantedInCluster := (!c.required && !c.desired && c.cls != .finalFunc && (stripUnusedT c.out).isEmpty) && c.cluster != 0 } := by
  have hjl : j < funcs.length := by
    rcases Nat.lt_or_ge j funcs.length with h | h
    · exact h
    · rw [List.getElem?_eq_none h] at hj; cases hj
  have hc : funcs[j] = c := by
    rw [List.getElem?_eq_getElem hjl] at hj; exact Option.some.inj hj
  unfold initState Chain.get
  have hz : j < (funcs.zip (List.range funcs.length)).length := by simp [hjl]
  simp [List.getD, List.getElem?_map, List.getElem?_eq_getElem hz, hc]


theorem findSome_zip_set (f : CP × Nat → Option Nat) (hf : ∀ c c' i, c'.cls = c.cls → f (c', i) = f (c, i)) :
    ∀ (l : List CP) (r : List Nat) (d : Nat) (c c' : CP), l[d]? = some c → c'.cls = c.cls →
      ((l.set d c').zip r).findSome? f = (l.zip r).findSome? f
  | [], _, _, _, _, h, _ => by simp at h
  | a :: l, [], d, c, c', _, _ => by cases d <;> simp
  | a :: l, i :: r, 0, c, c', h, hc => by
    have : a = c := by simpa using h
    subst this
    simp only [List.set_cons_zero, List.zip_cons_cons, List.findSome?_cons, hf a c' i hc]
  | a :: l, i :: r, d + 1, c, c', h, hc => by
    have h' : l[d]? = some c := by simpa using h
    simp only [List.set_cons_succ, List.zip_cons_cons, List.findSome?_cons, findSome_zip_set f hf l r d c c' h' hc]

theorem initPosOf_set (funcs : List CP) (d : Nat) (c : CP) (hd : funcs[d]? = some c) :
    initPosOf (funcs.set d (makeRequired c)) = initPosOf funcs := by
  unfold initPosOf
  rw [List.length_set]
  exact findSome_zip_set _ (fun c c' i h => by simp only [h]) funcs _ d c (makeRequired c) hd rfl

/-- the initial state of the list with the provider marked Required is the initial state of the list as given with that
    provider made Required -- and initially included, which the computation does not look at -/
theorem initState_set (funcs : List CP) (cannot0 : List Nat) (d : Nat) (c : CP) (hd : funcs[d]? = some c) (hcl : c.cluster = 0) :
    RelI d ((initState funcs cannot0).upd d reqF) (initState (funcs.set d (makeRequired c)) cannot0) := by
  have hdl : d < funcs.length := by
    rcases Nat.lt_or_ge d funcs.length with h | h
    · exact h
    · rw [List.getElem?_eq_none h] at hd; cases hd
  have hX : ∀ j, ((initState funcs cannot0).upd d reqF).get j
      = if j = d then reqF ((initState funcs cannot0).get d) else (initState funcs cannot0).get j := by
    intro j
    rw [get_upd, initState_length]
    by_cases hj : j = d
    · rw [if_pos ⟨hj, hdl⟩, if_pos hj]
    · rw [if_neg (fun hh => hj hh.1), if_neg hj]
  refine ⟨by rw [initState_length, upd_length, initState_length, List.length_set], fun j => ?_⟩
  rw [hX j]
  by_cases hj : j = d
  · rw [if_pos hj, if_pos hj, hj]
    have hs : (funcs.set d (makeRequired c))[d]? = some (makeRequired c) := by
      rw [List.getElem?_set_self hdl]
    rw [initState_rec _ cannot0 d _ hs, initState_rec funcs cannot0 d c hd]
    simp [reqF, incT, makeRequired, hcl]
  · rw [if_neg hj, if_neg hj]
    by_cases hjl : j < funcs.length
    · have hget : funcs[j]? = some funcs[j] := List.getElem?_eq_getElem hjl
      have hs : (funcs.set d (makeRequired c))[j]? = some funcs[j] := by
        rw [List.getElem?_set_ne (fun e => hj e.symm)]; exact hget
      rw [initState_rec _ cannot0 j _ hs, initState_rec funcs cannot0 j _ hget]
    · rw [get_default_of_ge _ j (by rw [initState_length, List.length_set]; exact hjl),
          get_default_of_ge _ j (by rw [initState_length]; exact hjl)]

/-- the auto-desired rule of `initState` -/
def autoDesiredC (c : CP) : Bool := !c.required && !c.desired && c.cls != .finalFunc && (stripUnusedT c.out).isEmpty

/-- **C14, the Desired clause, on provider lists**: if the include computation accepts a provider list, then a provider of the
    list that is Desired or auto-desired (and not Required, not Shun'd, not in a Cluster, not given up on by reorder) is
    included exactly when the include computation also accepts the list with that provider marked Required -/
theorem C14_desired_included_iff_required_variant_accepted (ti : TyInfo) (funcs : List CP) (cannot0 : List Nat) (ch : Chain)
    (d : Nat) (c : CP) (hd : funcs[d]? = some c) (hreq : c.required = false)
    (hwant : c.desired = true ∨ autoDesiredC c = true) (hshun : c.shun = false) (hcl : c.cluster = 0)
    (h : computeInclusion ti funcs cannot0 = .ok ch) :
    (ch.get d).inc = true ↔ ∃ ch', computeInclusion ti (funcs.set d (makeRequired c)) cannot0 = .ok ch' := by
  have hdl : d < funcs.length := by
    rcases Nat.lt_or_ge d funcs.length with h' | h'
    · exact h'
    · rw [List.getElem?_eq_none h'] at hd; cases hd
  have hrun := (computeInclusion_eq_includeRun ti funcs cannot0 ch).mp h
  have hrec := initState_rec funcs cannot0 d c hd
  have hdd : DesD d (initState funcs cannot0) := by
    refine ⟨by rw [initState_length]; exact hdl, by rw [hrec]; exact hreq, ?_, by rw [hrec]; exact hshun, by rw [hrec]; exact hcl,
      by rw [hrec]⟩
    rw [hrec]
    rcases hwant with h1 | h1
    · exact Or.inl h1
    · right
      unfold autoDesiredC at h1
      exact ⟨h1, by simp [hcl]⟩
  have hip : ∀ p, initPosOf funcs = some p → p < (initState funcs cannot0).length := fun p hp => by
    rw [initState_length]; exact initPos_lt funcs p hp
  have key := C14_desired_included_iff_required_run_succeeds ti (initPosOf funcs) (initState funcs cannot0) ch d hdd
    (initState_clusterMembers funcs cannot0) hip hrun
  rw [key]
  have hrel := initState_set funcs cannot0 d c hd hcl
  have heq := includeRun_RelI ti (initPosOf funcs) hrel (by rw [upd_length, initState_length]; exact hdl)
  constructor
  · rintro ⟨y', hy'⟩
    refine ⟨y', (computeInclusion_eq_includeRun ti _ cannot0 y').mpr ?_⟩
    rw [initPosOf_set funcs d c hd, heq]; exact hy'
  · rintro ⟨ch', hch'⟩
    have := (computeInclusion_eq_includeRun ti _ cannot0 ch').mp hch'
    rw [initPosOf_set funcs d c hd, heq] at this
    exact ⟨ch', this⟩

/-- ... and then the two accepted chains mark every provider alike ("the two chains then behave identically": the same
    providers are compiled, with the same slots -- the refinement theorem does the rest) -/
theorem C14_required_variant_is_marked_alike (ti : TyInfo) (funcs : List CP) (cannot0 : List Nat) (ch ch' : Chain)
    (d : Nat) (c : CP) (hd : funcs[d]? = some c) (hreq : c.required = false)
    (hwant : c.desired = true ∨ autoDesiredC c = true) (hshun : c.shun = false) (hcl : c.cluster = 0)
    (h : computeInclusion ti funcs cannot0 = .ok ch)
    (h' : computeInclusion ti (funcs.set d (makeRequired c)) cannot0 = .ok ch') :
    ∀ j, (ch'.get j).inc = (ch.get j).inc ∧ (ch'.get j).cannot = (ch.get j).cannot := by
  have hdl : d < funcs.length := by
    rcases Nat.lt_or_ge d funcs.length with h1 | h1
    · exact h1
    · rw [List.getElem?_eq_none h1] at hd; cases hd
  have hrun := (computeInclusion_eq_includeRun ti funcs cannot0 ch).mp h
  have hrec := initState_rec funcs cannot0 d c hd
  have hdd : DesD d (initState funcs cannot0) := by
    refine ⟨by rw [initState_length]; exact hdl, by rw [hrec]; exact hreq, ?_, by rw [hrec]; exact hshun, by rw [hrec]; exact hcl,
      by rw [hrec]⟩
    rw [hrec]
    rcases hwant with h1 | h1
    · exact Or.inl h1
    · right
      unfold autoDesiredC at h1
      exact ⟨h1, by simp [hcl]⟩
  have hip : ∀ p, initPosOf funcs = some p → p < (initState funcs cannot0).length := fun p hp => by
    rw [initState_length]; exact initPos_lt funcs p hp
  have hrel := initState_set funcs cannot0 d c hd hcl
  have heq := includeRun_RelI ti (initPosOf funcs) hrel (by rw [upd_length, initState_length]; exact hdl)
  have hrun' := (computeInclusion_eq_includeRun ti _ cannot0 ch').mp h'
  rw [initPosOf_set funcs d c hd, heq] at hrun'
  rcases C14_desired_run_vs_required_run ti (initPosOf funcs) (initState funcs cannot0) ch d hdd
      (initState_clusterMembers funcs cannot0) hip hrun with ⟨_, y', hy', hflags⟩ | ⟨e, he⟩
  · rw [hrun'] at hy'
    have : ch' = y' := by injection hy'
    rw [this]; exact hflags
  · rw [hrun'] at he; cases he

/-- premises are satisfiable, both ways -/
example : (match computeInclusion stdTyInfo c14ValidateExample [],
      computeInclusion stdTyInfo (c14ValidateExample.set 0 (makeRequired c14ValidateExample[0]!)) [],
      computeInclusion stdTyInfo (c14ValidateExample.set 1 (makeRequired c14ValidateExample[1]!)) [] with
    | .ok ch, .ok _, .error _ => (ch.get 0).inc && !(ch.get 1).inc
    | _, _, _ => false) = true := by decide

end Nject
