import NjectProps.C14Rounds
/-
  The same for auto-desired providers (the `wanted` flag: a provider without outputs): outside a Cluster, not Shun'd, they are
  seeds of the keep-closure too; the flag is rewritten only for the members of a Cluster that is being tried.
-/
namespace Nject

/-- as `Prot`, with the auto-desired providers -/
def ProtW (f : IP) : Prop :=
  f.c.cluster = 0 ∧ f.c.shun = false ∧ (f.c.required = true ∨ f.c.desired = true ∨ (f.wanted = true ∧ f.wantedInCluster = false))

/-- everything but the two flags of the validity check -/
def sameButFlags (f g : IP) : Prop := g.c = f.c ∧ g.excluded = f.excluded ∧ g.wanted = f.wanted ∧ g.wantedInCluster = f.wantedInCluster

theorem ProtW_congr {f g : IP} (h : sameButFlags f g) (hp : ProtW f) : ProtW g := by
  unfold ProtW at *; rw [h.1, h.2.2.1, h.2.2.2]; exact hp

theorem sameButFlags_of_flagsOnly {f g : IP} (h : flagsOnly f g) : sameButFlags f g := by
  unfold flagsOnly at h; rw [← h]; exact ⟨rfl, rfl, rfl, rfl⟩

theorem lt_of_protW {ch : Chain} {d : Nat} (hp : ProtW (ch.get d)) : d < ch.length := by
  rcases Nat.lt_or_ge d ch.length with hlt | hge
  · exact hlt
  · rw [get_default_of_ge ch d (by omega)] at hp
    rcases hp.2.2 with h | h | h
    · cases h
    · cases h
    · cases h.1

theorem protW_not_proposed (ch : Chain) (d : Nat) (hp : ProtW (ch.get d)) (hx : (ch.get d).excluded = false) :
    d ∉ proposeEliminations ch := by
  intro hprop
  have hseed : d ∈ keepSeeds ch := by
    unfold keepSeeds
    refine List.mem_filter.mpr ⟨by simpa using lt_of_protW hp, ?_⟩
    rcases hp.2.2 with h | h | h
    · simp [hx, h]
    · simp [hx, h]
    · simp [hx, h.1, h.2]
  rcases C03_proposed_is_shunned_or_not_kept ch d hprop with h | ⟨h, _⟩
  · rw [hp.2.1] at h; cases h
  · exact h ((C03_kept_is_closed ch true).1 d hseed)

theorem markL_other (b : Bool) (gw : IP → Bool) : ∀ (l : List Nat) (ch : Chain) (j : Nat), j ∉ l → (markL b gw l ch).get j = ch.get j
  | [], _, _, _ => rfl
  | w :: l, ch, j, hj => by
    have hl : (markL b gw (w :: l) ch) = markL b gw l (ch.upd w (markG b gw)) := rfl
    rw [hl, markL_other b gw l _ j (fun h => hj (List.mem_cons_of_mem _ h)), get_upd]
    have : ¬ (j = w ∧ w < ch.length) := fun hh => hj (by simp [hh.1])
    rw [if_neg this]

/-- a trial leaves everybody else alone, up to the two flags of the validity check -/
theorem tryWithout_others (ch : Chain) (without : List Nat) (j : Nat) (hj : j ∉ without) :
    sameButFlags (ch.get j) ((tryWithout ch without).get j) := by
  unfold tryWithout
  split
  · rename_i w
    have hjw : j ≠ w := fun e => hj (by simp [e])
    simp only []
    split
    · exact ⟨rfl, rfl, rfl, rfl⟩
    · have hup : ∀ (b : Bool) (c0 : Chain), (c0.upd w fun f => { f with excluded := b }).get j = c0.get j := by
        intro b c0
        rw [get_upd]
        have : ¬ (j = w ∧ w < c0.length) := fun hh => hjw hh.1
        rw [if_neg this]
      split
      · rename_i ch2 hv
        have := sameButFlags_of_flagsOnly ((validate_FR false _ _ hv).2 j)
        rw [hup true ch] at this
        exact this
      · rw [hup false _, hup true ch]; exact ⟨rfl, rfl, rfl, rfl⟩
  · simp only []
    have m1 := markL_other true (fun f => if f.wantedInCluster then false else f.wanted) without ch j hj
    unfold markL markG at m1
    split
    · rename_i ch2 hv
      have m2 := markL_other true (fun f => if f.wantedInCluster then true else f.wanted) without ch2 j hj
      unfold markL markG at m2
      rw [m2]
      have := sameButFlags_of_flagsOnly ((validate_FR false _ _ hv).2 j)
      rw [m1] at this
      exact this
    · have m2 := markL_other false (fun f => if f.wantedInCluster then true else f.wanted) without
        (without.foldl (fun ch w => ch.upd w fun f =>
          { f with excluded := true, wanted := if f.wantedInCluster then false else f.wanted }) ch) j hj
      unfold markL markG at m2
      rw [m2, m1]; exact ⟨rfl, rfl, rfl, rfl⟩

theorem roundStep_keepsW (c0 : Chain) (i d : Nat) (hcc : CC c0) (hp : ProtW (c0.get d)) (hx : (c0.get d).excluded = false)
    (hid : i ≠ d) : ProtW ((roundStep c0 i).get d) ∧ ((roundStep c0 i).get d).excluded = false := by
  unfold roundStep
  simp only []
  by_cases hex : (c0.get i).excluded = true
  · simp only [hex, if_true]; exact ⟨hp, hx⟩
  · have hex' : (c0.get i).excluded = false := by simpa using hex
    simp only [hex', Bool.false_eq_true, if_false]
    have use : ∀ (S : List Nat), d ∉ S → ProtW ((tryWithout c0 S).get d) ∧ ((tryWithout c0 S).get d).excluded = false := by
      intro S hd
      have h := tryWithout_others c0 S d hd
      exact ⟨ProtW_congr h hp, by rw [h.2.1]; exact hx⟩
    by_cases hcl : (c0.get i).c.cluster = 0
    · simp only [hcl, bne_self_eq_false, Bool.false_eq_true, if_false]
      exact use [i] (by simpa using fun e => hid e.symm)
    · have hne : ((c0.get i).c.cluster != 0) = true := by simpa using hcl
      simp only [hne, if_true]
      cases hcm : (c0.get i).clusterMembers with
      | none => exact ⟨hp, hx⟩
      | some ms =>
        simp only []
        refine use ms (fun hd => ?_)
        have := hcc.same i ms hcm d hd
        rw [hp.1] at this
        exact hcc.nz i ms hcm this.symm

theorem proposalRound_keepsW (ch : Chain) (d : Nat) (hcc : CC ch) (hp : ProtW (ch.get d)) (hx : (ch.get d).excluded = false) :
    ProtW ((proposalRound ch).get d) ∧ ((proposalRound ch).get d).excluded = false := by
  rw [proposalRound_eq]
  have hnp := protW_not_proposed ch d hp hx
  have key : ∀ (l : List Nat) (c0 : Chain), d ∉ l → CC c0 → ProtW (c0.get d) → (c0.get d).excluded = false →
      ProtW ((l.foldl roundStep c0).get d) ∧ ((l.foldl roundStep c0).get d).excluded = false := by
    intro l
    induction l with
    | nil => intro c0 _ _ h1 h2; exact ⟨h1, h2⟩
    | cons i l ih =>
      intro c0 hd hc h1 h2
      simp only [List.foldl_cons]
      have hid : i ≠ d := fun e => hd (by simp [e])
      have ⟨k1, k2⟩ := roundStep_keepsW c0 i d hc h1 h2 hid
      exact ih _ (fun hm => hd (List.mem_cons_of_mem _ hm)) (roundStep_CC c0 i hc).2 k1 k2
  exact key _ ch hnp hcc hp hx

/-- **the rounds leave auto-desired providers alone as well** -/
theorem proposalLoop_keepsW : ∀ (fuel : Nat) (ch : Chain) (d : Nat), CC ch → ProtW (ch.get d) → (ch.get d).excluded = false →
    ProtW ((proposalLoop fuel ch).get d) ∧ ((proposalLoop fuel ch).get d).excluded = false
  | 0, ch, d, _, hp, hx => by simp only [proposalLoop]; exact ⟨hp, hx⟩
  | fuel + 1, ch, d, hcc, hp, hx => by
    simp only [proposalLoop]
    have ⟨k1, k2⟩ := proposalRound_keepsW ch d hcc hp hx
    split
    · exact ⟨k1, k2⟩
    · exact proposalLoop_keepsW fuel _ d (proposalRound_CC ch hcc).2 k1 k2

theorem eliminateUnused_keepsW : ∀ (fuel : Nat) (check : List Nat) (ch : Chain) (d : Nat), ProtW (ch.get d) → (ch.get d).excluded = false →
    ProtW ((eliminateUnused fuel check ch).get d) ∧ ((eliminateUnused fuel check ch).get d).excluded = false
  | 0, _, ch, d, hp, hx => by simp only [eliminateUnused]; exact ⟨hp, hx⟩
  | _ + 1, [], ch, d, hp, hx => by simp only [eliminateUnused]; exact ⟨hp, hx⟩
  | fuel + 1, i :: check, ch, d, hp, hx => by
    simp only [eliminateUnused]
    split
    · exact eliminateUnused_keepsW fuel check ch d hp hx
    · rename_i hskip
      split
      · exact eliminateUnused_keepsW fuel check ch d hp hx
      · have hid : i ≠ d := by
          intro e
          rw [e] at hskip
          rcases hp.2.2 with h | h | h
          · simp [h] at hskip
          · simp [h] at hskip
          · simp [h.1] at hskip
        have hget : (ch.upd i fun f => { f with inc := false, cannot := true, excluded := true }).get d = ch.get d := by
          rw [get_upd]
          have : ¬ (d = i ∧ i < ch.length) := fun hh => hid hh.1.symm
          rw [if_neg this]
        exact eliminateUnused_keepsW fuel _ _ d (by rw [hget]; exact hp) (by rw [hget]; exact hx)


/-- the loop of `clusters` does not touch a provider outside every Cluster -/
theorem clStep_other {k : Nat} {ch0 : Chain} {acc : Chain × List (Nat × Nat)} (h : CI k ch0 acc) (d : Nat)
    (hd : (acc.1.get d).c.cluster = 0) : (clStep acc k).1.get d = acc.1.get d := by
  obtain ⟨ch, leaders⟩ := acc
  unfold clStep
  simp only []
  by_cases hskip : ((ch.get k).c.cluster == 0 || (ch.get k).excluded) = true
  · rw [if_pos hskip]
  · rw [if_neg hskip]
    have hs : (ch.get k).c.cluster ≠ 0 := by
      simp only [Bool.or_eq_true, beq_iff_eq, not_or, Bool.not_eq_true] at hskip
      exact hskip.1
    have hkd : d ≠ k := fun e => hs (e ▸ hd)
    have other : ∀ (c0 : Chain) (i : Nat) (g : IP → IP), d ≠ i → (c0.upd i g).get d = c0.get d := by
      intro c0 i g hne
      rw [get_upd]
      have : ¬ (d = i ∧ i < c0.length) := fun hh => hne hh.1
      rw [if_neg this]
    have wic : ∀ (c0 : Chain) (b : Bool), (if b = true then c0.upd k fun f => { f with wantedInCluster := true } else c0).get d = c0.get d := by
      intro c0 b
      split
      · exact other c0 k _ hkd
      · rfl
    cases hlk : leaders.lookup (ch.get k).c.cluster with
    | some l =>
      simp only []
      obtain ⟨_, hcl⟩ := h.l3 _ l hlk
      have hld : d ≠ l := by
        intro e
        rw [← e] at hcl
        exact hs (hcl ▸ hd)
      show (Chain.get (ite _ _ _) d) = _
      rw [wic, other _ k _ hkd, other _ l _ hld]
    | none =>
      simp only []
      show (Chain.get (ite _ _ _) d) = _
      rw [wic, other _ k _ hkd]

theorem cl_foldl_other {ch0 : Chain} (d : Nat) (hd : (ch0.get d).c.cluster = 0) : ∀ (n k : Nat), k + n = ch0.length → ∀ acc, CI k ch0 acc →
    ((List.range' k n).foldl clStep acc).1.get d = acc.1.get d
  | 0, _, _, _, _ => rfl
  | n + 1, k, hk, acc, h => by
    rw [List.range'_succ, List.foldl_cons]
    have hstep := clStep_CI h (by omega)
    rw [cl_foldl_other d hd n (k + 1) (by omega) (clStep acc k) hstep]
    exact clStep_other h d (by rw [(h.st d).1]; exact hd)

theorem clusters_other (ch : Chain) (h0 : ∀ j, (ch.get j).clusterMembers = none) (d : Nat) (hd : (ch.get d).c.cluster = 0) :
    (clusters ch).get d = ch.get d := by
  rw [clusters_eq, List.range_eq_range']
  have init : CI 0 ch (ch, ([] : List (Nat × Nat))) :=
    { len := rfl
      st := fun _ => ⟨rfl, rfl⟩
      cc :=
        { self := fun i ms h => by rw [h0 i] at h; cases h
          same := fun i ms h => by rw [h0 i] at h; cases h
          nz := fun i ms h => by rw [h0 i] at h; cases h
          uniq := fun i _ ms _ h => by rw [h0 i] at h; cases h
          coh := fun i ms h => by rw [h0 i] at h; cases h }
      fresh := fun j _ => h0 j
      l2 := fun i ms h => by rw [h0 i] at h; cases h
      l3 := fun cid l h => by cases h }
  exact cl_foldl_other d hd ch.length 0 (by omega) _ init

/-- **C14 (pruning leaves Required, Desired and auto-desired providers alone)** -/
theorem pruneStages_keeps_wanted (ch : Chain) (h0 : ∀ j, (ch.get j).clusterMembers = none) (d : Nat)
    (hp : ProtW (ch.get d)) (hc : (ch.get d).cannot = false) (hx : (ch.get d).excluded = false) :
    ((pruneStages ch).get d).cannot = false := by
  rw [pruneStages_cannot_eq]
  rw [pruneStages_unfold]
  simp only []
  have hdl := lt_of_protW hp
  have hmapget : Chain.get (ch.map fun (f : IP) => if f.cannot then { f with excluded := true, inc := false } else f) d = ch.get d := by
    have : Chain.get (ch.map fun (f : IP) => if f.cannot then { f with excluded := true, inc := false } else f) d
        = (fun f : IP => if f.cannot then { f with excluded := true, inc := false } else f) (ch.get d) := by
      simp [Chain.get, List.getD, List.getElem?_map, List.getElem?_eq_getElem hdl]
    rw [this]; simp only [hc, Bool.false_eq_true, if_false]
  have hm : ∀ j, (Chain.get (ch.map fun (f : IP) => if f.cannot then { f with excluded := true, inc := false } else f) j).clusterMembers = none := by
    intro j
    by_cases hj : j < ch.length
    · have : Chain.get (ch.map fun (f : IP) => if f.cannot then { f with excluded := true, inc := false } else f) j
          = (fun f : IP => if f.cannot then { f with excluded := true, inc := false } else f) (ch.get j) := by
        simp [Chain.get, List.getD, List.getElem?_map, List.getElem?_eq_getElem hj]
      rw [this]
      simp only []
      split
      · exact h0 j
      · exact h0 j
    · rw [get_default_of_ge _ j (by simpa using hj)]; rfl
  have ⟨cca, _, _⟩ := clusters_CC _ hm
  have hother := clusters_other _ hm d (by rw [hmapget]; exact hp.1)
  rw [hmapget] at hother
  generalize clusters (ch.map fun (f : IP) => if f.cannot then { f with excluded := true, inc := false } else f) = a at cca hother
  have pa : ProtW (a.get d) := by rw [hother]; exact hp
  have xa : (a.get d).excluded = false := by rw [hother]; exact hx
  have ⟨pb, xb⟩ := eliminateUnused_keepsW (a.length + (a.map (·.uses.length)).sum + 8) (List.range a.length) a d pa xa
  have ⟨ccb, _⟩ := eliminateUnused_CC (a.length + (a.map (·.uses.length)).sum + 8) (List.range a.length) a cca
  have ⟨_, xc⟩ := proposalLoop_keepsW (a.length + 1) _ d ccb pb xb
  generalize proposalLoop (a.length + 1) (eliminateUnused (a.length + (a.map (·.uses.length)).sum + 8) (List.range a.length) a) = r at xc
  by_cases hj : d < r.length
  · have : Chain.get (r.map fun f => { f with cannot := f.excluded }) d = { (r.get d) with cannot := (r.get d).excluded } := by
      simp [Chain.get, List.getD, List.getElem?_map, List.getElem?_eq_getElem hj]
    rw [this]; exact xc
  · rw [get_default_of_ge _ d (by simpa using hj)]; rfl

/-- **C14, from the first validation to the final one, auto-desired providers included**: a Required, Desired or auto-desired
    provider (not Shun'd, not in a Cluster) that the first validation found includable is handed to the final validation
    unmarked -/
theorem C14_wanted_reaches_final_validation_unmarked (ti : TyInfo) (funcs : List CP) (cannot0 : List Nat) (ch1 pre : Chain)
    (hv : firstValidation ti funcs cannot0 = .ok ch1) (hpre : inclusionBeforeFinal ti funcs cannot0 = .ok pre)
    (d : Nat) (hp : ProtW (ch1.get d)) (hc : (ch1.get d).cannot = false) : (pre.get d).cannot = false := by
  have hfr : FR (providesReturns ti (initState funcs cannot0) (initPosOf funcs)) ch1 := by
    unfold firstValidation at hv
    exact validate_FR true _ ch1 hv
  have h0 : ∀ j, (ch1.get j).clusterMembers = none := by
    intro j
    have h1 := hfr.2 j
    unfold flagsOnly at h1
    rw [← h1]
    show ((providesReturns ti (initState funcs cannot0) (initPosOf funcs)).get j).clusterMembers = none
    rw [((providesReturns_YF ti (initState funcs cannot0) (initPosOf funcs)).2 j).1]
    exact initState_clusterMembers funcs cannot0 j
  have hx : (ch1.get d).excluded = false := by
    have h1 := hfr.2 d
    unfold flagsOnly at h1
    rw [← h1]
    show ((providesReturns ti (initState funcs cannot0) (initPosOf funcs)).get d).excluded = false
    rw [((providesReturns_XF ti (initState funcs cannot0) (initPosOf funcs)).2 d).1]
    exact initState_excluded funcs cannot0 d
  have hk := pruneStages_keeps_wanted ch1 h0 d hp hc hx
  unfold inclusionBeforeFinal at hpre
  rw [hv] at hpre
  simp only at hpre
  have key : ∀ x : Chain, x = pre → XF (pruneStages ch1) x → (pre.get d).cannot = false := by
    intro x hxe xf
    rw [← hxe, (xf.2 d).2.1]; exact hk
  exact key _ (by injection hpre) (providesReturns_XF ti (pruneStages ch1) (initPosOf funcs))

/-- premises are satisfiable: an auto-desired provider (no outputs) -/
def c14WantedExample : List CP := [
  { id := 0, cls := .injectorFunc, out := [5], group := .runGroup },
  { id := 1, cls := .injectorFunc, inp := [5], group := .runGroup },
  { id := 2, cls := .finalFunc, required := true, group := .finalGroup }]

example : (match firstValidation stdTyInfo c14WantedExample [], inclusionBeforeFinal stdTyInfo c14WantedExample [] with
    | .ok ch1, .ok pre => !(ch1.get 1).cannot && (ch1.get 1).wanted && !(ch1.get 1).wantedInCluster && !(ch1.get 1).c.shun
        && (ch1.get 1).c.cluster == 0 && !(pre.get 1).cannot && !(pre.get 0).cannot
    | _, _ => false) = true := by decide

end Nject
