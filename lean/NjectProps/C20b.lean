import Nject.PostAct
/-
  C20 (post-actions).  `paPlan` transcribes which post-action providers MakeStructBuilder creates for a
  flat struct (tags left to right, by name, by type; `-` stops everything after it; pointer actions
  switch the fill off unless `fill`/WithFill say otherwise) and lists them in the order the chain
  runs them.  Tied to /repo by the post-action correspondence (random structs, tags, registrations,
  WithFill / MatchToOpenInterface options, pointer and value models): verdict, requested inputs, the
  sequence of actions with what each was handed, and the final struct.
-/
namespace Nject

def PAKind.rank : PAKind → Nat
  | .tag => 0 | .name => 1 | .type => 2

/-- **Documented order.**  Every by-tag action runs before every by-name action, and those before
    every by-type action. -/
theorem C20_postactions_in_documented_order (opts : PAOptions) (fields : List PField) (plan : PAPlan)
    (h : paPlan opts fields = some plan) :
    plan.acts.Pairwise (fun a b => a.kind.rank ≤ b.kind.rank) := by
  unfold paPlan at h
  cases hs : allFields opts fields 0 with
  | none => rw [hs] at h; cases h
  | some sts =>
    rw [hs] at h
    simp only [Option.map_some, Option.some.injEq] at h
    subst h
    simp only
    rw [List.pairwise_append, List.pairwise_append]
    refine ⟨⟨?_, ?_, ?_⟩, ?_, ?_⟩
    · exact List.pairwise_of_forall_mem_list (fun a ha b hb => by
        simp only [List.mem_filter, beq_iff_eq] at ha hb; rw [ha.2, hb.2]; exact Nat.le_refl _)
    · exact List.pairwise_of_forall_mem_list (fun a ha b hb => by
        simp only [List.mem_filter, beq_iff_eq] at ha hb; rw [ha.2, hb.2]; exact Nat.le_refl _)
    · intro a ha b hb
      simp only [List.mem_filter, beq_iff_eq] at ha hb; rw [ha.2, hb.2]; decide
    · exact List.pairwise_of_forall_mem_list (fun a ha b hb => by
        simp only [List.mem_filter, beq_iff_eq] at ha hb; rw [ha.2, hb.2]; exact Nat.le_refl _)
    · intro a ha b hb
      simp only [List.mem_filter, beq_iff_eq] at hb
      rw [hb.2]
      rcases List.mem_append.mp ha with ha | ha <;>
        (simp only [List.mem_filter, beq_iff_eq] at ha; rw [ha.2]; decide)

/-- Nothing is lost or invented by the ordering: the actions that run are exactly the actions of the
    fields. -/
theorem C20_postactions_are_the_fields_actions (opts : PAOptions) (fields : List PField) (plan : PAPlan)
    (sts : List FSt) (hs : allFields opts fields 0 = some sts) (h : paPlan opts fields = some plan) (a : PAct) :
    a ∈ plan.acts ↔ a ∈ sts.flatMap (·.acts) := by
  unfold paPlan at h
  rw [hs] at h
  simp only [Option.map_some, Option.some.injEq] at h
  subst h
  simp only [List.mem_append, List.mem_filter, beq_iff_eq]
  constructor
  · rintro ((h | h) | h) <;> exact h.1
  · intro h
    cases hk : a.kind with
    | tag => exact Or.inl (Or.inl ⟨h, rfl⟩)
    | name => exact Or.inl (Or.inr ⟨h, rfl⟩)
    | type => exact Or.inr ⟨h, rfl⟩

/-- `-` (or `skip`) on a field: nothing registered after it applies to that field — in particular no
    by-name and no by-type action — and the field is not filled unless a later `fill` says so. -/
theorem C20_hard_skip_stops_actions (i : Nat) (t : Ty) (kind : PAKind) (o : PAOpt) (st : FSt)
    (h : st.hardSkip = true) : handleFiller i t kind o st = some st := by
  unfold handleFiller
  simp [h]

-- non-vacuity: struct{ A N0; B N1 `nject:"pa1"`; C N2 } with ByType(func(*N0)), ByName("C", func(any)), ByTag("pa1", func(*N1))
def exOpts : PAOptions :=
  { byTag := [(1, { fn := .ptr 41 })], byName := [(2, { fn := .anyval })], byType := [{ fn := .ptr 40 }], pointerModel := true }
def exFields : List PField := [⟨true, 40, []⟩, ⟨true, 41, [.custom 1]⟩, ⟨true, 42, []⟩]
example : (paPlan exOpts exFields).map (·.acts.map (·.kind)) = some [.tag, .name, .type] := by decide
example : (paPlan exOpts exFields).map (·.filled) = some [false, false, true] := by decide
-- a typed action aimed at a field of another type is refused
example : paPlan { exOpts with byName := [(2, { fn := .ptr 41 })] } exFields = none := by decide

end Nject
