import NjectProofs.IncludeSkip
import NjectProofs.IncludeMono
import NjectProofs.IncludeRounds
import NjectProofs.IncludeClusters2
import NjectProps.C15b
/-
  C16 (excluded providers are inert), the part that is a theorem about the include computation:
  the flows over which the final validation decides are computed as if the providers that pruning
  excluded were not in the list.  `providesReturns` skips every provider marked "cannot be included"
  (`NjectProofs/IncludeSkip.lean`), so in the chain that Bind accepts such a provider has no dependencies,
  nobody depends on it, and it is on nobody's `uses` / `usedBy` list: whether the remaining providers are
  valid is decided without looking at it.

  (That the pruning itself -- which providers get the mark -- gives the same answer on the shorter list is NOT a
  theorem: findings F5 / F4b are counterexamples on the implementation.  It is decided per chain by the prune pairs.)
-/
namespace Nject

/-- **C16 (final flows)**: whenever the include computation accepts a provider list, a provider that pruning
    excluded (other than the init function, whose bypass parameters are always asked for) leaves no trace in the
    dependency relation of the accepted chain. -/
theorem C16_pruned_providers_leave_no_trace (ti : TyInfo) (funcs : List CP) (cannot0 : List Nat) (pre ch : Chain)
    (hpre : inclusionBeforeFinal ti funcs cannot0 = .ok pre) (h : computeInclusion ti funcs cannot0 = .ok ch)
    (j : Nat) (hj : (pre.get j).cannot = true) (hinit : initPosOf funcs ≠ some j) :
    (ch.get j).uses = [] ∧ (ch.get j).usedBy = [] ∧ ∀ k, j ∉ (ch.get k).uses ∧ j ∉ (ch.get k).usedBy := by
  -- the final validation changes flags only
  have hfr : FR pre ch := by
    unfold computeInclusion at h
    rw [hpre] at h
    simp only at h
    split at h
    · cases h
    · rename_i chf hv
      cases h
      exact validate_FR true pre _ hv
  have hsame : ∀ k, (ch.get k).uses = (pre.get k).uses ∧ (ch.get k).usedBy = (pre.get k).usedBy := by
    intro k
    have := hfr.2 k
    unfold flagsOnly at this
    rw [← this]
    exact ⟨rfl, rfl⟩
  -- the flows were computed skipping the marked providers
  unfold inclusionBeforeFinal at hpre
  split at hpre
  · cases hpre
  · rename_i ch1 hv
    have key : ∀ x : Chain, x = pre → NC (fun j => ((pruneStages ch1).get j).cannot) (initPosOf funcs) x →
        (pre.get j).uses = [] ∧ (pre.get j).usedBy = [] ∧ ∀ k, j ∉ (pre.get k).uses ∧ j ∉ (pre.get k).usedBy := by
      intro x hx nc
      subst hx
      have hjl : j < x.length := by
        apply Classical.byContradiction
        intro hn
        rw [get_default_of_ge x j hn] at hj
        cases hj
      have hbad : ¬ OKp (fun j => ((pruneStages ch1).get j).cannot) (initPosOf funcs) j := by
        intro hok
        rcases hok with hc | hi
        · have := nc.hc j hjl
          rw [hj] at this
          simp only at hc
          rw [hc] at this; cases this
        · exact hinit hi
      refine ⟨(nc.b j hbad).1, (nc.b j hbad).2, fun k => ⟨fun hm => ?_, fun hm => ?_⟩⟩
      · exact hbad (nc.a k j (List.mem_append_left _ hm))
      · exact hbad (nc.a k j (List.mem_append_right _ hm))
    have hk := key _ (by injection hpre) (providesReturns_skips ti (pruneStages ch1) (initPosOf funcs))
    rw [(hsame j).1, (hsame j).2]
    refine ⟨hk.1, hk.2.1, fun k => ?_⟩
    rw [(hsame k).1, (hsame k).2]
    exact hk.2.2 k

/-- what pruning hands on: the mark is exactly "excluded" -/
theorem pruneStages_cannot_eq (ch : Chain) (j : Nat) :
    ((pruneStages ch).get j).cannot = ((pruneStages ch).get j).excluded := by
  unfold pruneStages
  simp only []
  generalize proposalLoop _ _ = x
  by_cases hj : j < x.length
  · have : Chain.get (x.map fun f => { f with cannot := f.excluded }) j = { (x.get j) with cannot := (x.get j).excluded } := by
      simp [Chain.get, List.getD, List.getElem?_map, List.getElem?_eq_getElem hj]
    rw [this]
  · rw [get_default_of_ge _ j (by simpa using hj)]; rfl

/-- **C16 (not included)**: whenever the include computation accepts a provider list, a provider that pruning
    excluded is not included in the accepted chain (and keeps its mark): the final validity check only ever takes
    providers out. -/
theorem C16_pruned_providers_are_not_included (ti : TyInfo) (funcs : List CP) (cannot0 : List Nat) (pre ch : Chain)
    (hpre : inclusionBeforeFinal ti funcs cannot0 = .ok pre) (h : computeInclusion ti funcs cannot0 = .ok ch)
    (j : Nat) (hj : (pre.get j).cannot = true) : (ch.get j).inc = false ∧ (ch.get j).cannot = true := by
  have hv : validate true pre = .ok ch := by
    unfold computeInclusion at h
    rw [hpre] at h
    simp only at h
    split at h
    · cases h
    · rename_i chf hv
      cases h
      exact hv
  apply validate_excl true pre ch hv j
  -- the mark and the exclusion flag agree in what pruning hands on, and the flow computation keeps both
  unfold inclusionBeforeFinal at hpre
  split at hpre
  · cases hpre
  · rename_i ch1 hv1
    have key : ∀ x : Chain, x = pre → XF (pruneStages ch1) x → (pre.get j).excluded = true := by
      intro x hx xf
      subst hx
      rw [(xf.2 j).1, ← pruneStages_cannot_eq, ← (xf.2 j).2.1]
      exact hj
    exact key _ (by injection hpre) (providesReturns_XF ti (pruneStages ch1) (initPosOf funcs))

/-- **C16 (the elimination rounds end)**: on a chain without Clusters -- the chains C16 is claimed for -- the rounds of
    trial eliminations (include.go:181-192, "propose again until nothing more can be removed") are over within the
    `length + 1` rounds the model allows: more fuel gives the same chain.  (A trial sets one exclusion flag and either
    keeps it or puts it back, so a round never lowers the number of excluded providers; a round that is followed by
    another one has raised it; it cannot exceed the length.) -/
theorem C16_elimination_rounds_fuel_is_enough (ch : Chain) (hn : NoCl ch) (extra : Nat) :
    proposalLoop (ch.length + 1 + extra) ch = proposalLoop (ch.length + 1) ch := by
  have := countExcluded_le ch
  exact proposalLoop_fuel _ _ ch hn (by omega) (by omega)

theorem initState_clusterMembers (funcs : List CP) (cannot0 : List Nat) (j : Nat) :
    ((initState funcs cannot0).get j).clusterMembers = none := by
  by_cases hj : j < funcs.length
  · unfold initState Chain.get
    have hz : j < (funcs.zip (List.range funcs.length)).length := by simp [hj]
    simp [List.getD, List.getElem?_map, List.getElem?_eq_getElem hz]
  · rw [get_default_of_ge _ j (by rw [initState_length]; exact hj)]
    rfl

/-- **C03/C16 (the elimination rounds end, Clusters included)**: for every provider list that passes the first
    validation, the rounds of trial eliminations in `pruneStages` are over within the `length + 1` rounds the model
    allows -- more fuel gives the same chain.  With Clusters this rests on the coherence of the cluster lists that
    `clusters` builds and that `eliminateUnused` and the trials keep (`CC`): the members of a Cluster are excluded
    together and put back together, so a round never lowers the number of excluded providers. -/
theorem C03_elimination_rounds_always_end (ti : TyInfo) (funcs : List CP) (cannot0 : List Nat) (ch1 : Chain)
    (hv : firstValidation ti funcs cannot0 = .ok ch1) (extra : Nat) :
    let a := clusters (ch1.map fun f => if f.cannot then { f with excluded := true, inc := false } else f)
    let b := eliminateUnused (a.length + (a.map (·.uses.length)).sum + 8) (List.range a.length) a
    proposalLoop (a.length + 1 + extra) b = proposalLoop (a.length + 1) b := by
  apply pruneStages_rounds_fuel
  intro j
  unfold firstValidation at hv
  have hfr := validate_FR true _ ch1 hv
  have h1 := hfr.2 j
  unfold flagsOnly at h1
  rw [← h1]
  show ((providesReturns ti (initState funcs cannot0) (initPosOf funcs)).get j).clusterMembers = none
  rw [((providesReturns_YF ti (initState funcs cannot0) (initPosOf funcs)).2 j).1]
  exact initState_clusterMembers funcs cannot0 j

/-- premises are satisfiable: provider 1 is Shun'd and a farther provider of its type remains; it is excluded, and
    the final function's dependency is provider 0 -/
def c16Example : List CP := [
  { id := 0, cls := .injectorFunc, out := [5], group := .runGroup },
  { id := 1, cls := .injectorFunc, out := [5], shun := true, group := .runGroup },
  { id := 2, cls := .finalFunc, inp := [5], required := true, group := .finalGroup }]

example : (match inclusionBeforeFinal stdTyInfo c16Example [], computeInclusion stdTyInfo c16Example [] with
    | .ok pre, .ok ch => (pre.get 1).cannot && !(ch.get 1).inc && (ch.get 0).inc && (ch.get 2).uses == [0]
    | _, _ => false) = true := by decide

end Nject
