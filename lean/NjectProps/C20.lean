import NjectProofs.HelperProofs
/-
  C20 — generated helpers are faithful.

  `curryModel`/`curriedCall` model utils.go Curry, `FDesc.inputs`/`fillerCall` model filler.go
  MakeStructBuilder and `(*filler).Call`, `saveToCall` models SaveTo's provider.  They are tied to
  /repo on every run by the helper correspondence (random signatures, struct shapes with tags and
  nesting, pointer lists: the implementation's accept/reject verdict, requested inputs, received
  arguments and filled fields are compared with the model's).  That the generated provider is *fed*
  the chain's value for each requested type is C01 (S7 refinement); these theorems carry it to the
  original function's parameters / the struct's fields.

  Reflective providers: the model has no separate notion of a Reflective provider (PDesc carries a
  signature only), so "classified, pruned, ordered and fed exactly like a function" is the statement
  that the implementation's stage dumps do not depend on how the signature was supplied: decided by
  the twin correspondence (every function provider / a random subset flipped; all stage records and
  traces compared) together with the stage correspondence S3/S5/S6/S7 of both twins against the one
  model.  Post-actions of MakeStructBuilder are not modelled.
-/
namespace Nject

/-! ### Curry -/

/-- Curry accepts only when every parameter of the original function has exactly one source: a
    position of the curried function or a value injected from the chain. -/
theorem C20_curry_every_parameter_has_one_source {isFunc : Ty → Bool} {o oo n no : List Ty} {m : CurryMaps}
    (h : curryModel isFunc o oo n no = some m) :
    oo = no ∧ m.passMap.length = n.length ∧ (m.passMap ++ m.curryMap).Perm (List.range o.length) := by
  obtain ⟨ho, s, ok⟩ := curryModel_ok h
  exact ⟨ho, ok.passMap_length, ok.partition⟩

/-- … of the right type; the injected types are distinct, none of them is a parameter type of the
    curried function, and they are what the provider asks the chain for. -/
theorem C20_curry_types_agree {isFunc : Ty → Bool} {o oo n no : List Ty} {m : CurryMaps}
    (h : curryModel isFunc o oo n no = some m) :
    (∀ j (hj : j < m.passMap.length), o[m.passMap[j]]? = n[j]?)
    ∧ m.curried = m.curryMap.map (fun k => o.getD k 0)
    ∧ m.curried.Nodup ∧ (∀ t ∈ m.curried, t ∉ n) ∧ m.curried ≠ [] := by
  obtain ⟨_, s, ok⟩ := curryModel_ok h
  obtain ⟨a, b, c, d⟩ := ok.types
  refine ⟨a, b, c, d, ?_⟩
  intro hemp
  have hp := ok.partition
  have hl := hp.length_eq
  rw [b] at hemp
  have : m.curryMap = [] := by simpa using hemp
  rw [this] at hl
  simp [ok.passMap_length] at hl
  have := ok.fewer
  omega

/-- The curried function equals the original with the curried arguments taken from the chain: the
    original is called with a complete argument list in which argument `j` of the curried call sits at
    `passMap[j]` and injected value `c` at `curryMap[c]`. -/
theorem C20_curried_call_is_original_call {α} {isFunc : Ty → Bool} {o oo n no : List Ty} {m : CurryMaps}
    (h : curryModel isFunc o oo n no = some m) (args injected : List α)
    (ha : args.length = n.length) (hc : injected.length = m.curried.length) :
    (curriedCall m o.length args injected).length = o.length
    ∧ (∀ j (hj : j < m.passMap.length) (hj' : j < args.length),
        (curriedCall m o.length args injected)[m.passMap[j]]? = some (some args[j]))
    ∧ (∀ c (hc1 : c < m.curryMap.length) (hc2 : c < injected.length),
        (curriedCall m o.length args injected)[m.curryMap[c]]? = some (some injected[c]))
    ∧ (∀ i, i < o.length → ∃ v, (curriedCall m o.length args injected)[i]? = some (some v)) := by
  obtain ⟨_, s, ok⟩ := curryModel_ok h
  have : m.curried.length = m.curryMap.length := by rw [ok.types.2.1]; simp
  exact ok.call args injected ha (by omega)

-- non-vacuity: func(a N0, b N1, c N0, d N2) curried to func(c' N0, a' N0) with N1, N2 from the chain
example : curryModel (fun _ => false) [40, 41, 40, 42] [43] [40, 40] [43]
    = some { passMap := [0, 2], curryMap := [1, 3], curried := [41, 42] } := by decide
example : curryModel (fun _ => false) [40, 41, 41] [] [40] [] = none := by decide   -- same type curried twice
example : curryModel (fun _ => false) [40, 40, 41] [] [40] [] = none := by decide   -- more N0 than the curried function has

/-! ### MakeStructBuilder -/

/-- The builder asks for exactly the exported, non-skipped fields, recursively for nested structs
    that are not filled whole. -/
theorem C20_builder_inputs_exact (id : Ty) (fs : FFields) (l : List (Path × Ty))
    (h : (FDesc.struct id fs).inputs [] = some l) (x : Path × Ty) : x ∈ l ↔ Fills fs [] 0 x := by
  simp only [FDesc.inputs] at h
  exact ⟨fun hx => FFields.inputs_sound fs [] 0 l h x hx, fun hf => FFields.inputs_complete hf l h⟩

/-- No field is written twice and no write lands inside a whole-filled nested struct. -/
theorem C20_builder_writes_do_not_overlap (d : FDesc) (l : List (Path × Ty)) (h : d.inputs [] = some l) :
    NoOverlap l := FDesc.inputs_noOverlap d [] l h

/-- Every filled field holds the chain's value for its type after the call (for a whole-filled
    nested struct: every leaf below it comes from that value); every other leaf keeps its zero value. -/
theorem C20_builder_fills_fields (d : FDesc) (supply : Ty → Nat) (ins : List (Path × Ty))
    (h : d.inputs [] = some ins) :
    (∀ x ∈ ins, ∀ suffix, (fillerCall ins (ins.map fun pt => supply pt.2)).get (x.1 ++ suffix) = supply x.2)
    ∧ (∀ p, (∀ x ∈ ins, ¬ x.1 <+: p) → (fillerCall ins (ins.map fun pt => supply pt.2)).get p = 0) := by
  have hno := FDesc.inputs_noOverlap d [] ins h
  exact ⟨fun x hx suffix => filler_fills ins hno (fun pt => supply pt.2) x hx suffix,
         fun p hp => filler_leaves_rest_zero ins (fun pt => supply pt.2) p hp⟩

-- non-vacuity: struct{ A N0; b N1; C struct{ D N2 `nofill`; E N3 }; F T0 `whole`; G N1 `-` }
def exampleStruct : FDesc :=
  .struct 100 (.cons true [] (.leaf 40) (.cons false [] (.leaf 41)
    (.cons true [] (.struct 101 (.cons true [.nofill] (.leaf 42) (.cons true [] (.leaf 43) .nil)))
    (.cons true [.whole] (.struct 44 (.cons true [] (.leaf 45) .nil)) (.cons true [.skip] (.leaf 41) .nil)))))
example : exampleStruct.inputs [] = some [([0], 40), ([2, 1], 43), ([3], 44)] := by decide
example : (FDesc.struct 100 (.cons true [.whole] (.leaf 40) .nil)).inputs [] = none := by decide

/-! ### SaveTo -/

theorem saveTo_aux (st : List (Option Nat)) (k : Nat) (ins : List Nat) (j : Nat) :
    (((List.range' k ins.length).zip ins).foldl (fun st iv => st.set iv.1 (some iv.2)) st)[j]?
      = if k ≤ j ∧ j < k + ins.length ∧ j < st.length then some (ins[j - k]?) else st[j]? := by
  induction ins generalizing st k with
  | nil => simp; intro h1 h2; omega
  | cons x xs ih =>
    simp only [List.length_cons, List.range'_succ, List.zip_cons_cons, List.foldl_cons]
    rw [ih]
    simp only [List.length_set]
    by_cases hj : j = k
    · subst hj
      have h1 : ¬ (j + 1 ≤ j ∧ j < j + 1 + xs.length ∧ j < st.length) := by omega
      rw [if_neg h1]
      by_cases hl : j < st.length
      · have h2 : j ≤ j ∧ j < j + (xs.length + 1) ∧ j < st.length := by omega
        rw [if_pos h2]; simp [hl]
      · have h2 : ¬ (j ≤ j ∧ j < j + (xs.length + 1) ∧ j < st.length) := by omega
        rw [if_neg h2]; simp [hl]
    · rw [List.getElem?_set_ne (Ne.symm hj)]
      by_cases h1 : k + 1 ≤ j ∧ j < k + 1 + xs.length ∧ j < st.length
      · have h2 : k ≤ j ∧ j < k + (xs.length + 1) ∧ j < st.length := by omega
        rw [if_pos h1, if_pos h2]
        have : j - k = (j - (k + 1)) + 1 := by omega
        rw [this]; simp
      · have h2 : ¬ (k ≤ j ∧ j < k + (xs.length + 1) ∧ j < st.length) := by omega
        rw [if_neg h1, if_neg h2]

/-- SaveTo stores exactly the injected values: pointer `j` receives injected value `j`. -/
theorem C20_saveTo_stores_injected (ins : List Nat) (j : Nat) (hj : j < ins.length) :
    (saveToCall ins.length ins)[j]? = some (some ins[j]) := by
  unfold saveToCall
  rw [List.range_eq_range', saveTo_aux]
  simp [hj]

end Nject

namespace Nject

/-! ### FillExisting -/

theorem StructVal.getOr_zero (s : StructVal) (p : Path) : s.getOr p 0 = s.get p := rfl

/-- with FillExisting a written leaf holds what `get` says, whatever it held before -/
theorem StructVal.getOr_of_some (s : StructVal) (p : Path) (base : Nat) (w : Path × Nat)
    (h : s.reverse.find? (fun w => w.1.isPrefixOf p) = some w) : s.getOr p base = s.get p := by
  unfold StructVal.getOr StructVal.get; rw [h]

/-- **FillExisting keeps what it does not fill**: a leaf that lies under none of the filled field
    paths keeps the value the given struct held -/
theorem C20_fill_existing_keeps_unfilled (ins : List (Path × Ty)) (f : Path × Ty → Nat) (p : Path) (base : Nat)
    (h : ∀ x ∈ ins, ¬ x.1 <+: p) : (fillerCall ins (ins.map f)).getOr p base = base := by
  unfold StructVal.getOr
  have : (fillerCall ins (ins.map f)).reverse.find? (fun w => w.1.isPrefixOf p) = none := by
    rw [List.find?_eq_none]
    intro w hw
    have hw' : w ∈ fillerCall ins (ins.map f) := List.mem_reverse.mp hw
    unfold fillerCall at hw'
    obtain ⟨⟨pt, v⟩, hz, rfl⟩ := List.mem_map.mp hw'
    have hpt : pt ∈ ins := (List.of_mem_zip hz).1
    have := h pt hpt
    simpa [List.isPrefixOf_iff_prefix] using this
  rw [this]

/-- … and fills the others exactly as a fresh struct would be filled -/
theorem C20_fill_existing_fills_like_fresh (d : FDesc) (supply : Ty → Nat) (ins : List (Path × Ty))
    (h : d.inputs [] = some ins) (base : Nat) :
    ∀ x ∈ ins, ∀ suffix, (fillerCall ins (ins.map fun pt => supply pt.2)).getOr (x.1 ++ suffix) base = supply x.2 := by
  intro x hx suffix
  have hfresh := (C20_builder_fills_fields d supply ins h).1 x hx suffix
  -- some write covers the path (x itself), so the base value is not consulted
  cases hf : (fillerCall ins (ins.map fun pt => supply pt.2)).reverse.find? (fun w => w.1.isPrefixOf (x.1 ++ suffix)) with
  | some w => rw [StructVal.getOr_of_some _ _ _ w hf]; exact hfresh
  | none =>
    exfalso
    have hn := List.find?_eq_none.mp hf
    have hmem : (x.1, supply x.2) ∈ (fillerCall ins (ins.map fun pt => supply pt.2)).reverse := by
      rw [List.mem_reverse, fillerCall_map]
      exact List.mem_map.mpr ⟨x, hx, rfl⟩
    have := hn _ hmem
    simp [List.isPrefixOf_iff_prefix] at this

end Nject
