import NjectProofs.IncludeSupply2
import NjectProps.C16
/-
  C01 ("a provider's input is the value of the nearest provider above it of that type -- never a zero value"), the part
  that is a theorem about the include computation: in the chain that Bind accepts, every input type of an included
  provider is supplied by an INCLUDED provider listed BEFORE it which outputs that very type or -- for an interface
  parameter matched to a Loose provider -- a type that implements it.  (Which of several such providers supplies the
  value, the slot it travels in and the generated code are the subject of the refinement theorem and of the S5/S6/S7
  correspondence.)
-/
namespace Nject

/-- what the two provenance theorems say about the chain handed to the final validation -/
theorem inclusionBeforeFinal_supply (ti : TyInfo) (funcs : List CP) (cannot0 : List Nat) (pre : Chain)
    (h : inclusionBeforeFinal ti funcs cannot0 = .ok pre) :
    (∀ k e p, e ∈ (pre.get k).usesIn → p ∈ e.2 →
      p < k ∧ ∃ x, x ∈ (pre.get p).c.out ∧ (x = e.1 ∨ ti.implements x e.1 = true)) ∧
    (∀ j, (pre.get j).cannot = false → ∀ t ∈ (pre.get j).c.inp, t ≠ tNoType →
      t ∈ (pre.get j).errIn ∨ ∃ e ∈ (pre.get j).usesIn, e.1 = t) := by
  unfold inclusionBeforeFinal at h
  split at h
  · cases h
  · rename_i ch1 hv
    have key : ∀ x : Chain, x = pre →
        ((∀ k e p, e ∈ (x.get k).usesIn → p ∈ e.2 →
          p < k ∧ ∃ y, y ∈ (x.get p).c.out ∧ (y = e.1 ∨ ti.implements y e.1 = true)) ∧
        (∀ j, (x.get j).cannot = false → ∀ t ∈ (x.get j).c.inp, t ≠ tNoType →
          t ∈ (x.get j).errIn ∨ ∃ e ∈ (x.get j).usesIn, e.1 = t)) →
        ((∀ k e p, e ∈ (pre.get k).usesIn → p ∈ e.2 →
          p < k ∧ ∃ y, y ∈ (pre.get p).c.out ∧ (y = e.1 ∨ ti.implements y e.1 = true)) ∧
        (∀ j, (pre.get j).cannot = false → ∀ t ∈ (pre.get j).c.inp, t ≠ tNoType →
          t ∈ (pre.get j).errIn ∨ ∃ e ∈ (pre.get j).usesIn, e.1 = t)) := by
      intro x hx hh; rw [← hx]; exact hh
    exact key _ (by injection h)
      ⟨providesReturns_supply ti (pruneStages ch1) (initPosOf funcs),
       fun j hc => providesReturns_covered ti (pruneStages ch1) (initPosOf funcs) j hc⟩

/-- **C01 (inputs are supplied)**: whenever the include computation accepts a provider list, every input type of an
    included provider is supplied by an included provider listed before it that outputs the type itself or a type
    implementing it. -/
theorem C01_bound_chain_inputs_are_supplied (ti : TyInfo) (funcs : List CP) (cannot0 : List Nat) (pre ch : Chain)
    (hpre : inclusionBeforeFinal ti funcs cannot0 = .ok pre) (h : computeInclusion ti funcs cannot0 = .ok ch)
    (j : Nat) (hj : (ch.get j).inc = true) (t : Ty) (ht : t ∈ (ch.get j).c.inp) (hn : t ≠ tNoType) :
    ∃ p, p < j ∧ (ch.get p).inc = true ∧ ∃ x, x ∈ (ch.get p).c.out ∧ (x = t ∨ ti.implements x t = true) := by
  have ⟨hsup, hcov⟩ := inclusionBeforeFinal_supply ti funcs cannot0 pre hpre
  -- the final validation changes flags only
  have hfr : FR pre ch := by
    unfold computeInclusion at h
    rw [hpre] at h
    simp only at h
    split at h
    · cases h
    · rename_i chf hv
      cases h
      exact validate_FR true pre _ hv
  have hsame : ∀ k, (ch.get k).usesIn = (pre.get k).usesIn ∧ (ch.get k).errIn = (pre.get k).errIn ∧ (ch.get k).c = (pre.get k).c := by
    intro k
    have := hfr.2 k
    unfold flagsOnly at this
    rw [← this]
    exact ⟨rfl, rfl, rfl⟩
  -- j was not excluded by pruning
  have hnc : (pre.get j).cannot = false := by
    cases hc : (pre.get j).cannot with
    | false => rfl
    | true =>
      have := (C16_pruned_providers_are_not_included ti funcs cannot0 pre ch hpre h j hc).1
      rw [this] at hj; cases hj
  -- its records
  have hfix := C03_bound_chain_is_a_fixpoint ti funcs cannot0 ch h
  have ⟨herr, _, _, hsrc⟩ := C03_included_providers_have_included_sources ch hfix j hj
  rcases hcov j hnc t (by rw [← (hsame j).2.2]; exact ht) hn with he | ⟨e, he, hk⟩
  · rw [← (hsame j).2.1, herr] at he; cases he
  · have he' : e ∈ (ch.get j).usesIn := by rw [(hsame j).1]; exact he
    obtain ⟨p, hp, hpinc⟩ := hsrc e (List.mem_append_left _ (List.mem_append_left _ he'))
    obtain ⟨hlt, x, hx, hxt⟩ := hsup j e p he hp
    refine ⟨p, hlt, hpinc, x, by rw [(hsame p).2.2]; exact hx, ?_⟩
    rw [← hk]; exact hxt

/-- premises are satisfiable: an interface parameter (10) supplied by a Loose provider of an implementing type (5) -/
def c01SupplyExample : List CP := [
  { id := 0, cls := .injectorFunc, out := [5], loose := [10], group := .runGroup },
  { id := 1, cls := .finalFunc, inp := [10], required := true, group := .finalGroup }]

example : (match computeInclusion stdTyInfo c01SupplyExample [] with
    | .ok ch => (ch.get 1).inc && (ch.get 0).inc && (ch.get 1).c.inp.contains 10 && stdTyInfo.implements 5 10
    | .error _ => false) = true := by decide

end Nject
