import NjectProofs.IncludeKeep
import NjectProps.IncludeEnds
/-
  C03/C16: what the elimination rounds may try to remove.  `proposeEliminations` proposes the Shun'd providers and the
  providers outside the keep-closure; the closure contains every Required / Desired / auto-desired provider that is not
  excluded and, with each member, the nearest still-includable source of everything it asks for (downwards: inputs and
  bypass parameters; upwards: received values).  So a provider that somebody kept depends on in this sense is put to the
  test only if it is Shun'd.
-/
namespace Nject

/-- the seeds of `proposeEliminations` -/
def keepSeeds (ch : Chain) : List Nat :=
  (List.range ch.length).filter fun i =>
    !(ch.get i).excluded && ((ch.get i).c.required || (ch.get i).c.desired || ((ch.get i).wanted && !(ch.get i).wantedInCluster))

/-- the fuel `proposeEliminations` gives the closure -/
def keepFuel (ch : Chain) : Nat :=
  ch.length + (ch.map fun f => (f.usesIn ++ f.usesByp).length + f.usesRecv.length).sum + 8

theorem proposeEliminations_eq (ch : Chain) :
    proposeEliminations ch =
      ((List.range ch.length).filter fun i => (ch.get i).c.shun)
      ++ ((List.range ch.length).filter fun i =>
          !(keepClosure ch true (keepFuel ch) (keepSeeds ch) [] ++ keepClosure ch false (keepFuel ch) (keepSeeds ch) []).contains i
          && !(ch.get i).c.shun) := rfl

/-- **the keep-closure contains its seeds and is closed under "nearest includable source"**, in both directions -/
theorem C03_kept_is_closed (ch : Chain) (down : Bool) :
    (∀ s ∈ keepSeeds ch, s ∈ keepClosure ch down (keepFuel ch) (keepSeeds ch) []) ∧
    (∀ j ∈ keepClosure ch down (keepFuel ch) (keepSeeds ch) [], ∀ k ∈ kcNext ch down j,
      k ∈ keepClosure ch down (keepFuel ch) (keepSeeds ch) []) := by
  have hs : (keepSeeds ch).length ≤ ch.length := C03_keep_closure_seeds_fit ch _
  have hm := kcMeasure_start_le ch down (keepSeeds ch) hs
  have ⟨r1, r2⟩ := keepClosure_closed ch down (keepFuel ch) (keepSeeds ch) [] (by unfold keepFuel; omega)
    (fun i hi => by cases hi)
  exact ⟨fun s hs => r1 s (Or.inr hs), r2⟩

/-- **what is proposed for elimination**: a provider that is not Shun'd is proposed only if it is outside the keep-closure
    of both directions -/
theorem C03_proposed_is_shunned_or_not_kept (ch : Chain) (i : Nat) (hi : i ∈ proposeEliminations ch) :
    (ch.get i).c.shun = true ∨
    (i ∉ keepClosure ch true (keepFuel ch) (keepSeeds ch) [] ∧ i ∉ keepClosure ch false (keepFuel ch) (keepSeeds ch) []) := by
  rw [proposeEliminations_eq] at hi
  rcases List.mem_append.mp hi with h | h
  · exact Or.inl (List.mem_filter.mp h).2
  · right
    have := (List.mem_filter.mp h).2
    simp only [Bool.and_eq_true, Bool.not_eq_true'] at this
    have hc := this.1
    refine ⟨fun hm => ?_, fun hm => ?_⟩
    · have : (keepClosure ch true (keepFuel ch) (keepSeeds ch) [] ++ keepClosure ch false (keepFuel ch) (keepSeeds ch) []).contains i = true := by
        rw [List.contains_iff_mem]; exact List.mem_append_left _ hm
      rw [this] at hc; cases hc
    · have : (keepClosure ch true (keepFuel ch) (keepSeeds ch) [] ++ keepClosure ch false (keepFuel ch) (keepSeeds ch) []).contains i = true := by
        rw [List.contains_iff_mem]; exact List.mem_append_right _ hm
      rw [this] at hc; cases hc

/-- in particular: a Required, Desired or auto-desired provider that is not excluded, and the nearest includable source
    of each of its inputs, are put to the test only if they are Shun'd -/
theorem C03_needed_source_is_spared (ch : Chain) (s k : Nat) (hs : s ∈ keepSeeds ch) (hk : k ∈ kcNext ch true s)
    (hprop : k ∈ proposeEliminations ch) : (ch.get k).c.shun = true := by
  rcases C03_proposed_is_shunned_or_not_kept ch k hprop with h | ⟨h, _⟩
  · exact h
  · have ⟨c1, c2⟩ := C03_kept_is_closed ch true
    exact absurd (c2 s (c1 s hs) k hk) h

end Nject
