import NjectProofs.IncludeDesReq4
import NjectProps.C14Validate
/-
  C14, the Desired clause for two whole runs of the include computation: a chain with provider `d` Desired or auto-desired (not
  Required, not Shun'd, not in a Cluster) and the same chain with `d` Required go through flow computation, first validation, pruning
  (clusters, unused providers, trial rounds), the final flow computation and the final validation in lockstep -- until `d`
  is found impossible to include by one of the two validations, where the first reading leaves it out and the second fails.
-/
namespace Nject

theorem DesD_protW {d : Nat} {x : Chain} (h : DesD d x) : ProtW (x.get d) :=
  ⟨h.cl, h.shun, by rcases h.want with h1 | h1
                    · exact Or.inr (Or.inl h1)
                    · exact Or.inr (Or.inr h1)⟩

theorem roundStep_RelD {d : Nat} {x y : Chain} (hrel : RelD d x y) (hdd : DesD d x) (hcc : CC x) (i : Nat) (hid : i ≠ d) :
    RelD d (roundStep x i) (roundStep y i) ∧ DesD d (roundStep x i) := by
  unfold roundStep
  simp only []
  have hf := RelD_fields hrel i
  have hm := RelD_more hrel i
  rw [hf.2.2.1, hm.2.2.2.2.2.2.2, hm.2.2.2.2.2.1]
  by_cases hex : (x.get i).excluded = true
  · simp only [hex, if_true]; exact ⟨hrel, hdd⟩
  · have hex' : (x.get i).excluded = false := by simpa using hex
    simp only [hex', Bool.false_eq_true, if_false]
    by_cases hcl : (x.get i).c.cluster = 0
    · simp only [hcl, bne_self_eq_false, Bool.false_eq_true, if_false]
      exact tryWithout_RelD hrel hdd [i] (by simpa using fun e => hid e.symm)
    · have hne : ((x.get i).c.cluster != 0) = true := by simpa using hcl
      simp only [hne, if_true]
      cases hcm : (x.get i).clusterMembers with
      | none => exact ⟨hrel, hdd⟩
      | some ms =>
        simp only []
        refine tryWithout_RelD hrel hdd ms (fun hd => ?_)
        have := hcc.same i ms hcm d hd
        rw [hdd.cl] at this
        exact hcc.nz i ms hcm this.symm

theorem proposalRound_RelD {d : Nat} {x y : Chain} (hrel : RelD d x y) (hdd : DesD d x) (hcc : CC x) :
    RelD d (proposalRound x) (proposalRound y) ∧ DesD d (proposalRound x) := by
  rw [proposalRound_eq, proposalRound_eq, proposeEliminations_RelD hrel hdd.want]
  have hnp := protW_not_proposed x d (DesD_protW hdd) hdd.ex
  have key : ∀ (l : List Nat) (a b : Chain), d ∉ l → RelD d a b → DesD d a → CC a →
      RelD d (l.foldl roundStep a) (l.foldl roundStep b) ∧ DesD d (l.foldl roundStep a) := by
    intro l
    induction l with
    | nil => intro a b _ h1 h2 _; exact ⟨h1, h2⟩
    | cons i l ih =>
      intro a b hd h1 h2 h3
      simp only [List.foldl_cons]
      have hid : i ≠ d := fun e => hd (by simp [e])
      have ⟨k1, k2⟩ := roundStep_RelD h1 h2 h3 i hid
      exact ih _ _ (fun hm => hd (List.mem_cons_of_mem _ hm)) k1 k2 (roundStep_CC a i h3).2
  exact key _ x y hnp hrel hdd hcc

theorem proposalLoop_RelD {d : Nat} : ∀ (fuel : Nat) (x y : Chain), RelD d x y → DesD d x → CC x →
    RelD d (proposalLoop fuel x) (proposalLoop fuel y) ∧ DesD d (proposalLoop fuel x)
  | 0, x, y, h1, h2, _ => by simp only [proposalLoop]; exact ⟨h1, h2⟩
  | fuel + 1, x, y, h1, h2, h3 => by
    simp only [proposalLoop]
    have ⟨k1, k2⟩ := proposalRound_RelD h1 h2 h3
    rw [countExcluded_RelD k1, countExcluded_RelD h1]
    split
    · exact ⟨k1, k2⟩
    · exact proposalLoop_RelD fuel _ _ k1 k2 (proposalRound_CC x h3).2

theorem eliminateUnused_RelD {d : Nat} : ∀ (fuel : Nat) (check : List Nat) (x y : Chain), RelD d x y → DesD d x →
    RelD d (eliminateUnused fuel check x) (eliminateUnused fuel check y) ∧ DesD d (eliminateUnused fuel check x)
  | 0, _, x, y, h1, h2 => by simp only [eliminateUnused]; exact ⟨h1, h2⟩
  | _ + 1, [], x, y, h1, h2 => by simp only [eliminateUnused]; exact ⟨h1, h2⟩
  | fuel + 1, i :: check, x, y, h1, h2 => by
    simp only [eliminateUnused]
    have hf := RelD_fields h1 i
    have hm := RelD_more h1 i
    have hrd := RelD_guard h1 (DesD_wd h2) i
    have hguard : ((y.get i).c.required || (y.get i).c.desired || (y.get i).wanted || !(y.get i).inc || (y.get i).excluded || (y.get i).c.cluster != 0)
        = ((x.get i).c.required || (x.get i).c.desired || (x.get i).wanted || !(x.get i).inc || (x.get i).excluded || (x.get i).c.cluster != 0) := by
      rw [hrd, hf.1, hf.2.2.1, hm.2.2.2.2.2.2.2]
    rw [hguard]
    split
    · exact eliminateUnused_RelD fuel check x y h1 h2
    · rename_i hskip
      have hany : ((y.get i).usedBy.any fun d' => (y.get d').inc) = ((x.get i).usedBy.any fun d' => (x.get d').inc) := by
        rw [hf.2.2.2.2.1]
        congr 1
        funext d'
        exact (RelD_fields h1 d').1
      rw [hany]
      split
      · exact eliminateUnused_RelD fuel check x y h1 h2
      · have hid : i ≠ d := by
          intro e
          rw [e] at hskip
          have := DesD_wd h2
          rcases h2.want with h3 | ⟨h3, _⟩
          · simp [h3] at hskip
          · simp [h3] at hskip
        rw [hm.2.2.2.1]
        exact eliminateUnused_RelD fuel _ _ _
          (RelD_upd h1 i (fun f => { f with inc := false, cannot := true, excluded := true }) (fun f => rfl))
          (DesD_upd_other h2 i _ hid)


theorem clStep_RelD {d : Nat} {x y : Chain} (leaders : List (Nat × Nat)) (hrel : RelD d x y) (hdd : DesD d x) (k : Nat) :
    RelD d (clStep (x, leaders) k).1 (clStep (y, leaders) k).1 ∧ (clStep (y, leaders) k).2 = (clStep (x, leaders) k).2 ∧
    DesD d (clStep (x, leaders) k).1 := by
  unfold clStep
  simp only []
  have hf := RelD_fields hrel k
  have hm := RelD_more hrel k
  rw [hf.2.2.1, hm.2.2.2.2.2.2.2]
  by_cases hskip : ((x.get k).c.cluster == 0 || (x.get k).excluded) = true
  · rw [if_pos hskip, if_pos hskip]; exact ⟨hrel, rfl, hdd⟩
  · rw [if_neg hskip, if_neg hskip]
    have hs : (x.get k).c.cluster ≠ 0 := by
      simp only [Bool.or_eq_true, beq_iff_eq, not_or, Bool.not_eq_true] at hskip
      exact hskip.1
    have hkd : k ≠ d := fun e => hs (e ▸ hdd.cl)
    have hc : (y.get k).c = (x.get k).c := hf.2.2.2.2.2 hkd
    rw [hc, hf.2.2.2.1 hkd]
    cases hlk : leaders.lookup (x.get k).c.cluster with
    | some l =>
      simp only []
      have r1 := RelD_upd hrel l (fun f => { f with clusterMembers := some ((f.clusterMembers.getD []) ++ [k]) }) (fun f => rfl)
      have r2 := RelD_upd r1 k (fun f => { f with clusterMembers := none }) (fun f => rfl)
      have d1 := DesD_upd_flags hdd l (fun f => { f with clusterMembers := some ((f.clusterMembers.getD []) ++ [k]) }) (fun f => ⟨rfl, rfl, rfl⟩) (Or.inr fun f => rfl)
      have d2 := DesD_upd_flags d1 k (fun f => { f with clusterMembers := none }) (fun f => ⟨rfl, rfl, rfl⟩) (Or.inr fun f => rfl)
      refine ⟨?_, trivial, ?_⟩
      · split
        · exact RelD_upd r2 k (fun f => { f with wantedInCluster := true }) (fun f => rfl)
        · exact r2
      · split
        · exact DesD_upd_flags d2 k (fun f => { f with wantedInCluster := true }) (fun f => ⟨rfl, rfl, rfl⟩) (Or.inl hkd)
        · exact d2
    | none =>
      simp only []
      have r1 := RelD_upd hrel k (fun f => { f with clusterMembers := some [k] }) (fun f => rfl)
      have d1 := DesD_upd_flags hdd k (fun f => { f with clusterMembers := some [k] }) (fun f => ⟨rfl, rfl, rfl⟩) (Or.inr fun f => rfl)
      refine ⟨?_, trivial, ?_⟩
      · split
        · exact RelD_upd r1 k (fun f => { f with wantedInCluster := true }) (fun f => rfl)
        · exact r1
      · split
        · exact DesD_upd_flags d1 k (fun f => { f with wantedInCluster := true }) (fun f => ⟨rfl, rfl, rfl⟩) (Or.inl hkd)
        · exact d1

theorem cl_foldl_RelD {d : Nat} : ∀ (l : List Nat) (x y : Chain) (leaders : List (Nat × Nat)), RelD d x y → DesD d x →
    RelD d (l.foldl clStep (x, leaders)).1 (l.foldl clStep (y, leaders)).1 ∧ DesD d (l.foldl clStep (x, leaders)).1
  | [], _, _, _, h1, h2 => ⟨h1, h2⟩
  | k :: l, x, y, leaders, h1, h2 => by
    simp only [List.foldl_cons]
    have ⟨r1, r2, r3⟩ := clStep_RelD leaders h1 h2 k
    have e : clStep (y, leaders) k = ((clStep (y, leaders) k).1, (clStep (x, leaders) k).2) := by rw [← r2]
    have e2 : clStep (x, leaders) k = ((clStep (x, leaders) k).1, (clStep (x, leaders) k).2) := rfl
    rw [e, e2]
    exact cl_foldl_RelD l _ _ _ r1 r3

theorem clusters_RelD {d : Nat} {x y : Chain} (hrel : RelD d x y) (hdd : DesD d x) :
    RelD d (clusters x) (clusters y) ∧ DesD d (clusters x) := by
  rw [clusters_eq, clusters_eq, hrel.1]
  exact cl_foldl_RelD _ x y [] hrel hdd


theorem map_get (x : Chain) (g : IP → IP) (hd : g default = default) (j : Nat) : Chain.get (x.map g) j = g (x.get j) := by
  by_cases hj : j < x.length
  · simp [Chain.get, List.getD, List.getElem?_map, List.getElem?_eq_getElem hj]
  · rw [get_default_of_ge _ j (by simpa using hj), get_default_of_ge x j hj, hd]

theorem uses_sum_RelD {d : Nat} {x y : Chain} (h : RelD d x y) : (y.map (·.uses.length)).sum = (x.map (·.uses.length)).sum := by
  rw [← map_range_get (fun f => f.uses.length) y, ← map_range_get (fun f => f.uses.length) x, h.1]
  congr 2
  funext j
  rw [(RelD_more h j).2.2.2.1]

/-- **pruning in lockstep** -/
theorem pruneStages_RelD {d : Nat} {x y : Chain} (hrel : RelD d x y) (hdd : DesD d x) (hc : (x.get d).cannot = false)
    (h0 : ∀ j, (x.get j).clusterMembers = none) :
    RelD d (pruneStages x) (pruneStages y) ∧ DesD d (pruneStages x) := by
  rw [pruneStages_unfold, pruneStages_unfold]
  simp only []
  -- the first map
  have r0 : RelD d (x.map fun (f : IP) => if f.cannot then { f with excluded := true, inc := false } else f)
      (y.map fun (f : IP) => if f.cannot then { f with excluded := true, inc := false } else f) :=
    RelD_map hrel _ (fun f => by cases h : f.cannot <;> simp [reqF, h]) rfl
  have g0 : Chain.get (x.map fun (f : IP) => if f.cannot then { f with excluded := true, inc := false } else f) d = x.get d := by
    rw [map_get x _ rfl d]
    simp only [hc, Bool.false_eq_true, if_false]
  have d0 : DesD d (x.map fun (f : IP) => if f.cannot then { f with excluded := true, inc := false } else f) :=
    ⟨by simpa using hdd.lt, by rw [g0]; exact hdd.req, by rw [g0]; exact hdd.want, by rw [g0]; exact hdd.shun,
      by rw [g0]; exact hdd.cl, by rw [g0]; exact hdd.ex⟩
  have hm : ∀ j, (Chain.get (x.map fun (f : IP) => if f.cannot then { f with excluded := true, inc := false } else f) j).clusterMembers = none := by
    intro j
    rw [map_get x _ rfl j]
    split
    · exact h0 j
    · exact h0 j
  have ⟨cca, _, _⟩ := clusters_CC _ hm
  have ⟨r1, d1⟩ := clusters_RelD r0 d0
  generalize clusters (x.map fun (f : IP) => if f.cannot then { f with excluded := true, inc := false } else f) = a at cca r1 d1
  generalize clusters (y.map fun (f : IP) => if f.cannot then { f with excluded := true, inc := false } else f) = a' at r1
  rw [r1.1, uses_sum_RelD r1]
  have ⟨r2, d2⟩ := eliminateUnused_RelD (a.length + (a.map (·.uses.length)).sum + 8) (List.range a.length) a a' r1 d1
  have ⟨ccb, _⟩ := eliminateUnused_CC (a.length + (a.map (·.uses.length)).sum + 8) (List.range a.length) a cca
  have ⟨r3, d3⟩ := proposalLoop_RelD (a.length + 1) _ _ r2 d2 ccb
  refine ⟨RelD_map r3 _ (fun f => rfl) rfl, ?_⟩
  generalize proposalLoop (a.length + 1) (eliminateUnused (a.length + (a.map (·.uses.length)).sum + 8) (List.range a.length) a) = r at d3
  have g1 : Chain.get (r.map fun f => { f with cannot := f.excluded }) d = { (r.get d) with cannot := (r.get d).excluded } :=
    map_get r _ rfl d
  exact ⟨by simpa using d3.lt, by rw [g1]; exact d3.req, by rw [g1]; exact d3.want, by rw [g1]; exact d3.shun,
    by rw [g1]; exact d3.cl, by rw [g1]; exact d3.ex⟩

/-- the include computation on a chain state: flows, first validation, pruning, flows again, final validation -/
def includeRun (ti : TyInfo) (ip : Option Nat) (z : Chain) : Except IncErr Chain :=
  match validate true (providesReturns ti z ip) with
  | .error e => .error e
  | .ok ch1 => validate true (providesReturns ti (pruneStages ch1) ip)

/-- `computeInclusion` is `includeRun` on the initial state (the error of the last stage is reported as "internal") -/
theorem computeInclusion_eq_includeRun (ti : TyInfo) (funcs : List CP) (cannot0 : List Nat) (ch : Chain) :
    computeInclusion ti funcs cannot0 = .ok ch ↔ includeRun ti (initPosOf funcs) (initState funcs cannot0) = .ok ch := by
  unfold computeInclusion inclusionBeforeFinal firstValidation includeRun
  cases validate true (providesReturns ti (initState funcs cannot0) (initPosOf funcs)) with
  | error e => simp
  | ok ch1 =>
    simp only []
    cases validate true (providesReturns ti (pruneStages ch1) (initPosOf funcs)) with
    | error e => simp
    | ok c => simp

/-- **C14, the Desired clause, for two whole runs**: a chain state in which provider `d` is Desired or auto-desired (`DesD`: not Required, not
    Shun'd, not in a Cluster, not excluded) and the same state with `d` Required: if the first run succeeds, then either `d` is
    included and the second run succeeds with every provider marked alike, or the second run fails. -/
theorem C14_desired_run_vs_required_run (ti : TyInfo) (ip : Option Nat) (x0 x' : Chain) (d : Nat)
    (hdd : DesD d x0) (h0 : ∀ j, (x0.get j).clusterMembers = none) (hip : ∀ p, ip = some p → p < x0.length)
    (h : includeRun ti ip x0 = .ok x') :
    ((x'.get d).inc = true ∧ ∃ y', includeRun ti ip (x0.upd d reqF) = .ok y' ∧
        ∀ j, (y'.get j).inc = (x'.get j).inc ∧ (y'.get j).cannot = (x'.get j).cannot) ∨
    (∃ e, includeRun ti ip (x0.upd d reqF) = .error e) := by
  unfold includeRun at h ⊢
  have hrel0 := providesReturns_RelD (RelD_setReq x0 d hdd.lt) ti ip
  have hsf0 := providesReturns_SF ti x0 ip
  have hxf0 := providesReturns_XF ti x0 ip
  have hyf0 := providesReturns_YF ti x0 ip
  have hs0 := providesReturns_sym ti x0 ip hip
  cases hv1 : validate true (providesReturns ti x0 ip) with
  | error e => rw [hv1] at h; cases h
  | ok ch1 =>
    rw [hv1] at h
    simp only [] at h
    have hlen0 : (providesReturns ti x0 ip).length = x0.length := hsf0.1
    rcases validate_desired_vs_required true d _ _ ch1 hrel0 hs0 (by rw [hlen0]; exact hdd.lt)
        (by rw [(hsf0.2 d).2.2.1]; exact hdd.req) (by rw [(hxf0.2 d).1]; exact hdd.ex) hv1 with ⟨hc1, _, y1, hy1, hrel1⟩ | ⟨_, hy1⟩
    · rw [hy1]
      simp only []
      -- what is known of d after the first validation
      have hfr1 := validate_FR true _ ch1 hv1
      have hcf : ∀ j, (ch1.get j).c = (x0.get j).c ∧ (ch1.get j).excluded = (x0.get j).excluded ∧
          (ch1.get j).clusterMembers = (x0.get j).clusterMembers ∧ (ch1.get j).wanted = (x0.get j).wanted ∧
          (ch1.get j).wantedInCluster = (x0.get j).wantedInCluster := by
        intro j
        have := hfr1.2 j
        unfold flagsOnly at this
        rw [← this]
        exact ⟨(hsf0.2 j).2.2.1, (hxf0.2 j).1, (hyf0.2 j).1, (hxf0.2 j).2.2.1, (hyf0.2 j).2.1⟩
      have hl1 : ch1.length = x0.length := hfr1.1.trans hlen0
      have hdd1 : DesD d ch1 := ⟨by rw [hl1]; exact hdd.lt, by rw [(hcf d).1]; exact hdd.req,
        by rw [(hcf d).1, (hcf d).2.2.2.1, (hcf d).2.2.2.2]; exact hdd.want,
        by rw [(hcf d).1]; exact hdd.shun, by rw [(hcf d).1]; exact hdd.cl, by rw [(hcf d).2.1]; exact hdd.ex⟩
      have ⟨hrel2, hdd2⟩ := pruneStages_RelD hrel1 hdd1 hc1 (fun j => by rw [(hcf j).2.2.1]; exact h0 j)
      -- the final flow computation and validation
      have hrel3 := providesReturns_RelD hrel2 ti ip
      have hsf3 := providesReturns_SF ti (pruneStages ch1) ip
      have hxf3 := providesReturns_XF ti (pruneStages ch1) ip
      have hs3 := providesReturns_sym ti (pruneStages ch1) ip (fun p hp => by rw [pruneStages_length, hl1]; exact hip p hp)
      rcases validate_desired_vs_required true d _ _ x' hrel3 hs3 (by rw [hsf3.1]; exact hdd2.lt)
          (by rw [(hsf3.2 d).2.2.1]; exact hdd2.req) (by rw [(hxf3.2 d).1]; exact hdd2.ex) h with ⟨_, hinc, y', hy', hr'⟩ | ⟨_, hy'⟩
      · exact Or.inl ⟨hinc, y', hy', fun j => ⟨(RelD_fields hr' j).1, (RelD_fields hr' j).2.1⟩⟩
      · exact Or.inr ⟨_, hy'⟩
    · rw [hy1]
      exact Or.inr ⟨_, rfl⟩


theorem eliminateUnused_excl_mono : ∀ (fuel : Nat) (check : List Nat) (ch : Chain) (j : Nat), (ch.get j).excluded = true →
    ((eliminateUnused fuel check ch).get j).excluded = true
  | 0, _, ch, j, h => by simp only [eliminateUnused]; exact h
  | _ + 1, [], ch, j, h => by simp only [eliminateUnused]; exact h
  | fuel + 1, i :: check, ch, j, h => by
    simp only [eliminateUnused]
    split
    · exact eliminateUnused_excl_mono fuel check ch j h
    · split
      · exact eliminateUnused_excl_mono fuel check ch j h
      · refine eliminateUnused_excl_mono fuel _ _ j ?_
        rw [get_upd]; split
        · rfl
        · exact h

theorem proposalLoop_EM : ∀ (fuel : Nat) (ch : Chain), CC ch → EM ch (proposalLoop fuel ch)
  | 0, ch, _ => by simp only [proposalLoop]; exact EM_refl ch
  | fuel + 1, ch, hcc => by
    simp only [proposalLoop]
    have ⟨em, cc⟩ := proposalRound_CC ch hcc
    split
    · exact em
    · exact EM_trans em (proposalLoop_EM fuel _ cc)

/-- what the first validation marked stays excluded through pruning -/
theorem pruneStages_keeps_mark (ch : Chain) (h0 : ∀ j, (ch.get j).clusterMembers = none) (j : Nat) (hc : (ch.get j).cannot = true) :
    ((pruneStages ch).get j).excluded = true := by
  rw [pruneStages_unfold]
  simp only []
  have g0 : (Chain.get (ch.map fun (f : IP) => if f.cannot then { f with excluded := true, inc := false } else f) j).excluded = true := by
    rw [map_get ch _ rfl j]
    simp only [hc, if_true]
  have hm : ∀ k, (Chain.get (ch.map fun (f : IP) => if f.cannot then { f with excluded := true, inc := false } else f) k).clusterMembers = none := by
    intro k
    rw [map_get ch _ rfl k]
    split
    · exact h0 k
    · exact h0 k
  have ⟨cca, _, sta⟩ := clusters_CC _ hm
  have xa : ((clusters (ch.map fun (f : IP) => if f.cannot then { f with excluded := true, inc := false } else f)).get j).excluded = true := by
    rw [(sta j).2]; exact g0
  generalize clusters (ch.map fun (f : IP) => if f.cannot then { f with excluded := true, inc := false } else f) = a at cca xa
  have xb := eliminateUnused_excl_mono (a.length + (a.map (·.uses.length)).sum + 8) (List.range a.length) a j xa
  have ⟨ccb, _⟩ := eliminateUnused_CC (a.length + (a.map (·.uses.length)).sum + 8) (List.range a.length) a cca
  have xc := ((proposalLoop_EM (a.length + 1) _ ccb).2 j).2 xb
  rw [map_get _ _ rfl j]
  exact xc

/-- **C14, both directions**: under the hypotheses of `C14_desired_run_vs_required_run`, the Desired provider is included
    exactly when the run with the provider Required succeeds -/
theorem C14_desired_included_iff_required_run_succeeds (ti : TyInfo) (ip : Option Nat) (x0 x' : Chain) (d : Nat)
    (hdd : DesD d x0) (h0 : ∀ j, (x0.get j).clusterMembers = none) (hip : ∀ p, ip = some p → p < x0.length)
    (h : includeRun ti ip x0 = .ok x') :
    (x'.get d).inc = true ↔ ∃ y', includeRun ti ip (x0.upd d reqF) = .ok y' := by
  constructor
  · intro hinc
    -- if the Required run failed, one of the two validations marked d, and then it is not included
    unfold includeRun at h ⊢
    have hrel0 := providesReturns_RelD (RelD_setReq x0 d hdd.lt) ti ip
    have hsf0 := providesReturns_SF ti x0 ip
    have hxf0 := providesReturns_XF ti x0 ip
    have hyf0 := providesReturns_YF ti x0 ip
    have hs0 := providesReturns_sym ti x0 ip hip
    cases hv1 : validate true (providesReturns ti x0 ip) with
    | error e => rw [hv1] at h; cases h
    | ok ch1 =>
      rw [hv1] at h
      simp only [] at h
      have hlen0 : (providesReturns ti x0 ip).length = x0.length := hsf0.1
      have hfr1 := validate_FR true _ ch1 hv1
      have hcf : ∀ j, (ch1.get j).c = (x0.get j).c ∧ (ch1.get j).excluded = (x0.get j).excluded ∧
          (ch1.get j).clusterMembers = (x0.get j).clusterMembers ∧ (ch1.get j).wanted = (x0.get j).wanted ∧
          (ch1.get j).wantedInCluster = (x0.get j).wantedInCluster := by
        intro j
        have := hfr1.2 j
        unfold flagsOnly at this
        rw [← this]
        exact ⟨(hsf0.2 j).2.2.1, (hxf0.2 j).1, (hyf0.2 j).1, (hxf0.2 j).2.2.1, (hyf0.2 j).2.1⟩
      have hl1 : ch1.length = x0.length := hfr1.1.trans hlen0
      rcases validate_desired_vs_required true d _ _ ch1 hrel0 hs0 (by rw [hlen0]; exact hdd.lt)
          (by rw [(hsf0.2 d).2.2.1]; exact hdd.req) (by rw [(hxf0.2 d).1]; exact hdd.ex) hv1 with ⟨hc1, _, y1, hy1, hrel1⟩ | ⟨hc1, _⟩
      · rw [hy1]
        simp only []
        have hdd1 : DesD d ch1 := ⟨by rw [hl1]; exact hdd.lt, by rw [(hcf d).1]; exact hdd.req,
          by rw [(hcf d).1, (hcf d).2.2.2.1, (hcf d).2.2.2.2]; exact hdd.want,
          by rw [(hcf d).1]; exact hdd.shun, by rw [(hcf d).1]; exact hdd.cl, by rw [(hcf d).2.1]; exact hdd.ex⟩
        have ⟨hrel2, hdd2⟩ := pruneStages_RelD hrel1 hdd1 hc1 (fun j => by rw [(hcf j).2.2.1]; exact h0 j)
        have hrel3 := providesReturns_RelD hrel2 ti ip
        have hsf3 := providesReturns_SF ti (pruneStages ch1) ip
        have hxf3 := providesReturns_XF ti (pruneStages ch1) ip
        have hs3 := providesReturns_sym ti (pruneStages ch1) ip (fun p hp => by rw [pruneStages_length, hl1]; exact hip p hp)
        rcases validate_desired_vs_required true d _ _ x' hrel3 hs3 (by rw [hsf3.1]; exact hdd2.lt)
            (by rw [(hsf3.2 d).2.2.1]; exact hdd2.req) (by rw [(hxf3.2 d).1]; exact hdd2.ex) h with ⟨_, _, y', hy', _⟩ | ⟨hc3, _⟩
        · exact ⟨y', hy'⟩
        · -- marked by the final validation: not included
          exfalso
          have hfix := (validate_fix true _ x' h hs3).2
          rw [(hfix d hinc).1] at hc3; cases hc3
      · -- marked by the first validation: excluded by pruning, so not included at the end
        exfalso
        have hmark := pruneStages_keeps_mark ch1 (fun j => by rw [(hcf j).2.2.1]; exact h0 j) d hc1
        have hxf3 := providesReturns_XF ti (pruneStages ch1) ip
        have := (validate_excl true _ x' h d (by rw [(hxf3.2 d).1]; exact hmark)).1
        rw [this] at hinc; cases hinc
  · rintro ⟨y', hy'⟩
    rcases C14_desired_run_vs_required_run ti ip x0 x' d hdd h0 hip h with ⟨hinc, _⟩ | ⟨e, he⟩
    · exact hinc
    · rw [hy'] at he; cases he

/-- premises are satisfiable, both ways: with provider 0 (Desired, kept) made Required the run succeeds alike; with provider 1
    (Desired, asks for a type nobody provides) made Required the run fails -/
def c14LockChain : Chain := initState c14ValidateExample []

example : (match includeRun stdTyInfo none c14LockChain, includeRun stdTyInfo none (c14LockChain.upd 0 reqF),
      includeRun stdTyInfo none (c14LockChain.upd 1 reqF) with
    | .ok x', .ok y', .error _ => (x'.get 0).inc && (y'.get 0).inc && !(x'.get 1).inc && (x'.get 2).inc == (y'.get 2).inc
        && (c14LockChain.get 0).c.desired && !(c14LockChain.get 0).c.required && !(c14LockChain.get 0).c.shun
        && (c14LockChain.get 0).c.cluster == 0 && !(c14LockChain.get 0).excluded
    | _, _, _ => false) = true := by decide


/-- the same for an auto-desired provider (no outputs: flag `wanted`): provider 1 of `c14WantedExample` made Required -/
def c14LockChainW : Chain := initState c14WantedExample []

example : (match includeRun stdTyInfo none c14LockChainW, includeRun stdTyInfo none (c14LockChainW.upd 1 reqF) with
    | .ok x', .ok y' => (x'.get 1).inc && (y'.get 1).inc && (x'.get 0).inc == (y'.get 0).inc
        && (c14LockChainW.get 1).wanted && !(c14LockChainW.get 1).wantedInCluster && !(c14LockChainW.get 1).c.desired
        && !(c14LockChainW.get 1).c.required && !(c14LockChainW.get 1).c.shun && (c14LockChainW.get 1).c.cluster == 0
    | _, _ => false) = true := by decide

end Nject
