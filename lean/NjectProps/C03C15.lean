import Nject.Validate
/-
  C03 / C15 — theorems over the model of include.go / shadowing.go and over the validators that run
  on every bound chain the implementation dumps.
-/
namespace Nject

/-! ## chain access lemmas -/

theorem upd_length (ch : Chain) (i : Nat) (g : IP → IP) : (ch.upd i g).length = ch.length := by
  simp [Chain.upd]

theorem get_upd_other (ch : Chain) (i j : Nat) (g : IP → IP) (h : i ≠ j) : (ch.upd i g).get j = ch.get j := by
  simp [Chain.upd, Chain.get, List.getD, h]

theorem get_upd_same (ch : Chain) (i : Nat) (g : IP → IP) (h : i < ch.length) :
    (ch.upd i g).get i = g (ch.get i) := by
  simp [Chain.upd, Chain.get, List.getD, h]

theorem get_upd_oob (ch : Chain) (i : Nat) (g : IP → IP) (h : ¬ i < ch.length) : ch.upd i g = ch := by
  unfold Chain.upd
  exact List.set_eq_of_length_le (by omega)

/-! ## C03 (positive): Required providers — the final function is one — are in every bound chain -/

/-- at position `j`: Required implies included -/
def R (ch : Chain) (j : Nat) : Prop := (ch.get j).c.required = true → (ch.get j).inc = true

theorem R_default (ch : Chain) (j : Nat) (h : ¬ j < ch.length) : R ch j := by
  intro hr
  have : ch.get j = default := by
    have hle : ch.length ≤ j := Nat.le_of_not_lt h
    simp [Chain.get, List.getD, List.getElem?_eq_none hle]
  rw [this] at hr; cases hr

/-- an update at `i` whose result satisfies required → inc and keeps `c` elsewhere preserves `R` -/
theorem R_upd (ch : Chain) (i : Nat) (g : IP → IP) (hg : (g (ch.get i)).c.required = true → (g (ch.get i)).inc = true)
    (j : Nat) (hj : j ≠ i → R ch j) : R (ch.upd i g) j := by
  by_cases hji : j = i
  · subst hji
    by_cases hlt : j < ch.length
    · intro hr; rw [get_upd_same ch j g hlt] at hr ⊢; exact hg hr
    · exact R_default _ _ (by rw [upd_length]; exact hlt)
  · intro hr
    rw [get_upd_other ch i j g (Ne.symm hji)] at hr ⊢
    exact hj hji hr

theorem markAll_R : ∀ (todo : List Nat) (ch : Chain) (rem : List Nat) (ch' : Chain) (rem' : List Nat),
    markAll todo ch rem = .ok (ch', rem') → (∀ j, j ∉ todo → R ch j) → ∀ j, R ch' j
  | [], ch, rem, ch', rem', h, hinv, j => by
    simp only [markAll] at h; cases h; exact hinv j (by simp)
  | i :: rest, ch, rem, ch', rem', h, hinv, j => by
    simp only [markAll] at h
    split at h
    · refine markAll_R rest _ _ ch' rem' h ?_ j
      intro k hk
      exact R_upd ch i _ (fun _ => rfl) k (fun hki => hinv k (by simp [hki, hk]))
    · split at h
      · cases h
      · rename_i _ hreq
        refine markAll_R rest _ _ ch' rem' h ?_ j
        intro k hk
        exact R_upd ch i _ (fun hr => absurd hr hreq) k (fun hki => hinv k (by simp [hki, hk]))

theorem checkPass_R (b : Bool) : ∀ (todo : List Nat) (ch : Chain) (seen redo : List Nat) (ch' : Chain) (redo' : List Nat),
    checkPass b todo ch seen redo = .ok (ch', redo') → (∀ j, R ch j) → ∀ j, R ch' j
  | [], ch, seen, redo, ch', redo', h, hinv => by
    simp only [checkPass] at h; cases h; exact hinv
  | i :: todo, ch, seen, redo, ch', redo', h, hinv => by
    simp only [checkPass] at h
    split at h
    · exact checkPass_R b todo ch seen redo ch' redo' h hinv
    · split at h
      · split at h
        · cases h
        · rename_i hreq
          split at h
          · cases h
          · split at h
            · refine checkPass_R b todo _ _ _ ch' redo' h ?_
              intro j
              exact R_upd ch i _ (fun hr => absurd hr hreq) j (fun _ => hinv j)
            · exact checkPass_R b todo ch _ _ ch' redo' h hinv
      · split at h
        · exact checkPass_R b todo ch _ _ ch' redo' h hinv
        · refine checkPass_R b todo _ _ _ ch' redo' h ?_
          intro j
          by_cases hji : j = i
          · subst hji
            by_cases hlt : j < ch.length
            · intro hr; rw [get_upd_same ch j _ hlt] at hr ⊢; exact hinv j hr
            · exact R_default _ _ (by rw [upd_length]; exact hlt)
          · intro hr
            rw [get_upd_other ch i j _ (Ne.symm hji)] at hr ⊢
            exact hinv j hr

theorem checkFlows_R (b : Bool) : ∀ (fuel : Nat) (todo : List Nat) (ch ch' : Chain),
    checkFlows b fuel todo ch = .ok ch' → (∀ j, R ch j) → ∀ j, R ch' j
  | 0, _, _, _, h, _ => by simp [checkFlows] at h
  | fuel + 1, todo, ch, ch', h, hinv => by
    simp only [checkFlows] at h
    split at h
    · cases h; exact hinv
    · split at h
      · cases h
      · rename_i ch1 redo hp
        exact checkFlows_R b fuel redo ch1 ch' h (checkPass_R b todo ch [] [] ch1 redo hp hinv)

theorem validate_R (b : Bool) (ch ch' : Chain) (h : validate b ch = .ok ch') : ∀ j, R ch' j := by
  unfold validate at h
  split at h
  · cases h
  · rename_i ch1 rem hm
    refine checkFlows_R b _ rem ch1 ch' h (markAll_R _ ch [] ch1 rem hm ?_)
    intro j hj
    exact R_default ch j (by simpa using hj)

/-- **C03 (positive)**: in every chain the include computation accepts, every Required provider is
    included; otherwise the computation fails (Bind returns an error). -/
theorem C03_required_included (ti : TyInfo) (funcs : List CP) (ch : Chain)
    (h : computeInclusion ti funcs = .ok ch) : ∀ j, (ch.get j).c.required = true → (ch.get j).inc = true := by
  unfold computeInclusion at h
  split at h
  · cases h
  · split at h
    · cases h
    · rename_i chf hv
      cases h
      exact validate_R true _ _ hv

/-- the final function is Required by classification (regenerated table): every FINAL entry sets it -/
theorem C03_final_is_required :
    Gen.handlerRegistry.all (fun e => e.group != .finalGroup || e.required) = true := by decide

/-- the validator run on every dumped chain says the same of the implementation's result -/
theorem C03_required_validator (ch : Chain) (h : requiredIncludedB ch = true) :
    ∀ f ∈ ch, f.c.required = true → f.inc = true := by
  intro f hf hr
  have := List.all_eq_true.mp h f hf
  simpa [hr] using this

/-- **C03 (negative), validator form**: when `allJustifiedB` is empty every included provider is
    justified in the sense of the property -/
theorem C03_justified_validator (ch : Chain) (h : allJustifiedB ch = []) :
    ∀ f ∈ ch, f.inc = true → justifiedB ch f = true := by
  intro f hf hi
  unfold allJustifiedB at h
  have h' := List.map_eq_nil_iff.mp h
  have := List.filter_eq_nil_iff.mp h' f hf
  cases hj : justifiedB ch f with
  | true => rfl
  | false => simp [hi, hj] at this

/-! ## C15 -/

/-- **returns_consumed**: the validator implies the property clause -/
theorem C15_returns_consumed_validator (ch : Chain) (h : returnsConsumedB ch = true) :
    ∀ f ∈ ch, f.inc = true → ∀ t ∈ f.c.ret, ¬ t ∈ f.c.consOpt → t ≠ tUnused →
      ∃ g ∈ ch, g.inc = true ∧ g.pos < f.pos ∧ t ∈ g.recvTypes := by
  intro f hf hi t ht hco hun
  have h1 := List.all_eq_true.mp h f hf
  simp only [hi, Bool.not_true, Bool.false_or, List.all_eq_true] at h1
  have h2 := h1 t ht
  simp only [Bool.or_eq_true, List.contains_eq_mem, decide_eq_true_eq, beq_iff_eq, List.any_eq_true,
    Bool.and_eq_true, decide_eq_true_eq] at h2
  rcases h2 with (h3 | h3) | ⟨g, hg, ⟨hgi, hgp⟩, hgr⟩
  · exact absurd h3 hco
  · exact absurd h3 hun
  · exact ⟨g, hg, hgi, hgp, hgr⟩

/-- `shadowEach` only grows the set of returned types -/
theorem shadowEach_mono (fm : IP) : ∀ (ts returned r' : List Ty),
    shadowEach fm ts returned = some r' → ∀ t ∈ returned, t ∈ r'
  | [], returned, r', h, t, ht => by simp [shadowEach] at h; rw [← h]; exact ht
  | t0 :: ts, returned, r', h, t, ht => by
    simp only [shadowEach] at h
    split at h
    · exact shadowEach_mono fm ts _ r' h t (List.mem_cons_of_mem _ ht)
    · split at h
      · exact shadowEach_mono fm ts _ r' h t ht
      · split at h
        · exact shadowEach_mono fm ts _ r' h t ht
        · cases h

/-- every type it walks over ends up in the returned set -/
theorem shadowEach_adds (fm : IP) : ∀ (ts returned r' : List Ty),
    shadowEach fm ts returned = some r' → ∀ t ∈ ts, t ∈ r'
  | [], _, _, _, t, ht => by cases ht
  | t0 :: ts, returned, r', h, t, ht => by
    simp only [shadowEach] at h
    rcases List.mem_cons.mp ht with heq | hin
    · subst heq
      split at h
      · exact shadowEach_mono fm ts _ r' h t (by simp)
      · rename_i hc
        have hmem : t ∈ returned := by simpa using hc
        split at h
        · exact shadowEach_mono fm ts _ r' h t hmem
        · split at h
          · exact shadowEach_mono fm ts _ r' h t hmem
          · cases h
    · split at h
      · exact shadowEach_adds fm ts _ r' h t hin
      · split at h
        · exact shadowEach_adds fm ts _ r' h t hin
        · split at h
          · exact shadowEach_adds fm ts _ r' h t hin
          · cases h

/-- if `shadowEach` accepts, a type already returned from below is only re-returned by a fallible
    injector's error or with AllowReturnShadowing -/
theorem shadowEach_ok (fm : IP) : ∀ (ts returned r' : List Ty),
    shadowEach fm ts returned = some r' → ∀ t ∈ ts, t ∈ returned →
      ((fm.c.cls = .fallibleStaticInjectorFunc ∨ fm.c.cls = .fallibleInjectorFunc) ∧ (t = tError ∨ t = tTerminal))
      ∨ t ∈ fm.c.shadowOK
  | [], _, _, _, t, ht, _ => by cases ht
  | t0 :: ts, returned, r', h, t, ht, hret => by
    simp only [shadowEach] at h
    rcases List.mem_cons.mp ht with heq | hin
    · subst heq
      split at h
      · rename_i hc; simp [hret] at hc
      · split at h
        · rename_i hc
          simp only [Bool.and_eq_true, Bool.or_eq_true, beq_iff_eq] at hc
          exact Or.inl hc
        · split at h
          · rename_i hc; exact Or.inr (by simpa using hc)
          · cases h
    · split at h
      · exact shadowEach_ok fm ts _ r' h t hin (List.mem_cons_of_mem _ hret)
      · split at h
        · exact shadowEach_ok fm ts _ r' h t hin hret
        · split at h
          · exact shadowEach_ok fm ts _ r' h t hin hret
          · cases h

/-- **no_shadowing**: if `checkForShadowing` accepts a list then for every provider `f` and every type
    `t` it returns without receiving it: if some provider listed after `f` also returns `t` without
    receiving it, then `f` is a fallible injector returning its error, or `t` is allowed by
    AllowReturnShadowing on `f`. -/
theorem shadowGo_sound : ∀ (l : List IP) (returned : List Ty), shadowGo l returned = true →
    ∀ (pre : List IP) (f : IP) (post : List IP), l = pre ++ f :: post →
      ∀ t ∈ f.c.ret, t ∉ f.c.recv →
        (t ∈ returned ∨ ∃ g ∈ pre, t ∈ g.c.ret) →
        ((f.c.cls = .fallibleStaticInjectorFunc ∨ f.c.cls = .fallibleInjectorFunc) ∧ (t = tError ∨ t = tTerminal))
        ∨ t ∈ f.c.shadowOK
  | [], _, _, pre, f, post, hl, _, _, _, _ => by simp at hl
  | fm :: rest, returned, h, pre, f, post, hl, t, ht, hnr, hbelow => by
    simp only [shadowGo] at h
    split at h
    · cases h
    · rename_i r' he
      cases pre with
      | nil =>
        simp only [List.nil_append, List.cons.injEq] at hl
        obtain ⟨hfm, _⟩ := hl
        subst hfm
        rcases hbelow with hb | ⟨g, hg, _⟩
        · exact shadowEach_ok fm _ returned r' he t (by simp [ht, hnr]) hb
        · cases hg
      | cons p pre' =>
        simp only [List.cons_append, List.cons.injEq] at hl
        obtain ⟨hp, hrest⟩ := hl
        subst hp
        refine shadowGo_sound rest _ h pre' f post hrest t ht hnr ?_
        rcases hbelow with hb | ⟨g, hg, hgt⟩
        · exact Or.inl (List.mem_append_left _ (shadowEach_mono fm _ returned r' he t hb))
        · rcases List.mem_cons.mp hg with heq | hin
          · subst heq
            -- `g` itself returns `t`: either it did not receive it (then `shadowEach` recorded it) or it passes it on
            by_cases hgr : g.c.recv.contains t = true
            · by_cases hin' : t ∈ r'
              · exact Or.inl (List.mem_append_left _ hin')
              · refine Or.inl (List.mem_append_right _ ?_)
                simp only [List.mem_filter, Bool.and_eq_true, Bool.not_eq_true', List.contains_eq_mem, decide_eq_false_iff_not]
                exact ⟨hgt, by simpa using hgr, hin'⟩
            · have hgr' : t ∉ g.c.recv := by simpa using hgr
              exact Or.inl (List.mem_append_left _ (shadowEach_adds g _ returned r' he t (by simp [hgt, hgr'])))
          · exact Or.inr ⟨g, hin, hgt⟩

/-- in list order: `below` are the providers listed after `f`.  Whoever returns `t` below counts -- also a
    wrapper that received `t` from further down and passes it on (the value may have been returned there under
    another type, matched through Loose). -/
theorem C15_no_shadowing (ch : Chain) (h : checkShadowing ch = true) (above : List IP) (f : IP) (below : List IP)
    (hl : ch = above ++ f :: below) (t : Ty) (ht : t ∈ f.c.ret) (hnr : t ∉ f.c.recv)
    (hb : ∃ g ∈ below, t ∈ g.c.ret) :
    ((f.c.cls = .fallibleStaticInjectorFunc ∨ f.c.cls = .fallibleInjectorFunc) ∧ (t = tError ∨ t = tTerminal))
    ∨ t ∈ f.c.shadowOK := by
  unfold checkShadowing at h
  have hrev : ch.reverse = below.reverse ++ f :: above.reverse := by
    rw [hl]; simp
  obtain ⟨g, hg, hgt⟩ := hb
  exact shadowGo_sound ch.reverse [] h below.reverse f above.reverse hrev t ht hnr
    (Or.inr ⟨g, by simpa using hg, hgt⟩)

end Nject
