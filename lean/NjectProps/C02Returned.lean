import NjectProofs.IncludeReturned2
import NjectProps.C01Supply2
/-
  C02 ("a wrapper receives what the providers below it returned -- never a value from nowhere"), the part that is a
  theorem about the include computation: in the chain that Bind accepts, every type an included provider expects from
  below is returned by an INCLUDED provider listed AFTER it which returns that very type or -- for an interface matched to
  a Loose provider -- a type that implements it.  The mirror image of `C01_bound_chain_inputs_are_supplied`; together
  with `C15_bound_chain_consumes_returns` (every returned value has a receiver above) it pins both ends of the upward flow.
-/
namespace Nject

/-- what the two provenance theorems say about the chain handed to the final validation -/
theorem inclusionBeforeFinal_returned (ti : TyInfo) (funcs : List CP) (cannot0 : List Nat) (pre : Chain)
    (h : inclusionBeforeFinal ti funcs cannot0 = .ok pre) :
    (∀ k e p, e ∈ (pre.get k).usesRecv → p ∈ e.2 →
      k < p ∧ ∃ x, x ∈ (pre.get p).c.ret ∧ (x = e.1 ∨ ti.implements x e.1 = true)) ∧
    (∀ j, (pre.get j).cannot = false → ∀ t ∈ (pre.get j).c.recv, t ≠ tNoType →
      t ∈ (pre.get j).errRecv ∨ ∃ e ∈ (pre.get j).usesRecv, e.1 = t) := by
  unfold inclusionBeforeFinal at h
  split at h
  · cases h
  · rename_i ch1 hv
    have key : ∀ x : Chain, x = pre →
        ((∀ k e p, e ∈ (x.get k).usesRecv → p ∈ e.2 →
          k < p ∧ ∃ y, y ∈ (x.get p).c.ret ∧ (y = e.1 ∨ ti.implements y e.1 = true)) ∧
        (∀ j, (x.get j).cannot = false → ∀ t ∈ (x.get j).c.recv, t ≠ tNoType →
          t ∈ (x.get j).errRecv ∨ ∃ e ∈ (x.get j).usesRecv, e.1 = t)) →
        ((∀ k e p, e ∈ (pre.get k).usesRecv → p ∈ e.2 →
          k < p ∧ ∃ y, y ∈ (pre.get p).c.ret ∧ (y = e.1 ∨ ti.implements y e.1 = true)) ∧
        (∀ j, (pre.get j).cannot = false → ∀ t ∈ (pre.get j).c.recv, t ≠ tNoType →
          t ∈ (pre.get j).errRecv ∨ ∃ e ∈ (pre.get j).usesRecv, e.1 = t)) := by
      intro x hx hh; rw [← hx]; exact hh
    exact key _ (by injection h)
      ⟨providesReturns_returned ti (pruneStages ch1) (initPosOf funcs),
       fun j hc => providesReturns_coveredR ti (pruneStages ch1) (initPosOf funcs) j hc⟩

/-- **C02 (received values are returned)**: whenever the include computation accepts a provider list, every type an
    included provider (a wrapper, the invoke function) expects from below is returned by an included provider listed
    after it -- further down the chain -- that returns the type itself or a type implementing it. -/
theorem C02_bound_chain_received_are_returned (ti : TyInfo) (funcs : List CP) (cannot0 : List Nat) (pre ch : Chain)
    (hpre : inclusionBeforeFinal ti funcs cannot0 = .ok pre) (h : computeInclusion ti funcs cannot0 = .ok ch)
    (j : Nat) (hj : (ch.get j).inc = true) (t : Ty) (ht : t ∈ (ch.get j).c.recv) (hn : t ≠ tNoType) :
    ∃ p, j < p ∧ (ch.get p).inc = true ∧ ∃ x, x ∈ (ch.get p).c.ret ∧ (x = t ∨ ti.implements x t = true) := by
  have ⟨hsup, hcov⟩ := inclusionBeforeFinal_returned ti funcs cannot0 pre hpre
  -- the final validation changes flags only
  have hfr : FR pre ch := by
    unfold computeInclusion at h
    rw [hpre] at h
    simp only at h
    split at h
    · cases h
    · rename_i chf hv
      cases h
      exact validate_FR true pre _ hv
  have hsame : ∀ k, (ch.get k).usesRecv = (pre.get k).usesRecv ∧ (ch.get k).errRecv = (pre.get k).errRecv ∧ (ch.get k).c = (pre.get k).c := by
    intro k
    have := hfr.2 k
    unfold flagsOnly at this
    rw [← this]
    exact ⟨rfl, rfl, rfl⟩
  -- j was not excluded by pruning
  have hnc : (pre.get j).cannot = false := by
    cases hc : (pre.get j).cannot with
    | false => rfl
    | true =>
      have := (C16_pruned_providers_are_not_included ti funcs cannot0 pre ch hpre h j hc).1
      rw [this] at hj; cases hj
  -- its records
  have hfix := C03_bound_chain_is_a_fixpoint ti funcs cannot0 ch h
  have ⟨_, herr, _, hsrc⟩ := C03_included_providers_have_included_sources ch hfix j hj
  rcases hcov j hnc t (by rw [← (hsame j).2.2]; exact ht) hn with he | ⟨e, he, hk⟩
  · rw [← (hsame j).2.1, herr] at he; cases he
  · have he' : e ∈ (ch.get j).usesRecv := by rw [(hsame j).1]; exact he
    obtain ⟨p, hp, hpinc⟩ := hsrc e (List.mem_append_left _ (List.mem_append_right _ he'))
    obtain ⟨hlt, x, hx, hxt⟩ := hsup j e p he hp
    refine ⟨p, hlt, hpinc, x, by rw [(hsame p).2.2]; exact hx, ?_⟩
    rw [← hk]; exact hxt

/-- premises are satisfiable: the invoke function expects an error (20) that the final function returns -/
def c02ReturnedExample : List CP := [
  { id := 990, cls := .invokeFunc, recv := [20], group := .invokeGroup, required := true },
  { id := 1, cls := .finalFunc, ret := [20], required := true, group := .finalGroup }]

example : (match computeInclusion stdTyInfo c02ReturnedExample [] with
    | .ok ch => (ch.get 0).inc && (ch.get 1).inc && (ch.get 0).c.recv.contains 20 && (ch.get 1).c.ret.contains 20
    | .error _ => false) = true := by decide

end Nject
