import NjectProofs.CondenseProofs
import NjectProps.S7
/-
  C19 — Condense equals the sub-chain folded into one provider; flows are truthful.

  `netFlows` transcribes flows.go `netFlows` (the loop behind DownFlows/UpFlows of a collection),
  `returnedToSurroundings` transcribes flows.go `netReturns` (what Condense returns),
  `condenseFlows` = condense.go: characterise, then those two.  Tied to /repo on every run by the
  condense correspondence: for generated collections the condensed provider's inputs/outputs are
  compared with `condenseFlows`, Condense must succeed exactly when the collection binds directly
  to `func(downIn) upOut`, and the embedded condensed provider is compared, call by call and value
  by value, with the direct invocation.

  "Acts as a single injector … same values as binding the collection directly": in the model the
  condensed provider's body IS `execInvoke` of the bound sub-chain (Condense binds the collection to
  a reflective invoke function and wraps that as a provider), so its behaviour is the direct
  invocation by construction; what is left to the correspondence is the glue (reflectiveBinder,
  error retyping, the outer chain feeding it by C01).
-/
namespace Nject

/-- **DownFlows is sufficient.**  Every input of every member is, after interface matching, either
    one of the reported unresolved inputs or produced by a member listed before it: a chain that
    supplies `netFlows.1` leaves no member without a source. -/
theorem C19_downflows_sufficient (ti : TyInfo) (loose : Nat → List Ty) (members : List Mem)
    (i : Nat) (io : Mem) (hi : members[i]? = some io) (y : Ty) (hy : y ∈ io.1) :
    ∃ x', (x' ∈ (netFlows ti loose members).1 ∨ ∃ (j : Nat) (jo : Mem), j < i ∧ members[j]? = some jo ∧ x' ∈ jo.2)
        ∧ (x' = y ∨ (ti.isIface y = true ∧ ti.implements x' y = true)) := by
  have inv := netFrom_inv ti loose members [] {} (NInv.init ti)
  simp only [List.nil_append, List.length_nil] at inv
  exact inv.suff i io hi y hy

/-- **… and exact.**  Every reported unresolved input is an input of some member that no member
    before it produces: the condensed provider asks for nothing it could do without. -/
theorem C19_downflows_exact (ti : TyInfo) (loose : Nat → List Ty) (members : List Mem) (x : Ty)
    (hx : x ∈ (netFlows ti loose members).1) :
    ∃ (i : Nat) (io : Mem), members[i]? = some io ∧ x ∈ io.1
      ∧ ∀ (j : Nat) (jo : Mem), j < i → members[j]? = some jo → x ∉ jo.2 := by
  have inv := netFrom_inv ti loose members [] {} (NInv.init ti)
  simp only [List.nil_append, List.length_nil] at inv
  exact inv.exact x hx

/-- The reported produced types are produced by some member (nothing invented), and every type a
    member produces is accounted for as an input or an output of the collection. -/
theorem C19_downflows_outputs (ti : TyInfo) (loose : Nat → List Ty) (members : List Mem) :
    (∀ t ∈ (netFlows ti loose members).2, ∃ (j : Nat) (jo : Mem), members[j]? = some jo ∧ t ∈ jo.2)
    ∧ (∀ (j : Nat) (jo : Mem), members[j]? = some jo → ∀ t ∈ jo.2,
        t ∈ (netFlows ti loose members).1 ∨ t ∈ (netFlows ti loose members).2) := by
  have inv := netFrom_inv ti loose members [] {} (NInv.init ti)
  simp only [List.nil_append, List.length_nil] at inv
  exact ⟨inv.uout, inv.outs_seen⟩

/-- **What Condense returns** (`netReturns`): exactly the types some member returns while no member
    above it receives them — every type the collection hands back to its surroundings, and only
    those.  Over `(received, returned)` pairs in list order. -/
theorem C19_condense_returns_exact (members : List Mem) (t : Ty) :
    t ∈ returnedToSurroundings members ↔
      ∃ (k : Nat) (rk : Mem), members[k]? = some rk ∧ t ∈ rk.2
        ∧ ∀ (j : Nat) (jo : Mem), j < k → members[j]? = some jo → t ∉ jo.1 := by
  unfold returnedToSurroundings
  rw [returnedGo_mem]
  constructor
  · rintro (h | ⟨k, rk, h1, h2, _, h4⟩)
    · cases h
    · exact ⟨k, rk, h1, h2, h4⟩
  · rintro ⟨k, rk, h1, h2, h4⟩
    exact Or.inr ⟨k, rk, h1, h2, by simp, h4⟩

/-- `UpFlows` (the generic net-flow loop applied to the up flows) is NOT complete in that sense: a
    wrapper that returns a type it also receives counts as consuming it only (documented in flows.go).
    `[W: func(inner func() R) R, F: func() R]` returns R to its surroundings; UpFlows reports nothing.
    Condense used this list until the fix "Condense failed when a wrapper returns a type that it also
    receives"; the witness is kept so that the difference stays visible. -/
theorem C19_upflows_undercounts_witness :
    (netFlows stdTyInfo (fun _ => []) [([1], [1]), ([], [1])]).2 = []
    ∧ returnedToSurroundings [([1], [1]), ([], [1])] = [1] := by decide

/-- when no member both receives and returns a type, the two agree on which types come out
    (partial: stated for the member list of the witness shape with the wrapper not returning) -/
example : (netFlows stdTyInfo (fun _ => []) [([1], [2]), ([], [1])]).2 = [2]
    ∧ returnedToSurroundings [([1], [2]), ([], [1])] = [2] := by decide

-- non-vacuity of the down-flow theorems: [A: func(X) Y, B: func(Y, Z) W] leaves X and Z unresolved
example : netFlows stdTyInfo (fun _ => []) [([0], [1]), ([1, 2], [3])] = ([0, 2], [1, 3]) := by decide
-- an interface input resolved by a Loose concrete producer is not unresolved
example : (netFlows stdTyInfo (fun _ => [10]) [([], [5]), ([10], [])]).1 = [] := by decide

end Nject
