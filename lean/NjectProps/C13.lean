import Nject.Collections
import Nject.Validate
/-
  C13 — grouping, naming and annotation placement are semantically neutral: everything downstream of
  collection construction only sees the flat provider list (and, for named edits, the origins).
-/
namespace Nject

theorem flattenList_append {α : Type} : ∀ (xs ys : List (Coll α)),
    Coll.flattenList (xs ++ ys) = Coll.flattenList xs ++ Coll.flattenList ys
  | [], ys => by simp [Coll.flattenList]
  | x :: xs, ys => by simp [Coll.flattenList, flattenList_append xs ys]

/-- nesting a run of providers in a sub-Sequence changes nothing -/
theorem C13_nesting_neutral {α : Type} (pre mid post : List (Coll α)) :
    (Coll.seq (pre ++ [Coll.seq mid] ++ post)).flatten = (Coll.seq (pre ++ mid ++ post)).flatten := by
  simp [Coll.flatten, flattenList_append, Coll.flattenList]

/-- building the list with Append is the same as writing it in one Sequence -/
theorem C13_append_neutral {α : Type} (xs ys : List (Coll α)) :
    ((Coll.seq xs).append ys).flatten = (Coll.seq (xs ++ ys)).flatten := by
  simp [Coll.append, Coll.flatten, Coll.flattenList, flattenList_append]

mutual
theorem annotate_flatten {α : Type} (f : α → α) : ∀ (c : Coll α), (c.annotate f).flatten = c.flatten.map f
  | .leaf p => by simp [Coll.annotate, Coll.flatten]
  | .seq items => by simp [Coll.annotate, Coll.flatten, annotateList_flatten f items]
theorem annotateList_flatten {α : Type} (f : α → α) : ∀ (cs : List (Coll α)),
    Coll.flattenList (Coll.annotateList f cs) = (Coll.flattenList cs).map f
  | [] => by simp [Coll.annotateList, Coll.flattenList]
  | c :: cs => by simp [Coll.annotateList, Coll.flattenList, annotate_flatten f c, annotateList_flatten f cs]
end

/-- an annotation applied to a whole Collection is the annotation applied to each member -/
theorem C13_annotate_collection_is_map {α : Type} (f : α → α) (items : List (Coll α)) :
    (Coll.annotate f (.seq items)).flatten = (Coll.flattenList items).map f := by
  simpa [Coll.flatten] using annotate_flatten f (.seq items)

/-- the pipeline after construction is a function of the flat list only: two constructions with the same
    flat list bind identically (stated for the model `bindModel`, whose inputs are exactly the flat list
    of descriptions, the origins, and the two signatures) -/
theorem C13_bind_depends_on_flat_list (ti : TyInfo) (en1 en2 : List ENode) (d1 d2 : List PDesc) (inv : Sig) (ini : Option Sig)
    (h1 : en1 = en2) (h2 : d1 = d2) :
    (bindModel ti en1 d1 inv ini).toOption.map (fun b => b.chain.map (·.inc)) =
    (bindModel ti en2 d2 inv ini).toOption.map (fun b => b.chain.map (·.inc)) := by
  subst h1; subst h2; rfl

end Nject
