import Nject.Collections
import Nject.Validate
import Nject.Pipeline
/-
  C13 — grouping, naming and annotation placement are semantically neutral: everything downstream of
  collection construction only sees the flat provider list (and, for named edits, the origins).
-/
namespace Nject

theorem flattenList_append {α : Type} : ∀ (xs ys : List (Coll α)),
    Coll.flattenList (xs ++ ys) = Coll.flattenList xs ++ Coll.flattenList ys
  | [], ys => by simp [Coll.flattenList]
  | x :: xs, ys => by simp [Coll.flattenList, flattenList_append xs ys]

/-- nesting a run of providers in a sub-Sequence changes nothing -/
theorem C13_nesting_neutral {α : Type} (pre mid post : List (Coll α)) :
    (Coll.seq (pre ++ [Coll.seq mid] ++ post)).flatten = (Coll.seq (pre ++ mid ++ post)).flatten := by
  simp [Coll.flatten, flattenList_append, Coll.flattenList]

/-- building the list with Append is the same as writing it in one Sequence -/
theorem C13_append_neutral {α : Type} (xs ys : List (Coll α)) :
    ((Coll.seq xs).append ys).flatten = (Coll.seq (xs ++ ys)).flatten := by
  simp [Coll.append, Coll.flatten, Coll.flattenList, flattenList_append]

mutual
theorem annotate_flatten {α : Type} (f : α → α) : ∀ (c : Coll α), (c.annotate f).flatten = c.flatten.map f
  | .leaf p => by simp [Coll.annotate, Coll.flatten]
  | .seq items => by simp [Coll.annotate, Coll.flatten, annotateList_flatten f items]
theorem annotateList_flatten {α : Type} (f : α → α) : ∀ (cs : List (Coll α)),
    Coll.flattenList (Coll.annotateList f cs) = (Coll.flattenList cs).map f
  | [] => by simp [Coll.annotateList, Coll.flattenList]
  | c :: cs => by simp [Coll.annotateList, Coll.flattenList, annotate_flatten f c, annotateList_flatten f cs]
end

/-- an annotation applied to a whole Collection is the annotation applied to each member -/
theorem C13_annotate_collection_is_map {α : Type} (f : α → α) (items : List (Coll α)) :
    (Coll.annotate f (.seq items)).flatten = (Coll.flattenList items).map f := by
  simpa [Coll.flatten] using annotate_flatten f (.seq items)

/-- the pipeline after construction is a function of the flat list only: two constructions with the same
    flat list bind identically (stated for the model `bindModel`, whose inputs are exactly the flat list
    of descriptions, the origins, and the two signatures) -/
theorem C13_bind_depends_on_flat_list (ti : TyInfo) (en1 en2 : List ENode) (d1 d2 : List PDesc) (inv : Sig) (ini : Option Sig)
    (h1 : en1 = en2) (h2 : d1 = d2) :
    (bindModel ti en1 d1 inv ini).toOption.map (fun b => b.chain.map (·.inc)) =
    (bindModel ti en2 d2 inv ini).toOption.map (fun b => b.chain.map (·.inc)) := by
  subst h1; subst h2; rfl

end Nject

namespace Nject

/-- two sets of per-invocation types that differ at most in `Unused` -/
def sameButUnused (a b : List Ty) : Prop := ∀ t, t ≠ tUnused → a.contains t = b.contains t

theorem sameButUnused_prepend {a b : List Ty} (h : sameButUnused a b) (l : List Ty) : sameButUnused (l ++ a) (l ++ b) := by
  intro t ht
  have := h t ht
  simp only [List.contains_eq_mem, List.mem_append, decide_eq_decide] at this ⊢
  constructor
  · rintro (hl | ha)
    · exact Or.inl hl
    · exact Or.inr (this.mp ha)
  · rintro (hl | hb)
    · exact Or.inl hl
    · exact Or.inr (this.mpr hb)

/-- **C13 (classification)**: whether `Unused` counts as a per-invocation type makes no difference to
    `characterizeAndFlatten` -- no provider is demoted from the static set (or refused as MustCache) because the
    invoke function, or a per-invocation provider before it, supplies `Unused`. -/
theorem C13_unused_does_not_demote : ∀ (provs : List PDesc) (ns1 ns2 : List Ty), sameButUnused ns1 ns2 →
    characterizeAll provs ns1 = characterizeAll provs ns2
  | [], _, _, _ => rfl
  | p :: rest, ns1, ns2, h => by
    simp only [characterizeAll]
    cases hc : characterize p rest.isEmpty true with
    | none => rfl
    | some c0 =>
      simp only []
      have hany : (c0.inp.any fun t => t != tUnused && ns1.contains t) = (c0.inp.any fun t => t != tUnused && ns2.contains t) := by
        have hf : (fun t => t != tUnused && ns1.contains t) = (fun t => t != tUnused && ns2.contains t) := by
          funext t
          by_cases ht : t = tUnused
          · simp [ht]
          · rw [h t ht]
        rw [hf]
      rw [hany]
      cases (if (c0.group == .staticGroup && c0.inp.any fun t => t != tUnused && ns2.contains t) = true then characterize p rest.isEmpty false else some c0) with
      | none => rfl
      | some c =>
        simp only []
        have hrec : characterizeAll rest (if (c.group == .runGroup || c.group == .invokeGroup) = true then c.out ++ ns1 else ns1)
            = characterizeAll rest (if (c.group == .runGroup || c.group == .invokeGroup) = true then c.out ++ ns2 else ns2) := by
          split
          · exact C13_unused_does_not_demote rest _ _ (sameButUnused_prepend h c.out)
          · exact C13_unused_does_not_demote rest _ _ h
        rw [hrec]

/-- in particular: an invoke function that takes `Unused` -/
theorem C13_unused_invoke_argument_does_not_demote (provs : List PDesc) (ins : List Ty) :
    characterizeAll provs (tUnused :: ins) = characterizeAll provs ins := by
  apply C13_unused_does_not_demote
  intro t ht
  simp only [List.contains_cons]
  have : (t == tUnused) = false := by simpa using ht
  rw [this]; rfl

end Nject
