import NjectProps.C18
/-
  C05, "after the documented NonFinal ... adjustments": what `editAll` (named edits, NonFinal, replacement of generated
  providers, NonFinal again) hands to the rest of Bind.  Whatever the generators' own marks were, in the list that is
  characterized the last position is held by a provider that is not NonFinal (if there is one at all), no generator is
  left, and nothing was lost or duplicated.
-/
namespace Nject

theorem dropWhile_nil_all {α} (p : α → Bool) : ∀ (l : List α), l.dropWhile p = [] → ∀ x ∈ l, p x = true
  | [], _, x, hx => by simp at hx
  | a :: l, h, x, hx => by
    rw [List.dropWhile_cons] at h
    split at h
    · rename_i hpa
      rcases List.mem_cons.mp hx with rfl | hx'
      · exact hpa
      · exact dropWhile_nil_all p l h x hx'
    · simp at h

theorem takeWhile_all {α} (p : α → Bool) : ∀ (l : List α), ∀ x ∈ l.takeWhile p, p x = true
  | [], x, hx => by simp at hx
  | a :: l, x, hx => by
    rw [List.takeWhile_cons] at hx
    split at hx
    · rename_i hpa
      rcases List.mem_cons.mp hx with rfl | hx'
      · exact hpa
      · exact takeWhile_all p l x hx'
    · simp at hx

theorem reorderNonFinal_ends_final (l : List ENode) (h : ∃ n ∈ l, n.nonFinal = false) :
    ∃ b f, reorderNonFinal l = b ++ [f] ∧ f.nonFinal = false := by
  cases hd : l.reverse.dropWhile (·.nonFinal) with
  | nil =>
    obtain ⟨n, hn, hf⟩ := h
    have := dropWhile_nil_all _ _ hd n (by simpa using hn)
    simp [hf] at this
  | cons f before =>
    obtain ⟨h1, h2⟩ := C18_reorderNonFinal_last l before f hd
    exact ⟨_, f, h1, h2⟩

theorem replaced_not_gen (n : ENode) : n.replaced.gen = false := by
  unfold ENode.replaced; split <;> simp_all

/-- **the list handed to characterization ends with a provider that is not NonFinal** whenever one exists in it -/
theorem C05_listed_last_is_not_NonFinal (l r : List ENode) (h : editAll l = .ok r) (hx : ∃ n ∈ r, n.nonFinal = false) :
    ∃ b f, r = b ++ [f] ∧ f.nonFinal = false := by
  unfold editAll at h
  cases he : handleReplaceByName l with
  | error e => simp [he, Except.map] at h
  | ok l0 =>
    simp only [he, Except.map] at h
    injection h with h
    split at h
    · -- something was generated: NonFinal is applied again to the replaced list
      have hp := C18_reorderNonFinal_perm ((reorderNonFinal l0).map ENode.replaced)
      obtain ⟨n, hn, hf⟩ := hx
      have : ∃ n ∈ (reorderNonFinal l0).map ENode.replaced, n.nonFinal = false :=
        ⟨n, (hp.mem_iff).mp (h ▸ hn), hf⟩
      obtain ⟨b, f, e1, e2⟩ := reorderNonFinal_ends_final _ this
      exact ⟨b, f, h ▸ e1, e2⟩
    · obtain ⟨n, hn, hf⟩ := hx
      have hp := C18_reorderNonFinal_perm l0
      have : ∃ n ∈ l0, n.nonFinal = false := ⟨n, (hp.mem_iff).mp (h ▸ hn), hf⟩
      obtain ⟨b, f, e1, e2⟩ := reorderNonFinal_ends_final _ this
      exact ⟨b, f, h ▸ e1, e2⟩

/-- **no generator is left** in that list -/
theorem C05_no_generator_left (l r : List ENode) (h : editAll l = .ok r) : ∀ n ∈ r, n.gen = false := by
  unfold editAll at h
  cases he : handleReplaceByName l with
  | error e => simp [he, Except.map] at h
  | ok l0 =>
    simp only [he, Except.map] at h
    injection h with h
    split at h
    · intro n hn
      have hp := C18_reorderNonFinal_perm ((reorderNonFinal l0).map ENode.replaced)
      have := (hp.mem_iff).mp (h ▸ hn)
      obtain ⟨m, _, rfl⟩ := List.mem_map.mp this
      exact replaced_not_gen m
    · rename_i hany
      intro n hn
      have := h ▸ hn
      simp only [List.any_eq_true, not_exists, not_and] at hany
      cases hg : n.gen with
      | false => rfl
      | true => exact absurd hg (by simpa using hany n this)

/-- **nothing is lost or duplicated**: the list is a rearrangement of what the named edits produced, each generator replaced
    by its provider -/
theorem C05_listed_is_a_rearrangement (l r l0 : List ENode) (h : editAll l = .ok r) (he : handleReplaceByName l = .ok l0) :
    r.Perm (l0.map ENode.replaced) := by
  unfold editAll at h
  simp only [he, Except.map] at h
  injection h with h
  split at h
  · rw [← h]
    exact (C18_reorderNonFinal_perm _).trans ((C18_reorderNonFinal_perm l0).map _)
  · rename_i hany
    rw [← h]
    have hno : ∀ n ∈ reorderNonFinal l0, n.gen = false := by
      intro n hn
      simp only [List.any_eq_true, not_exists, not_and] at hany
      cases hg : n.gen with
      | false => rfl
      | true => exact absurd hg (by simpa using hany n hn)
    have hid : (reorderNonFinal l0).map ENode.replaced = reorderNonFinal l0 := by
      conv => rhs; rw [← List.map_id (reorderNonFinal l0)]
      apply List.map_congr_left
      intro n hn
      simp [ENode.replaced, hno n hn]
    rw [← hid]
    exact (C18_reorderNonFinal_perm l0).map _

/-- non-vacuity: [a, endpoint, G] where the generator G (not marked) replaces itself by a NonFinal provider: the endpoint
    is moved behind it by the second pass -/
example : (match editAll [ { idx := 0 }, { idx := 1 }, { idx := 2, gen := true, inf := true } ] with
    | .ok r => r.map (·.idx)
    | .error _ => []) = [0, 2, 1] := by decide

end Nject

namespace Nject

/-- **the NonFinal adjustment moves one provider and nothing else**: either every provider is NonFinal and the list stays as
    it is, or the list is `pre ++ f :: tail` with `f` the last provider not marked NonFinal, and becomes `pre ++ tail ++ [f]`:
    all others keep their listed order -/
theorem C05_NonFinal_moves_only_the_final (l : List ENode) :
    ((∀ n ∈ l, n.nonFinal = true) ∧ reorderNonFinal l = l) ∨
    ∃ pre f tail, l = pre ++ f :: tail ∧ f.nonFinal = false ∧ (∀ x ∈ tail, x.nonFinal = true) ∧
      reorderNonFinal l = pre ++ tail ++ [f] := by
  cases hd : l.reverse.dropWhile (·.nonFinal) with
  | nil =>
    left
    refine ⟨fun n hn => dropWhile_nil_all _ _ hd n (by simpa using hn), ?_⟩
    simp [reorderNonFinal, hd]
  | cons f before =>
    right
    obtain ⟨h1, h2⟩ := C18_reorderNonFinal_last l before f hd
    have h3 := @List.takeWhile_append_dropWhile _ (fun (x : ENode) => x.nonFinal) l.reverse
    rw [hd] at h3
    have hl : l = before.reverse ++ f :: (l.reverse.takeWhile (·.nonFinal)).reverse := by
      have := congrArg List.reverse h3
      simpa using this.symm
    refine ⟨before.reverse, f, (l.reverse.takeWhile (·.nonFinal)).reverse, hl, h2, ?_, h1⟩
    intro x hx
    have hx' : x ∈ l.reverse.takeWhile (·.nonFinal) := by simpa using hx
    exact takeWhile_all _ _ x hx'

end Nject

namespace Nject

/-- named edits only rearrange and drop: whatever reaches the list was listed -/
theorem handleReplaceByName_mem (l r : List ENode) (h : handleReplaceByName l = .ok r) : ∀ n ∈ r, n ∈ l := by
  obtain ⟨removed, hp, _⟩ := C18_only_replaced_targets_disappear l r h
  intro n hn
  exact hp.mem_iff.mpr (List.mem_append.mpr (Or.inr hn))

/-- **without generated providers `editAll` is named edits followed by one NonFinal adjustment** (what the earlier
    theorems about `handleReplaceByName` and `reorderNonFinal` describe) -/
theorem C05_editAll_without_generators (l : List ENode) (h : ∀ n ∈ l, n.gen = false) :
    editAll l = (handleReplaceByName l).map reorderNonFinal := by
  unfold editAll
  cases he : handleReplaceByName l with
  | error e => rfl
  | ok l0 =>
    simp only [Except.map]
    have : (reorderNonFinal l0).any (·.gen) = false := by
      rw [List.any_eq_false]
      intro n hn
      have h1 := (C18_reorderNonFinal_perm l0).mem_iff.mp hn
      simp [h n (handleReplaceByName_mem l l0 he n h1)]
    simp [this]

end Nject

namespace Nject

theorem reorderNonFinal_of_last (b : List ENode) (f : ENode) (hf : f.nonFinal = false) :
    reorderNonFinal (b ++ [f]) = b ++ [f] := by
  simp [reorderNonFinal, List.reverse_append, List.dropWhile_cons, List.takeWhile_cons, hf]

/-- **the NonFinal adjustment is idempotent**: applying it again (as `characterizeAndFlatten` does after replacing generated
    providers) changes nothing unless the replacement changed the marks -/
theorem C05_NonFinal_adjustment_is_idempotent (l : List ENode) : reorderNonFinal (reorderNonFinal l) = reorderNonFinal l := by
  rcases C05_NonFinal_moves_only_the_final l with ⟨_, h⟩ | ⟨pre, f, tail, _, hf, _, h⟩
  · rw [h, h]
  · rw [h]
    exact reorderNonFinal_of_last _ f hf

end Nject
