import NjectProofs.ReorderDeps
import NjectProofs.ReorderGraph
import NjectProps.C17b
/-
  C17, about the algorithm (reorder.go as transcribed in `Nject/ReorderAlg.lean`): a provider that
  `reorder` places on its own initiative -- one marked Reorder that it does not give up on -- comes
  AFTER everything it was strongly constrained to come after: for a constraint on another provider,
  that provider stands earlier in the new order; for a constraint on the pseudo node of a type (one per
  matched input type / returned type), some provider that releases the node -- outputs the type,
  resp. receives it -- stands earlier in the new order, or the init function outputs the type.

  For every provider list, type universe and fuel.  Together with `C17_fixed_providers_keep_their_order`
  and `C17_displacement_preserves_sources` this is the "still receives its inputs from the same
  producer" half of C17's first sentence; NOT proved: that the displaced injector is never given up on
  and lands before its consumers (checked per generated chain by the S4 correspondence and the
  displacement pairs).
-/
namespace Nject

/-- the init function outputs the type whose pseudo node is `num` -/
def InitReleases (fs : List CP) (g : RGraph) (hasInit : Bool) (num : Nat) : Prop :=
  hasInit = true ∧ ∃ f, fs.find? (·.cls == .initFunc) = some f ∧ ∃ t ∈ noNoType f.out, g.downTypes.lookup t = some num

theorem topoInit_dep (ti : TyInfo) (funcs : List CP) (hasInit : Bool) :
    Dep (topoStatic funcs (buildGraph ti funcs hasInit)) (buildNodes (buildGraph ti funcs hasInit)).after
      (InitReleases funcs (buildGraph ti funcs hasInit) hasInit) (topoInit funcs (buildGraph ti funcs hasInit) hasInit) := by
  generalize hg : buildGraph ti funcs hasInit = g
  have hs : SOK (topoStatic funcs g) g.cannotReorder := hg ▸ reorderStatic_ok ti funcs hasInit
  let x0 : Topo := { after := (buildNodes g).after, weakAfter := (buildNodes g).weakAfter, cannotReorder := g.cannotReorder }
  have d0 : Dep (topoStatic funcs g) (buildNodes g).after (InitReleases funcs g hasInit) x0 :=
    { shrink := fun m j hj => Or.inl hj
      heapEmpty := fun e he => by rcases he with he | he <;> cases he
      heapTy := fun e he => by rcases he with he | he <;> cases he
      doneTy := fun j hj => by cases hj
      placed := fun b i hb => by simp [x0] at hb }
  unfold topoInit
  cases hasInit with
  | false => exact d0
  | true =>
    simp only [if_true]
    cases hf : funcs.find? (·.cls == .initFunc) with
    | none => exact d0
    | some f =>
      simp only []
      have hpush : ∀ (l : List Ty) (x : Topo), (∀ t ∈ l, t ∈ noNoType f.out) →
          Dep (topoStatic funcs g) (buildNodes g).after (InitReleases funcs g true) x →
          Dep (topoStatic funcs g) (buildNodes g).after (InitReleases funcs g true)
            (l.foldl (fun (x : Topo) t => match g.downTypes.lookup t with | some num => x.pushU (topoStatic funcs g) num | none => x) x) := by
        intro l
        induction l with
        | nil => intro x _ hx; exact hx
        | cons t l ih =>
          intro x hl hx
          simp only [List.foldl_cons]
          cases hlk : g.downTypes.lookup t with
          | none => simp only []; exact ih x (fun a ha => hl a (by simp [ha])) hx
          | some num =>
            simp only []
            refine ih _ (fun a ha => hl a (by simp [ha])) ?_
            have hgt : (topoStatic funcs g).n < num := hs.downGt t num hlk
            have := hx.push num false (fun hlt => by omega) (fun _ => Or.inl ⟨rfl, f, hf, t, hl t (by simp), hlk⟩)
            simpa using this
      exact hpush (noNoType f.out) x0 (fun _ h => h) d0

/-- **C17 (algorithm)**: a Reorder'd provider that is placed stands after everything it was strongly
    constrained to come after. -/
theorem C17_reordered_provider_follows_its_constraints (ti : TyInfo) (funcs : List CP) (hasInit : Bool) (r : ReorderOut)
    (h : reorderIdx ti funcs hasInit = some r) (b i : Nat) (hb : r.order[b]? = some i) (hgu : i ∉ r.gaveUp)
    (hr : ((clearReorder funcs).getD i default).reorder = true) (j : Nat)
    (hj : (i, j) ∈ (buildGraph ti (clearReorder funcs) hasInit).strong) :
    (j < funcs.length → ∃ a : Nat, a < b ∧ r.order[a]? = some j) ∧
    (funcs.length < j → InitReleases (clearReorder funcs) (buildGraph ti (clearReorder funcs) hasInit) hasInit j ∨
      ∃ (a p : Nat), a < b ∧ r.order[a]? = some p ∧
        Releases (topoStatic (clearReorder funcs) (buildGraph ti (clearReorder funcs) hasInit)) p j) := by
  unfold reorderIdx at h
  simp only [] at h
  split at h
  · cases h
  · cases h
    generalize hfs : clearReorder funcs = fs at *
    have hlen : fs.length = funcs.length := by rw [← hfs]; simp [clearReorder]
    have hs := reorderStatic_ok ti fs hasInit
    have ⟨f0⟩ := topoInit_full ti fs hasInit
    have d0 := topoInit_dep ti fs hasInit
    have d := loop_dep hs (reorderFuel (buildGraph ti fs hasInit) fs) _ ⟨f0⟩ d0
    generalize hx : Topo.loop (topoStatic fs (buildGraph ti fs hasInit)) (reorderFuel (buildGraph ti fs hasInit) fs)
      (topoInit fs (buildGraph ti fs hasInit) hasInit) = x at *
    have hja : j ∈ (buildNodes (buildGraph ti fs hasInit)).after.get i := (buildNodes_spec _).2 (i, j) hj
    simp only [Topo.order] at hb
    have hbl : b < x.out.length := by
      rcases Nat.lt_or_ge b x.out.length with hl | hg
      · exact hl
      · rw [List.getElem?_append_right hg] at hb
        exact (hgu (List.mem_iff_getElem?.mpr ⟨_, hb⟩)).elim
    rw [List.getElem?_append_left hbl] at hb
    have hn : (topoStatic fs (buildGraph ti fs hasInit)).n = funcs.length := by simp [topoStatic, hlen]
    have ⟨p1, p2⟩ := d.placed b i hb (by simpa [topoStatic] using hr) j hja
    have up : ∀ (a y : Nat), a < b → x.out[a]? = some y → (x.out ++ x.leftOver (topoStatic fs (buildGraph ti fs hasInit)))[a]? = some y := by
      intro a y ha hy
      rw [List.getElem?_append_left (by omega)]; exact hy
    simp only [Topo.order]
    refine ⟨fun hjn => ?_, fun hjn => ?_⟩
    · obtain ⟨a, ha, hy⟩ := p1 (by rw [hn]; exact hjn)
      exact ⟨a, ha, up a j ha hy⟩
    · rcases p2 (by rw [hn]; exact hjn) with hin | ⟨a, p, ha, hy, hrl⟩
      · exact Or.inl hin
      · exact Or.inr ⟨a, p, ha, up a p ha hy, hrl⟩

/-- **C17 (algorithm), in terms of the provider list**: a Reorder'd provider that is placed stands after a
    source of each of its inputs: for every input type that the matching table resolves to `t`, some provider
    that OUTPUTS `t` stands earlier in the new order -- or the init function outputs `t`. -/
theorem C17_reordered_provider_follows_its_sources (ti : TyInfo) (funcs : List CP) (hasInit : Bool) (r : ReorderOut)
    (h : reorderIdx ti funcs hasInit = some r) (b i : Nat) (hb : r.order[b]? = some i) (hgu : i ∉ r.gaveUp)
    (hr : ((clearReorder funcs).getD i default).reorder = true) (hi : i < funcs.length)
    (tRaw : Ty) (ht : tRaw ∈ noNoType ((clearReorder funcs).getD i default).inp) (t : Ty) (deps : List Nat)
    (hm : bestMatch ti (fun p => ((clearReorder funcs).getD p default).loose) (availDown (clearReorder funcs) hasInit) tRaw = some (t, deps)) :
    (hasInit = true ∧ ∃ f, (clearReorder funcs).find? (·.cls == .initFunc) = some f ∧ t ∈ noNoType f.out) ∨
    ∃ (a p : Nat), a < b ∧ r.order[a]? = some p ∧ t ∈ noNoType ((clearReorder funcs).getD p default).out := by
  have hlen : (clearReorder funcs).length = funcs.length := by simp [clearReorder]
  have ⟨ok, has⟩ := buildGraph_inputs ti (clearReorder funcs) hasInit
  have ⟨num, hl, hs⟩ := has i (by rw [hlen]; exact hi) tRaw ht t deps hm
  have hmem := lookupTy_mem hl
  have hsok := reorderStatic_ok ti (clearReorder funcs) hasInit
  have hgt : funcs.length < num := by
    have := hsok.downGt t num (by simpa [topoStatic] using hl)
    simpa [topoStatic, hlen] using this
  have same : ∀ t', (buildGraph ti (clearReorder funcs) hasInit).downTypes.lookup t' = some num → t' = t := by
    intro t' hl'
    have := ok.dinj _ (lookupTy_mem hl') _ hmem rfl
    exact congrArg Prod.fst this
  rcases (C17_reordered_provider_follows_its_constraints ti funcs hasInit r h b i hb hgu hr num hs).2 hgt with hin | ⟨a, p, ha, hp, hrel⟩
  · obtain ⟨hI, f, hf, t', ht', hl'⟩ := hin
    left
    exact ⟨hI, f, hf, by rw [← same t' hl']; exact ht'⟩
  · right
    refine ⟨a, p, ha, hp, ?_⟩
    rcases hrel with ⟨t', ht', hl'⟩ | ⟨t', _, hl'⟩
    · have hl'' : (buildGraph ti (clearReorder funcs) hasInit).downTypes.lookup t' = some num := by simpa [topoStatic] using hl'
      rw [← same t' hl'']
      simpa [topoStatic] using ht'
    · have hu : (t', num) ∈ (buildGraph ti (clearReorder funcs) hasInit).upTypes := lookupTy_mem (by simpa [topoStatic] using hl')
      exact (ok.dudisj _ hmem _ hu rfl).elim

/-- the hypotheses are satisfiable: a Reorder'd injector listed before the producer of its input is moved
    behind it; `(1, 5)` is its strong constraint on the pseudo node of the input type -/
def c17cExample : List CP := [
  { id := 0, cls := .invokeFunc, group := .invokeGroup, out := [1] },
  { id := 1, cls := .injectorFunc, group := .runGroup, inp := [5], out := [6], reorder := true },
  { id := 2, cls := .injectorFunc, group := .runGroup, inp := [1], out := [5] },
  { id := 3, cls := .finalFunc, group := .finalGroup, inp := [6], required := true }]

example : (reorderIdx stdTyInfo c17cExample false).map (fun r => (r.order, r.gaveUp)) = some ([0, 2, 1, 3], []) := by decide
example : (1, 5) ∈ (buildGraph stdTyInfo (clearReorder c17cExample) false).strong := by decide

end Nject

namespace Nject

/-- when the loop of `topo.run` ends by itself (not for lack of fuel) the list of fixed providers is used up -/
theorem loop_end (s : TopoS) : ∀ (fuel : Nat) (x : Topo), (Topo.loop s fuel x).fuelOut = false → (Topo.loop s fuel x).cannotReorder = []
  | 0, x, h => by unfold Topo.loop at h; simp at h
  | fuel + 1, x, h => by
    unfold Topo.loop at h ⊢
    cases hu : heapPop x.unblocked with
    | some pr =>
      obtain ⟨i, rest⟩ := pr
      simp only [hu] at h ⊢
      exact loop_end s fuel _ h
    | none =>
      simp only [hu] at h ⊢
      cases hw : heapPop x.weakBlocked with
      | some pr =>
        obtain ⟨i, rest⟩ := pr
        simp only [hw] at h ⊢
        exact loop_end s fuel _ h
      | none =>
        simp only [hw] at h ⊢
        cases hc : x.cannotReorder with
        | nil => simp only [hc]
        | cons i cr =>
          simp only [hc] at h ⊢
          exact loop_end s fuel _ h

/-- **C17 (algorithm)**: `reorder` gives up only on providers marked Reorder -- a provider that may not move is
    always placed (in its turn), for every provider list. -/
theorem C17_only_reorder_providers_are_given_up (ti : TyInfo) (funcs : List CP) (hasInit : Bool) (r : ReorderOut)
    (h : reorderIdx ti funcs hasInit = some r) (i : Nat) (hi : i ∈ r.gaveUp) :
    ((clearReorder funcs).getD i default).reorder = true := by
  have hterm := reorderIdx_terminates h
  unfold reorderIdx at h
  simp only [] at h
  split at h
  · cases h
  · cases h
    generalize hfs : clearReorder funcs = fs at *
    have hs := reorderStatic_ok ti fs hasInit
    have ⟨f0⟩ := topoInit_full ti fs hasInit
    have ⟨f⟩ := loop_full hs (reorderFuel (buildGraph ti fs hasInit) fs) _ ⟨f0⟩
    have hend := loop_end _ _ _ hterm
    generalize hx : Topo.loop (topoStatic fs (buildGraph ti fs hasInit)) (reorderFuel (buildGraph ti fs hasInit) fs)
      (topoInit fs (buildGraph ti fs hasInit) hasInit) = x at *
    -- every fixed provider is done
    have hm : (buildGraph ti fs hasInit).cannotReorder.length ≤ f.m := by
      have := f.cr
      rw [hend] at this
      have hl := congrArg List.length this
      simp at hl
      omega
    simp only [Topo.leftOver, List.mem_filter, List.mem_range, Bool.not_eq_true', List.contains_eq_mem, decide_eq_false_iff_not] at hi
    cases hr : (fs.getD i default).reorder with
    | true => rfl
    | false =>
      have hmem : i ∈ (buildGraph ti fs hasInit).cannotReorder := (hs.mem i).mpr ⟨hi.1, by simpa [topoStatic] using hr⟩
      obtain ⟨j, hj⟩ := List.mem_iff_getElem?.mp hmem
      have hjl : j < (buildGraph ti fs hasInit).cannotReorder.length := by
        rcases Nat.lt_or_ge j (buildGraph ti fs hasInit).cannotReorder.length with hl | hg
        · exact hl
        · rw [List.getElem?_eq_none hg] at hj; cases hj
      exact (hi.2 (f.crDone j i (by omega) hj)).elim

end Nject
