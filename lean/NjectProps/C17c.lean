import NjectProofs.ReorderDeps
import NjectProofs.ReorderGraph
import NjectProofs.ReorderLive
import Nject.ReorderCond
import NjectProps.C17b
/-
  C17, about the algorithm (reorder.go as transcribed in `Nject/ReorderAlg.lean`): a provider that
  `reorder` places on its own initiative -- one marked Reorder that it does not give up on -- comes
  AFTER everything it was strongly constrained to come after: for a constraint on another provider,
  that provider stands earlier in the new order; for a constraint on the pseudo node of a type (one per
  matched input type / returned type), some provider that releases the node -- outputs the type,
  resp. receives it -- stands earlier in the new order, or the init function outputs the type.

  For every provider list, type universe and fuel.  Together with `C17_fixed_providers_keep_their_order`
  and `C17_displacement_preserves_sources` this is the "still receives its inputs from the same
  producer" half of C17's first sentence; NOT proved: that the displaced injector is never given up on
  and lands before its consumers (checked per generated chain by the S4 correspondence and the
  displacement pairs).
-/
namespace Nject

/-- the init function outputs the type whose pseudo node is `num` -/
def InitReleases (fs : List CP) (g : RGraph) (hasInit : Bool) (num : Nat) : Prop :=
  hasInit = true ∧ ∃ f, fs.find? (·.cls == .initFunc) = some f ∧ ∃ t ∈ noNoType f.out, g.downTypes.lookup t = some num

theorem topoInit_dep (ti : TyInfo) (funcs : List CP) (hasInit : Bool) :
    Dep (topoStatic funcs (buildGraph ti funcs hasInit)) (buildNodes (buildGraph ti funcs hasInit)).after
      (InitReleases funcs (buildGraph ti funcs hasInit) hasInit) (topoInit funcs (buildGraph ti funcs hasInit) hasInit) := by
  generalize hg : buildGraph ti funcs hasInit = g
  have hs : SOK (topoStatic funcs g) g.cannotReorder := hg ▸ reorderStatic_ok ti funcs hasInit
  let x0 : Topo := { after := (buildNodes g).after, weakAfter := (buildNodes g).weakAfter, cannotReorder := g.cannotReorder }
  have d0 : Dep (topoStatic funcs g) (buildNodes g).after (InitReleases funcs g hasInit) x0 :=
    { shrink := fun m j hj => Or.inl hj
      heapEmpty := fun e he => by rcases he with he | he <;> cases he
      heapTy := fun e he => by rcases he with he | he <;> cases he
      doneTy := fun j hj => by cases hj
      placed := fun b i hb => by simp [x0] at hb }
  unfold topoInit
  cases hasInit with
  | false => exact d0
  | true =>
    simp only [if_true]
    cases hf : funcs.find? (·.cls == .initFunc) with
    | none => exact d0
    | some f =>
      simp only []
      have hpush : ∀ (l : List Ty) (x : Topo), (∀ t ∈ l, t ∈ noNoType f.out) →
          Dep (topoStatic funcs g) (buildNodes g).after (InitReleases funcs g true) x →
          Dep (topoStatic funcs g) (buildNodes g).after (InitReleases funcs g true)
            (l.foldl (fun (x : Topo) t => match g.downTypes.lookup t with | some num => x.pushU (topoStatic funcs g) num | none => x) x) := by
        intro l
        induction l with
        | nil => intro x _ hx; exact hx
        | cons t l ih =>
          intro x hl hx
          simp only [List.foldl_cons]
          cases hlk : g.downTypes.lookup t with
          | none => simp only []; exact ih x (fun a ha => hl a (by simp [ha])) hx
          | some num =>
            simp only []
            refine ih _ (fun a ha => hl a (by simp [ha])) ?_
            have hgt : (topoStatic funcs g).n < num := hs.downGt t num hlk
            have := hx.push num false (fun hlt => by omega) (fun _ => Or.inl ⟨rfl, f, hf, t, hl t (by simp), hlk⟩)
            simpa using this
      exact hpush (noNoType f.out) x0 (fun _ h => h) d0

/-- **C17 (algorithm)**: a Reorder'd provider that is placed stands after everything it was strongly
    constrained to come after. -/
theorem C17_reordered_provider_follows_its_constraints (ti : TyInfo) (funcs : List CP) (hasInit : Bool) (r : ReorderOut)
    (h : reorderIdx ti funcs hasInit = some r) (b i : Nat) (hb : r.order[b]? = some i) (hgu : i ∉ r.gaveUp)
    (hr : ((clearReorder funcs).getD i default).reorder = true) (j : Nat)
    (hj : (i, j) ∈ (buildGraph ti (clearReorder funcs) hasInit).strong) :
    (j < funcs.length → ∃ a : Nat, a < b ∧ r.order[a]? = some j) ∧
    (funcs.length < j → InitReleases (clearReorder funcs) (buildGraph ti (clearReorder funcs) hasInit) hasInit j ∨
      ∃ (a p : Nat), a < b ∧ r.order[a]? = some p ∧
        Releases (topoStatic (clearReorder funcs) (buildGraph ti (clearReorder funcs) hasInit)) p j) := by
  unfold reorderIdx at h
  simp only [] at h
  split at h
  · cases h
  · cases h
    generalize hfs : clearReorder funcs = fs at *
    have hlen : fs.length = funcs.length := by rw [← hfs]; simp [clearReorder]
    have hs := reorderStatic_ok ti fs hasInit
    have ⟨f0⟩ := topoInit_full ti fs hasInit
    have d0 := topoInit_dep ti fs hasInit
    have d := loop_dep hs (reorderFuel (buildGraph ti fs hasInit) fs) _ ⟨f0⟩ d0
    generalize hx : Topo.loop (topoStatic fs (buildGraph ti fs hasInit)) (reorderFuel (buildGraph ti fs hasInit) fs)
      (topoInit fs (buildGraph ti fs hasInit) hasInit) = x at *
    have hja : j ∈ (buildNodes (buildGraph ti fs hasInit)).after.get i := (buildNodes_spec _).2 (i, j) hj
    simp only [Topo.order] at hb
    have hbl : b < x.out.length := by
      rcases Nat.lt_or_ge b x.out.length with hl | hg
      · exact hl
      · rw [List.getElem?_append_right hg] at hb
        exact (hgu (List.mem_iff_getElem?.mpr ⟨_, hb⟩)).elim
    rw [List.getElem?_append_left hbl] at hb
    have hn : (topoStatic fs (buildGraph ti fs hasInit)).n = funcs.length := by simp [topoStatic, hlen]
    have ⟨p1, p2⟩ := d.placed b i hb (by simpa [topoStatic] using hr) j hja
    have up : ∀ (a y : Nat), a < b → x.out[a]? = some y → (x.out ++ x.leftOver (topoStatic fs (buildGraph ti fs hasInit)))[a]? = some y := by
      intro a y ha hy
      rw [List.getElem?_append_left (by omega)]; exact hy
    simp only [Topo.order]
    refine ⟨fun hjn => ?_, fun hjn => ?_⟩
    · obtain ⟨a, ha, hy⟩ := p1 (by rw [hn]; exact hjn)
      exact ⟨a, ha, up a j ha hy⟩
    · rcases p2 (by rw [hn]; exact hjn) with hin | ⟨a, p, ha, hy, hrl⟩
      · exact Or.inl hin
      · exact Or.inr ⟨a, p, ha, up a p ha hy, hrl⟩

/-- **C17 (algorithm), in terms of the provider list**: a Reorder'd provider that is placed stands after a
    source of each of its inputs: for every input type that the matching table resolves to `t`, some provider
    that OUTPUTS `t` stands earlier in the new order -- or the init function outputs `t`. -/
theorem C17_reordered_provider_follows_its_sources (ti : TyInfo) (funcs : List CP) (hasInit : Bool) (r : ReorderOut)
    (h : reorderIdx ti funcs hasInit = some r) (b i : Nat) (hb : r.order[b]? = some i) (hgu : i ∉ r.gaveUp)
    (hr : ((clearReorder funcs).getD i default).reorder = true) (hi : i < funcs.length)
    (tRaw : Ty) (ht : tRaw ∈ noNoType ((clearReorder funcs).getD i default).inp) (t : Ty) (deps : List Nat)
    (hm : bestMatch ti (fun p => ((clearReorder funcs).getD p default).loose) (availDown (clearReorder funcs) hasInit) tRaw = some (t, deps)) :
    (hasInit = true ∧ ∃ f, (clearReorder funcs).find? (·.cls == .initFunc) = some f ∧ t ∈ noNoType f.out) ∨
    ∃ (a p : Nat), a < b ∧ r.order[a]? = some p ∧ t ∈ noNoType ((clearReorder funcs).getD p default).out := by
  have hlen : (clearReorder funcs).length = funcs.length := by simp [clearReorder]
  have ⟨ok, has⟩ := buildGraph_inputs ti (clearReorder funcs) hasInit
  have ⟨num, hl, hs⟩ := has i (by rw [hlen]; exact hi) tRaw ht t deps hm
  have hmem := lookupTy_mem hl
  have hsok := reorderStatic_ok ti (clearReorder funcs) hasInit
  have hgt : funcs.length < num := by
    have := hsok.downGt t num (by simpa [topoStatic] using hl)
    simpa [topoStatic, hlen] using this
  have same : ∀ t', (buildGraph ti (clearReorder funcs) hasInit).downTypes.lookup t' = some num → t' = t := by
    intro t' hl'
    have := ok.dinj _ (lookupTy_mem hl') _ hmem rfl
    exact congrArg Prod.fst this
  rcases (C17_reordered_provider_follows_its_constraints ti funcs hasInit r h b i hb hgu hr num hs).2 hgt with hin | ⟨a, p, ha, hp, hrel⟩
  · obtain ⟨hI, f, hf, t', ht', hl'⟩ := hin
    left
    exact ⟨hI, f, hf, by rw [← same t' hl']; exact ht'⟩
  · right
    refine ⟨a, p, ha, hp, ?_⟩
    rcases hrel with ⟨t', ht', hl'⟩ | ⟨t', _, hl'⟩
    · have hl'' : (buildGraph ti (clearReorder funcs) hasInit).downTypes.lookup t' = some num := by simpa [topoStatic] using hl'
      rw [← same t' hl'']
      simpa [topoStatic] using ht'
    · have hu : (t', num) ∈ (buildGraph ti (clearReorder funcs) hasInit).upTypes := lookupTy_mem (by simpa [topoStatic] using hl')
      exact (ok.dudisj _ hmem _ hu rfl).elim

/-- the hypotheses are satisfiable: a Reorder'd injector listed before the producer of its input is moved
    behind it; `(1, 5)` is its strong constraint on the pseudo node of the input type -/
def c17cExample : List CP := [
  { id := 0, cls := .invokeFunc, group := .invokeGroup, out := [1] },
  { id := 1, cls := .injectorFunc, group := .runGroup, inp := [5], out := [6], reorder := true },
  { id := 2, cls := .injectorFunc, group := .runGroup, inp := [1], out := [5] },
  { id := 3, cls := .finalFunc, group := .finalGroup, inp := [6], required := true }]

example : (reorderIdx stdTyInfo c17cExample false).map (fun r => (r.order, r.gaveUp)) = some ([0, 2, 1, 3], []) := by decide
example : (1, 5) ∈ (buildGraph stdTyInfo (clearReorder c17cExample) false).strong := by decide

end Nject

namespace Nject

/-- when the loop of `topo.run` ends by itself (not for lack of fuel) the list of fixed providers is used up -/
theorem loop_end (s : TopoS) : ∀ (fuel : Nat) (x : Topo), (Topo.loop s fuel x).fuelOut = false → (Topo.loop s fuel x).cannotReorder = []
  | 0, x, h => by unfold Topo.loop at h; simp at h
  | fuel + 1, x, h => by
    unfold Topo.loop at h ⊢
    cases hu : heapPop x.unblocked with
    | some pr =>
      obtain ⟨i, rest⟩ := pr
      simp only [hu] at h ⊢
      exact loop_end s fuel _ h
    | none =>
      simp only [hu] at h ⊢
      cases hw : heapPop x.weakBlocked with
      | some pr =>
        obtain ⟨i, rest⟩ := pr
        simp only [hw] at h ⊢
        exact loop_end s fuel _ h
      | none =>
        simp only [hw] at h ⊢
        cases hc : x.cannotReorder with
        | nil => simp only [hc]
        | cons i cr =>
          simp only [hc] at h ⊢
          exact loop_end s fuel _ h

/-- **C17 (algorithm)**: `reorder` gives up only on providers marked Reorder -- a provider that may not move is
    always placed (in its turn), for every provider list. -/
theorem C17_only_reorder_providers_are_given_up (ti : TyInfo) (funcs : List CP) (hasInit : Bool) (r : ReorderOut)
    (h : reorderIdx ti funcs hasInit = some r) (i : Nat) (hi : i ∈ r.gaveUp) :
    ((clearReorder funcs).getD i default).reorder = true := by
  have hterm := reorderIdx_terminates h
  unfold reorderIdx at h
  simp only [] at h
  split at h
  · cases h
  · cases h
    generalize hfs : clearReorder funcs = fs at *
    have hs := reorderStatic_ok ti fs hasInit
    have ⟨f0⟩ := topoInit_full ti fs hasInit
    have ⟨f⟩ := loop_full hs (reorderFuel (buildGraph ti fs hasInit) fs) _ ⟨f0⟩
    have hend := loop_end _ _ _ hterm
    generalize hx : Topo.loop (topoStatic fs (buildGraph ti fs hasInit)) (reorderFuel (buildGraph ti fs hasInit) fs)
      (topoInit fs (buildGraph ti fs hasInit) hasInit) = x at *
    -- every fixed provider is done
    have hm : (buildGraph ti fs hasInit).cannotReorder.length ≤ f.m := by
      have := f.cr
      rw [hend] at this
      have hl := congrArg List.length this
      simp at hl
      omega
    simp only [Topo.leftOver, List.mem_filter, List.mem_range, Bool.not_eq_true', List.contains_eq_mem, decide_eq_false_iff_not] at hi
    cases hr : (fs.getD i default).reorder with
    | true => rfl
    | false =>
      have hmem : i ∈ (buildGraph ti fs hasInit).cannotReorder := (hs.mem i).mpr ⟨hi.1, by simpa [topoStatic] using hr⟩
      obtain ⟨j, hj⟩ := List.mem_iff_getElem?.mp hmem
      have hjl : j < (buildGraph ti fs hasInit).cannotReorder.length := by
        rcases Nat.lt_or_ge j (buildGraph ti fs hasInit).cannotReorder.length with hl | hg
        · exact hl
        · rw [List.getElem?_eq_none hg] at hj; cases hj
      exact (hi.2 (f.crDone j i (by omega) hj)).elim

end Nject

namespace Nject

/-- the state `topo.run` starts from satisfies the liveness invariant -/
theorem topoInit_live (ti : TyInfo) (funcs : List CP) (hasInit : Bool) :
    Live (topoStatic funcs (buildGraph ti funcs hasInit)) (buildNodes (buildGraph ti funcs hasInit)).after
      (InitReleases funcs (buildGraph ti funcs hasInit) hasInit) (fun _ => False) (topoInit funcs (buildGraph ti funcs hasInit) hasInit) := by
  generalize hg : buildGraph ti funcs hasInit = g
  let x0 : Topo := { after := (buildNodes g).after, weakAfter := (buildNodes g).weakAfter, cannotReorder := g.cannotReorder }
  have base : ∀ (P : Nat → Prop), (∀ num, P num → False) → Live (topoStatic funcs g) (buildNodes g).after P (fun _ => False) x0 := by
    intro P hP
    exact
      { sub := fun _ _ hj => hj
        gone := fun m hm => by cases hm
        relTy := fun q hq => by cases hq
        initTy := fun num hi => (hP num hi).elim
        ready := fun i _ h0 he => (h0 he).elim }
  unfold topoInit
  cases hasInit with
  | false => exact base _ (fun num hi => by cases hi.1)
  | true =>
    simp only [if_true]
    cases hf : funcs.find? (·.cls == .initFunc) with
    | none =>
      exact base _ (fun num hi => by
        obtain ⟨_, f, hf', _⟩ := hi
        rw [hf] at hf'; cases hf')
    | some f =>
      simp only []
      -- pushes keep everything; each pushed node is queued
      let Q : List Ty → Nat → Prop := fun l num => ∃ t ∈ l, g.downTypes.lookup t = some num
      have hpush : ∀ (l : List Ty) (x : Topo) (seen : List Ty),
          Live (topoStatic funcs g) (buildNodes g).after (Q seen) (fun _ => False) x →
          Live (topoStatic funcs g) (buildNodes g).after (Q (seen ++ l)) (fun _ => False)
            (l.foldl (fun (x : Topo) t => match g.downTypes.lookup t with | some num => x.pushU (topoStatic funcs g) num | none => x) x) := by
        intro l
        induction l with
        | nil => intro x seen hx; simpa using hx
        | cons t l ih =>
          intro x seen hx
          simp only [List.foldl_cons]
          have hstep : Live (topoStatic funcs g) (buildNodes g).after (Q (seen ++ [t])) (fun _ => False)
              (match g.downTypes.lookup t with | some num => x.pushU (topoStatic funcs g) num | none => x) := by
            cases hlk : g.downTypes.lookup t with
            | none =>
              simp only []
              refine hx.changeInit _ (fun num hq => ?_)
              obtain ⟨t', ht', hl'⟩ := hq
              rcases List.mem_append.mp ht' with ht' | ht'
              · exact hx.initTy num ⟨t', ht', hl'⟩
              · simp at ht'; subst ht'; rw [hlk] at hl'; cases hl'
            | some num0 =>
              simp only []
              have hp := hx.push num0 false
              simp only [Bool.false_eq_true, if_false] at hp
              refine hp.changeInit _ (fun num hq => ?_)
              obtain ⟨t', ht', hl'⟩ := hq
              rcases List.mem_append.mp ht' with ht' | ht'
              · exact hp.initTy num ⟨t', ht', hl'⟩
              · simp at ht'; subst ht'; rw [hlk] at hl'; cases hl'
                exact Or.inl ((inHeap_pushU _ x num0 num0).mpr (Or.inr rfl))
          have := ih _ (seen ++ [t]) hstep
          simpa [List.append_assoc] using this
      have h0 : Live (topoStatic funcs g) (buildNodes g).after (Q []) (fun _ => False) x0 :=
        base _ (fun num ⟨t, ht, _⟩ => by cases ht)
      have h1 := hpush (noNoType f.out) x0 [] h0
      simp only [List.nil_append] at h1
      refine h1.changeInit _ (fun num hi => ?_)
      obtain ⟨_, f', hf', t, ht, hl⟩ := hi
      rw [hf] at hf'; cases hf'
      exact h1.initTy num ⟨t, ht, hl⟩

/-- **C17 (algorithm), placement**: under the order condition `LiveHyp` on the constraint graph -- the
    constraints of every fixed provider are met by the fixed providers before it (from position `kx` on possibly by
    `xr`), the constraints of `xr` by the fixed providers before `kx` -- `reorder` does not give up on `xr` and lists
    it before every provider that waits for a type only `xr` supplies. -/
theorem C17_displaced_provider_is_placed_before_its_consumers (ti : TyInfo) (funcs : List CP) (hasInit : Bool) (r : ReorderOut)
    (h : reorderIdx ti funcs hasInit = some r) (xr kx : Nat)
    (H : LiveHyp (topoStatic (clearReorder funcs) (buildGraph ti (clearReorder funcs) hasInit))
          (buildGraph ti (clearReorder funcs) hasInit).cannotReorder
          (buildNodes (buildGraph ti (clearReorder funcs) hasInit)).after
          (InitReleases (clearReorder funcs) (buildGraph ti (clearReorder funcs) hasInit) hasInit) xr kx) :
    xr ∉ r.gaveUp ∧ xr ∈ r.order ∧
    ∀ (b p : Nat), r.order[b]? = some p →
      Consumer (topoStatic (clearReorder funcs) (buildGraph ti (clearReorder funcs) hasInit))
        (buildNodes (buildGraph ti (clearReorder funcs) hasInit)).after
        (InitReleases (clearReorder funcs) (buildGraph ti (clearReorder funcs) hasInit) hasInit) xr p →
      ∃ a : Nat, a < b ∧ r.order[a]? = some xr := by
  have hterm := reorderIdx_terminates h
  unfold reorderIdx at h
  simp only [] at h
  split at h
  · cases h
  · cases h
    generalize hfs : clearReorder funcs = fs at *
    have hs := reorderStatic_ok ti fs hasInit
    have ⟨f0⟩ := topoInit_full ti fs hasInit
    have d0 := topoInit_dep ti fs hasInit
    have l0 := topoInit_live ti fs hasInit
    have o0 : Ord (topoStatic fs (buildGraph ti fs hasInit)) (buildNodes (buildGraph ti fs hasInit)).after
        (InitReleases fs (buildGraph ti fs hasInit) hasInit) xr (topoInit fs (buildGraph ti fs hasInit) hasInit) := by
      have hout : (topoInit fs (buildGraph ti fs hasInit) hasInit).out = [] := by
        have := (topoInit_full ti fs hasInit)
        obtain ⟨ff⟩ := this
        -- nothing is emitted before the loop starts: out's fixed part is the empty prefix and every emitted node is done
        have hk := ff.core.outLt
        apply List.eq_nil_iff_forall_not_mem.mpr
        intro a ha
        have hd := (hk a ha).2
        -- done is empty initially
        have : (topoInit fs (buildGraph ti fs hasInit) hasInit).done = [] := by
          unfold topoInit
          cases hasInit with
          | false => rfl
          | true =>
            simp only [if_true]
            cases fs.find? (·.cls == .initFunc) with
            | none => rfl
            | some f =>
              simp only []
              have : ∀ (l : List Ty) (x : Topo), x.done = [] →
                  (l.foldl (fun (x : Topo) t => match (buildGraph ti fs true).downTypes.lookup t with
                    | some num => x.pushU (topoStatic fs (buildGraph ti fs true)) num | none => x) x).done = [] := by
                intro l
                induction l with
                | nil => intro x hx; exact hx
                | cons t l ih =>
                  intro x hx
                  simp only [List.foldl_cons]
                  apply ih
                  cases (buildGraph ti fs true).downTypes.lookup t with
                  | none => exact hx
                  | some num => exact hx
              exact this _ _ rfl
        rw [this] at hd; cases hd
      intro b p hb
      rw [hout] at hb; simp at hb
    have ⟨hx, ho, ⟨ff⟩⟩ := loop_live hs H (reorderFuel (buildGraph ti fs hasInit) fs) _ ⟨f0⟩ d0 l0 o0 hterm
    generalize hxx : Topo.loop (topoStatic fs (buildGraph ti fs hasInit)) (reorderFuel (buildGraph ti fs hasInit) fs)
      (topoInit fs (buildGraph ti fs hasInit) hasInit) = x at *
    have hxo : xr ∈ x.out := ff.core.doneOut xr hx H.xlt
    refine ⟨?_, ?_, ?_⟩
    · simp only [Topo.leftOver, List.mem_filter, List.mem_range, Bool.not_eq_true', List.contains_eq_mem, decide_eq_false_iff_not, not_and]
      intro _ hn; exact hn hx
    · simp only [Topo.order]; exact List.mem_append_left _ hxo
    · intro b p hb hc
      simp only [Topo.order] at hb ⊢
      obtain ⟨a0, ha0⟩ := List.mem_iff_getElem?.mp hxo
      have ha0l : a0 < x.out.length := by
        rcases Nat.lt_or_ge a0 x.out.length with hl | hg
        · exact hl
        · rw [List.getElem?_eq_none hg] at ha0; cases ha0
      rcases Nat.lt_or_ge b x.out.length with hbl | hbg
      · rw [List.getElem?_append_left hbl] at hb
        obtain ⟨a, ha, hz⟩ := ho b p hb hc
        exact ⟨a, ha, by rw [List.getElem?_append_left (by omega)]; exact hz⟩
      · exact ⟨a0, by omega, by rw [List.getElem?_append_left ha0l]; exact ha0⟩

end Nject

namespace Nject

/-! ### the order condition as a decidable check (evaluated by the driver for every displacement pair) -/

theorem releasesB_iff (s : TopoS) (q j : Nat) : releasesB s q j = true ↔ Releases s q j := by
  unfold releasesB Releases
  simp only [Bool.or_eq_true, List.any_eq_true, beq_iff_eq]

theorem initReleasesB_iff (fs : List CP) (g : RGraph) (hasInit : Bool) (j : Nat) :
    initReleasesB fs g hasInit j = true ↔ InitReleases fs g hasInit j := by
  unfold initReleasesB InitReleases
  cases hf : fs.find? (·.cls == .initFunc) with
  | none => simp
  | some f => simp [List.any_eq_true]

theorem mem_take_iff {NR : List Nat} {m j : Nat} : j ∈ NR.take m ↔ ∃ k', k' < m ∧ NR[k']? = some j := by
  constructor
  · intro h
    obtain ⟨k', hk⟩ := List.mem_iff_getElem?.mp h
    have hkl : k' < (NR.take m).length := by
      rcases Nat.lt_or_ge k' (NR.take m).length with hl | hg
      · exact hl
      · rw [List.getElem?_eq_none hg] at hk; cases hk
    have hkm : k' < m := by
      have := List.length_take_le m NR
      omega
    rw [List.getElem?_take_of_lt hkm] at hk
    exact ⟨k', hkm, hk⟩
  · rintro ⟨k', hkm, hk⟩
    apply List.mem_iff_getElem?.mpr
    exact ⟨k', by rw [List.getElem?_take_of_lt hkm]; exact hk⟩

theorem okSetB_sound {s NR fs g hasInit m j} (h : okSetB s NR fs g hasInit m j = true) :
    OKset s NR (InitReleases fs g hasInit) m j := by
  unfold okSetB at h
  simp only [Bool.or_eq_true, Bool.and_eq_true, List.contains_iff_mem, decide_eq_true_eq, List.any_eq_true] at h
  rcases h with h | ⟨hj, h | ⟨q, hq, hr⟩⟩
  · exact Or.inl (mem_take_iff.mp h)
  · exact Or.inr ⟨hj, Or.inl ((initReleasesB_iff fs g hasInit j).mp h)⟩
  · obtain ⟨k', hk, hn⟩ := mem_take_iff.mp hq
    exact Or.inr ⟨hj, Or.inr ⟨k', q, hk, hn, (releasesB_iff s q j).mp hr⟩⟩

theorem liveHypB_sound (ti : TyInfo) (fs : List CP) (hasInit : Bool) (xr kx : Nat) (h : liveHypB ti fs hasInit xr kx = true) :
    LiveHyp (topoStatic fs (buildGraph ti fs hasInit)) (buildGraph ti fs hasInit).cannotReorder
      (buildNodes (buildGraph ti fs hasInit)).after (InitReleases fs (buildGraph ti fs hasInit) hasInit) xr kx := by
  unfold liveHypB at h
  simp only [Bool.and_eq_true, decide_eq_true_eq, Bool.not_eq_true', List.all_eq_true, List.mem_range, Bool.or_eq_true] at h
  obtain ⟨⟨⟨⟨h1, h2⟩, h3⟩, h4⟩, h5⟩ := h
  have dual := buildNodes_dual (buildGraph ti fs hasInit)
  refine ⟨h1, ?_, h3, fun i j hj => (dual.2 i j).mpr ((dual.1 i j).mp hj), ?_, fun j hj => okSetB_sound (h5 j hj)⟩
  · intro he; rw [he] at h2; simp at h2
  · intro k p hp j hj
    have hk : k < (buildGraph ti fs hasInit).cannotReorder.length := by
      rcases Nat.lt_or_ge k (buildGraph ti fs hasInit).cannotReorder.length with hl | hg
      · exact hl
      · rw [List.getElem?_eq_none hg] at hp; cases hp
    have := h4 k hk
    rw [hp] at this
    simp only [List.all_eq_true, Bool.or_eq_true, Bool.and_eq_true, decide_eq_true_eq] at this
    rcases this j hj with a | ⟨⟨a, b⟩, c⟩
    · exact Or.inl (okSetB_sound a)
    · exact Or.inr ⟨a, b, (releasesB_iff _ xr j).mp c⟩

/-- the condition holds on the example: the Reorder'd injector (position 1) is served by the fixed providers
    before position 2 of the fixed list `[0, 2, 3]`, and the final function waits for it -/
example : liveHypB stdTyInfo (clearReorder c17cExample) false 1 2 = true := by decide

end Nject
