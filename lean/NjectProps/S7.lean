import NjectProofs.Machine
/-
  Property theorems for C01, C02, C05, C07 (the RUN/STATIC interpreter).
  Statements only call lemmas from NjectProofs; nothing here is weakened to make a proof pass.
-/
namespace Nject

/-! ## Shared: the model of the generated code refines the reference semantics -/

/-- For every compiled chain accepted by the validator, every behaviour of the user's providers
    (wrappers calling inner 0,1,…,n times with arguments depending on earlier results; fallible
    injectors failing or not) and every history of init/invoke calls, `Exec` (slot array, copies,
    aliasing as in generate.go) and `Spec` (environments) return the same values and produce the
    same trace of provider calls with the same arguments. -/
theorem S7_exec_refines_spec (c : Compiled) (b : Beh) (h : checkWF c = none) (ops : List BOp) :
    (c.execHistory b ops c.bindState).1 = (c.specHistory b ops c.specBindState).1 ∧
    (c.execHistory b ops c.bindState).2.st.trace = (c.specHistory b ops c.specBindState).2.st.trace :=
  exec_refines_spec_from_bind c b h ops

/-! ## C01 — every parameter is the nearest upstream value of its type -/

/-- In `Spec` the arguments of a provider are, per parameter, the environment's entry for the
    (remapped) parameter type. -/
theorem C01_spec_args_are_env (b : Beh) (errTy : Ty) (fin : Node) (down : Env) (st : St) :
    specNodes b errTy fin [] down st =
      ((Env.empty.set fin.rets (callFn b fin.id false (fin.ins.map down.rd) st).1),
       (callFn b fin.id false (fin.ins.map down.rd) st).2) := rfl

/-- "most recently supplied": after a provider's results are written, reading type `t` gives the
    last result of that type if there is one, and otherwise whatever was there before. -/
theorem C01_nearest_write (e : Env) : ∀ (ts : List Ty) (xs : List Val) (t : Ty),
    (e.set ts xs).rd t = match (ts.zip xs).reverse.lookup t with
      | some x => x
      | none => e.rd t
  | [], xs, t => by simp [Env.set]
  | _ :: _, [], t => by simp [Env.set]
  | t0 :: ts, x :: xs, t => by
    simp only [Env.set, List.zip_cons_cons, List.reverse_cons]
    rw [C01_nearest_write (e.set1 t0 x) ts xs t, List.lookup_append]
    cases h : List.lookup t (ts.zip xs).reverse with
    | some y => simp
    | none =>
      by_cases heq : t = t0
      · subst heq; simp [List.lookup]
      · have : (t == t0) = false := by simpa using heq
        simp [List.lookup, this, rd_set1_other e t0 t x heq]

/-- a type a provider does not write keeps the value supplied further upstream -/
theorem C01_unwritten_type_keeps_upstream_value (e : Env) (ts : List Ty) (xs : List Val) (t : Ty)
    (h : t ∉ ts) : (e.set ts xs).rd t = e.rd t := by
  simp [Env.rd, set_frame t ts xs e h]

/-- the slot array represents exactly that environment: distinct types never share a value
    (`Rel` is stated per type through an injective slot map) -/
theorem C01_slots_represent_env (m : Maps) (len : Nat) (hs : SlotsOK m len) (v : VC) (e : Env)
    (ts : List Ty) (xs : List Val) (hl : v.length = len) (h : Rel m.d v e) :
    Rel m.d (wrOuts m.d v ts xs) (e.set ts xs) ∧ ∀ e', Rel m.u v e' → Rel m.u (wrOuts m.d v ts xs) e' :=
  ⟨wrOuts_rel m.d hs.dinj len hs.dlt ts xs v e hl h, fun e' h' => wrOuts_rel_other m.d m.u hs.disj ts xs v e' h'⟩

/-- what a wrapper passes to inner() is what the providers below see, and a later inner() call
    starts again from the wrapper's own downward environment (no leak between sibling calls) -/
theorem C01_inner_args_visible_below (n : Node) (next : Env → St → Env × St) (down : Env)
    (args : List Val) (k : List Val → WStep) (last : Env) (st : St) :
    specTree n next down (.call args k) last st =
      specTree n next down (k (n.recv.map (next (down.set n.outs args) (st.push (.winner n.id args))).1.rd))
        (if n.parallel then last else (next (down.set n.outs args) (st.push (.winner n.id args))).1)
        ((next (down.set n.outs args) (st.push (.winner n.id args))).2.push
          (.wrecv n.id (n.recv.map (next (down.set n.outs args) (st.push (.winner n.id args))).1.rd))) := rfl

/-! ## C02 — returned values reach the nearest receiver above; zero if nothing below ran -/

/-- what a wrapper returns is what its caller sees, whatever happened in its inner() calls -/
theorem C02_wrapper_returns_win (n : Node) (next : Env → St → Env × St) (down : Env)
    (outs : List Val) (last : Env) (st : St) :
    (specTree n next down (.ret outs) last st).1 = last.set n.rets outs := rfl

/-- a wrapper that never calls inner(): every type it does not return itself comes up as zero -/
theorem C02_not_run_is_zero (b : Beh) (errTy : Ty) (fin n : Node) (rest : List Node) (down : Env) (st : St)
    (outs : List Val) (hk : n.kind = .wrapper)
    (hb : b.wrap n.id (st.count n.id) (n.ins.map down.rd) = .ret outs) (t : Ty) (ht : t ∉ n.rets) :
    (specNodes b errTy fin (n :: rest) down st).1.rd t = zeroV t := by
  simp only [specNodes, hk, hb, specTree]
  rw [C01_unwritten_type_keeps_upstream_value _ _ _ _ ht]
  rfl

/-- the values a wrapper receives from one inner() call are the values that call sent up -/
theorem C02_received_is_this_calls_return (n : Node) (next : Env → St → Env × St) (down : Env)
    (args : List Val) (outs : List Val) (st : St) (last : Env) :
    (specTree n next down (.call args (fun vals => .ret (vals ++ outs))) last st).2.trace.getLast? =
      some (.wret n.id ((n.recv.map (next (down.set n.outs args) (st.push (.winner n.id args))).1.rd) ++ outs)) := by
  simp [specTree, St.push]

/-- a type nobody at or below returns never comes up (so a receiver above sees zero) -/
theorem C02_nothing_from_nowhere (b : Beh) (m : Maps) (errTy : Ty) (fin : Node) (nodes : List Node)
    (h : wfRun m errTy fin nodes = true) (down : Env) (st : St) (t : Ty) (ht : t ∉ upTypes fin nodes) :
    (specNodes b errTy fin nodes down st).1.rd t = zeroV t := by
  simp [Env.rd, spec_frame b m errTy fin nodes h down st t ht]

/-- the invoke function returns, per result type, what came up from the chain -/
theorem C02_invoke_returns_what_came_up (c : Compiled) (b : Beh) (s : SBound) (args : List Val)
    (h : ¬ (c.init.isNone && !s.staticDone) = true) :
    (c.specInvoke b s args).1 =
      c.invokeRecv.map (specNodes b c.errTy c.fin c.run (s.base.set c.invokeOuts args) s.st).1.rd := by
  have : (c.init.isNone && !s.staticDone) = false := by
    cases hb : (c.init.isNone && !s.staticDone) with
    | true => exact absurd hb h
    | false => rfl
  simp [Compiled.specInvoke, this]

/-! ## C05 — listed order, once per traversal; once per inner() call below a wrapper -/

theorem buildProgRev_flatten : ∀ (l open_ : List Node) (acc : Prog),
    (buildProgRev l open_ acc).flatten = (l.reverse ++ open_ ++ acc.flatten.1, acc.flatten.2)
  | [], [], acc => by simp [buildProgRev]
  | [], n :: o, acc => by simp [buildProgRev, Prog.flatten]
  | n :: rest, open_, acc => by
    unfold buildProgRev
    by_cases hw : isWrapper n = true
    · simp only [hw, if_true]
      cases open_ with
      | nil => rw [buildProgRev_flatten rest [] _]; simp [Prog.flatten]
      | cons o os => rw [buildProgRev_flatten rest [] _]; simp [Prog.flatten]
    · have hw' : isWrapper n = false := by cases h : isWrapper n <;> simp_all
      simp only [hw', Bool.false_eq_true, ↓reduceIte]
      rw [buildProgRev_flatten rest (n :: open_) acc]; simp

/-- the closure nest built by bind.go:253-297 (wrappers nest, runs of injectors are batched)
    contains every RUN provider exactly once, in list order, followed by the final function -/
theorem C05_flatten_buildProg (run : List Node) (fin : Node) :
    (buildProg run fin).flatten = (run, fin) := by
  simp [buildProg, buildProgRev_flatten, Prog.flatten]

/-- a plain injector runs exactly once and then the rest of the list runs -/
theorem C05_injector_then_rest (b : Beh) (errTy : Ty) (fin n : Node) (rest : List Node) (down : Env) (st : St)
    (hk : n.kind = .inj) (hm : n.memo = false) :
    specNodes b errTy fin (n :: rest) down st =
      specNodes b errTy fin rest (down.set n.outs (b.inj n.id (st.count n.id) (n.ins.map down.rd)))
        (st.push (.call n.id (n.ins.map down.rd) (b.inj n.id (st.count n.id) (n.ins.map down.rd)))) := by
  simp [specNodes, hk, callFn, hm]

/-- a straight chain of plain injectors: the trace grows by exactly one entry per provider, in
    list order, followed by the final function -/
theorem C05_straight_chain_order (b : Beh) (errTy : Ty) (fin : Node) :
    ∀ (nodes : List Node) (down : Env) (st : St),
      (∀ n ∈ nodes, n.kind = .inj ∧ n.memo = false) →
      ∃ ext, (specNodes b errTy fin nodes down st).2.trace = st.trace ++ ext ∧
        ext.map evId = nodes.map (·.id) ++ [fin.id]
  | [], down, st, _ =>
    ⟨[.call fin.id (fin.ins.map down.rd) (b.inj fin.id (st.count fin.id) (fin.ins.map down.rd))],
     by simp [specNodes, specFinal, callFn, St.push], by simp [evId]⟩
  | n :: rest, down, st, h => by
    have hn := h n (by simp)
    rw [C05_injector_then_rest b errTy fin n rest down st hn.1 hn.2]
    obtain ⟨ext, he, hids⟩ := C05_straight_chain_order b errTy fin rest
      (down.set n.outs (b.inj n.id (st.count n.id) (n.ins.map down.rd)))
      (st.push (.call n.id (n.ins.map down.rd) (b.inj n.id (st.count n.id) (n.ins.map down.rd))))
      (fun n' hn' => h n' (by simp [hn']))
    refine ⟨Ev.call n.id (n.ins.map down.rd) (b.inj n.id (st.count n.id) (n.ins.map down.rd)) :: ext, ?_, ?_⟩
    · rw [he]; simp [St.push]
    · simp [evId, hids]

/-- a wrapper that returns without calling inner() runs nothing below it -/
theorem C05_no_inner_call_nothing_below (n : Node) (next : Env → St → Env × St) (down : Env)
    (outs : List Val) (last : Env) (st : St) :
    (specTree n next down (.ret outs) last st).2 = st.push (.wret n.id outs) := rfl

/-- each inner() call runs the rest of the chain exactly once (from the wrapper's own downward
    environment plus the arguments of that call), then the wrapper body continues -/
theorem C05_each_inner_call_runs_rest_once (n : Node) (next : Env → St → Env × St) (down : Env)
    (args : List Val) (k : List Val → WStep) (last : Env) (st : St) :
    ∃ vals up st', next (down.set n.outs args) (st.push (.winner n.id args)) = (up, st') ∧
      specTree n next down (.call args k) last st =
        specTree n next down (k vals) (if n.parallel then last else up) (st'.push (.wrecv n.id vals)) :=
  ⟨_, _, _, rfl, rfl⟩

/-! ## C07 — a non-nil TerminalError stops the chain and surfaces as error -/

/-- a failing fallible injector: nothing after it runs, its other results are not injected,
    the error goes up as `error` and every other up type is zero -/
theorem C07_stops_chain (b : Beh) (errTy : Ty) (fin n : Node) (rest : List Node) (down : Env) (st : St)
    (hk : n.kind = .fallible) (hm : n.memo = false)
    (hfail : isErr ((b.inj n.id (st.count n.id) (n.ins.map down.rd)).getD n.errIdx (zeroV errTy)) = true) :
    specNodes b errTy fin (n :: rest) down st =
      (Env.empty.set1 errTy ((b.inj n.id (st.count n.id) (n.ins.map down.rd)).getD n.errIdx (zeroV errTy)),
       st.push (.call n.id (n.ins.map down.rd) (b.inj n.id (st.count n.id) (n.ins.map down.rd)))) := by
  simp only [specNodes, hk, callFn, hm, Bool.false_eq_true, ↓reduceIte]
  rw [if_pos hfail]

theorem C07_error_surfaces_others_zero (errTy : Ty) (e : Val) (t : Ty) :
    (Env.empty.set1 errTy e).rd t = if t = errTy then e else zeroV t := by
  by_cases h : t = errTy
  · subst h; simp
  · rw [rd_set1_other Env.empty errTy t e h]; simp [h, Env.rd, Env.empty]

/-- a nil TerminalError merely makes the other results available and the chain continues -/
theorem C07_nil_continues (b : Beh) (errTy : Ty) (fin n : Node) (rest : List Node) (down : Env) (st : St)
    (hk : n.kind = .fallible) (hm : n.memo = false)
    (hok : isErr ((b.inj n.id (st.count n.id) (n.ins.map down.rd)).getD n.errIdx (zeroV errTy)) = false) :
    specNodes b errTy fin (n :: rest) down st =
      specNodes b errTy fin rest
        (down.set n.outs ((b.inj n.id (st.count n.id) (n.ins.map down.rd)).eraseIdx n.errIdx))
        (st.push (.call n.id (n.ins.map down.rd) (b.inj n.id (st.count n.id) (n.ins.map down.rd)))) := by
  simp only [specNodes, hk, callFn, hm, Bool.false_eq_true, ↓reduceIte]
  rw [if_neg (by rw [hok]; exact Bool.false_ne_true)]

/-- static part: a failing fallible static injector skips the remaining static injectors: none of
    them is called (the trace ends with this injector's call), their types are zero, the literal
    values listed after it are in place -/
theorem C07_static_fail_skips_rest (b : Beh) (n : SNode) (rest : List SNode) (down : Env) (st : St)
    (hl : n.lit = none) (hf : n.fallible = true)
    (hfail : isErr ((callStatic b n (n.ins.map down.rd) st).1.getD n.errIdx (zeroV 0)) = true) :
    specStatic b (n :: rest) down st =
      (applyLitsE rest ((down.zero (laterOuts rest)).set n.outs (callStatic b n (n.ins.map down.rd) st).1),
       (callStatic b n (n.ins.map down.rd) st).2) := by
  simp only [specStatic, hl, hf, Bool.true_and]
  rw [if_pos hfail]

/-- a literal value is in effect from its listed position on: the static injectors listed before it
    do not see it (C01 / C05 within the static part) -/
theorem C05_literal_takes_effect_at_its_position (b : Beh) (n : SNode) (x : Val) (rest : List SNode) (down : Env) (st : St)
    (hl : n.lit = some x) :
    specStatic b (n :: rest) down st = specStatic b rest (down.set n.outs [x]) st := by
  simp only [specStatic, hl]

/-- … and what it returned (its error, retyped to `error`) stays visible downstream, whatever the
    skipped injectors would have provided -/
theorem C07_static_error_visible (down : Env) (outs : List Ty) (vals : List Val) (later : List Ty) (t : Ty) :
    ((down.zero later).set outs vals).rd t =
      match (outs.zip vals).reverse.lookup t with
      | some x => x
      | none => (down.zero later).rd t :=
  C01_nearest_write (down.zero later) outs vals t

/-- init returns, per result type, the static values — including that error -/
theorem C07_init_returns_static_values (c : Compiled) (b : Beh) (s : SBound) (args : List Val)
    (sig : InitSig) (h : c.init = some sig) :
    (c.specInit b s args).1 = sig.bypass.map (c.specInit b s args).2.base.rd := by
  simp only [Compiled.specInit, h]

end Nject

/-! ## Non-vacuity: a concrete chain meets the hypotheses -/
namespace Nject

/-- invoke(T0) → wrapper W(T0; inner(T1) → T2) returns T2 → fallible F(T1) (T3, TerminalError)
    → final(T1, T3) → T2; `error` travels up to invoke -/
def exChain : Compiled :=
  { vcount := 6, errTy := 20,
    dmap := [(0, 0), (1, 1), (3, 2)], umap := [(2, 3), (20, 4)],
    lits := [], statics := [],
    run := [ { id := 0, kind := .wrapper, ins := [0], outs := [1], rets := [2], recv := [2, 20], zero := [2, 20] },
             { id := 1, kind := .fallible, ins := [1], outs := [3], rets := [20], zero := [2, 20], errIdx := 1 } ],
    fin := { id := 2, kind := .final, ins := [1, 3], rets := [2] },
    invokeOuts := [0], invokeRecv := [2, 20], init := none }

example : checkWF exChain = none := by decide
example : checkSupply exChain = true := by decide

end Nject

/-! ## C04 (run-time part) — no provider is ever handed an invalid argument -/
namespace Nject

def noBad (tr : List Ev) : Prop := ∀ id, Ev.bad id ∉ tr

theorem callFn_noBad (b : Beh) (id : Nat) (memo : Bool) (args : List Val) (st : St) (h : noBad st.trace) :
    noBad (callFn b id memo args st).2.trace := by
  unfold callFn
  split
  · split
    · exact h
    · intro i hm
      simp only [St.push, List.mem_append, List.mem_singleton] at hm
      rcases hm with hm | hm
      · exact h i hm
      · cases hm
  · intro i hm
    simp only [St.push, List.mem_append, List.mem_singleton] at hm
    rcases hm with hm | hm
    · exact h i hm
    · cases hm

theorem push_noBad (st : St) (e : Ev) (h : noBad st.trace) (he : ∀ id, e ≠ .bad id) : noBad (st.push e).trace := by
  intro i hm
  simp only [St.push, List.mem_append, List.mem_singleton] at hm
  rcases hm with hm | hm
  · exact h i hm
  · exact he i hm.symm

theorem specTree_noBad (n : Node) (next : Env → St → Env × St)
    (hnext : ∀ d s, noBad s.trace → noBad (next d s).2.trace) (down : Env) :
    ∀ (w : WStep) (last : Env) (st : St), noBad st.trace → noBad (specTree n next down w last st).2.trace
  | .ret outs, last, st, h => by
    simp only [specTree]; exact push_noBad st _ h (by intro id he; cases he)
  | .call args k, last, st, h => by
    simp only [specTree]
    apply specTree_noBad n next hnext down
    exact push_noBad _ _ (hnext _ _ (push_noBad st _ h (by intro id he; cases he))) (by intro id he; cases he)

/-- the reference semantics never produces an invalid-argument event … -/
theorem spec_noBad (b : Beh) (errTy : Ty) (fin : Node) : ∀ (nodes : List Node) (down : Env) (st : St),
    noBad st.trace → noBad (specNodes b errTy fin nodes down st).2.trace
  | [], down, st, h => by
    simp only [specNodes, specFinal]; exact callFn_noBad b _ _ _ st h
  | n :: rest, down, st, h => by
    cases hk : n.kind with
    | wrapper =>
      simp only [specNodes, hk]
      exact specTree_noBad n _ (fun d s hs => spec_noBad b errTy fin rest d s hs) down _ _ _
        (push_noBad st _ h (by intro id he; cases he))
    | fallible =>
      simp only [specNodes, hk]
      split
      · exact callFn_noBad b _ _ _ st h
      · exact spec_noBad b errTy fin rest _ _ (callFn_noBad b _ _ _ st h)
    | inj => simp only [specNodes, hk]; exact spec_noBad b errTy fin rest _ _ (callFn_noBad b _ _ _ st h)
    | final => simp only [specNodes, hk]; exact spec_noBad b errTy fin rest _ _ (callFn_noBad b _ _ _ st h)

/-- … hence, for a chain accepted by the validator, neither does the model of the generated code: every
    argument handed to a provider comes from a slot that exists (no invalid reflect.Value), for every behaviour -/
theorem C04_no_invalid_argument_run (b : Beh) (m : Maps) (len : Nat) (hs : SlotsOK m len) (errTy : Ty) (fin : Node)
    (nodes : List Node) (hwf : wfRun m errTy fin nodes = true) (v : VC) (down : Env) (st : St)
    (hl : v.length = len) (hd : Rel m.d v down) (hu : Rel m.u v Env.empty) (h : noBad st.trace) :
    noBad (execNodes b m errTy fin nodes v st).2.trace := by
  have := (exec_refines_spec_run b m len hs errTy fin nodes hwf v down st hl hd hu).1
  rw [this]
  exact spec_noBad b errTy fin nodes down st h

end Nject
