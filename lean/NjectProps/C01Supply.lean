import Nject.WF
import Nject.Spec
/-
  C01, "never a zero value": the supply check that is run on every bound chain the implementation
  dumps (`checkSupply`, WF.lean) is sound in the following sense — for the run phase: when
  `supplyRun fin nodes avail` holds, the whole run (trace, what comes up, final state) is the same
  for any two downward environments that agree on `avail`.  Nothing a provider is handed depends on
  a type outside what was supplied, in particular never on the zero value an unsupplied type reads
  as.  For every behaviour that returns as many values as its signature says.
-/
namespace Nject

def AgreeOn (A : List Ty) (e e' : Env) : Prop := ∀ t ∈ A, e t = e' t

theorem agree_rd {A : List Ty} {e e' : Env} (h : AgreeOn A e e') (ts : List Ty) (hs : ts.all A.contains = true) :
    ts.map e.rd = ts.map e'.rd := by
  apply List.map_congr_left
  intro t ht
  have : t ∈ A := by
    have := List.all_eq_true.mp hs t ht
    simpa using this
  unfold Env.rd
  rw [h t this]

theorem agree_set1 {A : List Ty} {e e' : Env} (h : AgreeOn A e e') (t : Ty) (v : Val) :
    AgreeOn (t :: A) (e.set1 t v) (e'.set1 t v) := by
  intro x hx
  unfold Env.set1
  by_cases hxt : x = t
  · simp [hxt]
  · simp only [hxt, if_false]
    rcases List.mem_cons.mp hx with h' | h'
    · exact absurd h' hxt
    · exact h x h'

theorem agree_mono {A B : List Ty} {e e' : Env} (h : AgreeOn A e e') (hs : ∀ t ∈ B, t ∈ A) : AgreeOn B e e' :=
  fun t ht => h t (hs t ht)

/-- the same writes on both sides, at least as many values as types: agreement extends to the written types -/
theorem agree_set : ∀ (ts : List Ty) (vs : List Val) {A : List Ty} {e e' : Env}, AgreeOn A e e' →
    ts.length ≤ vs.length → AgreeOn (ts ++ A) (e.set ts vs) (e'.set ts vs)
  | [], vs, A, e, e', h, _ => by simpa [Env.set] using h
  | t :: ts, [], A, e, e', h, hl => by simp at hl
  | t :: ts, v :: vs, A, e, e', h, hl => by
    simp only [Env.set]
    have h1 := agree_set ts vs (agree_set1 h t v) (by simpa using hl)
    exact agree_mono h1 (by
      intro x hx
      simp only [List.cons_append, List.mem_cons, List.mem_append] at hx ⊢
      rcases hx with hx | hx | hx
      · right; left; exact hx
      · left; exact hx
      · right; right; exact hx)

/-- every inner() call of a wrapper body passes at least `len` arguments -/
def WStep.fits (len : Nat) : WStep → Prop
  | .ret _ => True
  | .call args k => len ≤ args.length ∧ ∀ vals, (k vals).fits len

/-- cached results are results of the behaviour -/
def CacheOf (b : Beh) (st : St) : Prop := ∀ e ∈ st.cache, ∃ k, e.2 = b.inj e.1.1 k e.1.2

/-- the behaviours return as many values as the signatures say -/
structure Fits (b : Beh) (nodes : List Node) : Prop where
  inj : ∀ n ∈ nodes, n.kind ≠ .wrapper → n.kind ≠ .fallible → ∀ k args, n.outs.length ≤ (b.inj n.id k args).length
  fallible : ∀ n ∈ nodes, n.kind = .fallible → ∀ k args, n.outs.length ≤ ((b.inj n.id k args).eraseIdx n.errIdx).length
  wrap : ∀ n ∈ nodes, n.kind = .wrapper → ∀ k args, (b.wrap n.id k args).fits n.outs.length

theorem push_cacheOf {b : Beh} {st : St} (h : CacheOf b st) (e : Ev) : CacheOf b (st.push e) := by
  intro x hx; exact h x (by simpa [St.push] using hx)

theorem callFn_cacheOf (b : Beh) (id : Nat) (memo : Bool) (args : List Val) (st : St) (h : CacheOf b st) :
    CacheOf b (callFn b id memo args st).2 ∧ ∃ k, (callFn b id memo args st).1 = b.inj id k args := by
  unfold callFn
  split
  · split
    · rename_i outs hl
      refine ⟨h, ?_⟩
      obtain ⟨l1, l2, hl', _⟩ := List.lookup_eq_some_iff.mp hl
      obtain ⟨k, hk⟩ := h ((id, args), outs) (by rw [hl']; simp)
      exact ⟨k, hk⟩
    · refine ⟨?_, _, rfl⟩
      intro x hx
      simp only [St.push, List.mem_cons] at hx
      rcases hx with hx | hx
      · subst hx; exact ⟨_, rfl⟩
      · exact h x hx
  · exact ⟨push_cacheOf h _, _, rfl⟩

end Nject

namespace Nject

theorem Fits.tail {b : Beh} {n : Node} {rest : List Node} (h : Fits b (n :: rest)) : Fits b rest :=
  ⟨fun m hm => h.inj m (List.mem_cons_of_mem _ hm), fun m hm => h.fallible m (List.mem_cons_of_mem _ hm),
   fun m hm => h.wrap m (List.mem_cons_of_mem _ hm)⟩

theorem specTree_agree (b : Beh) (n : Node) (avail : List Ty) (next : Env → St → Env × St)
    (hnext : ∀ d d' s, AgreeOn (n.outs ++ avail) d d' → CacheOf b s →
      next d s = next d' s ∧ CacheOf b (next d s).2)
    (down down' : Env) (hag : AgreeOn avail down down') :
    ∀ (w : WStep), w.fits n.outs.length → ∀ (last : Env) (st : St), CacheOf b st →
      specTree n next down w last st = specTree n next down' w last st
      ∧ CacheOf b (specTree n next down w last st).2
  | .ret outs, _, last, st, hc => by
    simp only [specTree]
    exact ⟨trivial, push_cacheOf hc _⟩
  | .call args k, hf, last, st, hc => by
    simp only [specTree]
    obtain ⟨hlen, hk⟩ := hf
    have hs := hnext (down.set n.outs args) (down'.set n.outs args) (st.push (.winner n.id args))
      (agree_set n.outs args hag hlen) (push_cacheOf hc _)
    rw [← hs.1]
    exact specTree_agree b n avail next hnext down down' hag (k _) (hk _) _ _ (push_cacheOf hs.2 _)

/-- **Supply.**  If every type a provider reads has been supplied (`supplyRun`), the run does not depend
    on anything else in the downward environment. -/
theorem C01_supplied_run_ignores_the_rest (b : Beh) (errTy : Ty) (fin : Node) :
    ∀ (nodes : List Node) (avail : List Ty), supplyRun fin nodes avail = true → Fits b nodes →
    ∀ (down down' : Env) (st : St), AgreeOn avail down down' → CacheOf b st →
      specNodes b errTy fin nodes down st = specNodes b errTy fin nodes down' st
      ∧ CacheOf b (specNodes b errTy fin nodes down st).2
  | [], avail, hs, _, down, down', st, hag, hc => by
    simp only [supplyRun] at hs
    simp only [specNodes, specFinal]
    rw [agree_rd hag fin.ins hs]
    exact ⟨rfl, (callFn_cacheOf b _ _ _ st hc).1⟩
  | n :: rest, avail, hs, hf, down, down', st, hag, hc => by
    simp only [supplyRun, Bool.and_eq_true] at hs
    have hargs := agree_rd hag n.ins hs.1
    have ih := C01_supplied_run_ignores_the_rest b errTy fin rest (n.outs ++ avail) hs.2 hf.tail
    cases hk : n.kind with
    | wrapper =>
      simp only [specNodes, hk]
      rw [hargs]
      exact specTree_agree b n avail _ (fun d d' s => ih d d' s) down down' hag _
        (hf.wrap n List.mem_cons_self hk _ _) _ _ (push_cacheOf hc _)
    | fallible =>
      simp only [specNodes, hk]
      rw [hargs]
      obtain ⟨hc', k, hk'⟩ := callFn_cacheOf b n.id n.memo (n.ins.map down'.rd) st hc
      split
      · exact ⟨rfl, hc'⟩
      · have hlen : n.outs.length ≤ ((callFn b n.id n.memo (n.ins.map down'.rd) st).1.eraseIdx n.errIdx).length := by
          rw [hk']; exact hf.fallible n List.mem_cons_self hk _ _
        exact ih _ _ _ (agree_set n.outs _ hag hlen) hc'
    | inj =>
      simp only [specNodes, hk]
      rw [hargs]
      obtain ⟨hc', k, hk'⟩ := callFn_cacheOf b n.id n.memo (n.ins.map down'.rd) st hc
      have hlen : n.outs.length ≤ (callFn b n.id n.memo (n.ins.map down'.rd) st).1.length := by
        rw [hk']; exact hf.inj n List.mem_cons_self (by rw [hk]; decide) (by rw [hk]; decide) _ _
      exact ih _ _ _ (agree_set n.outs _ hag hlen) hc'
    | final =>
      simp only [specNodes, hk]
      rw [hargs]
      obtain ⟨hc', k, hk'⟩ := callFn_cacheOf b n.id n.memo (n.ins.map down'.rd) st hc
      have hlen : n.outs.length ≤ (callFn b n.id n.memo (n.ins.map down'.rd) st).1.length := by
        rw [hk']; exact hf.inj n List.mem_cons_self (by rw [hk]; decide) (by rw [hk]; decide) _ _
      exact ih _ _ _ (agree_set n.outs _ hag hlen) hc'

/-- In particular the zero values that unsupplied types read as never reach a provider: replacing the
    whole unsupplied part of the environment by anything else changes nothing. -/
theorem C01_never_a_zero_value (b : Beh) (errTy : Ty) (fin : Node) (nodes : List Node) (avail : List Ty)
    (hs : supplyRun fin nodes avail = true) (hf : Fits b nodes) (down : Env) (junk : Env) (st : St) (hc : CacheOf b st) :
    specNodes b errTy fin nodes down st
      = specNodes b errTy fin nodes (fun t => if t ∈ avail then down t else junk t) st :=
  (C01_supplied_run_ignores_the_rest b errTy fin nodes avail hs hf down _ st
    (by intro t ht; simp [ht]) hc).1

-- non-vacuity: [A: (T0)→T1, F: (T1,T0)] with T0 supplied
example : supplyRun ⟨9, .final, [1, 0], [], [], [], [], 0, false, false⟩ [⟨1, .inj, [0], [1], [], [], [], 0, false, false⟩] [0] = true := by decide
-- and an unsupplied read is rejected
example : supplyRun ⟨9, .final, [1, 2], [], [], [], [], 0, false, false⟩ [⟨1, .inj, [0], [1], [], [], [], 0, false, false⟩] [0] = false := by decide

end Nject
