import Nject.WF
import Nject.Spec
/-
  C01, "never a zero value": the supply check that is run on every bound chain the implementation
  dumps (`checkSupply`, WF.lean) is sound in the following sense — for the run phase: when
  `supplyRun fin nodes avail` holds, the whole run (trace, what comes up, final state) is the same
  for any two downward environments that agree on `avail`.  Nothing a provider is handed depends on
  a type outside what was supplied, in particular never on the zero value an unsupplied type reads
  as.  For every behaviour that returns as many values as its signature says.
-/
namespace Nject

def AgreeOn (A : List Ty) (e e' : Env) : Prop := ∀ t ∈ A, e t = e' t

theorem agree_rd {A : List Ty} {e e' : Env} (h : AgreeOn A e e') (ts : List Ty) (hs : ts.all A.contains = true) :
    ts.map e.rd = ts.map e'.rd := by
  apply List.map_congr_left
  intro t ht
  have : t ∈ A := by
    have := List.all_eq_true.mp hs t ht
    simpa using this
  unfold Env.rd
  rw [h t this]

theorem agree_set1 {A : List Ty} {e e' : Env} (h : AgreeOn A e e') (t : Ty) (v : Val) :
    AgreeOn (t :: A) (e.set1 t v) (e'.set1 t v) := by
  intro x hx
  unfold Env.set1
  by_cases hxt : x = t
  · simp [hxt]
  · simp only [hxt, if_false]
    rcases List.mem_cons.mp hx with h' | h'
    · exact absurd h' hxt
    · exact h x h'

theorem agree_mono {A B : List Ty} {e e' : Env} (h : AgreeOn A e e') (hs : ∀ t ∈ B, t ∈ A) : AgreeOn B e e' :=
  fun t ht => h t (hs t ht)

/-- the same writes on both sides, at least as many values as types: agreement extends to the written types -/
theorem agree_set : ∀ (ts : List Ty) (vs : List Val) {A : List Ty} {e e' : Env}, AgreeOn A e e' →
    ts.length ≤ vs.length → AgreeOn (ts ++ A) (e.set ts vs) (e'.set ts vs)
  | [], vs, A, e, e', h, _ => by simpa [Env.set] using h
  | t :: ts, [], A, e, e', h, hl => by simp at hl
  | t :: ts, v :: vs, A, e, e', h, hl => by
    simp only [Env.set]
    have h1 := agree_set ts vs (agree_set1 h t v) (by simpa using hl)
    exact agree_mono h1 (by
      intro x hx
      simp only [List.cons_append, List.mem_cons, List.mem_append] at hx ⊢
      rcases hx with hx | hx | hx
      · right; left; exact hx
      · left; exact hx
      · right; right; exact hx)

/-- every inner() call of a wrapper body passes at least `len` arguments -/
def WStep.fits (len : Nat) : WStep → Prop
  | .ret _ => True
  | .call args k => len ≤ args.length ∧ ∀ vals, (k vals).fits len

/-- cached results are results of the behaviour -/
def CacheOf (b : Beh) (st : St) : Prop := ∀ e ∈ st.cache, ∃ k, e.2 = b.inj e.1.1 k e.1.2

/-- the behaviours return as many values as the signatures say -/
structure Fits (b : Beh) (nodes : List Node) : Prop where
  inj : ∀ n ∈ nodes, n.kind ≠ .wrapper → n.kind ≠ .fallible → ∀ k args, n.outs.length ≤ (b.inj n.id k args).length
  fallible : ∀ n ∈ nodes, n.kind = .fallible → ∀ k args, n.outs.length ≤ ((b.inj n.id k args).eraseIdx n.errIdx).length
  wrap : ∀ n ∈ nodes, n.kind = .wrapper → ∀ k args, (b.wrap n.id k args).fits n.outs.length

theorem push_cacheOf {b : Beh} {st : St} (h : CacheOf b st) (e : Ev) : CacheOf b (st.push e) := by
  intro x hx; exact h x (by simpa [St.push] using hx)

theorem callFn_cacheOf (b : Beh) (id : Nat) (memo : Bool) (args : List Val) (st : St) (h : CacheOf b st) :
    CacheOf b (callFn b id memo args st).2 ∧ ∃ k, (callFn b id memo args st).1 = b.inj id k args := by
  unfold callFn
  split
  · split
    · rename_i outs hl
      refine ⟨h, ?_⟩
      have hm := List.mem_of_lookup_eq_some hl |> fun x => x
      obtain ⟨k, hk⟩ := h ((id, args), outs) (by
        have := List.lookup_eq_some_iff.mp hl
        obtain ⟨l1, l2, hl', _⟩ := this
        rw [hl']; simp)
      exact ⟨k, hk⟩
    · refine ⟨?_, _, rfl⟩
      intro x hx
      simp only [St.push, List.mem_cons] at hx
      rcases hx with hx | hx
      · subst hx; exact ⟨_, rfl⟩
      · exact h x hx
  · exact ⟨push_cacheOf h _, _, rfl⟩

end Nject
