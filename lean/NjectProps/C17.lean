import Nject.Reorder
/-
  C17 — a Reorder'd injector may be listed anywhere.

  reorder.go (constraint graph + priority topological sort over Go maps and container/heap) is not
  transcribed.  What is proved:

  * the validators that are run on every S3 → S4 pair of dumps of the implementation are sound
    (`C17_validator_sound`, `C17_static_prefix_kept`, `C17_final_last`): when they accept, the result is
    a rearrangement in which providers not marked Reorder keep their relative order, the part of
    the list up to the invoke function is untouched and nothing includable follows the final
    function;
  * `C17_displacement_preserves_sources`: for ALL chains and ALL placements that respect the two
    dependency constraints (after every producer of its inputs, before every consumer of its
    outputs), moving the one provider of its output types changes the source of no input of any
    provider.  The placement constraints are exactly what `placedOKB` decides; the later stages
    (which provider supplies what, given an order) are the include/slot/exec models of C01–C03.

  Tied to /repo per run by: the validators on generated chains with Reorder'd injectors and
  wrappers; S5/S6/S7 correspondence of those chains on the order reorder chose; displacement
  pairs (every plain injector of a chain with unique sources, to every other position).
-/
namespace Nject

/-! ### validators -/

theorem C17_validator_sound (pre post : List RItem) (h : reorderValidB pre post = true) :
    (post.map (·.id)).Perm (pre.map (·.id))
    ∧ post.filter (fun r => !r.reorder) = pre.filter (fun r => !r.reorder) := by
  unfold reorderValidB at h
  simp only [Bool.and_eq_true, List.isPerm_iff, beq_iff_eq] at h
  exact h

/-- in particular the ids of the providers not marked Reorder appear in the listed order -/
theorem C17_others_keep_listed_order (pre post : List RItem) (h : reorderValidB pre post = true) :
    (post.filter (fun r => !r.reorder)).map (·.id) = (pre.filter (fun r => !r.reorder)).map (·.id) := by
  rw [(C17_validator_sound pre post h).2]

theorem C17_static_prefix_kept (pre post : List RItem2) (h : staticPrefixKeptB pre post = true) :
    (post.take ((pre.takeWhile (!·.isInvoke)).length + 1)).map (·.id)
      = (pre.take ((pre.takeWhile (!·.isInvoke)).length + 1)).map (·.id) := by
  unfold staticPrefixKeptB at h
  simpa using h

theorem C17_final_last (post : List RItem2) (h : finalLastB post = true) (a b : List RItem2) (fin : RItem2)
    (hsplit : post = a ++ fin :: b) (ha : ∀ p ∈ a, p.isFinal = false) (hf : fin.isFinal = true)
    (hnr : fin.reorder = false) : ∀ p ∈ b, p.gaveUp = true := by
  unfold finalLastB at h
  have hd : post.dropWhile (fun r => !r.isFinal) = fin :: b := by
    rw [hsplit, List.dropWhile_append_of_pos (by intro p hp; simp [ha p hp])]
    simp [hf]
  rw [hd] at h
  simp only [hnr, Bool.false_or, List.all_eq_true] at h
  exact h

example : reorderValidB [⟨0, false⟩, ⟨1, true⟩, ⟨2, false⟩] [⟨0, false⟩, ⟨2, false⟩, ⟨1, true⟩] = true := by decide
example : reorderValidB [⟨0, false⟩, ⟨1, true⟩, ⟨2, false⟩] [⟨2, false⟩, ⟨0, false⟩, ⟨1, true⟩] = false := by decide

/-! ### displacement -/

theorem takeWhile_filter_comm {α} (p q : α → Bool) (hpq : ∀ a, p a = false → q a = true) :
    ∀ l : List α, (l.takeWhile p).filter q = (l.filter q).takeWhile p
  | [] => rfl
  | a :: l => by
    by_cases hp : p a = true
    · by_cases hq : q a = true
      · simp [hp, hq, takeWhile_filter_comm p q hpq l]
      · simp [hp, hq, takeWhile_filter_comm p q hpq l]
    · have hp' : p a = false := by simpa using hp
      have hq := hpq a hp'
      simp [hp', hq]

theorem getLast?_of_all_eq {α} (x : α) : ∀ (l : List α), l ≠ [] → (∀ a ∈ l, a = x) → l.getLast? = some x
  | [], h, _ => absurd rfl h
  | [a], _, hall => by simp [hall a (by simp)]
  | a :: b :: l, _, hall => by
    rw [List.getLast?_cons_cons]
    exact getLast?_of_all_eq x (b :: l) (by simp) (fun c hc => hall c (List.mem_cons_of_mem _ hc))

/-- hypotheses on one chain: ids identify providers; `x` is placed after the producers of its inputs
    and before the consumers of its outputs -/
structure Placed (l : List DP) (x : DP) : Prop where
  mem : x ∈ l
  nodup : (l.map (·.id)).Nodup
  after_producers : ∀ p ∈ l, p.id ≠ x.id → (∃ t ∈ p.outs, t ∈ x.ins) → beforeB l p.id x.id = true
  before_consumers : ∀ p ∈ l, p.id ≠ x.id → (∃ t ∈ p.ins, t ∈ x.outs) → beforeB l x.id p.id = true

theorem eq_of_id_eq {l : List DP} (hnd : (l.map (·.id)).Nodup) {a b : DP} (ha : a ∈ l) (hb : b ∈ l)
    (h : a.id = b.id) : a = b := by
  induction l with
  | nil => cases ha
  | cons c cs ih =>
    simp only [List.map_cons, List.nodup_cons, List.mem_map, not_exists, not_and] at hnd
    rcases List.mem_cons.mp ha with ha' | ha' <;> rcases List.mem_cons.mp hb with hb' | hb'
    · rw [ha', hb']
    · subst ha'; exact absurd h.symm (hnd.1 b hb')
    · subst hb'; exact absurd h (hnd.1 a ha')
    · exact ih hnd.2 ha' hb'

/-- elements of the part of the list before `y` -/
theorem mem_takeWhile_of_before {l : List DP} {a y : Nat} (h : beforeB l a y = true) :
    ∃ p ∈ l.takeWhile (·.id != y), p.id = a := by
  unfold beforeB at h
  simp only [List.any_eq_true, beq_iff_eq] at h
  exact h

theorem split_at (l : List DP) (x : DP) (hx : x ∈ l) (hnd : (l.map (·.id)).Nodup) :
    l = l.takeWhile (·.id != x.id) ++ x :: (l.dropWhile (·.id != x.id)).tail
    ∧ (∀ p ∈ l.takeWhile (·.id != x.id), p.id ≠ x.id) := by
  have h1 : l = l.takeWhile (·.id != x.id) ++ l.dropWhile (·.id != x.id) := (List.takeWhile_append_dropWhile).symm
  have hpre : ∀ p ∈ l.takeWhile (·.id != x.id), p.id ≠ x.id := by
    intro p hp
    have := (List.all_eq_true.mp (List.all_takeWhile (l := l) (p := fun (q : DP) => q.id != x.id))) p hp
    simpa using this
  refine ⟨?_, hpre⟩
  cases hd : l.dropWhile (·.id != x.id) with
  | nil =>
    -- x would have to be in the takeWhile part
    rw [hd, List.append_nil] at h1
    have : x ∈ l.takeWhile (·.id != x.id) := by rw [← h1]; exact hx
    exact absurd rfl (hpre x this)
  | cons d ds =>
    have hdid : d.id = x.id := by
      have := List.head?_dropWhile_not (fun (p : DP) => p.id != x.id) l
      rw [hd] at this
      simpa using this
    have hdm : d ∈ l := by rw [h1, hd]; simp
    have : d = x := eq_of_id_eq hnd hdm hx hdid
    subst this
    simp only [List.tail_cons]
    rw [← hd]; exact h1

end Nject

namespace Nject

theorem mem_of_mem_filter_ne {l l' : List DP} {x : DP}
    (hrest : l'.filter (·.id != x.id) = l.filter (·.id != x.id)) {p : DP} (hp : p ∈ l') (hne : p.id ≠ x.id) : p ∈ l := by
  have : p ∈ l'.filter (·.id != x.id) := List.mem_filter.mpr ⟨hp, by simpa using hne⟩
  rw [hrest] at this
  exact (List.mem_filter.mp this).1

/-- case A: a type the displaced provider does not produce -/
theorem source_other_type (l : List DP) (x : DP) (hx : x ∈ l) (hnd : (l.map (·.id)).Nodup)
    (y : Nat) (hy : y ≠ x.id) (t : Ty) (ht : t ∉ x.outs) :
    sourceOf l y t = nearestIn ((l.filter (·.id != x.id)).takeWhile (·.id != y)) t := by
  unfold sourceOf nearestIn
  rw [← takeWhile_filter_comm (fun (p : DP) => p.id != y) (fun (p : DP) => p.id != x.id)
        (by intro a ha; simp at ha; simp [ha, hy]) l]
  rw [List.filter_filter]
  congr 2
  apply List.filter_congr
  intro a ha
  have hal : a ∈ l := List.takeWhile_subset _ ha
  by_cases hid : a.id = x.id
  · have : a = x := eq_of_id_eq hnd hal hx hid
    subst this
    simp [ht]
  · simp [hid]

end Nject

namespace Nject

/-- case B: a type only the displaced provider produces, asked for by a consumer behind it -/
theorem source_own_type (l : List DP) (x : DP) (hp : Placed l x)
    (honly : ∀ p ∈ l, p.id ≠ x.id → ∀ t ∈ x.outs, t ∉ p.outs)
    (y : DP) (hy : y ∈ l) (hne : y.id ≠ x.id) (t : Ty) (hty : t ∈ y.ins) (htx : t ∈ x.outs) :
    sourceOf l y.id t = some x.id := by
  unfold sourceOf nearestIn
  have hb := hp.before_consumers y hy hne ⟨t, hty, htx⟩
  obtain ⟨p, hpm, hpid⟩ := mem_takeWhile_of_before hb
  have hpx : p = x := eq_of_id_eq hp.nodup (List.takeWhile_subset _ hpm) hp.mem hpid
  subst hpx
  have hall : ∀ a ∈ (l.takeWhile (·.id != y.id)).filter (fun q => q.outs.contains t), a = p := by
    intro a ha
    obtain ⟨ha1, ha2⟩ := List.mem_filter.mp ha
    have hal : a ∈ l := List.takeWhile_subset _ ha1
    by_cases hid : a.id = p.id
    · exact eq_of_id_eq hp.nodup hal hp.mem hid
    · exact absurd (by simpa using ha2) (honly a hal hid t htx)
  have hne' : (l.takeWhile (·.id != y.id)).filter (fun q => q.outs.contains t) ≠ [] := by
    intro h
    have : p ∈ (l.takeWhile (·.id != y.id)).filter (fun q => q.outs.contains t) :=
      List.mem_filter.mpr ⟨hpm, by simpa using htx⟩
    rw [h] at this; cases this
  rw [getLast?_of_all_eq p _ hne' hall]
  rfl

theorem not_mem_both {pre post : List DP} {x p : DP} (hnd : ((pre ++ x :: post).map (·.id)).Nodup)
    (h1 : p ∈ pre) (h2 : p ∈ post) : False := by
  rw [List.map_append, List.nodup_append] at hnd
  exact hnd.2.2 p.id (List.mem_map.mpr ⟨p, h1, rfl⟩) p.id
    (List.mem_map.mpr ⟨p, List.mem_cons_of_mem _ h2, rfl⟩) rfl

/-- case C: the inputs of the displaced provider itself -/
theorem source_of_displaced (l : List DP) (x : DP) (hp : Placed l x) (t : Ty) (ht : t ∈ x.ins) :
    sourceOf l x.id t = nearestIn (l.filter (·.id != x.id)) t := by
  unfold sourceOf nearestIn
  obtain ⟨hsplit, hpre⟩ := split_at l x hp.mem hp.nodup
  generalize hpr : l.takeWhile (·.id != x.id) = pre at hsplit hpre
  generalize hpo : (l.dropWhile (·.id != x.id)).tail = post at hsplit
  have hf : l.filter (·.id != x.id) = pre ++ post.filter (·.id != x.id) := by
    rw [hsplit, List.filter_append, List.filter_cons]
    simp only [bne_self_eq_false, Bool.false_eq_true, if_false]
    congr 1
    apply List.filter_eq_self.mpr
    intro a ha; simpa using hpre a ha
  rw [hf, List.filter_append]
  have hempty : (post.filter (·.id != x.id)).filter (fun q => q.outs.contains t) = [] := by
    apply List.filter_eq_nil_iff.mpr
    intro a ha
    obtain ⟨ha1, ha2⟩ := List.mem_filter.mp ha
    intro hprov
    have hal : a ∈ l := by rw [hsplit]; exact List.mem_append.mpr (Or.inr (List.mem_cons_of_mem _ ha1))
    have hne : a.id ≠ x.id := by simpa using ha2
    have hb := hp.after_producers a hal hne ⟨t, by simpa using hprov, ht⟩
    obtain ⟨p, hpm, hpid⟩ := mem_takeWhile_of_before hb
    rw [hpr] at hpm
    have hpl : p ∈ l := by rw [hsplit]; exact List.mem_append.mpr (Or.inl hpm)
    have : p = a := eq_of_id_eq hp.nodup hpl hal hpid
    subst this
    have hnd := hp.nodup
    rw [hsplit] at hnd
    exact not_mem_both hnd hpm ha1
  rw [hempty, List.append_nil]

/-- **Displacement.**  `l'` lists the same providers as `l` with `x` moved: everything else keeps its
    order.  `x` is the only producer of what it produces.  In both lists `x` stands after every
    producer of its inputs and before every consumer of its outputs.  Then every provider gets every
    input from the same provider in `l'` as in `l`. -/
theorem C17_displacement_preserves_sources (l l' : List DP) (x : DP)
    (hl : Placed l x) (hl' : Placed l' x)
    (hrest : l'.filter (·.id != x.id) = l.filter (·.id != x.id))
    (honly : ∀ p ∈ l, p.id ≠ x.id → ∀ t ∈ x.outs, t ∉ p.outs)
    (y : DP) (hy : y ∈ l) (t : Ty) (ht : t ∈ y.ins) :
    sourceOf l' y.id t = sourceOf l y.id t := by
  have honly' : ∀ p ∈ l', p.id ≠ x.id → ∀ t ∈ x.outs, t ∉ p.outs :=
    fun p hp hne => honly p (mem_of_mem_filter_ne hrest hp hne) hne
  by_cases hyx : y.id = x.id
  · have : y = x := eq_of_id_eq hl.nodup hy hl.mem hyx
    subst this
    rw [source_of_displaced l y hl t ht, source_of_displaced l' y hl' t ht, hrest]
  · have hy' : y ∈ l' := by
      have : y ∈ l.filter (·.id != x.id) := List.mem_filter.mpr ⟨hy, by simpa using hyx⟩
      rw [← hrest] at this
      exact (List.mem_filter.mp this).1
    by_cases htx : t ∈ x.outs
    · rw [source_own_type l x hl honly y hy hyx t ht htx, source_own_type l' x hl' honly' y hy' hyx t ht htx]
    · rw [source_other_type l x hl.mem hl.nodup y.id hyx t htx, source_other_type l' x hl'.mem hl'.nodup y.id hyx t htx, hrest]

/-- the placement hypotheses are what the executable check decides -/
theorem placedOKB_sound (l : List DP) (x : DP) (hx : x ∈ l) (hnd : (l.map (·.id)).Nodup)
    (h : placedOKB l x = true) : Placed l x := by
  unfold placedOKB at h
  simp only [Bool.and_eq_true, List.all_eq_true, Bool.or_eq_true, beq_iff_eq, Bool.not_eq_true', List.any_eq_false,
    List.contains_iff_mem] at h
  refine ⟨hx, hnd, ?_, ?_⟩
  · intro p hp hne ⟨t, ht1, ht2⟩
    rcases h.1 p hp with (h1 | h1) | h1
    · exact absurd h1 hne
    · exact absurd ht2 (by simpa using h1 t ht1)
    · exact h1
  · intro p hp hne ⟨t, ht1, ht2⟩
    rcases h.2 p hp with (h1 | h1) | h1
    · exact absurd h1 hne
    · exact absurd ht2 (by simpa using h1 t ht1)
    · exact h1

-- non-vacuity: [A: ()→T0, X: (T0)→T1, B: (T0)→T2, F: (T1,T2)] with X moved behind B
def exL : List DP := [⟨0, [], [0]⟩, ⟨1, [0], [1]⟩, ⟨2, [0], [2]⟩, ⟨3, [1, 2], []⟩]
def exL' : List DP := [⟨0, [], [0]⟩, ⟨2, [0], [2]⟩, ⟨1, [0], [1]⟩, ⟨3, [1, 2], []⟩]
example : placedOKB exL ⟨1, [0], [1]⟩ = true ∧ placedOKB exL' ⟨1, [0], [1]⟩ = true
    ∧ sourceOf exL' 3 1 = some 1 ∧ sourceOf exL 3 1 = some 1 := by decide
-- and a placement that violates the constraint is rejected: X listed after its consumer F
example : placedOKB [⟨0, [], [0]⟩, ⟨2, [0], [2]⟩, ⟨3, [1, 2], []⟩, ⟨1, [0], [1]⟩] ⟨1, [0], [1]⟩ = false := by decide

end Nject
