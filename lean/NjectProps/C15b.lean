import NjectProofs.IncludeProv
/-
  C15 / C03, about the algorithm: the chain the include computation accepts is a FIXPOINT of the
  validity check.  In particular every value returned by an included provider has an included
  receiver above it (unless ConsumptionOptional / Unused), and every input of an included provider
  has an included source -- against the final include flags.

  That `providesReturns` records every dependency in both directions (`NjectProofs/IncludeSym.lean`),
  and that the consumers it records for a returned type are listed before the returner and do receive
  that type (`NjectProofs/IncludeProv.lean`, with `IncludeStatic.lean` for positions and the
  must-consume switch), is proved for all chains: both theorems below are unconditional.  The driver
  still evaluates the two decidable predicates on the model's state for every generated chain (record
  `m5deps`) as a cross-check of the definitions.
-/
namespace Nject

/-- **the bound chain is a fixpoint of the validity check** -/
theorem C03_bound_chain_is_a_fixpoint (ti : TyInfo) (funcs : List CP) (cannot0 : List Nat) (ch : Chain)
    (h : computeInclusion ti funcs cannot0 = .ok ch) :
    ∀ j, (ch.get j).inc = true → (ch.get j).cannot = false ∧ localCheck ch (ch.get j) = true := by
  unfold computeInclusion at h
  split at h
  · cases h
  · rename_i pre hpre
    split at h
    · cases h
    · rename_i chf hv
      injection h with h
      subst h
      exact (validate_fix true pre _ hv (inclusionBeforeFinal_sym ti funcs cannot0 pre hpre)).2

/-- every input (and every value expected from below) of an included provider has an included source -/
theorem C03_included_providers_have_included_sources (ch : Chain)
    (hfix : ∀ j, (ch.get j).inc = true → (ch.get j).cannot = false ∧ localCheck ch (ch.get j) = true)
    (j : Nat) (hj : (ch.get j).inc = true) :
    (ch.get j).errIn = [] ∧ (ch.get j).errRecv = [] ∧ (ch.get j).errByp = [] ∧
    ∀ e ∈ (ch.get j).usesIn ++ (ch.get j).usesRecv ++ (ch.get j).usesByp, ∃ p ∈ e.2, (ch.get p).inc = true := by
  have := (hfix j hj).2
  unfold localCheck at this
  simp only [Bool.and_eq_true, List.isEmpty_iff, List.all_eq_true, List.any_eq_true] at this
  obtain ⟨⟨⟨⟨⟨h1, h2⟩, h3⟩, h4⟩, _⟩, _⟩ := this
  exact ⟨h1, h2, h3, fun e he => h4 e he⟩

/-- **C15 (algorithm)**: in the chain the include computation accepts, every returned value of an
    included provider that is not ConsumptionOptional (or Unused) is received by an included provider
    listed before it. -/
theorem C15_returns_consumed_of_prov (ti : TyInfo) (funcs : List CP) (cannot0 : List Nat) (pre ch : Chain)
    (hpre : inclusionBeforeFinal ti funcs cannot0 = .ok pre) (hprov : provOKB pre = true)
    (h : computeInclusion ti funcs cannot0 = .ok ch) : returnsConsumedB ch = true := by
  have hfix := C03_bound_chain_is_a_fixpoint ti funcs cannot0 ch h
  have hfr : FR pre ch := by
    unfold computeInclusion at h
    rw [hpre] at h
    simp only at h
    split at h
    · cases h
    · rename_i chf hv
      cases h
      exact validate_FR true pre _ hv
  -- what provOKB says, position by position
  have hp : ∀ i, i < pre.length → (pre.get i).pos = i ∧ (pre.get i).mcRet = true ∧
      ∀ e ∈ (pre.get i).usedByRet, (pre.get i).c.ret.contains e.1 = true → e.1 ≠ tUnused →
        ∀ q ∈ e.2, q < i ∧ (pre.get q).recvTypes.contains e.1 = true := by
    intro i hi
    unfold provOKB at hprov
    rw [List.all_eq_true] at hprov
    have := hprov i (by simpa using hi)
    simp only [Bool.and_eq_true, beq_iff_eq, List.all_eq_true, decide_eq_true_eq, Bool.or_eq_true, Bool.not_eq_true'] at this
    refine ⟨this.1.1, this.1.2, fun e he hc hne q hq => ?_⟩
    rcases this.2 e he with (hno | hun) | hall
    · rw [hc] at hno; cases hno
    · exact absurd hun hne
    · exact hall q hq
  -- static fields survive validation
  have hstat : ∀ i, (ch.get i).pos = (pre.get i).pos ∧ (ch.get i).mcRet = (pre.get i).mcRet ∧
      (ch.get i).usedByRet = (pre.get i).usedByRet ∧ (ch.get i).recvTypes = (pre.get i).recvTypes ∧ (ch.get i).c = (pre.get i).c := by
    intro i
    have := hfr.2 i
    unfold flagsOnly at this
    rw [← this]
    exact ⟨rfl, rfl, rfl, rfl, rfl⟩
  unfold returnsConsumedB
  rw [List.all_eq_true]
  intro f hf
  obtain ⟨i, hi, hfi⟩ := List.mem_iff_getElem.mp hf
  have hget : ch.get i = f := by simp [Chain.get, List.getD, List.getElem?_eq_getElem hi, hfi]
  cases hinc : f.inc with
  | false => simp
  | true =>
    simp only [Bool.not_true, Bool.false_or, List.all_eq_true]
    intro t ht
    have hl := (hfix i (by rw [hget]; exact hinc)).2
    rw [hget] at hl
    unfold localCheck at hl
    simp only [Bool.and_eq_true] at hl
    have hret := hl.2
    have hipre : i < pre.length := by rw [← hfr.1]; exact hi
    have ⟨hpos, hmc, hprovi⟩ := hp i hipre
    have hs := hstat i
    rw [hget] at hs
    rw [hs.2.1, hmc] at hret
    simp only [Bool.not_true, Bool.false_or, List.all_eq_true] at hret
    have := hret t ht
    simp only [Bool.or_eq_true, List.any_eq_true] at this
    rcases this with (hco | hun) | ⟨q, hq, hqinc⟩
    · simp only [hco, Bool.true_or]
    · simp only [hun, Bool.true_or, Bool.or_true]
    · -- q is an included receiver listed before f
      by_cases hun : t = tUnused
      · simp [hun]
      cases hlk : f.usedByRet.lookup t with
      | none => simp [hlk] at hq
      | some l =>
        simp only [hlk, Option.getD_some] at hq
        have hmem : (t, l) ∈ (pre.get i).usedByRet := by rw [← hs.2.2.1]; exact lookupL_mem hlk
        have htret : (pre.get i).c.ret.contains t = true := by rw [← hs.2.2.2.2]; simpa using ht
        have ⟨hqi, hrecv⟩ := hprovi (t, l) hmem htret hun q hq
        have hqlen : q < ch.length := by omega
        have hsq := hstat q
        have hqpos : (ch.get q).pos = q := by rw [hsq.1]; exact (hp q (by rw [← hfr.1]; exact hqlen)).1
        simp only [Bool.or_eq_true, List.any_eq_true]
        right
        refine ⟨ch.get q, ?_, ?_⟩
        · have : ch.get q = ch[q] := by simp [Chain.get, List.getD, List.getElem?_eq_getElem hqlen]
          rw [this]; exact List.getElem_mem hqlen
        · simp only [Bool.and_eq_true, decide_eq_true_eq]
          refine ⟨⟨hqinc, ?_⟩, ?_⟩
          · rw [hqpos, hs.1, hpos]; exact hqi
          · rw [hsq.2.2.2.1]; exact hrecv

/-- **C15 (algorithm), unconditional**: for every provider list, the chain the include computation
    accepts has, for every returned value of an included provider that is not ConsumptionOptional
    (or Unused), an included receiver listed before it. -/
theorem C15_bound_chain_consumes_returns (ti : TyInfo) (funcs : List CP) (cannot0 : List Nat) (ch : Chain)
    (h : computeInclusion ti funcs cannot0 = .ok ch) : returnsConsumedB ch = true := by
  have h' := h
  unfold computeInclusion at h'
  split at h'
  · cases h'
  · rename_i pre hpre
    exact C15_returns_consumed_of_prov ti funcs cannot0 pre ch hpre (inclusionBeforeFinal_provOK ti funcs cannot0 pre hpre) h

end Nject
