import NjectProofs.EditProofs
/-
  C18 — named edits produce exactly the edited list.
  `handleReplaceByName` / `editAll` are the Lean model of replace.go (tied to /repo by the S1
  correspondence: random lists on every run, all lists of length ≤ 4 in the thorough tier).
-/
namespace Nject

/-- invariant of the step-3 loop, relative to the supplied list `l` -/
structure EditInv (l : List ENode) (cur : List ENode) : Prop where
  plain : (cur.filter (·.plain)).Sublist (l.filter (·.plain))
  perm : ∃ removed, l.Perm (removed ++ cur) ∧ ∀ x ∈ removed, ∃ n ∈ l, n.rep ≠ 0 ∧ x.origin = n.rep

theorem mem_of_getElem? {l : List ENode} {i : Nat} {n : ENode} (h : l[i]? = some n) : n ∈ l := by
  exact List.mem_of_getElem? h

theorem editStep_inv (l : List ENode) (s s' : EState) (h : editStep s = .ok (some s'))
    (hi : EditInv l s.cur) : EditInv l s'.cur := by
  unfold editStep at h
  split at h
  · cases h
  · rename_i n hn
    have hnmem : n ∈ s.cur := mem_of_getElem? hn
    obtain ⟨removed, hperm, hrem⟩ := hi.perm
    have hnl : n ∈ l := by
      have : n ∈ removed ++ s.cur := List.mem_append.mpr (Or.inr hnmem)
      exact hperm.symm.subset this
    split at h
    · -- cursor moves on
      cases h; exact hi
    · split at h
      · -- replace
        rename_i hrep
        have hrep' : n.rep ≠ 0 := by simpa using hrep
        split at h
        · cases h
        · rename_i ent _
          cases h
          refine ⟨(moveReplace_plain s.cur n ent hrep').trans hi.plain, ?_⟩
          refine ⟨removed ++ (moveReplace s.cur n ent).2.1, ?_, ?_⟩
          · refine hperm.trans ?_
            rw [List.append_assoc]
            exact List.Perm.append_left _ (moveReplace_perm s.cur n ent)
          · intro x hx
            cases List.mem_append.mp hx with
            | inl h1 => exact hrem x h1
            | inr h2 => exact ⟨n, hnl, hrep', moveReplace_removed_named s.cur n ent x h2⟩
      · split at h
        · -- insert before
          rename_i _ hbef
          have hbef' : n.bef ≠ 0 := by simpa using hbef
          split at h
          · cases h
          · rename_i ent _
            cases h
            refine ⟨by rw [moveBefore_plain s.cur n ent hbef']; exact hi.plain, removed, ?_, hrem⟩
            exact hperm.trans (List.Perm.append_left _ (moveBefore_perm s.cur n ent).symm)
        · -- insert after
          rename_i hp _ hbef
          have haft' : n.aft ≠ 0 := by
            intro h0
            have hrep0 : n.rep = 0 := by
              rename_i hrep; simpa using hrep
            have hbef0 : n.bef = 0 := by simpa using hbef
            have : n.plain = true := by simp [ENode.plain, hrep0, hbef0, h0]
            simp [this] at hp
          split at h
          · cases h
          · rename_i ent _
            cases h
            refine ⟨by rw [moveAfter_plain s.cur n ent haft']; exact hi.plain, removed, ?_, hrem⟩
            exact hperm.trans (List.Perm.append_left _ (moveAfter_perm s.cur n ent).symm)

theorem editLoop_inv (l : List ENode) : ∀ (fuel : Nat) (s : EState) (r : List ENode),
    editLoop fuel s = .ok r → EditInv l s.cur → EditInv l r
  | 0, _, _, h, _ => by simp [editLoop] at h
  | fuel + 1, s, r, h, hi => by
    simp only [editLoop] at h
    split at h
    · cases h
    · cases h; exact hi
    · rename_i s' hs
      exact editLoop_inv l fuel s' r h (editStep_inv l s s' hs hi)

theorem handleReplaceByName_inv (l r : List ENode) (h : handleReplaceByName l = .ok r) : EditInv l r := by
  have h0 : EditInv l l := ⟨List.Sublist.refl _, [], by simp, by simp⟩
  unfold handleReplaceByName at h
  split at h
  · cases h; exact h0
  · split at h
    · cases h
    · exact editLoop_inv l _ _ r h h0

/-- every provider without an edit tag keeps its relative order -/
theorem C18_others_keep_order (l r : List ENode) (h : handleReplaceByName l = .ok r) :
    (r.filter (·.plain)).Sublist (l.filter (·.plain)) :=
  (handleReplaceByName_inv l r h).plain

/-- nothing is invented or duplicated, and the only providers that disappear are ones named like
    the target of some ReplaceNamed directive -/
theorem C18_only_replaced_targets_disappear (l r : List ENode) (h : handleReplaceByName l = .ok r) :
    ∃ removed, l.Perm (removed ++ r) ∧ ∀ x ∈ removed, ∃ n ∈ l, n.rep ≠ 0 ∧ x.origin = n.rep :=
  (handleReplaceByName_inv l r h).perm

/-- without directives the list is untouched -/
theorem C18_no_directive_no_change (l : List ENode) (h : l.all (·.plain) = true) :
    handleReplaceByName l = .ok l := by
  simp [handleReplaceByName, h]

/-- two edit tags on one provider make Bind fail -/
theorem C18_two_tags_fails (l : List ENode) (n : ENode) (hn : n ∈ l) (ht : n.tags > 1) :
    ∃ e, handleReplaceByName l = .error e := by
  have hnp : n.plain = false := by
    cases hp : n.plain with
    | false => rfl
    | true =>
      simp only [ENode.plain, Bool.and_eq_true, beq_iff_eq] at hp
      simp [ENode.tags, hp.1.1, hp.1.2, hp.2] at ht
  have hall : l.all (·.plain) = false := by
    cases hb : l.all (·.plain) with
    | false => rfl
    | true => rw [List.all_eq_true] at hb; rw [hb n hn] at hnp; cases hnp
  have hpre : ∀ l' : List ENode, n ∈ l' → ∃ e, preCheck l' = some e := by
    intro l'
    induction l' with
    | nil => intro h; cases h
    | cons x xs ih =>
      intro hm
      simp only [preCheck]
      split
      · exact ⟨_, rfl⟩
      · split
        · exact ⟨_, rfl⟩
        · cases List.mem_cons.mp hm with
          | inl heq => subst heq; rename_i h1 _; exact absurd ht h1
          | inr hx => exact ih hx
  obtain ⟨e, he⟩ := hpre l hn
  exact ⟨e, by simp [handleReplaceByName, hall, he]⟩

/-- a missing or duplicated target makes the step that handles the directive fail -/
theorem C18_missing_target_fails (names : List NameEntry) (name : Nat)
    (h : names.find? (·.name == name) = none) : lookupName names name = .error .missing := by
  simp [lookupName, h]

theorem C18_duplicated_target_fails (names : List NameEntry) (name : Nat) (e : NameEntry)
    (h : names.find? (·.name == name) = some e) (hd : e.dup = true) : lookupName names name = .error .dup := by
  simp [lookupName, h, hd]

theorem editStep_error_of_lookup (s : EState) (n : ENode) (hn : s.cur[s.pos]? = some n)
    (hproc : n.idx ∉ s.processed) (hbef : n.bef ≠ 0) (hrep : n.rep = 0) (e : EditErr)
    (hl : lookupName s.names n.bef = .error e) : editStep s = .error e := by
  have hpl : n.plain = false := by simp [ENode.plain, hbef]
  simp [editStep, hn, hproc, hpl, hrep, hbef, hl]

/-! ### where the moved block lands -/

theorem posOf_drop_head (l : List ENode) (k : Nat) (h : k ∈ idxs l) :
    headIdx (l.drop (posOf l (some k))) = some k := by
  induction l with
  | nil => simp [idxs] at h
  | cons x xs ih =>
    simp only [posOf, List.takeWhile]
    by_cases hx : x.idx = k
    · simp [hx, headIdx]
    · have : (x.idx != k) = true := by simpa using hx
      simp only [this, List.length_cons, List.drop_succ_cons]
      have hk : k ∈ idxs xs := by
        simp only [idxs, List.map_cons, List.mem_cons] at h
        cases h with
        | inl h => exact absurd h.symm hx
        | inr h => exact h
      simpa [posOf] using ih hk

/-- InsertBeforeNamed: the tagged block (adjacent providers with the same tag, in order) ends up
    contiguous and immediately before the target's first provider; everything else keeps its order -/
theorem C18_insert_before_lands_before_target (cur : List ENode) (n : ENode) (ent : NameEntry)
    (hpres : ent.first ∈ idxs ((cutAt cur n.idx (·.bef == n.bef)).1 ++ (cutAt cur n.idx (·.bef == n.bef)).2.2)) :
    ∃ a b, (moveBefore cur n ent).1 = a ++ (moveBefore cur n ent).2.1 ++ b ∧ headIdx b = some ent.first ∧
      a ++ b = (cutAt cur n.idx (·.bef == n.bef)).1 ++ (cutAt cur n.idx (·.bef == n.bef)).2.2 := by
  refine ⟨_, _, rfl, posOf_drop_head _ _ hpres, List.take_append_drop _ _⟩

/-- InsertAfterNamed: the block is inserted right after position of the target's last provider -/
theorem C18_insert_after_lands_after_target (cur : List ENode) (n : ENode) (ent : NameEntry)
    (hpres : ent.last ∈ idxs ((cutAt cur n.idx (·.aft == n.aft)).1 ++ (cutAt cur n.idx (·.aft == n.aft)).2.2)) :
    ∃ a b, (moveAfter cur n ent).1 = a ++ (moveAfter cur n ent).2.1 ++ b ∧
      headIdx (a.drop (a.length - 1)) = some ent.last ∧
      a ++ b = (cutAt cur n.idx (·.aft == n.aft)).1 ++ (cutAt cur n.idx (·.aft == n.aft)).2.2 := by
  refine ⟨_, _, rfl, ?_, List.take_append_drop _ _⟩
  generalize (cutAt cur n.idx (·.aft == n.aft)).1 ++ (cutAt cur n.idx (·.aft == n.aft)).2.2 = cur2 at hpres
  have hh := posOf_drop_head cur2 ent.last hpres
  have hlt : posOf cur2 (some ent.last) < cur2.length := by
    cases hd : cur2.drop (posOf cur2 (some ent.last)) with
    | nil => rw [hd] at hh; simp [headIdx] at hh
    | cons y ys =>
      have := congrArg List.length hd
      simp at this; omega
  have hlen : (cur2.take (posOf cur2 (some ent.last) + 1)).length = posOf cur2 (some ent.last) + 1 := by
    simp; omega
  rw [hlen]
  simp only [Nat.add_sub_cancel]
  rw [List.drop_take]
  simp only [Nat.add_sub_cancel_left]
  cases hd : cur2.drop (posOf cur2 (some ent.last)) with
  | nil => rw [hd] at hh; simp [headIdx] at hh
  | cons y ys => rw [hd] at hh; simpa [headIdx] using hh

/-- ReplaceNamed: the removed target block consists of providers named like the target, and the tagged
    block is inserted contiguously -/
theorem C18_replace_puts_block_in (cur : List ENode) (n : ENode) (ent : NameEntry) :
    ∃ a b, (moveReplace cur n ent).1 = a ++ (moveReplace cur n ent).2.2.1 ++ b ∧
      (∀ x ∈ (moveReplace cur n ent).2.1, x.origin = n.rep) :=
  ⟨_, _, rfl, moveReplace_removed_named cur n ent⟩

/-! ### NonFinal -/

theorem C18_reorderNonFinal_perm (l : List ENode) : (reorderNonFinal l).Perm l := by
  unfold reorderNonFinal
  split
  · exact List.Perm.refl _
  · rename_i f before hd
    have h2 := @List.takeWhile_append_dropWhile _ (fun (x : ENode) => x.nonFinal) l.reverse
    rw [hd] at h2
    have : l = before.reverse ++ [f] ++ (l.reverse.takeWhile (·.nonFinal)).reverse := by
      have := congrArg List.reverse h2
      simpa using this.symm
    conv => rhs; rw [this]
    simp only [List.append_assoc]
    exact List.Perm.append_left _ List.perm_append_comm

/-- the last provider not marked NonFinal becomes last, the NonFinal ones behind it keep their order
    in front of it -/
theorem C18_reorderNonFinal_last (l before : List ENode) (f : ENode)
    (h : l.reverse.dropWhile (·.nonFinal) = f :: before) :
    reorderNonFinal l = before.reverse ++ (l.reverse.takeWhile (·.nonFinal)).reverse ++ [f] ∧ f.nonFinal = false := by
  refine ⟨by simp [reorderNonFinal, h], ?_⟩
  have := @List.head_dropWhile_not _ (fun (x : ENode) => x.nonFinal) l.reverse (by rw [h]; simp)
  simpa [h] using this

end Nject

/-! ### Non-vacuity -/
namespace Nject
/-- [x(after A), c, A₁, A₂, y(before A), z(replace B), B] ↦ [c, y, A₁, A₂, x, z] -/
example : (match handleReplaceByName
    [ { idx := 0, origin := 1, aft := 2 }, { idx := 1, origin := 1 }, { idx := 2, origin := 2 }, { idx := 3, origin := 2 },
      { idx := 4, origin := 1, bef := 2 }, { idx := 5, origin := 1, rep := 3 }, { idx := 6, origin := 3 } ] with
    | .ok r => idxs r
    | .error _ => []) = [1, 4, 2, 3, 0, 5] := by decide
end Nject
