import NjectProofs.IncludeClusters2
import NjectProps.C03Keep
import NjectProps.C16
/-
  C14 (Desired providers), the part about the elimination rounds: a Required or Desired provider that is not Shun'd and not
  in a Cluster is never taken out by pruning -- not by `eliminateUnused` (which skips it), not by a trial (it is a seed of the
  keep-closure, so it is never proposed; and a trial changes the exclusion flags of the tried providers only).  If it passed the
  first validation it reaches the final validation unmarked: whether it is in the bound chain is decided by the two
  validations ("can it be included?") alone.  (Auto-desired providers -- the `wanted` flag -- are not covered: the flag is
  rewritten around Cluster trials.)
-/
namespace Nject

/-- a provider the rounds must leave alone -/
def Prot (f : IP) : Prop := f.c.cluster = 0 ∧ f.c.shun = false ∧ (f.c.required = true ∨ f.c.desired = true)

theorem Prot_congr {f g : IP} (h : g.c = f.c) (hp : Prot f) : Prot g := by
  unfold Prot at *; rw [h]; exact hp

theorem lt_of_prot {ch : Chain} {d : Nat} (hp : Prot (ch.get d)) : d < ch.length := by
  rcases Nat.lt_or_ge d ch.length with hlt | hge
  · exact hlt
  · rw [get_default_of_ge ch d (by omega)] at hp
    rcases hp.2.2 with h | h <;> cases h

/-- a protected provider that is not excluded is not proposed for elimination -/
theorem prot_not_proposed (ch : Chain) (d : Nat) (hp : Prot (ch.get d)) (hx : (ch.get d).excluded = false) :
    d ∉ proposeEliminations ch := by
  intro hprop
  have hseed : d ∈ keepSeeds ch := by
    unfold keepSeeds
    refine List.mem_filter.mpr ⟨by simpa using lt_of_prot hp, ?_⟩
    rcases hp.2.2 with h | h <;> simp [hx, h]
  rcases C03_proposed_is_shunned_or_not_kept ch d hprop with h | ⟨h, _⟩
  · rw [hp.2.1] at h; cases h
  · exact h ((C03_kept_is_closed ch true).1 d hseed)

/-- one step of a round on another provider -/
theorem roundStep_keeps (c0 : Chain) (i d : Nat) (hcc : CC c0) (hp : Prot (c0.get d)) (hx : (c0.get d).excluded = false)
    (hid : i ≠ d) : Prot ((roundStep c0 i).get d) ∧ ((roundStep c0 i).get d).excluded = false := by
  unfold roundStep
  simp only []
  by_cases hex : (c0.get i).excluded = true
  · simp only [hex, if_true]; exact ⟨hp, hx⟩
  · have hex' : (c0.get i).excluded = false := by simpa using hex
    simp only [hex', Bool.false_eq_true, if_false]
    have use : ∀ (S : List Nat), d ∉ S → (∀ w ∈ S, (c0.get w).excluded = false) →
        Prot ((tryWithout c0 S).get d) ∧ ((tryWithout c0 S).get d).excluded = false := by
      intro S hd hw
      have ⟨ec, b, hb⟩ := tryWithout_spec c0 S hw
      refine ⟨Prot_congr (ec.2 d).1 hp, ?_⟩
      rw [hb d]
      have : ¬ (b = true ∧ d ∈ S ∧ d < c0.length) := fun hh => hd hh.2.1
      rw [if_neg this]; exact hx
    by_cases hcl : (c0.get i).c.cluster = 0
    · simp only [hcl, bne_self_eq_false, Bool.false_eq_true, if_false]
      exact use [i] (by simpa using fun e => hid e.symm) (fun w hw => by
        have : w = i := by simpa using hw
        rw [this]; exact hex')
    · have hne : ((c0.get i).c.cluster != 0) = true := by simpa using hcl
      simp only [hne, if_true]
      cases hcm : (c0.get i).clusterMembers with
      | none => exact ⟨hp, hx⟩
      | some ms =>
        simp only []
        refine use ms (fun hd => ?_) (hcc.coh i ms hcm hex')
        have := hcc.same i ms hcm d hd
        rw [hp.1] at this
        exact hcc.nz i ms hcm this.symm

theorem proposalRound_keeps (ch : Chain) (d : Nat) (hcc : CC ch) (hp : Prot (ch.get d)) (hx : (ch.get d).excluded = false) :
    Prot ((proposalRound ch).get d) ∧ ((proposalRound ch).get d).excluded = false := by
  rw [proposalRound_eq]
  have hnp := prot_not_proposed ch d hp hx
  have key : ∀ (l : List Nat) (c0 : Chain), d ∉ l → CC c0 → Prot (c0.get d) → (c0.get d).excluded = false →
      Prot ((l.foldl roundStep c0).get d) ∧ ((l.foldl roundStep c0).get d).excluded = false := by
    intro l
    induction l with
    | nil => intro c0 _ _ h1 h2; exact ⟨h1, h2⟩
    | cons i l ih =>
      intro c0 hd hc h1 h2
      simp only [List.foldl_cons]
      have hid : i ≠ d := fun e => hd (by simp [e])
      have ⟨k1, k2⟩ := roundStep_keeps c0 i d hc h1 h2 hid
      exact ih _ (fun hm => hd (List.mem_cons_of_mem _ hm)) (roundStep_CC c0 i hc).2 k1 k2
  exact key _ ch hnp hcc hp hx

theorem proposalLoop_keeps : ∀ (fuel : Nat) (ch : Chain) (d : Nat), CC ch → Prot (ch.get d) → (ch.get d).excluded = false →
    Prot ((proposalLoop fuel ch).get d) ∧ ((proposalLoop fuel ch).get d).excluded = false
  | 0, ch, d, _, hp, hx => by simp only [proposalLoop]; exact ⟨hp, hx⟩
  | fuel + 1, ch, d, hcc, hp, hx => by
    simp only [proposalLoop]
    have ⟨k1, k2⟩ := proposalRound_keeps ch d hcc hp hx
    split
    · exact ⟨k1, k2⟩
    · exact proposalLoop_keeps fuel _ d (proposalRound_CC ch hcc).2 k1 k2

theorem eliminateUnused_keeps : ∀ (fuel : Nat) (check : List Nat) (ch : Chain) (d : Nat), Prot (ch.get d) → (ch.get d).excluded = false →
    Prot ((eliminateUnused fuel check ch).get d) ∧ ((eliminateUnused fuel check ch).get d).excluded = false
  | 0, _, ch, d, hp, hx => by simp only [eliminateUnused]; exact ⟨hp, hx⟩
  | _ + 1, [], ch, d, hp, hx => by simp only [eliminateUnused]; exact ⟨hp, hx⟩
  | fuel + 1, i :: check, ch, d, hp, hx => by
    simp only [eliminateUnused]
    split
    · exact eliminateUnused_keeps fuel check ch d hp hx
    · rename_i hskip
      split
      · exact eliminateUnused_keeps fuel check ch d hp hx
      · -- provider i is dropped: it is neither Required nor Desired, so it is not d
        have hid : i ≠ d := by
          intro e
          rw [e] at hskip
          rcases hp.2.2 with h | h <;> simp [h] at hskip
        have hget : (ch.upd i fun f => { f with inc := false, cannot := true, excluded := true }).get d = ch.get d := by
          rw [get_upd]
          have : ¬ (d = i ∧ i < ch.length) := fun hh => hid hh.1.symm
          rw [if_neg this]
        exact eliminateUnused_keeps fuel _ _ d (by rw [hget]; exact hp) (by rw [hget]; exact hx)

/-- **C14 (the rounds leave Required and Desired providers alone)**: in `pruneStages`, a Required or Desired provider that is
    not Shun'd and not in a Cluster, and that the first validation did not mark, is not marked afterwards -/
theorem pruneStages_keeps_desired (ch : Chain) (h0 : ∀ j, (ch.get j).clusterMembers = none) (d : Nat)
    (hp : Prot (ch.get d)) (hc : (ch.get d).cannot = false) (hx : (ch.get d).excluded = false) :
    ((pruneStages ch).get d).cannot = false := by
  rw [pruneStages_cannot_eq]
  rw [pruneStages_unfold]
  simp only []
  have hdl := lt_of_prot hp
  -- the first map leaves d alone
  have hmapget : Chain.get (ch.map fun (f : IP) => if f.cannot then { f with excluded := true, inc := false } else f) d = ch.get d := by
    have : Chain.get (ch.map fun (f : IP) => if f.cannot then { f with excluded := true, inc := false } else f) d
        = (fun f : IP => if f.cannot then { f with excluded := true, inc := false } else f) (ch.get d) := by
      simp [Chain.get, List.getD, List.getElem?_map, List.getElem?_eq_getElem hdl]
    rw [this]; simp only [hc, Bool.false_eq_true, if_false]
  have hm : ∀ j, (Chain.get (ch.map fun (f : IP) => if f.cannot then { f with excluded := true, inc := false } else f) j).clusterMembers = none := by
    intro j
    by_cases hj : j < ch.length
    · have : Chain.get (ch.map fun (f : IP) => if f.cannot then { f with excluded := true, inc := false } else f) j
          = (fun f : IP => if f.cannot then { f with excluded := true, inc := false } else f) (ch.get j) := by
        simp [Chain.get, List.getD, List.getElem?_map, List.getElem?_eq_getElem hj]
      rw [this]
      simp only []
      split
      · exact h0 j
      · exact h0 j
    · rw [get_default_of_ge _ j (by simpa using hj)]; rfl
  have ⟨cca, _, sta⟩ := clusters_CC _ hm
  generalize clusters (ch.map fun (f : IP) => if f.cannot then { f with excluded := true, inc := false } else f) = a at cca sta
  have pa : Prot (a.get d) := Prot_congr ((sta d).1.trans (by rw [hmapget])) hp
  have xa : (a.get d).excluded = false := by rw [(sta d).2, hmapget]; exact hx
  have ⟨pb, xb⟩ := eliminateUnused_keeps (a.length + (a.map (·.uses.length)).sum + 8) (List.range a.length) a d pa xa
  have ⟨ccb, _⟩ := eliminateUnused_CC (a.length + (a.map (·.uses.length)).sum + 8) (List.range a.length) a cca
  have ⟨_, xc⟩ := proposalLoop_keeps (a.length + 1) _ d ccb pb xb
  -- the last map copies the exclusion flag into the mark
  generalize proposalLoop (a.length + 1) (eliminateUnused (a.length + (a.map (·.uses.length)).sum + 8) (List.range a.length) a) = r at xc
  by_cases hj : d < r.length
  · have : Chain.get (r.map fun f => { f with cannot := f.excluded }) d = { (r.get d) with cannot := (r.get d).excluded } := by
      simp [Chain.get, List.getD, List.getElem?_map, List.getElem?_eq_getElem hj]
    rw [this]; exact xc
  · rw [get_default_of_ge _ d (by simpa using hj)]; rfl


theorem initState_excluded (funcs : List CP) (cannot0 : List Nat) (j : Nat) :
    ((initState funcs cannot0).get j).excluded = false := by
  by_cases hj : j < funcs.length
  · unfold initState Chain.get
    have hz : j < (funcs.zip (List.range funcs.length)).length := by simp [hj]
    simp [List.getD, List.getElem?_map, List.getElem?_eq_getElem hz]
  · rw [get_default_of_ge _ j (by rw [initState_length]; exact hj)]
    rfl

/-- **C14, from the first validation to the final one**: a Required or Desired provider (not Shun'd, not in a Cluster) that
    the first validation found includable is handed to the final validation unmarked -- pruning never excludes it.  With
    `C16_pruned_providers_are_not_included` (what pruning marks is out) this pins the role of pruning for such providers: it
    has none; whether they are in the bound chain is decided by the validations alone. -/
theorem C14_desired_reaches_final_validation_unmarked (ti : TyInfo) (funcs : List CP) (cannot0 : List Nat) (ch1 pre : Chain)
    (hv : firstValidation ti funcs cannot0 = .ok ch1) (hpre : inclusionBeforeFinal ti funcs cannot0 = .ok pre)
    (d : Nat) (hp : Prot (ch1.get d)) (hc : (ch1.get d).cannot = false) : (pre.get d).cannot = false := by
  -- what the first validation hands on
  have hfr : FR (providesReturns ti (initState funcs cannot0) (initPosOf funcs)) ch1 := by
    unfold firstValidation at hv
    exact validate_FR true _ ch1 hv
  have h0 : ∀ j, (ch1.get j).clusterMembers = none := by
    intro j
    have h1 := hfr.2 j
    unfold flagsOnly at h1
    rw [← h1]
    show ((providesReturns ti (initState funcs cannot0) (initPosOf funcs)).get j).clusterMembers = none
    rw [((providesReturns_YF ti (initState funcs cannot0) (initPosOf funcs)).2 j).1]
    exact initState_clusterMembers funcs cannot0 j
  have hx : (ch1.get d).excluded = false := by
    have h1 := hfr.2 d
    unfold flagsOnly at h1
    rw [← h1]
    show ((providesReturns ti (initState funcs cannot0) (initPosOf funcs)).get d).excluded = false
    rw [((providesReturns_XF ti (initState funcs cannot0) (initPosOf funcs)).2 d).1]
    exact initState_excluded funcs cannot0 d
  have hk := pruneStages_keeps_desired ch1 h0 d hp hc hx
  unfold inclusionBeforeFinal at hpre
  rw [hv] at hpre
  simp only at hpre
  have key : ∀ x : Chain, x = pre → XF (pruneStages ch1) x → (pre.get d).cannot = false := by
    intro x hxe xf
    rw [← hxe, (xf.2 d).2.1]; exact hk
  exact key _ (by injection hpre) (providesReturns_XF ti (pruneStages ch1) (initPosOf funcs))

/-- premises are satisfiable: a Desired provider whose output nobody takes, next to a Shun'd one -/
def c14RoundsExample : List CP := [
  { id := 0, cls := .injectorFunc, out := [5], desired := true, group := .runGroup },
  { id := 1, cls := .injectorFunc, out := [6], shun := true, group := .runGroup },
  { id := 2, cls := .finalFunc, required := true, group := .finalGroup }]

example : (match firstValidation stdTyInfo c14RoundsExample [], inclusionBeforeFinal stdTyInfo c14RoundsExample [] with
    | .ok ch1, .ok pre => !(ch1.get 0).cannot && (ch1.get 0).c.desired && !(ch1.get 0).c.shun && (ch1.get 0).c.cluster == 0
        && !(pre.get 0).cannot && (pre.get 1).cannot
    | _, _ => false) = true := by decide

end Nject
