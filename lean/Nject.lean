import Nject.Basic
import Nject.Chain
import Nject.Exec
import Nject.Spec
import Nject.WF
import Nject.Edit
import Nject.Driver
