import NjectProofs.IncludeStatic
/-
  Where the consumers recorded for a returned type come from (`provOKB`): after `providesReturns`,
  every provider `q` listed in `usedByRet` of a returner `d` under a key that `d` returns
  * is listed before `d`, and
  * does receive that type (the key is one of `q`'s received types and `q`'s `upRmap` maps it to itself,
    because the matching table had an exact entry for it).
  Proved for every chain, matching table and type universe; with `IncludeStatic` this discharges
  the last hypothesis of `C15_bound_chain_consumes_returns`.
-/
namespace Nject

/-! ### generic preservation of one field -/

def Pres {α} (φ : IP → α) (ch ch' : Chain) : Prop := ∀ j, φ (ch'.get j) = φ (ch.get j)

theorem Pres_refl {α} (φ : IP → α) (ch : Chain) : Pres φ ch ch := fun _ => rfl
theorem Pres_trans {α} {φ : IP → α} {a b c : Chain} (h1 : Pres φ a b) (h2 : Pres φ b c) : Pres φ a c :=
  fun j => (h2 j).trans (h1 j)

theorem Pres_upd {α} (φ : IP → α) (ch : Chain) (i : Nat) (g : IP → IP) (hg : ∀ f, φ (g f) = φ f) : Pres φ ch (ch.upd i g) := by
  intro j
  rw [get_upd]
  split
  · rename_i hc; rw [hc.1]; exact hg _
  · rfl

theorem foldl_Pres {α β} (φ : IP → α) (f : Chain → β → Chain) (hf : ∀ c a, Pres φ c (f c a)) :
    ∀ (l : List β) (c : Chain), Pres φ c (l.foldl f c)
  | [], c => Pres_refl φ c
  | a :: l, c => by simp only [List.foldl_cons]; exact Pres_trans (hf c a) (foldl_Pres φ f hf l (f c a))

theorem ite_Pres {α} {φ : IP → α} {ch x y : Chain} (c : Prop) [Decidable c] (hx : Pres φ ch x) (hy : Pres φ ch y) :
    Pres φ ch (if c then x else y) := by
  split
  · exact hx
  · exact hy

/-! ### the downward pass does not touch `usedByRet` -/

theorem depStep_down_usedByRet (param : Param) (hp : param ≠ .recv) (i : Nat) (t : Ty) (ch : Chain) (d : Nat) :
    Pres (·.usedByRet) ch (depStep param i t ch d) := by
  cases param with
  | recv => exact absurd rfl hp
  | inp =>
    unfold depStep
    simp only []
    apply ite_Pres
    · refine Pres_trans ?_ (Pres_upd _ _ _ _ (fun f => rfl))
      refine Pres_trans ?_ (Pres_upd _ _ _ _ (fun f => rfl))
      exact Pres_upd _ _ _ _ (fun f => rfl)
    · refine Pres_trans ?_ (Pres_upd _ _ _ _ (fun f => rfl))
      exact Pres_upd _ _ _ _ (fun f => rfl)
  | byp =>
    unfold depStep
    simp only []
    apply ite_Pres
    · refine Pres_trans ?_ (Pres_upd _ _ _ _ (fun f => rfl))
      refine Pres_trans ?_ (Pres_upd _ _ _ _ (fun f => rfl))
      exact Pres_upd _ _ _ _ (fun f => rfl)
    · refine Pres_trans ?_ (Pres_upd _ _ _ _ (fun f => rfl))
      exact Pres_upd _ _ _ _ (fun f => rfl)

theorem typeStep_down_usedByRet (ti : TyInfo) (avail : IMap) (param : Param) (hp : param ≠ .recv) (i : Nat) (ch : Chain) (t : Ty) :
    Pres (·.usedByRet) ch (typeStep ti avail param i ch t) := by
  unfold typeStep
  split
  · exact Pres_upd _ ch i _ (fun f => by unfold errStep; cases param <;> rfl)
  · refine Pres_trans ?_ (foldl_Pres _ _ (fun c d => depStep_down_usedByRet param hp i t c d) _ _)
    exact Pres_upd _ ch i _ (fun f => by unfold rmapStep; cases param <;> rfl)

theorem requireParams_down_usedByRet (ti : TyInfo) (ch : Chain) (i : Nat) (avail : IMap) (param : Param) (hp : param ≠ .recv) :
    Pres (·.usedByRet) ch (requireParams ti ch i avail param) := by
  rw [requireParams_eq]
  refine Pres_trans ?_ (foldl_Pres _ _ (fun c t => typeStep_down_usedByRet ti avail param hp i c t) _ _)
  exact Pres_upd _ ch i _ (fun f => by unfold resetStep; cases param <;> rfl)

/-- every `usedByRet` list is empty -/
def NoRet (ch : Chain) : Prop := ∀ j, (ch.get j).usedByRet = []

theorem NoRet_of_Pres {ch ch' : Chain} (h : NoRet ch) (p : Pres (·.usedByRet) ch ch') : NoRet ch' := fun j => (p j).trans (h j)

theorem downStep_noRet (ti : TyInfo) (initPos : Option Nat) (acc : Chain × IMap) (i : Nat) (h : NoRet acc.1) :
    NoRet (downStep ti initPos acc i).1 := by
  obtain ⟨ch, avail⟩ := acc
  unfold downStep
  simp only []
  split
  · exact h
  · have tail : ∀ c1 : Chain, NoRet c1 → NoRet (provideParams (requireParams ti c1 i avail .inp) i avail true (i + 2)).1 := by
      intro c1 h1
      have h2 := NoRet_of_Pres h1 (requireParams_down_usedByRet ti c1 i avail .inp (by simp))
      unfold provideParams
      simp only []
      exact NoRet_of_Pres h2 (Pres_upd _ _ i _ (fun f => rfl))
    cases initPos with
    | none => exact tail ch h
    | some ip =>
      simp only []
      split
      · apply tail
        have h1 : NoRet (ch.upd ip fun f => { f with bypassRmap := [] }) := NoRet_of_Pres h (Pres_upd _ ch ip _ (fun f => rfl))
        exact NoRet_of_Pres h1 (requireParams_down_usedByRet ti _ ip avail .byp (by simp))
      · exact tail ch h

theorem foldl_noRet (ti : TyInfo) (initPos : Option Nat) : ∀ (l : List Nat) (acc : Chain × IMap), NoRet acc.1 →
    NoRet (l.foldl (downStep ti initPos) acc).1
  | [], _, h => h
  | i :: l, acc, h => by simp only [List.foldl_cons]; exact foldl_noRet ti initPos l _ (downStep_noRet ti initPos acc i h)

end Nject

namespace Nject

/-! ### facts about the matching table, `setKey` and `appendAt` -/

def exactKey (m : IMap) (t : Ty) : Prop := ∃ e ∈ m, e.1 = t

theorem bm_found {ti : TyInfo} {loose : Nat → List Ty} {m : IMap} {want found : Ty} {deps : List Nat}
    (hb : bestMatch ti loose m want = some (found, deps)) : found = want ∨ ¬ exactKey m want := by
  unfold bestMatch at hb
  split at hb
  · simp only [Option.some.injEq, Prod.mk.injEq] at hb
    exact Or.inl hb.1.symm
  · rename_i hnone
    right
    rintro ⟨e, he, hk⟩
    have := List.find?_eq_none.mp hnone e he
    simp [hk] at this

theorem bm_deps_mem {ti : TyInfo} {loose : Nat → List Ty} {m : IMap} {want found : Ty} {deps : List Nat}
    (hb : bestMatch ti loose m want = some (found, deps)) : ∀ d ∈ deps, ∃ e ∈ m, d ∈ e.2.2 := by
  unfold bestMatch at hb
  split at hb
  · rename_i e he
    simp only [Option.some.injEq, Prod.mk.injEq] at hb
    intro d hd
    rw [← hb.2] at hd
    exact ⟨e, List.mem_of_find?_eq_some he, hd⟩
  · split at hb
    · cases hb
    · simp only [] at hb
      split at hb
      · cases hb
      · rename_i be hbe
        split at hb
        · cases hb
        · simp only [Option.some.injEq, Prod.mk.injEq] at hb
          intro d hd
          rw [← hb.2] at hd
          have hd' := (List.mem_filter.mp hd).1
          have hmem := foldl_best_mem _ (by
            intro b e r hr
            cases b with
            | none => simp at hr; exact Or.inl hr.symm
            | some be' =>
              simp only [] at hr
              split at hr
              · simp at hr; exact Or.inl hr.symm
              · exact Or.inr hr) _ _ _ hbe
          rcases hmem with hmem | hmem
          · exact ⟨be, (List.mem_filter.mp hmem).1, hd'⟩
          · cases hmem

theorem exactKey_add {m : IMap} {t t' : Ty} (layer p : Nat) (h : exactKey m t') : exactKey (m.add t layer p) t' := by
  obtain ⟨e, he, hk⟩ := h
  unfold IMap.add
  split
  · by_cases hkt : e.1 == t
    · exact ⟨(t, e.2.1, e.2.2 ++ [p]), List.mem_map.mpr ⟨e, he, by simp [hkt]⟩, by
        have : e.1 = t := by simpa using hkt
        rw [← hk, this]⟩
    · exact ⟨e, List.mem_map.mpr ⟨e, he, by simp [hkt]⟩, hk⟩
  · exact ⟨e, List.mem_append_left _ he, hk⟩

theorem exactKey_add_self (m : IMap) (t : Ty) (layer p : Nat) : exactKey (m.add t layer p) t := by
  unfold IMap.add
  split
  · rename_i hany
    obtain ⟨e, he, hk⟩ := List.any_eq_true.mp hany
    exact ⟨(t, e.2.1, e.2.2 ++ [p]), List.mem_map.mpr ⟨e, he, by simp [hk]⟩, rfl⟩
  · exact ⟨(t, layer, [p]), by simp, rfl⟩

/-- the providers listed in the table after an `add`: the old ones and `p` -/
theorem mem_add_plist {m : IMap} {t : Ty} {layer p : Nat} {e : Ty × Nat × List Nat} {q : Nat}
    (he : e ∈ m.add t layer p) (hq : q ∈ e.2.2) : (∃ e0 ∈ m, q ∈ e0.2.2) ∨ q = p := by
  unfold IMap.add at he
  split at he
  · obtain ⟨e0, he0, rfl⟩ := List.mem_map.mp he
    by_cases hk : e0.1 == t
    · simp only [hk, if_true] at hq
      rcases List.mem_append.mp hq with hq | hq
      · exact Or.inl ⟨e0, he0, hq⟩
      · simp at hq; exact Or.inr hq
    · simp only [hk] at hq
      exact Or.inl ⟨e0, he0, hq⟩
  · rcases List.mem_append.mp he with he | he
    · exact Or.inl ⟨e, he, hq⟩
    · simp at he; subst he; simp at hq; exact Or.inr hq

theorem lookup_map_setKey : ∀ (m : List (Ty × Ty)) (k v t : Ty),
    (m.map fun p => if p.1 == k then (k, v) else p).lookup t =
      if t = k then (if m.any (·.1 == k) then some v else none) else m.lookup t
  | [], k, v, t => by simp [List.lookup]
  | (a, b) :: m, k, v, t => by
    simp only [List.map_cons, List.any_cons]
    by_cases hak : a == k
    · have hak' : a = k := by simpa using hak
      subst hak'
      simp only [beq_self_eq_true, if_true, Bool.true_or]
      by_cases htk : t = a
      · subst htk; simp [List.lookup]
      · have : (t == a) = false := by simpa using htk
        simp only [List.lookup, this, htk, if_false]
        rw [lookup_map_setKey m a v t]; simp [htk]
    · have hak' : (a == k) = false := by simpa using hak
      simp only [hak', Bool.false_or]
      by_cases hta : t == a
      · have hta' : t = a := by simpa using hta
        subst hta'
        have : ¬ t = k := by intro h; subst h; simp at hak'
        simp [List.lookup, this]
      · have hta' : (t == a) = false := by simpa using hta
        simp only [Bool.false_eq_true, if_false, List.lookup, hta']
        exact lookup_map_setKey m k v t

theorem remapT_setKey_same (m : List (Ty × Ty)) (k v : Ty) : remapT (setKey m k v) k = v := by
  unfold remapT setKey
  split
  · rename_i hany
    rw [lookup_map_setKey]; simp [hany]
  · rename_i hany
    have hnone : m.lookup k = none := by
      rw [List.lookup_eq_none_iff]
      intro p hp
      rw [bne_iff_ne]
      intro hk
      apply hany
      exact List.any_eq_true.mpr ⟨p, hp, by simpa using hk.symm⟩
    rw [List.lookup_append, hnone]; simp [List.lookup]

theorem remapT_setKey_other (m : List (Ty × Ty)) (k v t : Ty) (h : t ≠ k) : remapT (setKey m k v) t = remapT m t := by
  unfold remapT setKey
  split
  · rw [lookup_map_setKey]; simp [h]
  · rw [List.lookup_append]
    cases hl : m.lookup t with
    | some x => simp
    | none =>
      have : (t == k) = false := by simpa using h
      simp [List.lookup, this]

theorem mem_appendAt_entry {m : List (Ty × List Nat)} {k : Ty} {v : Nat} {e' : Ty × List Nat} {q : Nat}
    (he : e' ∈ appendAt m k v) (hq : q ∈ e'.2) : (∃ e ∈ m, e.1 = e'.1 ∧ q ∈ e.2) ∨ (e'.1 = k ∧ q = v) := by
  unfold appendAt at he
  split at he
  · obtain ⟨e0, he0, rfl⟩ := List.mem_map.mp he
    by_cases hk : e0.1 == k
    · have hk' : e0.1 = k := by simpa using hk
      simp only [hk, if_true] at hq ⊢
      rcases List.mem_append.mp hq with hq | hq
      · exact Or.inl ⟨e0, he0, hk', hq⟩
      · simp at hq; exact Or.inr (by first | exact ⟨rfl, hq⟩ | exact ⟨trivial, hq⟩)
    · simp only [hk] at hq ⊢
      exact Or.inl ⟨e0, he0, rfl, hq⟩
  · rcases List.mem_append.mp he with he | he
    · exact Or.inl ⟨e', he, rfl, hq⟩
    · simp at he; subst he; simp at hq; exact Or.inr ⟨rfl, hq⟩

end Nject

namespace Nject

/-! ### the upward pass -/

/-- the invariant while provider `i` asks for what it receives (`requireParams … .recv`): `P` is the
    list of requested types handled so far; `R`/`V` are the (static) returned / received types by position -/
structure LI (n i : Nat) (R V : Nat → List Ty) (avail : IMap) (ch : Chain) (P : List Ty) : Prop where
  len : ch.length = n
  hc : ∀ j, (ch.get j).c.ret = R j ∧ (ch.get j).c.recv = V j
  a : ∀ d e q, e ∈ (ch.get d).usedByRet → q ∈ e.2 → i ≤ q ∧ q < d
  b : ∀ d e q, e ∈ (ch.get d).usedByRet → q ∈ e.2 → q ≠ i → (R d).contains e.1 = true → e.1 ≠ tUnused →
        e.1 ∈ V q ∧ remapT (ch.get q).upRmap e.1 = e.1
  l1 : ∀ t0 ∈ P, exactKey avail t0 → remapT (ch.get i).upRmap t0 = t0
  l2 : ∀ d e, e ∈ (ch.get d).usedByRet → i ∈ e.2 → e.1 ∈ P ∧ ((R d).contains e.1 = true → e.1 ≠ tUnused → exactKey avail e.1)
  hP : ∀ t ∈ P, t ∈ V i

/-- an update that leaves `usedByRet`, `upRmap` and `c` alone -/
theorem LI_frame {n i R V avail ch P} (h : LI n i R V avail ch P) (k : Nat) (g : IP → IP)
    (hg : ∀ f, (g f).usedByRet = f.usedByRet ∧ (g f).upRmap = f.upRmap ∧ (g f).c = f.c) : LI n i R V avail (ch.upd k g) P := by
  have hu : ∀ j, ((ch.upd k g).get j).usedByRet = (ch.get j).usedByRet ∧ ((ch.upd k g).get j).upRmap = (ch.get j).upRmap ∧
      ((ch.upd k g).get j).c = (ch.get j).c := by
    intro j
    rw [get_upd]
    split
    · rename_i hc; rw [hc.1]; exact hg _
    · exact ⟨rfl, rfl, rfl⟩
  exact
    { len := by rw [upd_length]; exact h.len
      hc := fun j => by rw [(hu j).2.2]; exact h.hc j
      a := fun d e q he hq => h.a d e q (by rw [← (hu d).1]; exact he) hq
      b := fun d e q he hq hqi hr hne => by
        rw [(hu q).2.1]; exact h.b d e q (by rw [← (hu d).1]; exact he) hq hqi hr hne
      l1 := fun t0 ht hk => by rw [(hu i).2.1]; exact h.l1 t0 ht hk
      l2 := fun d e he hi => h.l2 d e (by rw [← (hu d).1]; exact he) hi
      hP := h.hP }

/-- one dependency `d` of provider `i` for the requested type `t` (already in `P`) -/
theorem depStep_LI {n i R V avail ch P} {t : Ty} {d : Nat} (h : LI n i R V avail ch P) (hi : i < n) (hd : i < d) (hdn : d < n)
    (htP : t ∈ P) (hex : (R d).contains t = true → t ≠ tUnused → exactKey avail t) :
    LI n i R V avail (depStep .recv i t ch d) P := by
  unfold depStep
  simp only []
  -- U1
  have h1 : LI n i R V avail (ch.upd i fun f => { f with usesRecv := appendAt f.usesRecv t d, uses := f.uses ++ [d] }) P :=
    LI_frame h i _ (fun f => ⟨rfl, rfl, rfl⟩)
  -- U2: d's usedByRet gains i under key t
  let ch1 := ch.upd i fun f => { f with usesRecv := appendAt f.usesRecv t d, uses := f.uses ++ [d] }
  let g2 : IP → IP := fun g => { g with usedBy := g.usedBy ++ [i], usedByRet := appendAt g.usedByRet t i }
  have hdl : d < ch1.length := by rw [h1.len]; exact hdn
  have hget : ∀ j, (ch1.upd d g2).get j = if j = d then g2 (ch1.get d) else ch1.get j := by
    intro j; rw [get_upd]; simp [hdl]
  have h2 : LI n i R V avail (ch1.upd d g2) P :=
    { len := by rw [upd_length]; exact h1.len
      hc := fun j => by
        rw [hget]; split
        · rename_i hj; rw [← hj]; exact h1.hc j
        · exact h1.hc j
      a := fun d' e q he hq => by
        rw [hget] at he
        split at he
        · rename_i hj
          rcases mem_appendAt_entry he hq with ⟨e0, he0, _, hq0⟩ | ⟨_, hqi⟩
          · rw [hj]; exact h1.a d e0 q he0 hq0
          · rw [hqi, hj]; exact ⟨Nat.le_refl _, hd⟩
        · exact h1.a d' e q he hq
      b := fun d' e q he hq hqi hr hne => by
        have hup : ((ch1.upd d g2).get q).upRmap = (ch1.get q).upRmap := by
          rw [hget]; split
          · rename_i hj; rw [hj]
          · rfl
        rw [hup]
        rw [hget] at he
        split at he
        · rename_i hj
          rcases mem_appendAt_entry he hq with ⟨e0, he0, hk0, hq0⟩ | ⟨_, hqi'⟩
          · rw [hj] at hr
            have := h1.b d e0 q he0 hq0 hqi (by rw [hk0]; exact hr) (by rw [hk0]; exact hne)
            rw [hk0] at this; exact this
          · exact absurd hqi' hqi
        · exact h1.b d' e q he hq hqi hr hne
      l1 := fun t0 ht hk => by
        have hup : ((ch1.upd d g2).get i).upRmap = (ch1.get i).upRmap := by
          rw [hget]; split
          · rename_i hj; rw [hj]
          · rfl
        rw [hup]; exact h1.l1 t0 ht hk
      l2 := fun d' e he hie => by
        rw [hget] at he
        split at he
        · rename_i hj
          rcases mem_appendAt_entry he hie with ⟨e0, he0, hk0, hq0⟩ | ⟨hkt, _⟩
          · rw [hj]
            have := h1.l2 d e0 he0 hq0
            rw [hk0] at this; exact this
          · rw [hkt, hj]; exact ⟨htP, hex⟩
        · exact h1.l2 d' e he hie
      hP := h1.hP }
  -- U3
  show LI n i R V avail (if ((ch1.upd d g2).get d).mcRet = true
    then (ch1.upd d g2).upd i (fun f => { f with usedBy := f.usedBy ++ [d] }) else ch1.upd d g2) P
  split
  · exact LI_frame h2 i _ (fun f => ⟨rfl, rfl, rfl⟩)
  · exact h2

theorem deps_foldl_LI {n i R V avail P} {t : Ty} (hi : i < n) (htP : t ∈ P) :
    ∀ (deps : List Nat) (ch : Chain), LI n i R V avail ch P →
      (∀ d ∈ deps, i < d ∧ d < n ∧ ((R d).contains t = true → t ≠ tUnused → exactKey avail t)) →
      LI n i R V avail (deps.foldl (depStep .recv i t) ch) P
  | [], _, h, _ => h
  | d :: deps, ch, h, hd => by
    simp only [List.foldl_cons]
    have ⟨a, b, c⟩ := hd d (by simp)
    exact deps_foldl_LI hi htP deps _ (depStep_LI h hi a b htP c) (fun x hx => hd x (by simp [hx]))

/-- what the table guarantees while provider `i` is asking: it lists providers after `i` only, and
    every type such a provider returns has an exact entry -/
structure AV (n i : Nat) (R : Nat → List Ty) (avail : IMap) : Prop where
  c : ∀ e ∈ avail, ∀ p ∈ e.2.2, i < p ∧ p < n
  d : ∀ e ∈ avail, ∀ p ∈ e.2.2, ∀ t ∈ R p, t ≠ tNoType → t ≠ tUnused → exactKey avail t

theorem typeStep_LI {ti : TyInfo} {n i R V avail ch P} {t : Ty} (h : LI n i R V avail ch P) (hav : AV n i R avail) (hi : i < n)
    (htV : t ∈ V i) (htn : t ≠ tNoType) : LI n i R V avail (typeStep ti avail .recv i ch t) (P ++ [t]) := by
  have hmono : LI n i R V avail ch (P ++ [t]) → True := fun _ => trivial
  unfold typeStep
  cases hb : bestMatch ti (fun p => (ch.get p).c.loose) avail t with
  | none =>
    simp only []
    have h0 : LI n i R V avail (ch.upd i (errStep .recv t)) P := LI_frame h i _ (fun f => ⟨rfl, rfl, rfl⟩)
    -- no exact entry for t (else bestMatch would have answered)
    have hnex : ¬ exactKey avail t := by
      rintro ⟨e, he, hk⟩
      unfold bestMatch at hb
      have : avail.find? (·.1 == t) ≠ none := by
        intro hn
        have := List.find?_eq_none.mp hn e he
        simp [hk] at this
      split at hb
      · cases hb
      · rename_i hn; exact this hn
    exact { h0 with
      l1 := fun t0 ht hk => by
        rcases List.mem_append.mp ht with ht | ht
        · exact h0.l1 t0 ht hk
        · simp at ht; subst ht; exact absurd hk hnex
      l2 := fun d e he hie => ⟨List.mem_append_left _ (h0.l2 d e he hie).1, (h0.l2 d e he hie).2⟩
      hP := fun x hx => by
        rcases List.mem_append.mp hx with hx | hx
        · exact h0.hP x hx
        · simp at hx; subst hx; exact htV }
  | some r =>
    obtain ⟨found, deps⟩ := r
    simp only []
    -- the remap step
    let ch1 := ch.upd i (rmapStep .recv t found)
    have hil : i < ch.length := by rw [h.len]; exact hi
    have hget : ∀ j, ch1.get j = if j = i then rmapStep .recv t found (ch.get i) else ch.get j := by
      intro j; show (ch.upd i _).get j = _; rw [get_upd]; simp [hil]
    have hfound := bm_found hb
    have h1 : LI n i R V avail ch1 (P ++ [t]) :=
      { len := by show (ch.upd i _).length = n; rw [upd_length]; exact h.len
        hc := fun j => by
          rw [hget]; split
          · rename_i hj; rw [hj]; exact h.hc i
          · exact h.hc j
        a := fun d e q he hq => by
          rw [hget] at he; split at he
          · rename_i hj; rw [hj]; exact h.a i e q he hq
          · exact h.a d e q he hq
        b := fun d e q he hq hqi hr hne => by
          have hup : (ch1.get q).upRmap = (ch.get q).upRmap := by rw [hget]; simp [hqi]
          rw [hup]
          rw [hget] at he; split at he
          · rename_i hj; rw [hj] at hr; exact h.b i e q he hq hqi hr hne
          · exact h.b d e q he hq hqi hr hne
        l1 := fun t0 ht hk => by
          have hup : (ch1.get i).upRmap = setKey (ch.get i).upRmap t found := by rw [hget]; simp [rmapStep]
          rw [hup]
          by_cases ht0 : t0 = t
          · subst ht0
            rcases hfound with hf | hf
            · rw [hf]; exact remapT_setKey_same _ _ _
            · exact absurd hk hf
          · rw [remapT_setKey_other _ _ _ _ ht0]
            rcases List.mem_append.mp ht with ht | ht
            · exact h.l1 t0 ht hk
            · simp at ht; exact absurd ht ht0
        l2 := fun d e he hie => by
          rw [hget] at he; split at he
          · rename_i hj; rw [hj]; exact ⟨List.mem_append_left _ (h.l2 i e he hie).1, (h.l2 i e he hie).2⟩
          · exact ⟨List.mem_append_left _ (h.l2 d e he hie).1, (h.l2 d e he hie).2⟩
        hP := fun x hx => by
          rcases List.mem_append.mp hx with hx | hx
          · exact h.hP x hx
          · simp at hx; subst hx; exact htV }
    apply deps_foldl_LI hi (List.mem_append_right _ (by simp)) deps _ h1
    intro d hd
    obtain ⟨e, he, hde⟩ := bm_deps_mem hb d hd
    have ⟨hid, hdn⟩ := hav.c e he d hde
    refine ⟨hid, hdn, fun hr hne => ?_⟩
    exact hav.d e he d hde t (by simpa using hr) htn hne

theorem types_foldl_LI {ti : TyInfo} {n i R V avail} (hav : AV n i R avail) (hi : i < n) :
    ∀ (l : List Ty) (ch : Chain) (P : List Ty), LI n i R V avail ch P → (∀ t ∈ l, t ∈ V i ∧ t ≠ tNoType) →
      ∃ P', LI n i R V avail (l.foldl (typeStep ti avail .recv i) ch) P'
  | [], ch, P, h, _ => ⟨P, h⟩
  | t :: l, ch, P, h, hl => by
    simp only [List.foldl_cons]
    have ⟨a, b⟩ := hl t (by simp)
    exact types_foldl_LI hav hi l _ _ (typeStep_LI h hav hi a b) (fun x hx => hl x (by simp [hx]))

end Nject

namespace Nject

/-- the invariant of the upward pass between providers: every provider at a position `≥ lo` has asked -/
structure UI (n lo : Nat) (R V : Nat → List Ty) (avail : IMap) (ch : Chain) : Prop where
  len : ch.length = n
  hc : ∀ j, (ch.get j).c.ret = R j ∧ (ch.get j).c.recv = V j
  a : ∀ d e q, e ∈ (ch.get d).usedByRet → q ∈ e.2 → lo ≤ q ∧ q < d
  b : ∀ d e q, e ∈ (ch.get d).usedByRet → q ∈ e.2 → (R d).contains e.1 = true → e.1 ≠ tUnused →
        e.1 ∈ V q ∧ remapT (ch.get q).upRmap e.1 = e.1
  c : ∀ e ∈ avail, ∀ p ∈ e.2.2, lo ≤ p ∧ p < n
  dd : ∀ e ∈ avail, ∀ p ∈ e.2.2, ∀ t ∈ R p, t ≠ tNoType → t ≠ tUnused → exactKey avail t

theorem UI_weaken {n lo R V avail ch} (h : UI n (lo + 1) R V avail ch) : UI n lo R V avail ch :=
  { h with a := fun d e q he hq => ⟨Nat.le_of_succ_le (h.a d e q he hq).1, (h.a d e q he hq).2⟩
           c := fun e he p hp => ⟨Nat.le_of_succ_le (h.c e he p hp).1, (h.c e he p hp).2⟩ }

theorem requireParams_UI {ti : TyInfo} {n i R V avail ch} (h : UI n (i + 1) R V avail ch) (hi : i < n) :
    UI n i R V avail (requireParams ti ch i avail .recv) := by
  rw [requireParams_eq]
  have hav : AV n i R avail := ⟨fun e he p hp => ⟨(h.c e he p hp).1, (h.c e he p hp).2⟩, h.dd⟩
  have h0 : LI n i R V avail ch [] :=
    { len := h.len, hc := h.hc
      a := fun d e q he hq => ⟨Nat.le_of_succ_le (h.a d e q he hq).1, (h.a d e q he hq).2⟩
      b := fun d e q he hq _ hr hne => h.b d e q he hq hr hne
      l1 := fun t0 ht _ => by cases ht
      l2 := fun d e he hie => by have := (h.a d e i he hie).1; omega
      hP := fun t ht => by cases ht }
  have h1 : LI n i R V avail (ch.upd i (resetStep .recv)) [] := LI_frame h0 i _ (fun f => ⟨rfl, rfl, rfl⟩)
  have hfl : ∀ t ∈ (flowOfParam (ch.get i) .recv).filter (· != tNoType), t ∈ V i ∧ t ≠ tNoType := by
    intro t ht
    have := List.mem_filter.mp ht
    refine ⟨?_, by simpa using this.2⟩
    have hv := (h.hc i).2
    unfold flowOfParam at this
    rw [← hv]; exact this.1
  obtain ⟨P', h2⟩ := types_foldl_LI (ti := ti) hav hi _ _ _ h1 hfl
  exact
    { len := h2.len, hc := h2.hc, a := h2.a
      b := fun d e q he hq hr hne => by
        by_cases hqi : q = i
        · subst hqi
          have ⟨hp, hex⟩ := h2.l2 d e he hq
          exact ⟨h2.hP _ hp, h2.l1 _ hp (hex hr hne)⟩
        · exact h2.b d e q he hq hqi hr hne
      c := fun e he p hp => ⟨Nat.le_of_succ_le (h.c e he p hp).1, (h.c e he p hp).2⟩
      dd := h.dd }

theorem adds_foldl_spec (layer i : Nat) : ∀ (l : List Ty) (m : IMap),
    (∀ e ∈ l.foldl (fun m t => m.add t layer i) m, ∀ p ∈ e.2.2, (∃ e0 ∈ m, p ∈ e0.2.2) ∨ p = i) ∧
    (∀ t, exactKey m t → exactKey (l.foldl (fun m t => m.add t layer i) m) t) ∧
    (∀ t ∈ l, exactKey (l.foldl (fun m t => m.add t layer i) m) t)
  | [], m => ⟨fun e he p hp => Or.inl ⟨e, he, hp⟩, fun _ h => h, fun _ h => by cases h⟩
  | t :: l, m => by
    simp only [List.foldl_cons]
    have ⟨r1, r2, r3⟩ := adds_foldl_spec layer i l (m.add t layer i)
    refine ⟨?_, ?_, ?_⟩
    · intro e he p hp
      rcases r1 e he p hp with ⟨e0, he0, hp0⟩ | hpi
      · exact mem_add_plist he0 hp0
      · exact Or.inr hpi
    · intro t' ht'; exact r2 t' (exactKey_add layer i ht')
    · intro t' ht'
      rcases List.mem_cons.mp ht' with rfl | ht'
      · exact r2 _ (exactKey_add_self m _ layer i)
      · exact r3 t' ht'

theorem provideParams_UI {n i R V avail ch} (layer : Nat) (h : UI n i R V avail ch) (hi : i < n) :
    UI n i R V (provideParams ch i avail false layer).2 (provideParams ch i avail false layer).1 := by
  unfold provideParams
  simp only [Bool.false_eq_true, if_false]
  have hil : i < ch.length := by rw [h.len]; exact hi
  have hget : ∀ j, (ch.upd i fun f => { f with usedByRet := [] }).get j = if j = i then { (ch.get i) with usedByRet := [] } else ch.get j := by
    intro j; rw [get_upd]; simp [hil]
  have ⟨s1, s2, s3⟩ := adds_foldl_spec layer i
    ((ch.get i).c.ret.filter (fun t => t != tNoType && (t != tUnused || (ch.get i).c.synthetic))) avail
  exact
    { len := by rw [upd_length]; exact h.len
      hc := fun j => by
        rw [hget]; split
        · rename_i hj; rw [hj]; exact h.hc i
        · exact h.hc j
      a := fun d e q he hq => by
        rw [hget] at he; split at he
        · cases he
        · exact h.a d e q he hq
      b := fun d e q he hq hr hne => by
        have hup : ((ch.upd i fun f => { f with usedByRet := [] }).get q).upRmap = (ch.get q).upRmap := by
          rw [hget]; split
          · rename_i hj; rw [hj]
          · rfl
        rw [hup]
        rw [hget] at he; split at he
        · cases he
        · exact h.b d e q he hq hr hne
      c := fun e he p hp => by
        rcases s1 e he p hp with ⟨e0, he0, hp0⟩ | hpi
        · exact h.c e0 he0 p hp0
        · rw [hpi]; exact ⟨Nat.le_refl _, hi⟩
      dd := fun e he p hp t ht hn hne => by
        rcases s1 e he p hp with ⟨e0, he0, hp0⟩ | hpi
        · exact s2 t (h.dd e0 he0 p hp0 t ht hn hne)
        · apply s3
          rw [hpi] at ht
          rw [(h.hc i).1]
          exact List.mem_filter.mpr ⟨ht, by simp [hn, hne]⟩ }

theorem upStep_UI {ti : TyInfo} {n m i R V} {acc : Chain × IMap} (h : UI n (i + 1) R V acc.2 acc.1) (hi : i < n) :
    UI n i R V (upStep ti m acc i).2 (upStep ti m acc i).1 := by
  obtain ⟨ch, avail⟩ := acc
  unfold upStep
  simp only []
  split
  · exact UI_weaken h
  · exact provideParams_UI _ (requireParams_UI (ti := ti) h hi) hi

theorem up_foldl_UI {ti : TyInfo} {n m R V} : ∀ (k : Nat), k ≤ n → ∀ (acc : Chain × IMap), UI n k R V acc.2 acc.1 →
    UI n 0 R V ((List.range k).reverse.foldl (upStep ti m) acc).2 ((List.range k).reverse.foldl (upStep ti m) acc).1
  | 0, _, acc, h => by simpa using h
  | k + 1, hk, acc, h => by
    rw [List.range_succ, List.reverse_append]
    simp only [List.reverse_cons, List.reverse_nil, List.nil_append, List.singleton_append, List.foldl_cons]
    exact up_foldl_UI k (by omega) _ (upStep_UI h (by omega))

/-- **where recorded consumers come from**: after `providesReturns`, whoever is listed as consumer of
    a type that `d` returns is listed before `d` and does receive that type -/
theorem providesReturns_prov (ti : TyInfo) (ch : Chain) (initPos : Option Nat) (hip : ∀ ip, initPos = some ip → ip < ch.length) :
    ∀ d e q, e ∈ ((providesReturns ti ch initPos).get d).usedByRet → q ∈ e.2 →
      q < d ∧ (((providesReturns ti ch initPos).get d).c.ret.contains e.1 = true → e.1 ≠ tUnused →
        ((providesReturns ti ch initPos).get q).recvTypes.contains e.1 = true) := by
  have hsf := providesReturns_SF ti ch initPos
  rw [providesReturns_eq] at hsf ⊢
  -- after the downward pass
  have hd0 : NoRet (ch.map resetDeps) := by
    intro j
    by_cases hj : j < ch.length
    · have : Chain.get (ch.map resetDeps) j = resetDeps (ch.get j) := by
        simp [Chain.get, List.getD, List.getElem?_map, List.getElem?_eq_getElem hj]
      rw [this]; rfl
    · rw [get_default_of_ge _ j (by simpa using hj)]; rfl
  have hd1 := foldl_noRet ti initPos (List.range ch.length) (ch.map resetDeps, ([] : IMap)) hd0
  have sfd : SF ch ((List.range ch.length).foldl (downStep ti initPos) (ch.map resetDeps, ([] : IMap))).1 :=
    SF_trans (SF_map ch resetDeps (fun f => ⟨rfl, rfl, rfl, rfl⟩))
      (foldl_SF_pair (downStep ti initPos) (fun acc i => downStep_SF ti initPos acc i) (List.range ch.length) _)
  have u0 : UI ch.length ch.length (fun j => (ch.get j).c.ret) (fun j => (ch.get j).c.recv) ([] : IMap)
      ((List.range ch.length).foldl (downStep ti initPos) (ch.map resetDeps, ([] : IMap))).1 :=
    { len := sfd.1
      hc := fun j => by rw [(sfd.2 j).2.2.1]; exact ⟨rfl, rfl⟩
      a := fun d e q he _ => by rw [hd1 d] at he; cases he
      b := fun d e q he _ _ _ => by rw [hd1 d] at he; cases he
      c := fun e he => by cases he
      dd := fun e he => by cases he }
  have u1 := up_foldl_UI (ti := ti) (m := ch.length) ch.length (Nat.le_refl _)
    (((List.range ch.length).foldl (downStep ti initPos) (ch.map resetDeps, ([] : IMap))).1, ([] : IMap)) u0
  intro d e q he hq
  refine ⟨(u1.a d e q he hq).2, fun hr hne => ?_⟩
  have hrd : (((List.range ch.length).reverse.foldl (upStep ti ch.length)
      (((List.range ch.length).foldl (downStep ti initPos) (ch.map resetDeps, ([] : IMap))).1, ([] : IMap))).1.get d).c.ret
      = (ch.get d).c.ret := (u1.hc d).1
  rw [hrd] at hr
  have ⟨hv, hm⟩ := u1.b d e q he hq hr hne
  unfold IP.recvTypes
  rw [List.contains_iff_mem]
  rw [(u1.hc q).2]
  exact List.mem_map.mpr ⟨e.1, hv, hm⟩

end Nject

namespace Nject

/-- the chain handed to the final validation satisfies `provOKB`, for every provider list -/
theorem inclusionBeforeFinal_provOK (ti : TyInfo) (funcs : List CP) (cannot0 : List Nat) (pre : Chain)
    (h : inclusionBeforeFinal ti funcs cannot0 = .ok pre) : provOKB pre = true := by
  have hst := inclusionBeforeFinal_static ti funcs cannot0 pre h
  have hprov : ∀ d e q, e ∈ (pre.get d).usedByRet → q ∈ e.2 →
      q < d ∧ ((pre.get d).c.ret.contains e.1 = true → e.1 ≠ tUnused → (pre.get q).recvTypes.contains e.1 = true) := by
    unfold inclusionBeforeFinal at h
    split at h
    · cases h
    · rename_i ch1 hv
      injection h with h
      subst h
      apply providesReturns_prov
      intro ip hip
      rw [pruneStages_length, firstValidation_length ti funcs cannot0 ch1 hv]
      exact initPos_lt funcs ip hip
  unfold provOKB
  rw [List.all_eq_true]
  intro i hi
  have hi' : i < pre.length := by simpa using hi
  have ⟨hp, hm⟩ := hst.2 i hi'
  simp only [Bool.and_eq_true, beq_iff_eq, List.all_eq_true, Bool.or_eq_true, Bool.not_eq_true', decide_eq_true_eq]
  refine ⟨⟨hp, hm⟩, fun e he => ?_⟩
  cases hc : (pre.get i).c.ret.contains e.1 with
  | false => exact Or.inl (Or.inl rfl)
  | true =>
    by_cases hne : e.1 = tUnused
    · exact Or.inl (Or.inr hne)
    · right
      intro q hq
      have ⟨a, b⟩ := hprov i e q he hq
      exact ⟨a, b hc hne⟩

end Nject
