import Nject.WF
/-
  Slot-array lemmas: how `rdIns`, `wrOuts`, `zeroSlots`, `copySlots` act, seen through a
  slot map `f : Ty → Option Nat`, relative to an environment.
-/
namespace Nject

/-- what a parameter of type `t` mapped to slot `i` observes -/
def obs (v : VC) (i : Nat) (t : Ty) : Val := (v.getD i none).getD (zeroV t)

/-- the array `v` represents environment `e` on every type that `f` gives a slot -/
def Rel (f : Ty → Option Nat) (v : VC) (e : Env) : Prop :=
  ∀ t i, f t = some i → obs v i t = e.rd t

def Inj (f : Ty → Option Nat) : Prop := ∀ t1 t2 i, f t1 = some i → f t2 = some i → t1 = t2
def Disj (f g : Ty → Option Nat) : Prop := ∀ t1 t2 i, f t1 = some i → g t2 = some i → False
def Below (f : Ty → Option Nat) (n : Nat) : Prop := ∀ t i, f t = some i → i < n

theorem obs_set_same (v : VC) (i : Nat) (x : Val) (t : Ty) (h : i < v.length) :
    obs (v.set i (some x)) i t = x := by
  simp [obs, h]

theorem obs_set_same' (v : VC) (i : Nat) (x : Option Val) (t : Ty) (h : i < v.length) :
    obs (v.set i x) i t = x.getD (zeroV t) := by
  simp [obs, h]

theorem obs_set_other (v : VC) (i j : Nat) (x : Option Val) (t : Ty) (h : i ≠ j) :
    obs (v.set i x) j t = obs v j t := by
  simp [obs, h]

@[simp] theorem rd_set1_same (e : Env) (t : Ty) (x : Val) : (e.set1 t x).rd t = x := by
  simp [Env.rd, Env.set1]

theorem rd_set1_other (e : Env) (t t' : Ty) (x : Val) (h : t' ≠ t) : (e.set1 t x).rd t' = e.rd t' := by
  simp [Env.rd, Env.set1, h]

/-! ### reads -/

theorem rdIns_eq (f : Ty → Option Nat) (v : VC) (e : Env) (h : Rel f v e) :
    ∀ ts : List Ty, (∀ t ∈ ts, (f t).isSome) → rdIns f v ts = some (ts.map e.rd)
  | [], _ => rfl
  | t :: ts, hs => by
    have ht : (f t).isSome := hs t (by simp)
    obtain ⟨i, hi⟩ := Option.isSome_iff_exists.mp ht
    have ih := rdIns_eq f v e h ts (fun t' ht' => hs t' (by simp [ht']))
    have := h t i hi
    simp only [obs] at this
    simp only [rdIns, hi, ih, this, List.map]

/-! ### writes -/

theorem wrOuts_length (f : Ty → Option Nat) : ∀ (ts : List Ty) (xs : List Val) (v : VC),
    (wrOuts f v ts xs).length = v.length
  | [], _, v => by simp [wrOuts]
  | _ :: _, [], v => by simp [wrOuts]
  | t :: ts, x :: xs, v => by
    unfold wrOuts
    cases hf : f t with
    | none => simpa using wrOuts_length f ts xs v
    | some i => simpa using wrOuts_length f ts xs (v.set i (some x))

theorem rel_set1 (f : Ty → Option Nat) (hinj : Inj f) (v : VC) (e : Env) (t : Ty) (i : Nat) (x : Val)
    (hf : f t = some i) (hlt : i < v.length) (h : Rel f v e) :
    Rel f (v.set i (some x)) (e.set1 t x) := by
  intro t2 j hj
  by_cases hij : i = j
  · subst hij
    have : t2 = t := hinj t2 t i hj hf
    subst this
    simp [obs_set_same v i x t2 hlt]
  · have hne : t2 ≠ t := by
      intro heq; subst heq; rw [hf] at hj; exact hij (Option.some.inj hj)
    rw [obs_set_other v i j (some x) t2 hij, rd_set1_other e t t2 x hne]
    exact h t2 j hj

theorem rel_set1_noslot (f : Ty → Option Nat) (v : VC) (e : Env) (t : Ty) (x : Val)
    (hf : f t = none) (h : Rel f v e) : Rel f v (e.set1 t x) := by
  intro t2 j hj
  have hne : t2 ≠ t := by
    intro heq; subst heq; rw [hf] at hj; cases hj
  rw [rd_set1_other e t t2 x hne]
  exact h t2 j hj

/-- writing through the map `f` tracks `Env.set` -/
theorem wrOuts_rel (f : Ty → Option Nat) (hinj : Inj f) (n : Nat) (hb : Below f n) :
    ∀ (ts : List Ty) (xs : List Val) (v : VC) (e : Env), v.length = n → Rel f v e →
      Rel f (wrOuts f v ts xs) (e.set ts xs)
  | [], _, v, e, _, h => by simpa [wrOuts, Env.set] using h
  | _ :: _, [], v, e, _, h => by simpa [wrOuts, Env.set] using h
  | t :: ts, x :: xs, v, e, hl, h => by
    unfold wrOuts
    simp only [Env.set]
    cases hf : f t with
    | none =>
      exact wrOuts_rel f hinj n hb ts xs v (e.set1 t x) hl (rel_set1_noslot f v e t x hf h)
    | some i =>
      have hlt : i < v.length := by rw [hl]; exact hb t i hf
      exact wrOuts_rel f hinj n hb ts xs (v.set i (some x)) (e.set1 t x) (by simpa using hl)
        (rel_set1 f hinj v e t i x hf hlt h)

/-- writing through `f` does not disturb what another, disjoint map `g` sees -/
theorem wrOuts_rel_other (f g : Ty → Option Nat) (hd : Disj f g) :
    ∀ (ts : List Ty) (xs : List Val) (v : VC) (e : Env), Rel g v e → Rel g (wrOuts f v ts xs) e
  | [], _, v, e, h => by simpa [wrOuts] using h
  | _ :: _, [], v, e, h => by simpa [wrOuts] using h
  | t :: ts, x :: xs, v, e, h => by
    unfold wrOuts
    cases hf : f t with
    | none => exact wrOuts_rel_other f g hd ts xs v e h
    | some i =>
      refine wrOuts_rel_other f g hd ts xs (v.set i (some x)) e ?_
      intro t2 j hj
      have hij : i ≠ j := by
        intro heq; subst heq; exact hd t t2 i hf hj
      rw [obs_set_other v i j (some x) t2 hij]
      exact h t2 j hj

/-! ### zeroing -/

theorem zeroSlots_length (f : Ty → Option Nat) : ∀ (ts : List Ty) (v : VC),
    (zeroSlots f v ts).length = v.length
  | [], v => by simp [zeroSlots]
  | t :: ts, v => by
    unfold zeroSlots
    cases hf : f t with
    | none => simpa using zeroSlots_length f ts v
    | some i => simpa using zeroSlots_length f ts (v.set i (some (zeroV t)))

/-- zeroing keeps a clean array clean -/
theorem zeroSlots_clean (f : Ty → Option Nat) (hinj : Inj f) :
    ∀ (ts : List Ty) (v : VC), Rel f v Env.empty → Rel f (zeroSlots f v ts) Env.empty
  | [], v, h => by simpa [zeroSlots] using h
  | t :: ts, v, h => by
    unfold zeroSlots
    cases hf : f t with
    | none => exact zeroSlots_clean f hinj ts v h
    | some i =>
      refine zeroSlots_clean f hinj ts (v.set i (some (zeroV t))) ?_
      intro t2 j hj
      by_cases hij : i = j
      · subst hij
        have : t2 = t := hinj t2 t i hj hf
        subst this
        by_cases hlt : i < v.length
        · rw [obs_set_same v i (zeroV t2) t2 hlt]; simp [Env.rd, Env.empty]
        · have : v.set i (some (zeroV t2)) = v := by
            apply List.set_eq_of_length_le; omega
          rw [this]; exact h t2 i hj
      · rw [obs_set_other v i j _ t2 hij]; exact h t2 j hj

/-- zeroing through a disjoint map is invisible -/
theorem zeroSlots_rel_other (f g : Ty → Option Nat) (hd : Disj f g) :
    ∀ (ts : List Ty) (v : VC) (e : Env), Rel g v e → Rel g (zeroSlots f v ts) e
  | [], v, e, h => by simpa [zeroSlots] using h
  | t :: ts, v, e, h => by
    unfold zeroSlots
    cases hf : f t with
    | none => exact zeroSlots_rel_other f g hd ts v e h
    | some i =>
      refine zeroSlots_rel_other f g hd ts (v.set i (some (zeroV t))) e ?_
      intro t2 j hj
      have hij : i ≠ j := by
        intro heq; subst heq; exact hd t t2 i hf hj
      rw [obs_set_other v i j _ t2 hij]
      exact h t2 j hj

/-! ### copying slots back -/

theorem copySlots_length (f : Ty → Option Nat) (src : VC) : ∀ (ts : List Ty) (dst : VC),
    (copySlots f src dst ts).length = dst.length
  | [], dst => by simp [copySlots]
  | t :: ts, dst => by
    unfold copySlots
    cases hf : f t with
    | none => simpa using copySlots_length f src ts dst
    | some i => simpa using copySlots_length f src ts (dst.set i (src.getD i none))

/-- after copying the slots of `ts` from `src`: a slotted type in `ts` shows `src`'s value, any other
    slotted type still shows `dst`'s -/
theorem copySlots_obs (f : Ty → Option Nat) (hinj : Inj f) (src : VC) :
    ∀ (ts : List Ty) (dst : VC) (t : Ty) (i : Nat), f t = some i → i < dst.length →
      obs (copySlots f src dst ts) i t = if t ∈ ts then obs src i t else obs dst i t
  | [], dst, t, i, _, _ => by simp [copySlots]
  | t0 :: ts, dst, t, i, hf, hlt => by
    unfold copySlots
    cases hf0 : f t0 with
    | none =>
      have hne : t ≠ t0 := by intro h; subst h; rw [hf0] at hf; cases hf
      rw [copySlots_obs f hinj src ts dst t i hf hlt]
      simp [hne]
    | some i0 =>
      have hlen : i < (dst.set i0 (src.getD i0 none)).length := by simpa using hlt
      rw [copySlots_obs f hinj src ts (dst.set i0 (src.getD i0 none)) t i hf hlen]
      by_cases hmem : t ∈ ts
      · simp [hmem]
      · by_cases heq : t = t0
        · subst heq
          have : i0 = i := by rw [hf0] at hf; exact Option.some.inj hf
          subst this
          rw [obs_set_same' dst i0 _ t hlt]
          simp [hmem, obs]
        · have hij : i0 ≠ i := by
            intro h; subst h; exact heq (hinj t t0 i0 hf hf0)
          simp [hmem, heq, obs_set_other dst i0 i _ t hij]

end Nject
