import NjectProofs.ReorderProofs
/-
  What `buildGraph` (reorder.go:151-215) records for a provider's inputs: for every input type that
  the matching table resolves to `t`, the type `t` has a pseudo node and the provider is strongly
  constrained to come after it.  Type nodes are numbered apart (each number names one type, and the
  downward and upward tables do not share numbers), so a provider that releases the node of `t`
  does output `t`.
-/
namespace Nject

theorem lookup_append_some {l : List (Ty × Nat)} {t : Ty} {num : Nat} (e : Ty × Nat) (h : l.lookup t = some num) :
    (l ++ [e]).lookup t = some num := by
  induction l with
  | nil => simp [List.lookup] at h
  | cons a l ih =>
    obtain ⟨k, v⟩ := a
    simp only [List.cons_append, List.lookup]
    by_cases hk : t == k
    · simp only [List.lookup, hk] at h ⊢; exact h
    · have hk' : (t == k) = false := by simpa using hk
      simp only [List.lookup, hk'] at h ⊢; exact ih h

theorem lookup_append_none {l : List (Ty × Nat)} {t : Ty} (c : Nat) (h : l.lookup t = none) :
    (l ++ [(t, c)]).lookup t = some c := by
  induction l with
  | nil => simp [List.lookup]
  | cons a l ih =>
    obtain ⟨k, v⟩ := a
    simp only [List.cons_append, List.lookup]
    by_cases hk : t == k
    · simp only [List.lookup, hk] at h; cases h
    · have hk' : (t == k) = false := by simpa using hk
      simp only [List.lookup, hk'] at h ⊢; exact ih h

/-- type nodes are numbered apart -/
structure NodesOK (g : RGraph) : Prop where
  dlt : ∀ e ∈ g.downTypes, e.2 < g.counter
  ult : ∀ e ∈ g.upTypes, e.2 < g.counter
  dinj : ∀ e1 ∈ g.downTypes, ∀ e2 ∈ g.downTypes, e1.2 = e2.2 → e1 = e2
  dudisj : ∀ e1 ∈ g.downTypes, ∀ e2 ∈ g.upTypes, e1.2 ≠ e2.2

/-- strong pairs are kept, successful lookups in the downward table are kept -/
def GM (g g' : RGraph) : Prop :=
  (∀ p ∈ g.strong, p ∈ g'.strong) ∧ (∀ t num, g.downTypes.lookup t = some num → g'.downTypes.lookup t = some num)

def Good (g g' : RGraph) : Prop := NodesOK g → NodesOK g' ∧ GM g g'

theorem GM.refl (g : RGraph) : GM g g := ⟨fun _ h => h, fun _ _ h => h⟩
theorem GM.trans {a b c : RGraph} (h1 : GM a b) (h2 : GM b c) : GM a c :=
  ⟨fun p hp => h2.1 p (h1.1 p hp), fun t n h => h2.2 t n (h1.2 t n h)⟩
theorem Good.refl (g : RGraph) : Good g g := fun h => ⟨h, GM.refl g⟩
theorem Good.trans {a b c : RGraph} (h1 : Good a b) (h2 : Good b c) : Good a c :=
  fun h => ⟨(h2 (h1 h).1).1, (h1 h).2.trans (h2 (h1 h).1).2⟩

theorem foldl_good {α} (f : RGraph → α → RGraph) (hf : ∀ g a, Good g (f g a)) : ∀ (l : List α) (g : RGraph), Good g (l.foldl f g)
  | [], g => Good.refl g
  | a :: l, g => (hf g a).trans (foldl_good f hf l (f g a))

theorem after_good (g : RGraph) (b : Bool) (i : Nat) (j : Option Nat) : Good g (g.after b i j) := by
  intro h
  unfold RGraph.after
  cases j with
  | none => exact ⟨h, GM.refl g⟩
  | some j =>
    cases b with
    | true => exact ⟨⟨h.dlt, h.ult, h.dinj, h.dudisj⟩, fun p hp => by simp [hp], fun _ _ hl => hl⟩
    | false => exact ⟨⟨h.dlt, h.ult, h.dinj, h.dudisj⟩, fun p hp => hp, fun _ _ hl => hl⟩

theorem after_strong_mem (g : RGraph) (i j : Nat) : (i, j) ∈ (g.after true i (some j)).strong := by
  unfold RGraph.after; simp

/-- the first half of `downType`: the node of `t` exists afterwards and `i` is constrained to follow it -/
theorem downType_head (g : RGraph) (i : Nat) (t : Ty) (h : NodesOK g) :
    let g1 := match g.downTypes.lookup t with
      | some num => g.after true i (some num)
      | none => { (g.after true i (some g.counter)) with downTypes := g.downTypes ++ [(t, g.counter)], counter := g.counter + 1 }
    NodesOK g1 ∧ GM g g1 ∧ ∃ num, g1.downTypes.lookup t = some num ∧ (i, num) ∈ g1.strong := by
  cases hl : g.downTypes.lookup t with
  | some num =>
    simp only []
    have ⟨a, b⟩ := after_good g true i (some num) h
    exact ⟨a, b, num, by unfold RGraph.after; exact hl, after_strong_mem g i num⟩
  | none =>
    simp only []
    refine ⟨?_, ?_, g.counter, ?_, ?_⟩
    · refine ⟨?_, ?_, ?_, ?_⟩
      · intro e he
        show e.2 < g.counter + 1
        have he' : e ∈ g.downTypes ++ [(t, g.counter)] := he
        rcases List.mem_append.mp he' with he' | he'
        · exact Nat.lt_succ_of_lt (h.dlt e he')
        · simp at he'; subst he'; exact Nat.lt_succ_self _
      · intro e he
        show e.2 < g.counter + 1
        have he' : e ∈ g.upTypes := by unfold RGraph.after at he; exact he
        exact Nat.lt_succ_of_lt (h.ult e he')
      · intro e1 he1 e2 he2 heq
        have h1 : e1 ∈ g.downTypes ++ [(t, g.counter)] := he1
        have h2 : e2 ∈ g.downTypes ++ [(t, g.counter)] := he2
        rcases List.mem_append.mp h1 with h1 | h1 <;> rcases List.mem_append.mp h2 with h2 | h2
        · exact h.dinj e1 h1 e2 h2 heq
        · simp at h2; subst h2; have := h.dlt e1 h1; simp at heq; omega
        · simp at h1; subst h1; have := h.dlt e2 h2; simp at heq; omega
        · simp at h1 h2; rw [h1, h2]
      · intro e1 he1 e2 he2
        have h1 : e1 ∈ g.downTypes ++ [(t, g.counter)] := he1
        have h2 : e2 ∈ g.upTypes := by unfold RGraph.after at he2; exact he2
        rcases List.mem_append.mp h1 with h1 | h1
        · exact h.dudisj e1 h1 e2 h2
        · simp at h1; subst h1; have := h.ult e2 h2; simp; omega
    · refine ⟨fun p hp => ?_, fun t' num hl' => ?_⟩
      · show p ∈ (g.after true i (some g.counter)).strong
        unfold RGraph.after; simp [hp]
      · show (g.downTypes ++ [(t, g.counter)]).lookup t' = some num
        exact lookup_append_some _ hl'
    · show (g.downTypes ++ [(t, g.counter)]).lookup t = some g.counter
      exact lookup_append_none _ hl
    · show (i, g.counter) ∈ (g.after true i (some g.counter)).strong
      exact after_strong_mem g i g.counter

theorem downType_good (funcs : List CP) (i : Nat) (t : Ty) (g : RGraph) :
    Good g (g.downType funcs i t) ∧
    (NodesOK g → ∃ num, (g.downType funcs i t).downTypes.lookup t = some num ∧ (i, num) ∈ (g.downType funcs i t).strong) := by
  unfold RGraph.downType
  have tail := fun g0 => foldl_good (fun g j => g.after false i (some j)) (fun g j => after_good g false i (some j)) (provByNotReq funcs t) g0
  constructor
  · intro h
    have ⟨a, b, _⟩ := downType_head g i t h
    have ⟨c, d⟩ := tail _ a
    exact ⟨c, b.trans d⟩
  · intro h
    have ⟨a, _, num, hl, hs⟩ := downType_head g i t h
    have ⟨_, d⟩ := tail _ a
    exact ⟨num, d.2 t num hl, d.1 _ hs⟩

theorem upType_good (funcs : List CP) (i : Nat) (t : Ty) (co : Bool) (g : RGraph) : Good g (g.upType funcs i t co) := by
  unfold RGraph.upType
  refine Good.trans ?_ (foldl_good _ (fun g j => after_good g false i (some j)) _ _)
  intro h
  cases hl : g.upTypes.lookup t with
  | some num => simp only []; exact after_good g (!co) i (some num) h
  | none =>
    simp only []
    have ⟨_, b⟩ := after_good g (!co) i (some g.counter) h
    have hdt : (g.after (!co) i (some g.counter)).downTypes = g.downTypes := by unfold RGraph.after; cases co <;> rfl
    have hut : (g.after (!co) i (some g.counter)).upTypes = g.upTypes := by unfold RGraph.after; cases co <;> rfl
    refine ⟨⟨?_, ?_, ?_, ?_⟩, ?_⟩
    · intro e he
      show e.2 < g.counter + 1
      have he' : e ∈ g.downTypes := by rw [← hdt]; exact he
      exact Nat.lt_succ_of_lt (h.dlt e he')
    · intro e he
      show e.2 < g.counter + 1
      have he' : e ∈ g.upTypes ++ [(t, g.counter)] := he
      rcases List.mem_append.mp he' with he' | he'
      · exact Nat.lt_succ_of_lt (h.ult e he')
      · simp at he'; subst he'; exact Nat.lt_succ_self _
    · intro e1 he1 e2 he2 heq
      have h1 : e1 ∈ g.downTypes := by rw [← hdt]; exact he1
      have h2 : e2 ∈ g.downTypes := by rw [← hdt]; exact he2
      exact h.dinj e1 h1 e2 h2 heq
    · intro e1 he1 e2 he2
      have h1 : e1 ∈ g.downTypes := by rw [← hdt]; exact he1
      have h2 : e2 ∈ g.upTypes ++ [(t, g.counter)] := he2
      rcases List.mem_append.mp h2 with h2 | h2
      · exact h.dudisj e1 h1 e2 h2
      · simp at h2; subst h2; have := h.dlt e1 h1; simp; omega
    · exact ⟨fun p hp => b.1 p hp, fun t' num hl' => by
        show (g.after (!co) i (some g.counter)).downTypes.lookup t' = some num
        rw [hdt]; exact hl'⟩

/-- what one provider contributes -/
theorem addProvider_good (ti : TyInfo) (funcs : List CP) (aDown aUp : IMap) (lastStatic finalFunc : Option Nat) (g : RGraph) (i : Nat) (fm : CP) :
    Good g (g.addProvider ti funcs aDown aUp lastStatic finalFunc i fm) ∧
    (NodesOK g → ∀ tRaw ∈ noNoType fm.inp, ∀ t deps, bestMatch ti (fun p => (funcs.getD p default).loose) aDown tRaw = some (t, deps) →
      ∃ num, (g.addProvider ti funcs aDown aUp lastStatic finalFunc i fm).downTypes.lookup t = some num ∧
        (i, num) ∈ (g.addProvider ti funcs aDown aUp lastStatic finalFunc i fm).strong) := by
  unfold RGraph.addProvider
  let g1 := if fm.reorder && fm.group == .runGroup then g.after true i lastStatic else g
  have s1 : Good g g1 := by
    show Good g (if fm.reorder && fm.group == .runGroup then g.after true i lastStatic else g)
    split
    · exact after_good g true i lastStatic
    · exact Good.refl g
  let g2 := if fm.reorder && some i != finalFunc then
      (match finalFunc with | some ff => g1.after false ff (some i) | none => g1) else g1
  have s2 : Good g1 g2 := by
    show Good g1 (if fm.reorder && some i != finalFunc then
      (match finalFunc with | some ff => g1.after false ff (some i) | none => g1) else g1)
    split
    · cases finalFunc with
      | none => exact Good.refl g1
      | some ff => exact after_good g1 false ff (some i)
    · exact Good.refl g1
  let g3 := if !fm.reorder then
      { (g2.after true i g2.lastNoReorder) with cannotReorder := g2.cannotReorder ++ [i], lastNoReorder := some i } else g2
  have s3 : Good g2 g3 := by
    show Good g2 (if !fm.reorder then
      { (g2.after true i g2.lastNoReorder) with cannotReorder := g2.cannotReorder ++ [i], lastNoReorder := some i } else g2)
    split
    · intro h
      have ⟨a, b⟩ := after_good g2 true i g2.lastNoReorder h
      exact ⟨⟨a.dlt, a.ult, a.dinj, a.dudisj⟩, b.1, b.2⟩
    · exact Good.refl g2
  have s123 : Good g g3 := (s1.trans s2).trans s3
  -- the fold over the input types
  let stepIn := fun (g : RGraph) (tRaw : Ty) =>
    match bestMatch ti (fun p => (funcs.getD p default).loose) aDown tRaw with
    | none => g
    | some (t, _) => g.downType funcs i t
  have stepIn_good : ∀ g tRaw, Good g (stepIn g tRaw) := by
    intro g tRaw
    show Good g (match bestMatch ti (fun p => (funcs.getD p default).loose) aDown tRaw with
      | none => g
      | some (t, _) => g.downType funcs i t)
    cases bestMatch ti (fun p => (funcs.getD p default).loose) aDown tRaw with
    | none => exact Good.refl g
    | some r => exact (downType_good funcs i r.1 g).1
  have foldIn : ∀ (l : List Ty) (g0 : RGraph), NodesOK g0 →
      ∀ tRaw ∈ l, ∀ t deps, bestMatch ti (fun p => (funcs.getD p default).loose) aDown tRaw = some (t, deps) →
        ∃ num, (l.foldl stepIn g0).downTypes.lookup t = some num ∧ (i, num) ∈ (l.foldl stepIn g0).strong := by
    intro l
    induction l with
    | nil => intro g0 _ tRaw ht; cases ht
    | cons a l ih =>
      intro g0 h0 tRaw ht t deps hm
      simp only [List.foldl_cons]
      have ha := stepIn_good g0 a h0
      rcases List.mem_cons.mp ht with rfl | ht
      · have hstep : stepIn g0 tRaw = g0.downType funcs i t := by
          show (match bestMatch ti (fun p => (funcs.getD p default).loose) aDown tRaw with
            | none => g0
            | some (t, _) => g0.downType funcs i t) = _
          rw [hm]
        have ⟨num, hl, hs⟩ := (downType_good funcs i t g0).2 h0
        have ⟨_, d⟩ := foldl_good stepIn stepIn_good l (stepIn g0 tRaw) ha.1
        rw [hstep] at d ⊢
        exact ⟨num, d.2 t num hl, d.1 _ hs⟩
      · exact ih (stepIn g0 a) ha.1 tRaw ht t deps hm
  let stepRet := fun (g : RGraph) (tRaw : Ty) =>
    match bestMatch ti (fun p => (funcs.getD p default).loose) aUp tRaw with
    | none => g
    | some (t, _) => g.upType funcs i t (fm.consOpt.contains t)
  have stepRet_good : ∀ g tRaw, Good g (stepRet g tRaw) := by
    intro g tRaw
    show Good g (match bestMatch ti (fun p => (funcs.getD p default).loose) aUp tRaw with
      | none => g
      | some (t, _) => g.upType funcs i t (fm.consOpt.contains t))
    cases bestMatch ti (fun p => (funcs.getD p default).loose) aUp tRaw with
    | none => exact Good.refl g
    | some r => exact upType_good funcs i r.1 _ g
  show Good g ((noNoType fm.ret).foldl stepRet ((noNoType fm.inp).foldl stepIn g3)) ∧
    (NodesOK g → ∀ tRaw ∈ noNoType fm.inp, ∀ t deps, bestMatch ti (fun p => (funcs.getD p default).loose) aDown tRaw = some (t, deps) →
      ∃ num, ((noNoType fm.ret).foldl stepRet ((noNoType fm.inp).foldl stepIn g3)).downTypes.lookup t = some num ∧
        (i, num) ∈ ((noNoType fm.ret).foldl stepRet ((noNoType fm.inp).foldl stepIn g3)).strong)
  have gin := foldl_good stepIn stepIn_good (noNoType fm.inp) g3
  have gret := foldl_good stepRet stepRet_good (noNoType fm.ret) ((noNoType fm.inp).foldl stepIn g3)
  refine ⟨(s123.trans gin).trans gret, fun h tRaw ht t deps hm => ?_⟩
  have h3 := (s123 h).1
  have ⟨num, hl, hs⟩ := foldIn (noNoType fm.inp) g3 h3 tRaw ht t deps hm
  have ⟨_, d⟩ := gret (gin h3).1
  exact ⟨num, d.2 t num hl, d.1 _ hs⟩

/-- **what `buildGraph` records for the inputs of every provider** -/
theorem buildGraph_inputs (ti : TyInfo) (funcs : List CP) (hasInit : Bool) :
    NodesOK (buildGraph ti funcs hasInit) ∧
    ∀ i, i < funcs.length → ∀ tRaw ∈ noNoType (funcs.getD i default).inp, ∀ t deps,
      bestMatch ti (fun p => (funcs.getD p default).loose) (availDown funcs hasInit) tRaw = some (t, deps) →
      ∃ num, (buildGraph ti funcs hasInit).downTypes.lookup t = some num ∧ (i, num) ∈ (buildGraph ti funcs hasInit).strong := by
  unfold buildGraph
  simp only []
  generalize availDown funcs hasInit = aDown
  generalize availUp funcs = aUp
  generalize lastIdx funcs (fun f => (f.group == .staticGroup || f.group == .invokeGroup) && !f.reorder) = lastStatic
  generalize lastIdx funcs (fun f => f.group == .finalGroup) = finalFunc
  let step := fun (g : RGraph) (i : Nat) => g.addProvider ti funcs aDown aUp lastStatic finalFunc i (funcs.getD i default)
  have step_good : ∀ g i, Good g (step g i) := fun g i => (addProvider_good ti funcs aDown aUp lastStatic finalFunc g i _).1
  have key : ∀ p, NodesOK ((List.range p).foldl step { n := funcs.length, counter := funcs.length + 1 }) ∧
      ∀ i, i < p → ∀ tRaw ∈ noNoType (funcs.getD i default).inp, ∀ t deps,
        bestMatch ti (fun p => (funcs.getD p default).loose) aDown tRaw = some (t, deps) →
        ∃ num, ((List.range p).foldl step { n := funcs.length, counter := funcs.length + 1 }).downTypes.lookup t = some num ∧
          (i, num) ∈ ((List.range p).foldl step { n := funcs.length, counter := funcs.length + 1 }).strong := by
    intro p
    induction p with
    | zero =>
      simp only [List.range_zero, List.foldl_nil]
      refine ⟨?_, fun i hi => by omega⟩
      exact { dlt := fun _ h => (by cases h), ult := fun _ h => (by cases h), dinj := fun _ h => (by cases h), dudisj := fun _ h => (by cases h) }
    | succ p ih =>
      rw [List.range_succ, List.foldl_append]
      simp only [List.foldl_cons, List.foldl_nil]
      have ⟨ok, has⟩ := ih
      have hg := step_good ((List.range p).foldl step { n := funcs.length, counter := funcs.length + 1 }) p ok
      refine ⟨hg.1, fun i hi tRaw ht t deps hm => ?_⟩
      rcases Nat.lt_or_ge i p with hlt | hge
      · have ⟨num, hl, hs⟩ := has i hlt tRaw ht t deps hm
        exact ⟨num, hg.2.2 t num hl, hg.2.1 _ hs⟩
      · have hip : i = p := by omega
        subst hip
        exact (addProvider_good ti funcs aDown aUp lastStatic finalFunc _ i _).2 ok tRaw ht t deps hm
  exact ⟨(key funcs.length).1, fun i hi => (key funcs.length).2 i hi⟩

end Nject
