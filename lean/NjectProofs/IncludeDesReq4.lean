import NjectProofs.IncludeDesReq3
import NjectProofs.IncludeClusters2
import NjectProofs.IncludeTerm2
/-
  Pruning in lockstep: the stages of `pruneStages` run on a chain and on the same chain with the (Desired, not clustered)
  provider `d` made Required stay related by `RelD`.
-/
namespace Nject

/-- the other fields the pruning stages read -/
theorem RelD_more {d : Nat} {x y : Chain} (h : RelD d x y) (p : Nat) :
    (y.get p).usesIn = (x.get p).usesIn ∧ (y.get p).usesByp = (x.get p).usesByp ∧ (y.get p).usesRecv = (x.get p).usesRecv ∧
    (y.get p).uses = (x.get p).uses ∧ (y.get p).wantedInCluster = (x.get p).wantedInCluster ∧
    (y.get p).clusterMembers = (x.get p).clusterMembers ∧ (y.get p).c.shun = (x.get p).c.shun ∧
    (y.get p).c.cluster = (x.get p).c.cluster := by
  rw [h.2 p]
  split
  · exact ⟨rfl, rfl, rfl, rfl, rfl, rfl, rfl, rfl⟩
  · exact ⟨rfl, rfl, rfl, rfl, rfl, rfl, rfl, rfl⟩

/-- the guard of `eliminateUnused` ("Required, Desired or auto-desired") reads the same in both chains -/
theorem RelD_guard {d : Nat} {x y : Chain} (h : RelD d x y) (hw : ((x.get d).wanted || (x.get d).c.desired) = true) (p : Nat) :
    ((y.get p).c.required || (y.get p).c.desired || (y.get p).wanted) = ((x.get p).c.required || (x.get p).c.desired || (x.get p).wanted) := by
  rw [h.2 p]
  by_cases hp : p = d
  · rw [if_pos hp, hp]
    have : ((x.get d).c.required || (x.get d).c.desired || (x.get d).wanted) = true := by
      cases h1 : (x.get d).wanted <;> cases h2 : (x.get d).c.desired <;> simp [h1, h2] at hw ⊢
    rw [this]; simp [reqF]
  · rw [if_neg hp]

/-- the seed condition of the keep-closure reads the same in both chains -/
theorem RelD_seed {d : Nat} {x y : Chain} (h : RelD d x y)
    (hw : (x.get d).c.desired = true ∨ ((x.get d).wanted = true ∧ (x.get d).wantedInCluster = false)) (p : Nat) :
    ((y.get p).c.required || (y.get p).c.desired || ((y.get p).wanted && !(y.get p).wantedInCluster))
      = ((x.get p).c.required || (x.get p).c.desired || ((x.get p).wanted && !(x.get p).wantedInCluster)) := by
  rw [h.2 p]
  by_cases hp : p = d
  · rw [if_pos hp, hp]
    have : ((x.get d).c.required || (x.get d).c.desired || ((x.get d).wanted && !(x.get d).wantedInCluster)) = true := by
      rcases hw with h1 | ⟨h1, h2⟩
      · simp [h1]
      · simp [h1, h2]
    rw [this]; simp [reqF]
  · rw [if_neg hp]

theorem keepClosure_RelD {d : Nat} {x y : Chain} (h : RelD d x y) (down : Bool) : ∀ (fuel : Nat) (toKeep keep : List Nat),
    keepClosure y down fuel toKeep keep = keepClosure x down fuel toKeep keep
  | 0, _, _ => by simp [keepClosure]
  | fuel + 1, [], keep => by simp [keepClosure]
  | fuel + 1, i :: toKeep, keep => by
    simp only [keepClosure]
    have m := RelD_more h i
    have hfilter : ∀ (e : Ty × List Nat),
        (e.2.filter fun d' => !(y.get d').cannot && !(y.get d').excluded) = (e.2.filter fun d' => !(x.get d').cannot && !(x.get d').excluded) := by
      intro e
      congr 1
      funext d'
      rw [(RelD_fields h d').2.1, (RelD_fields h d').2.2.1]
    split
    · exact keepClosure_RelD h down fuel toKeep keep
    · rw [m.1, m.2.1, m.2.2.1]
      simp only [hfilter]
      exact keepClosure_RelD h down fuel _ _

theorem proposeEliminations_RelD {d : Nat} {x y : Chain} (h : RelD d x y)
    (hdes : (x.get d).c.desired = true ∨ ((x.get d).wanted = true ∧ (x.get d).wantedInCluster = false)) :
    proposeEliminations y = proposeEliminations x := by
  unfold proposeEliminations
  simp only []
  rw [h.1]
  have hseeds : ((List.range x.length).filter fun i =>
        !(y.get i).excluded && ((y.get i).c.required || (y.get i).c.desired || ((y.get i).wanted && !(y.get i).wantedInCluster)))
      = ((List.range x.length).filter fun i =>
        !(x.get i).excluded && ((x.get i).c.required || (x.get i).c.desired || ((x.get i).wanted && !(x.get i).wantedInCluster))) := by
    congr 1
    funext i
    rw [(RelD_fields h i).2.2.1, RelD_seed h hdes i]
  have hfuel : (y.map fun f => (f.usesIn ++ f.usesByp).length + f.usesRecv.length).sum
      = (x.map fun f => (f.usesIn ++ f.usesByp).length + f.usesRecv.length).sum := by
    rw [← map_range_get (fun f => (f.usesIn ++ f.usesByp).length + f.usesRecv.length) y,
        ← map_range_get (fun f => (f.usesIn ++ f.usesByp).length + f.usesRecv.length) x, h.1]
    congr 2
    funext j
    rw [(RelD_more h j).1, (RelD_more h j).2.1, (RelD_more h j).2.2.1]
  rw [hseeds, hfuel, keepClosure_RelD h true, keepClosure_RelD h false]
  have hshun : ∀ i, (y.get i).c.shun = (x.get i).c.shun := fun i => (RelD_more h i).2.2.2.2.2.2.1
  simp only [hshun]

theorem countExcluded_RelD {d : Nat} {x y : Chain} (h : RelD d x y) : countExcluded y = countExcluded x := by
  rw [countExcluded_eq, countExcluded_eq]
  have : ∀ (l : Chain), l.countP (·.excluded) = ((List.range l.length).map fun j => (l.get j).excluded).countP id := by
    intro l
    rw [map_range_get (fun f => f.excluded) l, List.countP_map]
    rfl
  rw [this y, this x, h.1]
  congr 2
  funext j
  exact (RelD_fields h j).2.2.1


/-- what is known of provider `d` in the Desired / auto-desired reading, and stays true through pruning -/
structure DesD (d : Nat) (x : Chain) : Prop where
  lt : d < x.length
  req : (x.get d).c.required = false
  want : (x.get d).c.desired = true ∨ ((x.get d).wanted = true ∧ (x.get d).wantedInCluster = false)
  shun : (x.get d).c.shun = false
  cl : (x.get d).c.cluster = 0
  ex : (x.get d).excluded = false

theorem DesD_wd {d : Nat} {x : Chain} (h : DesD d x) : ((x.get d).wanted || (x.get d).c.desired) = true := by
  rcases h.want with h1 | ⟨h1, _⟩
  · simp [h1]
  · simp [h1]

theorem DesD_upd_other {d : Nat} {x : Chain} (h : DesD d x) (i : Nat) (g : IP → IP) (hid : i ≠ d) : DesD d (x.upd i g) := by
  have hget : (x.upd i g).get d = x.get d := by
    rw [get_upd]
    have : ¬ (d = i ∧ i < x.length) := fun hh => hid hh.1.symm
    rw [if_neg this]
  exact ⟨by rw [upd_length]; exact h.lt, by rw [hget]; exact h.req, by rw [hget]; exact h.want, by rw [hget]; exact h.shun,
    by rw [hget]; exact h.cl, by rw [hget]; exact h.ex⟩

theorem DesD_upd_flags {d : Nat} {x : Chain} (h : DesD d x) (i : Nat) (g : IP → IP)
    (hg : ∀ f, (g f).c = f.c ∧ (g f).excluded = f.excluded ∧ (g f).wanted = f.wanted) (hid : i ≠ d ∨ ∀ f, (g f).wantedInCluster = f.wantedInCluster) :
    DesD d (x.upd i g) := by
  have hget : ((x.upd i g).get d).c = (x.get d).c ∧ ((x.upd i g).get d).excluded = (x.get d).excluded ∧
      ((x.upd i g).get d).wanted = (x.get d).wanted ∧ ((x.upd i g).get d).wantedInCluster = (x.get d).wantedInCluster := by
    rw [get_upd]; split
    · rename_i hh
      rcases hid with hne | hwic
      · exact absurd hh.1.symm hne
      · rw [hh.1]; exact ⟨(hg _).1, (hg _).2.1, (hg _).2.2, hwic _⟩
    · exact ⟨rfl, rfl, rfl, rfl⟩
  exact ⟨by rw [upd_length]; exact h.lt, by rw [hget.1]; exact h.req, by rw [hget.1, hget.2.2.1, hget.2.2.2]; exact h.want,
    by rw [hget.1]; exact h.shun, by rw [hget.1]; exact h.cl, by rw [hget.2.1]; exact h.ex⟩

theorem DesD_of_FR {d : Nat} {x x' : Chain} (h : DesD d x) (hfr : FR x x') : DesD d x' := by
  have := hfr.2 d
  unfold flagsOnly at this
  have hc : (x'.get d).c = (x.get d).c ∧ (x'.get d).excluded = (x.get d).excluded ∧ (x'.get d).wanted = (x.get d).wanted ∧
      (x'.get d).wantedInCluster = (x.get d).wantedInCluster := by rw [← this]; exact ⟨rfl, rfl, rfl, rfl⟩
  exact ⟨by rw [hfr.1]; exact h.lt, by rw [hc.1]; exact h.req, by rw [hc.1, hc.2.2.1, hc.2.2.2]; exact h.want, by rw [hc.1]; exact h.shun,
    by rw [hc.1]; exact h.cl, by rw [hc.2.1]; exact h.ex⟩

/-- a trial pass that succeeds, in lockstep: the Required reading succeeds too -/
theorem checkPass_sim_trial (d : Nat) : ∀ (todo : List Nat) (x y : Chain) (seen redo : List Nat) (x' : Chain) (redo' : List Nat),
    RelD d x y → DesD d x → checkPass false todo x seen redo = .ok (x', redo') →
      ∃ y', checkPass false todo y seen redo = .ok (y', redo') ∧ RelD d x' y' ∧ DesD d x'
  | [], x, y, seen, redo, x', redo', hrel, hdd, h => by
    simp only [checkPass] at h ⊢
    cases h
    exact ⟨y, rfl, hrel, hdd⟩
  | i :: todo, x, y, seen, redo, x', redo', hrel, hdd, h => by
    have hf := RelD_fields hrel i
    simp only [checkPass] at h ⊢
    by_cases hseen : seen.contains i = true
    · rw [if_pos hseen] at h ⊢
      exact checkPass_sim_trial d todo x y seen redo x' redo' hrel hdd h
    · rw [if_neg hseen] at h ⊢
      by_cases hcan : (x.get i).cannot = true
      · have hcany : (y.get i).cannot = true := by rw [hf.2.1]; exact hcan
        rw [if_pos hcan] at h
        rw [if_pos hcany]
        have hid : i ≠ d := by
          intro e
          rw [e, hdd.req] at h
          simp only [Bool.false_eq_true, if_false] at h
          rw [DesD_wd hdd, hdd.ex] at h
          simp at h
        have hc : (y.get i).c = (x.get i).c := hf.2.2.2.2.2 hid
        rw [hc, hf.2.2.2.1 hid, hf.2.2.1, hf.1, hf.2.2.2.2.1]
        split at h
        · cases h
        · rename_i hr
          rw [if_neg hr]
          split at h
          · cases h
          · rename_i hw
            rw [if_neg hw]
            split at h
            · rename_i hi
              rw [if_pos hi]
              exact checkPass_sim_trial d todo _ _ _ _ x' redo' (RelD_upd hrel i (fun f => { f with inc := false }) (fun f => rfl))
                (DesD_upd_other hdd i _ hid) h
            · rename_i hi
              rw [if_neg hi]
              exact checkPass_sim_trial d todo x y _ _ x' redo' hrel hdd h
      · have hcany : ¬ (y.get i).cannot = true := by rw [hf.2.1]; exact hcan
        rw [if_neg hcan] at h
        rw [if_neg hcany, localCheck_RelD hrel i]
        split at h
        · rename_i hl
          rw [if_pos hl]
          exact checkPass_sim_trial d todo x y _ _ x' redo' hrel hdd h
        · rename_i hl
          rw [if_neg hl]
          exact checkPass_sim_trial d todo _ _ _ _ x' redo' (RelD_upd hrel i (fun f => { f with cannot := true }) (fun f => rfl))
            (DesD_upd_flags hdd i _ (fun f => ⟨rfl, rfl, rfl⟩) (Or.inr fun f => rfl)) h

theorem checkFlows_sim_trial (d : Nat) : ∀ (fuel : Nat) (todo : List Nat) (x y x' : Chain),
    RelD d x y → DesD d x → checkFlows false fuel todo x = .ok x' →
      ∃ y', checkFlows false fuel todo y = .ok y' ∧ RelD d x' y'
  | 0, _, _, _, _, _, _, h => by simp [checkFlows] at h
  | fuel + 1, todo, x, y, x', hrel, hdd, h => by
    simp only [checkFlows] at h ⊢
    split at h
    · rename_i he
      rw [if_pos he]
      cases h
      exact ⟨y, rfl, hrel⟩
    · rename_i he
      rw [if_neg he]
      split at h
      · cases h
      · rename_i x1 redo hp
        obtain ⟨y1, hy, hrel1, hdd1⟩ := checkPass_sim_trial d todo x y [] [] x1 redo hrel hdd hp
        rw [hy]
        simp only []
        exact checkFlows_sim_trial d fuel redo x1 y1 x' hrel1 hdd1 h

/-- **a trial validation in lockstep** -/
theorem validate_trial_RelD (d : Nat) (x y : Chain) (hrel : RelD d x y) (hdd : DesD d x) :
    (∃ x' y', validate false x = .ok x' ∧ validate false y = .ok y' ∧ RelD d x' y') ∨
    (∃ e e', validate false x = .error e ∧ validate false y = .error e') := by
  unfold validate
  rw [hrel.1]
  cases hm : markAll (List.range x.length) x [] with
  | error e1 =>
    obtain ⟨e', he'⟩ := markAll_sim_err d _ x y [] e1 hrel hm
    rw [he']; exact Or.inr ⟨_, _, rfl, rfl⟩
  | ok r =>
    obtain ⟨x1, rem⟩ := r
    obtain ⟨y1, hy, r1, r2, r3, r4, _⟩ := markAll_sim d _ x y [] x1 rem hrel hdd.ex hm
    rw [hy]
    simp only []
    have hl : y1.length = x1.length := r1.1
    have hl1 : x1.length = x.length := (markAll_FR _ x [] x1 rem hm).1
    rw [hl]
    have hdd1 : DesD d x1 := DesD_of_FR hdd (markAll_FR _ x [] x1 rem hm)
    cases hc : checkFlows false (4 * x1.length * x1.length + 8) rem x1 with
    | ok x' =>
      obtain ⟨y', hy', rel'⟩ := checkFlows_sim_trial d _ rem x1 y1 x' r1 hdd1 hc
      exact Or.inl ⟨x', y', rfl, hy', rel'⟩
    | error e =>
      obtain ⟨e', he'⟩ := checkFlows_sim_err false d _ rem x1 y1 e r1 hdd1.req (r4 (by simpa using hdd.lt) hdd.lt) hc
      exact Or.inr ⟨_, _, rfl, he'⟩


theorem RelD_upd_other {d : Nat} {x y : Chain} (h : RelD d x y) (i : Nat) (g : IP → IP) (hid : i ≠ d) :
    RelD d (x.upd i g) (y.upd i g) := by
  refine ⟨by rw [upd_length, upd_length]; exact h.1, fun j => ?_⟩
  rw [get_upd, get_upd, h.1]
  by_cases hji : j = i ∧ i < x.length
  · rw [if_pos hji, if_pos hji, h.2 i, if_neg hid]
    have : ¬ j = d := fun e => hid (hji.1 ▸ e)
    rw [if_neg this]
  · rw [if_neg hji, if_neg hji]; exact h.2 j

theorem RelD_markL {d : Nat} (b : Bool) (gw : IP → Bool) : ∀ (l : List Nat) (x y : Chain), d ∉ l → RelD d x y →
    RelD d (markL b gw l x) (markL b gw l y)
  | [], _, _, _, h => h
  | w :: l, x, y, hd, h => by
    have hx : markL b gw (w :: l) x = markL b gw l (x.upd w (markG b gw)) := rfl
    have hy : markL b gw (w :: l) y = markL b gw l (y.upd w (markG b gw)) := rfl
    rw [hx, hy]
    exact RelD_markL b gw l _ _ (fun hm => hd (List.mem_cons_of_mem _ hm))
      (RelD_upd_other h w (markG b gw) (fun e => hd (by simp [e])))

theorem markL_other' (b : Bool) (gw : IP → Bool) : ∀ (l : List Nat) (ch : Chain) (j : Nat), j ∉ l → (markL b gw l ch).get j = ch.get j
  | [], _, _, _ => rfl
  | w :: l, ch, j, hj => by
    have hl : (markL b gw (w :: l) ch) = markL b gw l (ch.upd w (markG b gw)) := rfl
    rw [hl, markL_other' b gw l _ j (fun h => hj (List.mem_cons_of_mem _ h)), get_upd]
    have : ¬ (j = w ∧ w < ch.length) := fun hh => hj (by simp [hh.1])
    rw [if_neg this]

theorem DesD_markL {d : Nat} (b : Bool) (gw : IP → Bool) (l : List Nat) (x : Chain) (h : DesD d x) (hd : d ∉ l) :
    DesD d (markL b gw l x) := by
  have hget := markL_other' b gw l x d hd
  have hlen := (markL_spec b gw l x).1
  exact ⟨by rw [hlen]; exact h.lt, by rw [hget]; exact h.req, by rw [hget]; exact h.want, by rw [hget]; exact h.shun,
    by rw [hget]; exact h.cl, by rw [hget]; exact h.ex⟩

/-- **a trial in lockstep** -/
theorem tryWithout_RelD {d : Nat} {x y : Chain} (hrel : RelD d x y) (hdd : DesD d x) (without : List Nat) (hd : d ∉ without) :
    RelD d (tryWithout x without) (tryWithout y without) ∧ DesD d (tryWithout x without) := by
  unfold tryWithout
  split
  · rename_i w
    have hwd : w ≠ d := fun e => hd (by simp [e])
    simp only []
    have hf := RelD_fields hrel w
    rw [hf.2.2.2.1 hwd, (RelD_more hrel w).2.2.2.2.1]
    split
    · exact ⟨hrel, hdd⟩
    · have r1 := RelD_upd hrel w (fun f => { f with excluded := true }) (fun f => rfl)
      have d1 := DesD_upd_other hdd w (fun f => { f with excluded := true }) hwd
      rcases validate_trial_RelD d _ _ r1 d1 with ⟨x', y', hx', hy', rel'⟩ | ⟨e, e', hx', hy'⟩
      · rw [hx', hy']
        exact ⟨rel', DesD_of_FR d1 (validate_FR false _ _ hx')⟩
      · rw [hx', hy']
        exact ⟨RelD_upd r1 w (fun f => { f with excluded := false }) (fun f => rfl),
          DesD_upd_other d1 w (fun f => { f with excluded := false }) hwd⟩
  · simp only []
    have r1 := RelD_markL (d := d) true (fun f => if f.wantedInCluster then false else f.wanted) without x y hd hrel
    have d1 := DesD_markL true (fun f => if f.wantedInCluster then false else f.wanted) without x hdd hd
    unfold markL markG at r1 d1
    rcases validate_trial_RelD d _ _ r1 d1 with ⟨x', y', hx', hy', rel'⟩ | ⟨e, e', hx', hy'⟩
    · rw [hx', hy']
      have r2 := RelD_markL (d := d) true (fun f => if f.wantedInCluster then true else f.wanted) without x' y' hd rel'
      have d2 := DesD_markL true (fun f => if f.wantedInCluster then true else f.wanted) without x' (DesD_of_FR d1 (validate_FR false _ _ hx')) hd
      unfold markL markG at r2 d2
      exact ⟨r2, d2⟩
    · rw [hx', hy']
      have r2 := RelD_markL (d := d) false (fun f => if f.wantedInCluster then true else f.wanted) without _ _ hd r1
      have d2 := DesD_markL false (fun f => if f.wantedInCluster then true else f.wanted) without _ d1 hd
      unfold markL markG at r2 d2
      exact ⟨r2, d2⟩

end Nject
