import NjectProofs.ReorderProofs
/-
  `topo.run` honours the strong constraints of every provider it places on its own initiative:
  a Reorder'd provider is emitted only after every provider it has to come after has been emitted,
  and -- for a constraint on a type's pseudo node -- only after some provider that releases that node
  (outputs the type / receives it, or the init function outputs it) has been emitted.

  Invariant `Dep` (on top of `Core`/`Full` of `ReorderProofs.lean`):
  * `shrink`: an entry leaves an `after` set only when it has been processed;
  * `heapEmpty`: a provider sits in a heap only with an empty `after` set;
  * `heapTy` / `doneTy`: a type node is queued / processed only with a witness: an emitted releaser;
  * `placed`: for every emitted Reorder'd provider, its original `after` entries are emitted
    (or witnessed) EARLIER in the output.
-/
namespace Nject

/-- provider `p` releases the type node `num` when it is processed -/
def Releases (s : TopoS) (p num : Nat) : Prop :=
  (∃ t ∈ s.outOf p, s.downTypes.lookup t = some num) ∨ (∃ t ∈ s.recvOf p, s.upTypes.lookup t = some num)

structure Dep (s : TopoS) (after0 : NMap) (initT : Nat → Prop) (x : Topo) : Prop where
  shrink : ∀ m j, j ∈ after0.get m → j ∈ x.after.get m ∨ j ∈ x.done
  heapEmpty : ∀ e, e ∈ x.unblocked ∨ e ∈ x.weakBlocked → e.2 < s.n → x.after.get e.2 = []
  heapTy : ∀ e, e ∈ x.unblocked ∨ e ∈ x.weakBlocked → s.n < e.2 → initT e.2 ∨ ∃ p ∈ x.out, Releases s p e.2
  doneTy : ∀ j ∈ x.done, s.n < j → initT j ∨ ∃ p ∈ x.out, Releases s p j
  placed : ∀ (b i : Nat), x.out[b]? = some i → s.isReorder i = true → ∀ j ∈ after0.get i,
      (j < s.n → ∃ a : Nat, a < b ∧ x.out[a]? = some j) ∧
      (s.n < j → initT j ∨ ∃ (a p : Nat), a < b ∧ x.out[a]? = some p ∧ Releases s p j)

theorem Dep.congr {s after0 initT x} (h : Dep s after0 initT x) {x' : Topo}
    (hout : x'.out = x.out) (hdone : x'.done = x.done) (hafter : x'.after = x.after)
    (hu : ∀ e ∈ x'.unblocked, e ∈ x.unblocked) (hw : ∀ e ∈ x'.weakBlocked, e ∈ x.weakBlocked) : Dep s after0 initT x' where
  shrink := by rw [hafter, hdone]; exact h.shrink
  heapEmpty := fun e he => by
    rw [hafter]; exact h.heapEmpty e (he.elim (fun a => Or.inl (hu e a)) (fun a => Or.inr (hw e a)))
  heapTy := fun e he => by
    rw [hout]; exact h.heapTy e (he.elim (fun a => Or.inl (hu e a)) (fun a => Or.inr (hw e a)))
  doneTy := by rw [hout, hdone]; exact h.doneTy
  placed := by rw [hout]; exact h.placed

/-- queueing a provider whose `after` set is empty, or a type node with its witness -/
theorem Dep.push {s after0 initT x} (h : Dep s after0 initT x) (n' : Nat) (weak : Bool)
    (h1 : n' < s.n → x.after.get n' = [])
    (h2 : s.n < n' → initT n' ∨ ∃ p ∈ x.out, Releases s p n') :
    Dep s after0 initT (if weak then x.pushW s n' else x.pushU s n') := by
  cases weak with
  | false =>
    simp only [Bool.false_eq_true, if_false]
    unfold Topo.pushU
    refine { shrink := h.shrink, doneTy := h.doneTy, placed := h.placed, heapEmpty := ?_, heapTy := ?_ }
    · intro e he hlt
      rcases he with he | he
      · rcases List.mem_cons.mp he with rfl | he
        · exact h1 hlt
        · exact h.heapEmpty e (Or.inl he) hlt
      · exact h.heapEmpty e (Or.inr he) hlt
    · intro e he hgt
      rcases he with he | he
      · rcases List.mem_cons.mp he with rfl | he
        · exact h2 hgt
        · exact h.heapTy e (Or.inl he) hgt
      · exact h.heapTy e (Or.inr he) hgt
  | true =>
    simp only [if_true]
    unfold Topo.pushW
    refine { shrink := h.shrink, doneTy := h.doneTy, placed := h.placed, heapEmpty := ?_, heapTy := ?_ }
    · intro e he hlt
      rcases he with he | he
      · exact h.heapEmpty e (Or.inl he) hlt
      · rcases List.mem_cons.mp he with rfl | he
        · exact h1 hlt
        · exact h.heapEmpty e (Or.inr he) hlt
    · intro e he hgt
      rcases he with he | he
      · exact h.heapTy e (Or.inl he) hgt
      · rcases List.mem_cons.mp he with rfl | he
        · exact h2 hgt
        · exact h.heapTy e (Or.inr he) hgt

theorem release_dep {s after0 initT x} (h : Dep s after0 initT x) (n' i : Nat) (hid : i ∈ x.done)
    (hty : n' ≥ s.n → i ∈ x.out ∧ Releases s i n') : Dep s after0 initT (x.release s n' i) := by
  unfold Topo.release
  by_cases hge : n' ≥ s.n
  · simp only [hge, if_true]
    have := h.push n' false (fun hlt => by omega) (fun _ => Or.inr ⟨i, (hty hge).1, (hty hge).2⟩)
    simpa using this
  · simp only [hge, if_false]
    let x1 : Topo := { x with after := x.after.set n' (setDel (x.after.get n') i), weakAfter := x.weakAfter.set n' (setDel (x.weakAfter.get n') i) }
    have d1 : Dep s after0 initT x1 :=
      { shrink := fun m j hj => by
          show j ∈ (x.after.set n' (setDel (x.after.get n') i)).get m ∨ j ∈ x.done
          rw [NMap.get_set]
          rcases h.shrink m j hj with hin | hd
          · by_cases hm : m = n'
            · simp only [hm, if_true]
              by_cases hji : j = i
              · subst hji; exact Or.inr hid
              · left; rw [mem_setDel]; exact ⟨hm ▸ hin, hji⟩
            · simp only [hm, if_false]; exact Or.inl hin
          · exact Or.inr hd
        heapEmpty := fun e he hlt => by
          show (x.after.set n' (setDel (x.after.get n') i)).get e.2 = []
          rw [NMap.get_set]
          have := h.heapEmpty e he hlt
          by_cases hm : e.2 = n'
          · simp only [hm, if_true]
            rw [← hm, this]; rfl
          · simp only [hm, if_false]; exact this
        heapTy := h.heapTy, doneTy := h.doneTy, placed := h.placed }
    show Dep s after0 initT (if (x1.after.get n').isEmpty then (if (x1.weakAfter.get n').isEmpty then x1.pushU s n' else x1.pushW s n') else x1)
    by_cases hemp : (x1.after.get n').isEmpty
    · simp only [hemp, if_true]
      have he : x1.after.get n' = [] := by simpa using hemp
      by_cases hw : (x1.weakAfter.get n').isEmpty
      · simp only [hw, if_true]
        have := d1.push n' false (fun _ => he) (fun hgt => by omega)
        simpa using this
      · simp only [hw, if_false]
        have := d1.push n' true (fun _ => he) (fun hgt => by omega)
        simpa using this
    · simp only [hemp, if_false]; exact d1

theorem foldl_release_dep {s after0 initT} (i : Nat) :
    ∀ (l : List Nat) (x : Topo), (∀ n' ∈ l, n' < s.n) → i ∈ x.done → Dep s after0 initT x →
      Dep s after0 initT (l.foldl (fun x n' => x.release s n' i) x)
  | [], _, _, _, h => h
  | n' :: l, x, hl, hid, h => by
    simp only [List.foldl_cons]
    have h1 := release_dep h n' i hid (fun hge => by have := hl n' (by simp); omega)
    have f := release_frame s x n' i
    exact foldl_release_dep i l _ (fun a ha => hl a (by simp [ha])) (by rw [f.done]; exact hid) h1

theorem releaseNode_dep {s NR after0 initT x} (hs : SOK s NR) (h : Dep s after0 initT x) (i : Nat) (hid : i ∈ x.done) :
    Dep s after0 initT (x.releaseNode s i) := by
  unfold Topo.releaseNode
  have hfold : ∀ (l : List Nat) (y : Topo), Dep s after0 initT y → i ∈ y.done →
      Dep s after0 initT (l.foldl (fun (x : Topo) n => { x with weakAfter := x.weakAfter.set n (setDel (x.weakAfter.get n) i) }) y) ∧
      i ∈ (l.foldl (fun (x : Topo) n => { x with weakAfter := x.weakAfter.set n (setDel (x.weakAfter.get n) i) }) y).done := by
    intro l
    induction l with
    | nil => intro y hy hd; exact ⟨hy, hd⟩
    | cons a l ih =>
      intro y hy hd
      simp only [List.foldl_cons]
      exact ih _ (hy.congr rfl rfl rfl (fun _ he => he) (fun _ he => he)) hd
  have ⟨d1, hd1⟩ := hfold (s.weakBefore.get i) x h hid
  exact foldl_release_dep i (s.before.get i) _ (fun n' hn' => hs.beforeLt i n' hn') hd1 d1

theorem foldl_releaseTy_dep {s after0 initT} (i : Nat) (tbl : List (Ty × Nat)) (htbl : ∀ t num, tbl.lookup t = some num → s.n < num)
    (hrel : ∀ t num, tbl.lookup t = some num → ∀ l : List Ty, t ∈ l → True) :
    ∀ (l : List Ty) (x : Topo), (∀ t ∈ l, ∀ num, tbl.lookup t = some num → Releases s i num) → i ∈ x.done → i ∈ x.out →
      Dep s after0 initT x →
      Dep s after0 initT (l.foldl (fun x t => match tbl.lookup t with | some num => x.release s num i | none => x) x) ∧
      Frame x (l.foldl (fun x t => match tbl.lookup t with | some num => x.release s num i | none => x) x)
  | [], x, _, _, _, h => ⟨h, Frame.refl x⟩
  | t :: l, x, hl, hid, hio, h => by
    simp only [List.foldl_cons]
    cases hlk : tbl.lookup t with
    | none =>
      simp only []
      exact foldl_releaseTy_dep i tbl htbl hrel l x (fun a ha => hl a (by simp [ha])) hid hio h
    | some num =>
      simp only []
      have h1 := release_dep h num i hid (fun _ => ⟨hio, hl t (by simp) num hlk⟩)
      have f := release_frame s x num i
      have ⟨h2, f2⟩ := foldl_releaseTy_dep i tbl htbl hrel l _ (fun a ha => hl a (by simp [ha])) (by rw [f.done]; exact hid) (by rw [f.out]; exact hio) h1
      exact ⟨h2, f.trans f2⟩

theorem releaseProvider_dep {s NR after0 initT x} (hs : SOK s NR) (h : Dep s after0 initT x) (i : Nat) (hid : i ∈ x.done) (hio : i ∈ x.out) :
    Dep s after0 initT (x.releaseProvider s i) := by
  unfold Topo.releaseProvider
  have ⟨d1, f1⟩ := foldl_releaseTy_dep (s := s) (after0 := after0) (initT := initT) i s.downTypes hs.downGt (fun _ _ _ _ _ => trivial) (s.outOf i) x
    (fun t ht num hn => Or.inl ⟨t, ht, hn⟩) hid hio h
  exact (foldl_releaseTy_dep i s.upTypes hs.upGt (fun _ _ _ _ _ => trivial) (s.recvOf i) _
    (fun t ht num hn => Or.inr ⟨t, ht, hn⟩) (by rw [f1.done]; exact hid) (by rw [f1.out]; exact hio) d1).1

theorem getElem?_append_singleton {l : List Nat} {i b x : Nat} (h : (l ++ [i])[b]? = some x) :
    (b < l.length ∧ l[b]? = some x) ∨ (b = l.length ∧ x = i) := by
  rcases Nat.lt_trichotomy b l.length with hlt | heq | hgt
  · left; rw [List.getElem?_append_left hlt] at h; exact ⟨hlt, h⟩
  · right; subst heq; simp at h; exact ⟨rfl, h.symm⟩
  · rw [List.getElem?_eq_none (by simp; omega)] at h; cases h

theorem processOne_dep {s NR after0 initT x k} (hs : SOK s NR) (hc : Core s NR x k) (h : Dep s after0 initT x) (i : Nat) (rel : Bool)
    (hne : i ≠ s.n)
    (hemp : i < s.n → s.isReorder i = true → x.after.get i = [])
    (hty : s.n < i → initT i ∨ ∃ p ∈ x.out, Releases s p i) :
    Dep s after0 initT (x.processOne s i rel) := by
  unfold Topo.processOne
  by_cases hd : x.done.contains i
  · simp only [hd, if_true]; exact h
  · simp only [hd, if_false]
    by_cases hgt : i > s.n
    · simp only [hgt, if_true]
      let x1 : Topo := { x with done := i :: x.done }
      have d1 : Dep s after0 initT x1 :=
        { shrink := fun m j hj => (h.shrink m j hj).elim Or.inl (fun hd => Or.inr (List.mem_cons_of_mem _ hd))
          heapEmpty := h.heapEmpty, heapTy := h.heapTy
          doneTy := fun j hj hjn => by
            rcases List.mem_cons.mp hj with rfl | hj
            · exact hty hjn
            · exact h.doneTy j hj hjn
          placed := h.placed }
      cases rel with
      | false => exact d1
      | true => exact releaseNode_dep hs d1 i (by simp [x1])
    · simp only [hgt, if_false]
      have hlt : i < s.n := by omega
      let x2 : Topo := { x with done := i :: x.done, out := x.out ++ [i] }
      have hold : ∀ (a y : Nat), x.out[a]? = some y → (x.out ++ [i])[a]? = some y := by
        intro a y hy
        have : a < x.out.length := by
          rcases Nat.lt_or_ge a x.out.length with hl | hg
          · exact hl
          · rw [List.getElem?_eq_none hg] at hy; cases hy
        rw [List.getElem?_append_left this]; exact hy
      have d2 : Dep s after0 initT x2 :=
        { shrink := fun m j hj => (h.shrink m j hj).elim Or.inl (fun hd => Or.inr (List.mem_cons_of_mem _ hd))
          heapEmpty := h.heapEmpty
          heapTy := fun e he hgt' => (h.heapTy e he hgt').elim Or.inl
            (fun ⟨p, hp, hr⟩ => Or.inr ⟨p, List.mem_append_left _ hp, hr⟩)
          doneTy := fun j hj hjn => by
            rcases List.mem_cons.mp hj with rfl | hj
            · omega
            · exact (h.doneTy j hj hjn).elim Or.inl (fun ⟨p, hp, hr⟩ => Or.inr ⟨p, List.mem_append_left _ hp, hr⟩)
          placed := fun b i' hb hr j hj => by
            rcases getElem?_append_singleton hb with ⟨hbl, hb'⟩ | ⟨hbl, hi'⟩
            · have ⟨p1, p2⟩ := h.placed b i' hb' hr j hj
              refine ⟨fun hjn => ?_, fun hjn => ?_⟩
              · obtain ⟨a, ha, hy⟩ := p1 hjn
                exact ⟨a, ha, hold a j hy⟩
              · rcases p2 hjn with hin | ⟨a, p, ha, hy, hrl⟩
                · exact Or.inl hin
                · exact Or.inr ⟨a, p, ha, hold a p hy, hrl⟩
            · subst hi'
              have hnone : x.after.get i' = [] := hemp hlt hr
              have hdn : j ∈ x.done := by
                rcases h.shrink i' j hj with hin | hdn
                · rw [hnone] at hin; cases hin
                · exact hdn
              refine ⟨fun hjn => ?_, fun hjn => ?_⟩
              · have := hc.doneOut j hdn hjn
                obtain ⟨a, ha⟩ := List.mem_iff_getElem?.mp this
                have hal : a < x.out.length := by
                  rcases Nat.lt_or_ge a x.out.length with hl | hg
                  · exact hl
                  · rw [List.getElem?_eq_none hg] at ha; cases ha
                exact ⟨a, by omega, hold a j ha⟩
              · rcases h.doneTy j hdn hjn with hin | ⟨p, hp, hrl⟩
                · exact Or.inl hin
                · obtain ⟨a, ha⟩ := List.mem_iff_getElem?.mp hp
                  have hal : a < x.out.length := by
                    rcases Nat.lt_or_ge a x.out.length with hl | hg
                    · exact hl
                    · rw [List.getElem?_eq_none hg] at ha; cases ha
                  exact Or.inr ⟨a, p, by omega, hold a p ha, hrl⟩ }
      have hid2 : i ∈ x2.done := by simp [x2]
      have d3 := releaseNode_dep hs d2 i hid2
      cases rel with
      | false => exact d3
      | true =>
        have c2f : Frame x2 (x2.releaseNode s i) := by
          -- releaseNode leaves out and done alone
          unfold Topo.releaseNode
          have hfold : ∀ (l : List Nat) (y : Topo),
              Frame y (l.foldl (fun (x : Topo) n => { x with weakAfter := x.weakAfter.set n (setDel (x.weakAfter.get n) i) }) y) := by
            intro l
            induction l with
            | nil => intro y; exact Frame.refl y
            | cons a l ih => intro y; simp only [List.foldl_cons]; exact ⟨(ih _).out, (ih _).done, (ih _).cr⟩
          have hfold2 : ∀ (l : List Nat) (y : Topo), Frame y (l.foldl (fun x n' => x.release s n' i) y) := by
            intro l
            induction l with
            | nil => intro y; exact Frame.refl y
            | cons a l ih => intro y; simp only [List.foldl_cons]; exact (release_frame s y a i).trans (ih _)
          exact (hfold _ x2).trans (hfold2 _ _)
        exact releaseProvider_dep hs d3 i (by rw [c2f.done]; exact hid2) (by rw [c2f.out]; simp [x2])

/-- the loop keeps both invariants -/
theorem loop_dep {s NR after0 initT} (hs : SOK s NR) : ∀ (fuel : Nat) (x : Topo), Nonempty (Full s NR x) → Dep s after0 initT x →
    Dep s after0 initT (Topo.loop s fuel x)
  | 0, x, ⟨_⟩, d => by
    unfold Topo.loop
    exact d.congr rfl rfl rfl (fun _ h => h) (fun _ h => h)
  | fuel + 1, x, ⟨f⟩, d => by
    unfold Topo.loop
    cases hu : heapPop x.unblocked with
    | some pr =>
      obtain ⟨i, rest⟩ := pr
      simp only []
      have ⟨⟨p, hp⟩, hrest⟩ := heapPop_spec hu
      let x1 : Topo := { x with unblocked := rest }
      have c1 : Core s NR x1 f.k := f.core.mono rfl rfl rfl hrest (fun _ h => h)
      have d1 : Dep s after0 initT x1 := d.congr rfl rfl rfl hrest (fun _ h => h)
      have hne : i ≠ s.n := f.core.heapNe (p, i) (Or.inl hp)
      have hpos : ∀ j, NR[j]? = some i → j ≤ f.k := f.core.heapNR (p, i) (Or.inl hp)
      have d2 := processOne_dep hs c1 d1 i true hne (fun hlt _ => d.heapEmpty (p, i) (Or.inl hp) hlt) (fun hgt => d.heapTy (p, i) (Or.inl hp) hgt)
      obtain ⟨k', _, c2, _, hsub, hcr⟩ := processOne_core hs c1 i true hne hpos
      exact loop_dep hs fuel _ ⟨⟨k', f.m, c2, by rw [hcr]; exact f.cr, fun j a hj ha => hsub a (f.crDone j a hj ha)⟩⟩ d2
    | none =>
      simp only []
      cases hw : heapPop x.weakBlocked with
      | some pr =>
        obtain ⟨i, rest⟩ := pr
        simp only []
        have ⟨⟨p, hp⟩, hrest⟩ := heapPop_spec hw
        let x1 : Topo := { x with weakBlocked := rest }
        have c1 : Core s NR x1 f.k := f.core.mono rfl rfl rfl (fun _ h => h) hrest
        have d1 : Dep s after0 initT x1 := d.congr rfl rfl rfl (fun _ h => h) hrest
        have hne : i ≠ s.n := f.core.heapNe (p, i) (Or.inr hp)
        have hpos : ∀ j, NR[j]? = some i → j ≤ f.k := f.core.heapNR (p, i) (Or.inr hp)
        have d2 := processOne_dep hs c1 d1 i true hne (fun hlt _ => d.heapEmpty (p, i) (Or.inr hp) hlt) (fun hgt => d.heapTy (p, i) (Or.inr hp) hgt)
        obtain ⟨k', _, c2, _, hsub, hcr⟩ := processOne_core hs c1 i true hne hpos
        exact loop_dep hs fuel _ ⟨⟨k', f.m, c2, by rw [hcr]; exact f.cr, fun j a hj ha => hsub a (f.crDone j a hj ha)⟩⟩ d2
      | none =>
        simp only []
        cases hc : x.cannotReorder with
        | nil => simp only []; exact d
        | cons i cr =>
          simp only []
          let x1 : Topo := { x with cannotReorder := cr }
          have c1 : Core s NR x1 f.k := f.core.mono rfl rfl rfl (fun _ h => h) (fun _ h => h)
          have d1 : Dep s after0 initT x1 := d.congr rfl rfl rfl (fun _ h => h) (fun _ h => h)
          have hdrop : NR.drop f.m = i :: cr := by rw [← f.cr, hc]
          have hml : f.m < NR.length := by
            rcases Nat.lt_or_ge f.m NR.length with h | h
            · exact h
            · rw [List.drop_eq_nil_of_le h] at hdrop; cases hdrop
          have hmi : NR[f.m]? = some i := by
            rw [List.drop_eq_getElem_cons hml] at hdrop
            rw [List.getElem?_eq_getElem hml]
            exact congrArg some (List.cons.inj hdrop).1
          have hcr' : cr = NR.drop (f.m + 1) := by
            rw [List.drop_eq_getElem_cons hml] at hdrop
            exact (List.cons.inj hdrop).2.symm
          have hmemi := (hs.mem i).mp (List.mem_iff_getElem?.mpr ⟨f.m, hmi⟩)
          have hne : i ≠ s.n := by have := hmemi.1; omega
          have hmk : f.m ≤ f.k := by
            rcases Nat.lt_or_ge f.k f.m with hlt | hge
            · have hkl : f.k < NR.length := by omega
              have hk : NR[f.k]? = some NR[f.k] := List.getElem?_eq_getElem hkl
              have hd := f.crDone f.k _ hlt hk
              have := f.core.done_idx hs hk hd
              omega
            · exact hge
          have hpos : ∀ j, NR[j]? = some i → j ≤ f.k := by
            intro j hj
            have := hs.idx_inj hj hmi
            omega
          have d2 := processOne_dep hs c1 d1 i ((x.after.get i).isEmpty) hne
            (fun _ hr => by rw [hmemi.2] at hr; cases hr) (fun hgt => by have := hmemi.1; omega)
          obtain ⟨k', _, c2, hin, hsub, hcr2⟩ := processOne_core hs c1 i ((x.after.get i).isEmpty) hne hpos
          refine loop_dep hs fuel _ ⟨⟨k', f.m + 1, c2, by rw [hcr2]; exact hcr', ?_⟩⟩ d2
          intro j a hj ha
          rcases Nat.lt_or_ge j f.m with hlt | hge
          · exact hsub a (f.crDone j a hlt ha)
          · have : j = f.m := by omega
            subst this
            rw [hmi] at ha
            cases ha
            exact hin

end Nject
