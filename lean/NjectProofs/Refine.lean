import NjectProofs.Slots
/-
  exec_refines_spec (RUN chain): for every compiled chain that passes `wfRun`, every behaviour
  (any number of inner() calls, at any nesting depth) and every starting state, the slot-array
  interpreter `execNodes` and the reference semantics `specNodes` produce the same trace/state,
  and the resulting array represents the environment that flows up.
-/
namespace Nject

structure SlotsOK (m : Maps) (n : Nat) : Prop where
  dinj : Inj m.d
  uinj : Inj m.u
  disj : Disj m.d m.u
  dlt : Below m.d n
  ult : Below m.u n

theorem Disj.symm {f g : Ty → Option Nat} (h : Disj f g) : Disj g f :=
  fun t1 t2 i h1 h2 => h t2 t1 i h2 h1

/-! ### Spec only sends up types that something at or below returns -/

theorem set_frame (t : Ty) : ∀ (ts : List Ty) (xs : List Val) (e : Env), t ∉ ts → (e.set ts xs) t = e t
  | [], _, e, _ => by simp [Env.set]
  | _ :: _, [], e, _ => by simp [Env.set]
  | t0 :: ts, x :: xs, e, h => by
    simp only [Env.set]
    have h1 : t ≠ t0 := fun heq => h (by simp [heq])
    have h2 : t ∉ ts := fun hm => h (by simp [hm])
    rw [set_frame t ts xs (e.set1 t0 x) h2]
    simp [Env.set1, h1]

/-- what goes up out of a wrapper only mentions its own returns and what `next` sends up -/
theorem specTree_frame (n : Node) (next : Env → St → Env × St) (down : Env) (P : Ty → Prop)
    (hnext : ∀ d s t, P t → (next d s).1 t = none) (t : Ty) (hP : P t) (hr : t ∉ n.rets) :
    ∀ (w : WStep) (last : Env) (st : St), last t = none → (specTree n next down w last st).1 t = none
  | .ret outs, last, st, hl => by
    simp only [specTree]
    rw [set_frame t n.rets outs last hr]; exact hl
  | .call args k, last, st, hl => by
    simp only [specTree]
    apply specTree_frame n next down P hnext t hP hr
    by_cases hp : n.parallel
    · simp [hp, hl]
    · simp [hp]; exact hnext _ _ t hP

theorem wfRun_cons {m : Maps} {errTy : Ty} {fin n : Node} {rest : List Node}
    (h : wfRun m errTy fin (n :: rest) = true) :
    (∀ t ∈ n.ins, (m.d t).isSome) ∧ (∀ t ∈ n.recv, (m.u t).isSome) ∧
    (n.kind = .fallible → errTy ∈ n.rets) ∧
    (n.kind = .wrapper → ∀ t ∈ upTypes fin (n :: rest), (m.u t).isSome → t ∈ n.zero) ∧
    wfRun m errTy fin rest = true := by
  simp only [wfRun, Bool.and_eq_true, List.all_eq_true, Bool.or_eq_true, bne_iff_ne, ne_eq,
    Bool.not_eq_true', List.contains_eq_mem, decide_eq_true_eq] at h
  obtain ⟨⟨⟨⟨h1, h2⟩, h3⟩, h4⟩, h5⟩ := h
  refine ⟨h1, h2, ?_, ?_, h5⟩
  · intro hk
    cases h3 with
    | inl h => exact absurd hk h
    | inr h => exact h
  · intro hk t ht hs
    cases h4 with
    | inl h => exact absurd hk h
    | inr h =>
      cases h t ht with
      | inl h' => rw [h'] at hs; cases hs
      | inr h' => exact h'

theorem spec_frame (b : Beh) (m : Maps) (errTy : Ty) (fin : Node) :
    ∀ (nodes : List Node), wfRun m errTy fin nodes = true → ∀ (down : Env) (st : St) (t : Ty),
      t ∉ upTypes fin nodes → (specNodes b errTy fin nodes down st).1 t = none
  | [], _, down, st, t, ht => by
    simp only [specNodes, specFinal]
    rw [set_frame t fin.rets _ Env.empty (by simpa [upTypes] using ht)]; rfl
  | n :: rest, hwf, down, st, t, ht => by
    obtain ⟨_, _, herr, _, hrest⟩ := wfRun_cons hwf
    have ht1 : t ∉ n.rets := fun hm => ht (by simp [upTypes, hm])
    have ht2 : t ∉ upTypes fin rest := fun hm => ht (by simp [upTypes, hm])
    have ih := spec_frame b m errTy fin rest hrest
    cases hk : n.kind with
    | wrapper =>
      simp only [specNodes, hk]
      exact specTree_frame n _ down (fun t => t ∉ upTypes fin rest) (fun d s t ht => ih d s t ht) t ht2 ht1 _ _ _ rfl
    | fallible =>
      simp only [specNodes, hk]
      split
      · have : t ≠ errTy := fun heq => ht1 (heq ▸ herr hk)
        simp [Env.set1, this, Env.empty]
      · exact ih _ _ t ht2
    | inj => simp only [specNodes, hk]; exact ih _ _ t ht2
    | final => simp only [specNodes, hk]; exact ih _ _ t ht2

/-! ### the refinement -/

/-- the statement for one continuation `next` (the rest of the chain) -/
def Refines (m : Maps) (n : Nat) (ex : VC → St → VC × St) (sp : Env → St → Env × St) : Prop :=
  ∀ (v : VC) (down : Env) (st : St), v.length = n → Rel m.d v down → Rel m.u v Env.empty →
    (ex v st).2 = (sp down st).2 ∧ Rel m.u (ex v st).1 (sp down st).1 ∧ (ex v st).1.length = n

theorem execTree_refines (m : Maps) (len : Nat) (hs : SlotsOK m len) (n : Node)
    (ex : VC → St → VC × St) (sp : Env → St → Env × St) (hnext : Refines m len ex sp)
    (P : Ty → Prop) (hframe : ∀ d s t, P t → (sp d s).1 t = none)
    (hzero : ∀ t, (m.u t).isSome → t ∉ n.zero → P t)
    (hrecv : ∀ t ∈ n.recv, (m.u t).isSome)
    (v : VC) (down : Env) (hlen : v.length = len) (hd : Rel m.d v down) (hclean : Rel m.u v Env.empty) :
    ∀ (w : WStep) (cur : VC) (cnt : Nat) (last : Env) (st : St),
      cur.length = len → Rel m.u cur last → (∀ t, P t → last t = none) →
      ((cnt = 0 ∨ n.parallel = true) → cur = v ∧ last = Env.empty) →
      (execTree m n ex v w cur cnt st).2 = (specTree n sp down w last st).2 ∧
      Rel m.u (execTree m n ex v w cur cnt st).1 (specTree n sp down w last st).1 ∧
      (execTree m n ex v w cur cnt st).1.length = len
  | .ret outs, cur, cnt, last, st, hcl, hrel, _, hz => by
    simp only [execTree, specTree]
    refine ⟨by first | rfl | trivial, ?_, ?_⟩
    · by_cases hc : cnt = 0
      · obtain ⟨hcv, hle⟩ := hz (Or.inl hc)
        subst hcv; subst hle
        simp only [hc, if_true]
        exact wrOuts_rel m.u hs.uinj len hs.ult n.rets outs _ _
          (by rw [zeroSlots_length]; exact hcl) (zeroSlots_clean m.u hs.uinj n.zero cur hclean)
      · simp only [hc, if_false]
        exact wrOuts_rel m.u hs.uinj len hs.ult n.rets outs cur last hcl hrel
    · by_cases hc : cnt = 0
      · simp [hc, wrOuts_length, zeroSlots_length, hcl]
      · simp [hc, wrOuts_length, hcl]
  | .call args k, cur, cnt, last, st, hcl, hrel, hfl, hz => by
    -- facts about running the rest of the chain on the snapshot / on v
    have hsnap := hnext (wrOuts m.d v n.outs args) (down.set n.outs args) (st.push (.winner n.id args))
      (by rw [wrOuts_length]; exact hlen)
      (wrOuts_rel m.d hs.dinj len hs.dlt n.outs args v down hlen hd)
      (wrOuts_rel_other m.d m.u hs.disj n.outs args v Env.empty hclean)
    obtain ⟨hst, hru, hrl⟩ := hsnap
    have hrd := rdIns_eq m.u _ _ hru n.recv hrecv
    by_cases hp : n.parallel = true
    · obtain ⟨hcv, hle⟩ := hz (Or.inr hp)
      subst hcv; subst hle
      simp only [execTree, specTree, hp, if_true, hrd]
      rw [hst]
      exact execTree_refines m len hs n ex sp hnext P hframe hzero hrecv cur down hlen hd hclean
        (k _) cur (cnt + 1) Env.empty _ hcl hrel hfl (fun _ => ⟨rfl, rfl⟩)
    · have hpf : n.parallel = false := by simpa using hp
      by_cases hc : cnt = 0
      · obtain ⟨hcv, hle⟩ := hz (Or.inl hc)
        subst hcv; subst hle
        simp only [execTree, specTree, hpf, hc, if_true, hrd]
        rw [hst]
        refine execTree_refines m len hs n ex sp hnext P hframe hzero hrecv cur down hlen hd hclean
          (k _) _ (0 + 1) _ _ hrl (by simpa using hru) (fun t ht => by simpa using hframe _ _ t ht) ?_
        intro h; cases h with
        | inl h => omega
        | inr h => rw [hpf] at h; cases h
      · simp only [execTree, specTree, hpf, hc, if_false, hrd]
        rw [hst]
        refine execTree_refines m len hs n ex sp hnext P hframe hzero hrecv v down hlen hd hclean
          (k _) _ (cnt + 1) _ _ (by rw [copySlots_length]; exact hcl) ?_
          (fun t ht => by simpa using hframe _ _ t ht) ?_
        · -- the copied-back array represents what the latest call sent up
          intro t i hi
          have hlt : i < cur.length := by rw [hcl]; exact hs.ult t i hi
          rw [copySlots_obs m.u hs.uinj _ n.zero cur t i hi hlt]
          by_cases hmem : t ∈ n.zero
          · simp only [hmem, if_true]; simpa using hru t i hi
          · simp only [hmem, if_false]
            have hPt : P t := hzero t (by simp [hi]) hmem
            have h1 : last t = none := hfl t hPt
            have h2 := hframe (down.set n.outs args) (st.push (.winner n.id args)) t hPt
            rw [hrel t i hi]
            simp [Env.rd, h1, h2]
        · intro h; cases h with
          | inl h => omega
          | inr h => rw [hpf] at h; cases h

theorem exec_refines_spec_run (b : Beh) (m : Maps) (len : Nat) (hs : SlotsOK m len) (errTy : Ty) (fin : Node) :
    ∀ (nodes : List Node), wfRun m errTy fin nodes = true →
      Refines m len (execNodes b m errTy fin nodes) (specNodes b errTy fin nodes)
  | [], hwf => by
    intro v down st hlen hd hclean
    have hins : ∀ t ∈ fin.ins, (m.d t).isSome := by
      simpa [wfRun] using hwf
    have hrd := rdIns_eq m.d v down hd fin.ins hins
    simp only [execNodes, execFinal, specNodes, specFinal, hrd]
    refine ⟨by first | rfl | trivial, ?_, by simp [wrOuts_length, hlen]⟩
    exact wrOuts_rel m.u hs.uinj len hs.ult fin.rets _ v Env.empty hlen hclean
  | n :: rest, hwf => by
    intro v down st hlen hd hclean
    obtain ⟨hins, hrecv, herr, hzero, hrest⟩ := wfRun_cons hwf
    have ih := exec_refines_spec_run b m len hs errTy fin rest hrest
    have hrd := rdIns_eq m.d v down hd n.ins hins
    cases hk : n.kind with
    | wrapper =>
      simp only [execNodes, specNodes, hk, hrd]
      refine execTree_refines m len hs n _ _ ih (fun t => t ∉ upTypes fin rest)
        (fun d s t ht => spec_frame b m errTy fin rest hrest d s t ht) ?_ hrecv v down hlen hd hclean
        _ v 0 Env.empty _ hlen hclean (fun _ _ => rfl) (fun _ => ⟨rfl, rfl⟩)
      intro t hsl hnz hmem
      exact hnz (hzero hk t (by simp [upTypes, hmem]) hsl)
    | fallible =>
      simp only [execNodes, specNodes, hk, hrd]
      split
      · refine ⟨by first | rfl | trivial, ?_, by simp [wrOuts_length, zeroSlots_length, hlen]⟩
        have := wrOuts_rel m.u hs.uinj len hs.ult [errTy] [(callFn b n.id n.memo (List.map down.rd n.ins) st).1.getD n.errIdx (zeroV errTy)]
          (zeroSlots m.u v n.zero) Env.empty (by rw [zeroSlots_length]; exact hlen)
          (zeroSlots_clean m.u hs.uinj n.zero v hclean)
        simpa [Env.set] using this
      · exact ih _ _ _ (by rw [wrOuts_length]; exact hlen)
          (wrOuts_rel m.d hs.dinj len hs.dlt n.outs _ v down hlen hd)
          (wrOuts_rel_other m.d m.u hs.disj n.outs _ v Env.empty hclean)
    | inj =>
      simp only [execNodes, specNodes, hk, hrd]
      exact ih _ _ _ (by rw [wrOuts_length]; exact hlen)
        (wrOuts_rel m.d hs.dinj len hs.dlt n.outs _ v down hlen hd)
        (wrOuts_rel_other m.d m.u hs.disj n.outs _ v Env.empty hclean)
    | final =>
      simp only [execNodes, specNodes, hk, hrd]
      exact ih _ _ _ (by rw [wrOuts_length]; exact hlen)
        (wrOuts_rel m.d hs.dinj len hs.dlt n.outs _ v down hlen hd)
        (wrOuts_rel_other m.d m.u hs.disj n.outs _ v Env.empty hclean)

end Nject
