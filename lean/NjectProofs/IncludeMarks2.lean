import NjectProofs.IncludeMarks
/-
  `providesReturns` leaves the cluster bookkeeping alone (`clusterMembers`, `wantedInCluster`): the same induction
  once more, for these fields.
-/
namespace Nject

/-- an update that leaves the cluster bookkeeping alone -/
def KeepsY (g : IP → IP) : Prop := ∀ f, (g f).clusterMembers = f.clusterMembers ∧ (g f).wantedInCluster = f.wantedInCluster ∧ (g f).wanted = f.wanted ∧ (g f).inc = f.inc

/-- same length, and position by position the same marks -/
def YF (ch ch' : Chain) : Prop :=
  ch'.length = ch.length ∧ ∀ j, (ch'.get j).clusterMembers = (ch.get j).clusterMembers ∧ (ch'.get j).wantedInCluster = (ch.get j).wantedInCluster ∧ (ch'.get j).wanted = (ch.get j).wanted ∧ (ch'.get j).inc = (ch.get j).inc

theorem YF_refl (ch : Chain) : YF ch ch := ⟨rfl, fun _ => ⟨rfl, rfl, rfl, rfl⟩⟩

theorem YF_trans {a b c : Chain} (h1 : YF a b) (h2 : YF b c) : YF a c :=
  ⟨h2.1.trans h1.1, fun j => ⟨(h2.2 j).1.trans (h1.2 j).1, (h2.2 j).2.1.trans (h1.2 j).2.1, (h2.2 j).2.2.1.trans (h1.2 j).2.2.1, (h2.2 j).2.2.2.trans (h1.2 j).2.2.2⟩⟩

theorem YF_upd (ch : Chain) (i : Nat) (g : IP → IP) (hg : KeepsY g) : YF ch (ch.upd i g) := by
  refine ⟨upd_length ch i g, fun j => ?_⟩
  rw [get_upd]
  split
  · rename_i hc; rw [hc.1]; exact hg (ch.get i)
  · exact ⟨rfl, rfl, rfl, rfl⟩

theorem YF_map (ch : Chain) (g : IP → IP) (hg : KeepsY g) : YF ch (ch.map g) := by
  refine ⟨by simp, fun j => ?_⟩
  by_cases hj : j < ch.length
  · have : Chain.get (ch.map g) j = g (ch.get j) := by
      simp [Chain.get, List.getD, List.getElem?_map, List.getElem?_eq_getElem hj]
    rw [this]; exact hg (ch.get j)
  · rw [get_default_of_ge _ j (by simpa using hj), get_default_of_ge ch j hj]
    exact ⟨rfl, rfl, rfl, rfl⟩

theorem foldl_YF {α} (f : Chain → α → Chain) (hf : ∀ c a, YF c (f c a)) : ∀ (l : List α) (c : Chain), YF c (l.foldl f c)
  | [], c => YF_refl c
  | a :: l, c => by simp only [List.foldl_cons]; exact YF_trans (hf c a) (foldl_YF f hf l (f c a))

theorem foldl_YF_pair {α β} (f : Chain × β → α → Chain × β) (hf : ∀ acc a, YF acc.1 (f acc a).1) :
    ∀ (l : List α) (acc : Chain × β), YF acc.1 (l.foldl f acc).1
  | [], acc => YF_refl acc.1
  | a :: l, acc => by simp only [List.foldl_cons]; exact YF_trans (hf acc a) (foldl_YF_pair f hf l (f acc a))

theorem ite_YF {ch x y : Chain} (c : Prop) [Decidable c] (hx : YF ch x) (hy : YF ch y) : YF ch (if c then x else y) := by
  split
  · exact hx
  · exact hy

/-! ### `providesReturns` -/

theorem depStep_YF (param : Param) (i : Nat) (t : Ty) (ch : Chain) (d : Nat) : YF ch (depStep param i t ch d) := by
  unfold depStep
  simp only []
  have k1 : KeepsY (fun f => match param with
      | .inp => { f with usesIn := appendAt f.usesIn t d, uses := f.uses ++ [d] }
      | .recv => { f with usesRecv := appendAt f.usesRecv t d, uses := f.uses ++ [d] }
      | .byp => { f with usesByp := appendAt f.usesByp t d, uses := f.uses ++ [d] }) := by
    intro f; cases param <;> exact ⟨rfl, rfl, rfl, rfl⟩
  have k2 : KeepsY (fun g =>
      if (param != .recv) = true then { g with usedBy := g.usedBy ++ [i], usedByOut := appendAt g.usedByOut t i }
      else { g with usedBy := g.usedBy ++ [i], usedByRet := appendAt g.usedByRet t i }) := by
    intro f; split <;> exact ⟨rfl, rfl, rfl, rfl⟩
  have k3 : KeepsY (fun f => { f with usedBy := f.usedBy ++ [d] }) := fun f => ⟨rfl, rfl, rfl, rfl⟩
  have s12 := YF_trans (YF_upd ch i _ k1) (YF_upd _ d _ k2)
  apply ite_YF
  · exact YF_trans s12 (YF_upd _ i _ k3)
  · exact s12

theorem typeStep_YF (ti : TyInfo) (avail : IMap) (param : Param) (i : Nat) (ch : Chain) (t : Ty) :
    YF ch (typeStep ti avail param i ch t) := by
  unfold typeStep
  split
  · apply YF_upd; intro f; unfold errStep; cases param <;> exact ⟨rfl, rfl, rfl, rfl⟩
  · refine YF_trans (YF_upd ch i _ ?_) (foldl_YF _ (fun c d => depStep_YF param i t c d) _ _)
    intro f; unfold rmapStep; cases param <;> exact ⟨rfl, rfl, rfl, rfl⟩

theorem requireParams_YF (ti : TyInfo) (ch : Chain) (i : Nat) (avail : IMap) (param : Param) :
    YF ch (requireParams ti ch i avail param) := by
  rw [requireParams_eq]
  refine YF_trans (YF_upd ch i _ ?_) (foldl_YF _ (fun c t => typeStep_YF ti avail param i c t) _ _)
  intro f; unfold resetStep; cases param <;> exact ⟨rfl, rfl, rfl, rfl⟩

theorem provideParams_YF (ch : Chain) (i : Nat) (avail : IMap) (down : Bool) (layer : Nat) :
    YF ch (provideParams ch i avail down layer).1 := by
  unfold provideParams
  simp only []
  apply YF_upd
  intro f; cases down <;> exact ⟨rfl, rfl, rfl, rfl⟩

theorem downStep_YF (ti : TyInfo) (initPos : Option Nat) (acc : Chain × IMap) (i : Nat) : YF acc.1 (downStep ti initPos acc i).1 := by
  obtain ⟨ch, avail⟩ := acc
  unfold downStep
  simp only []
  split
  · exact YF_refl ch
  · cases initPos with
    | none =>
      simp only []
      exact YF_trans (requireParams_YF ti ch i avail .inp) (provideParams_YF _ i avail true (i + 2))
    | some ip =>
      simp only []
      split
      · have a1 : YF ch (ch.upd ip fun f => { f with bypassRmap := [] }) := YF_upd ch ip _ (fun f => ⟨rfl, rfl, rfl, rfl⟩)
        have a2 := requireParams_YF ti (ch.upd ip fun f => { f with bypassRmap := [] }) ip avail .byp
        have a3 := requireParams_YF ti (requireParams ti (ch.upd ip fun f => { f with bypassRmap := [] }) ip avail .byp) i avail .inp
        have a4 := provideParams_YF (requireParams ti (requireParams ti (ch.upd ip fun f => { f with bypassRmap := [] }) ip avail .byp) i avail .inp) i avail true (i + 2)
        exact YF_trans (YF_trans (YF_trans a1 a2) a3) a4
      · exact YF_trans (requireParams_YF ti ch i avail .inp) (provideParams_YF _ i avail true (i + 2))

theorem upStep_YF (ti : TyInfo) (n : Nat) (acc : Chain × IMap) (i : Nat) : YF acc.1 (upStep ti n acc i).1 := by
  obtain ⟨ch, avail⟩ := acc
  unfold upStep
  simp only []
  split
  · exact YF_refl ch
  · exact YF_trans (requireParams_YF ti ch i avail .recv) (provideParams_YF _ i avail false (n - i + 2))

theorem providesReturns_YF (ti : TyInfo) (ch : Chain) (initPos : Option Nat) : YF ch (providesReturns ti ch initPos) := by
  rw [providesReturns_eq]
  have h0 : YF ch (ch.map resetDeps) := YF_map ch resetDeps (fun f => ⟨rfl, rfl, rfl, rfl⟩)
  have h1 := foldl_YF_pair (downStep ti initPos) (fun acc i => downStep_YF ti initPos acc i) (List.range ch.length) (ch.map resetDeps, ([] : IMap))
  have h2 := foldl_YF_pair (upStep ti ch.length) (fun acc i => upStep_YF ti ch.length acc i) (List.range ch.length).reverse
    (((List.range ch.length).foldl (downStep ti initPos) (ch.map resetDeps, ([] : IMap))).1, ([] : IMap))
  exact YF_trans (YF_trans h0 h1) h2


end Nject
