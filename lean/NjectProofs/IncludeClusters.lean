import NjectProofs.IncludeRounds
/-
  The elimination rounds with Clusters.  A Cluster is tried as a whole: its members' exclusion flags are set together
  and kept or put back together.  That a round never lowers the number of excluded providers then rests on the
  coherence of the cluster lists (`CC`): a leader is on its own list, the members of a list carry the leader's cluster
  number, different leaders have different numbers, and while a leader is not excluded none of its members is.
-/
namespace Nject

/-- same length, classification and cluster lists -/
def EC (ch ch' : Chain) : Prop :=
  ch'.length = ch.length ∧ ∀ j, (ch'.get j).c = (ch.get j).c ∧ (ch'.get j).clusterMembers = (ch.get j).clusterMembers

theorem EC_refl (ch : Chain) : EC ch ch := ⟨rfl, fun _ => ⟨rfl, rfl⟩⟩

theorem EC_trans {a b c : Chain} (h1 : EC a b) (h2 : EC b c) : EC a c :=
  ⟨h2.1.trans h1.1, fun j => ⟨(h2.2 j).1.trans (h1.2 j).1, (h2.2 j).2.trans (h1.2 j).2⟩⟩

theorem EC_of_FR {ch ch' : Chain} (h : FR ch ch') : EC ch ch' ∧ ∀ j, (ch'.get j).excluded = (ch.get j).excluded := by
  have key : ∀ j, (ch'.get j).c = (ch.get j).c ∧ (ch'.get j).clusterMembers = (ch.get j).clusterMembers ∧
      (ch'.get j).excluded = (ch.get j).excluded := by
    intro j
    have := h.2 j
    unfold flagsOnly at this
    rw [← this]
    exact ⟨rfl, rfl, rfl⟩
  exact ⟨⟨h.1, fun j => ⟨(key j).1, (key j).2.1⟩⟩, fun j => (key j).2.2⟩

structure CC (ch : Chain) : Prop where
  self : ∀ i ms, (ch.get i).clusterMembers = some ms → i ∈ ms
  same : ∀ i ms, (ch.get i).clusterMembers = some ms → ∀ m ∈ ms, (ch.get m).c.cluster = (ch.get i).c.cluster
  nz : ∀ i ms, (ch.get i).clusterMembers = some ms → (ch.get i).c.cluster ≠ 0
  uniq : ∀ i i' ms ms', (ch.get i).clusterMembers = some ms → (ch.get i').clusterMembers = some ms' →
    (ch.get i).c.cluster = (ch.get i').c.cluster → i = i'
  coh : ∀ i ms, (ch.get i).clusterMembers = some ms → (ch.get i).excluded = false → ∀ m ∈ ms, (ch.get m).excluded = false

/-- marking one provider -/
def markG (b : Bool) (gw : IP → Bool) : IP → IP := fun f => { f with excluded := b, wanted := gw f }

/-- marking a list of providers -/
def markL (b : Bool) (gw : IP → Bool) (l : List Nat) (ch : Chain) : Chain := l.foldl (fun c w => c.upd w (markG b gw)) ch

theorem markL_spec (b : Bool) (gw : IP → Bool) : ∀ (l : List Nat) (ch : Chain),
    (markL b gw l ch).length = ch.length ∧
    ∀ j, ((markL b gw l ch).get j).c = (ch.get j).c ∧
      ((markL b gw l ch).get j).clusterMembers = (ch.get j).clusterMembers ∧
      ((markL b gw l ch).get j).excluded = (if j ∈ l ∧ j < ch.length then b else (ch.get j).excluded)
  | [], ch => ⟨rfl, fun j => ⟨rfl, rfl, by simp [markL]⟩⟩
  | w :: l, ch => by
    have ⟨ih1, ih2⟩ := markL_spec b gw l (ch.upd w (markG b gw))
    have hl : (markL b gw (w :: l) ch) = markL b gw l (ch.upd w (markG b gw)) := rfl
    rw [hl]
    refine ⟨by rw [ih1, upd_length], fun j => ?_⟩
    have ⟨a1, a2, a3⟩ := ih2 j
    rw [a1, a2, a3, upd_length, get_upd]
    by_cases hjw : j = w ∧ w < ch.length
    · have hjl : j < ch.length := by rw [hjw.1]; exact hjw.2
      have hm : j ∈ w :: l := by rw [hjw.1]; simp
      rw [if_pos hjw, hjw.1]
      refine ⟨rfl, rfl, ?_⟩
      have hr : w ∈ w :: l ∧ w < ch.length := ⟨by simp, hjw.2⟩
      rw [if_pos hr]
      by_cases h2 : w ∈ l ∧ w < ch.length
      · rw [if_pos h2]
      · rw [if_neg h2]; rfl
    · rw [if_neg hjw]
      refine ⟨rfl, rfl, ?_⟩
      by_cases hjl : j ∈ l ∧ j < ch.length
      · rw [if_pos hjl, if_pos ⟨List.mem_cons_of_mem _ hjl.1, hjl.2⟩]
      · have : ¬ (j ∈ w :: l ∧ j < ch.length) := by
          rintro ⟨hm, hl⟩
          rcases List.mem_cons.mp hm with e | e
          · exact hjw ⟨e, e ▸ hl⟩
          · exact hjl ⟨e, hl⟩
        rw [if_neg hjl, if_neg this]

/-- what a trial does to the exclusion flags: either nothing, or exactly the tried providers become excluded -/
theorem tryWithout_spec (ch : Chain) (without : List Nat) (hw : ∀ w ∈ without, (ch.get w).excluded = false) :
    EC ch (tryWithout ch without) ∧ ∃ b : Bool, ∀ j, ((tryWithout ch without).get j).excluded
      = (if b = true ∧ j ∈ without ∧ j < ch.length then true else (ch.get j).excluded) := by
  unfold tryWithout
  split
  · -- one provider
    rename_i w
    have hwf := hw w (by simp)
    simp only []
    split
    · exact ⟨EC_refl ch, false, fun j => by simp⟩
    · have hup : ∀ (b : Bool) (c0 : Chain) (j : Nat), ((c0.upd w fun f => { f with excluded := b }).get j).c = (c0.get j).c ∧
          ((c0.upd w fun f => { f with excluded := b }).get j).clusterMembers = (c0.get j).clusterMembers := by
        intro b c0 j
        rw [get_upd]; split
        · rename_i hj; rw [hj.1]; exact ⟨rfl, rfl⟩
        · exact ⟨rfl, rfl⟩
      have hex : ∀ (b : Bool) (c0 : Chain) (j : Nat), ((c0.upd w fun f => { f with excluded := b }).get j).excluded
          = if j = w ∧ w < c0.length then b else (c0.get j).excluded := by
        intro b c0 j
        rw [get_upd]; split <;> rfl
      have e1 : EC ch (ch.upd w fun f => { f with excluded := true }) := ⟨upd_length ch w _, fun j => hup true ch j⟩
      split
      · rename_i ch2 hv
        have ⟨e2, x2⟩ := EC_of_FR (validate_FR false _ _ hv)
        refine ⟨EC_trans e1 e2, true, fun j => ?_⟩
        rw [x2 j, hex true ch j]
        by_cases hjw : j = w ∧ w < ch.length
        · have hr : true = true ∧ j ∈ [w] ∧ j < ch.length := ⟨rfl, by simp [hjw.1], hjw.1 ▸ hjw.2⟩
          rw [if_pos hjw, if_pos hr]
        · have hr : ¬ (true = true ∧ j ∈ [w] ∧ j < ch.length) := by
            rintro ⟨_, hm, hl⟩
            have : j = w := by simpa using hm
            exact hjw ⟨this, this ▸ hl⟩
          rw [if_neg hjw, if_neg hr]
      · refine ⟨EC_trans e1 ⟨upd_length _ w _, fun j => hup false _ j⟩, false, fun j => ?_⟩
        rw [hex false _ j, hex true ch j, upd_length]
        have hr : ¬ (false = true ∧ j ∈ [w] ∧ j < ch.length) := by
          rintro ⟨hf, _⟩; cases hf
        rw [if_neg hr]
        by_cases hjw : j = w ∧ w < ch.length
        · rw [if_pos hjw, hjw.1, hwf]
        · rw [if_neg hjw, if_neg hjw]
  · -- several providers
    simp only []
    have m1 := markL_spec true (fun f => if f.wantedInCluster then false else f.wanted) without ch
    unfold markL markG at m1
    split
    · rename_i ch2 hv
      have ⟨e2, x2⟩ := EC_of_FR (validate_FR false _ _ hv)
      have m2 := markL_spec true (fun f => if f.wantedInCluster then true else f.wanted) without ch2
      unfold markL markG at m2
      refine ⟨⟨by rw [m2.1, e2.1, m1.1], fun j => ?_⟩, true, fun j => ?_⟩
      · rw [(m2.2 j).1, (m2.2 j).2.1, (e2.2 j).1, (e2.2 j).2, (m1.2 j).1, (m1.2 j).2.1]; exact ⟨rfl, rfl⟩
      · rw [(m2.2 j).2.2, x2 j, (m1.2 j).2.2, e2.1, m1.1]
        by_cases hj : j ∈ without ∧ j < ch.length
        · simp [hj]
        · simp [hj]
    · have m2 := markL_spec false (fun f => if f.wantedInCluster then true else f.wanted) without
        (without.foldl (fun ch w => ch.upd w fun f =>
          { f with excluded := true, wanted := if f.wantedInCluster then false else f.wanted }) ch)
      unfold markL markG at m2
      refine ⟨⟨by rw [m2.1, m1.1], fun j => ?_⟩, false, fun j => ?_⟩
      · rw [(m2.2 j).1, (m2.2 j).2.1, (m1.2 j).1, (m1.2 j).2.1]; exact ⟨rfl, rfl⟩
      · rw [(m2.2 j).2.2, (m1.2 j).2.2, m1.1]
        by_cases hj : j ∈ without ∧ j < ch.length
        · simp [hj, hw j hj.1]
        · simp [hj]

theorem lt_of_clusterMembers {ch : Chain} {i : Nat} {ms : List Nat} (h : (ch.get i).clusterMembers = some ms) : i < ch.length := by
  rcases Nat.lt_or_ge i ch.length with hlt | hge
  · exact hlt
  · rw [get_default_of_ge ch i (by omega)] at h; cases h

/-- what a trial leaves behind: more providers excluded, never fewer -/
theorem EM_of_spec {ch r : Chain} {S : List Nat} (ec : EC ch r)
    (hex : ∃ b : Bool, ∀ j, (r.get j).excluded = (if b = true ∧ j ∈ S ∧ j < ch.length then true else (ch.get j).excluded)) :
    EM ch r := by
  obtain ⟨b, hb⟩ := hex
  refine ⟨ec.1, fun j => ⟨(ec.2 j).1, fun hx => ?_⟩⟩
  rw [hb j]
  split
  · rfl
  · exact hx

/-- ... and coherent cluster lists, when the tried set contains every leader one of whose members it contains -/
theorem CC_after {ch r : Chain} {S : List Nat} (hcc : CC ch) (ec : EC ch r)
    (hex : ∃ b : Bool, ∀ j, (r.get j).excluded = (if b = true ∧ j ∈ S ∧ j < ch.length then true else (ch.get j).excluded))
    (hclosed : ∀ i' ms', (ch.get i').clusterMembers = some ms' → (∃ m' ∈ ms', m' ∈ S) → i' ∈ S) : CC r := by
  have cm : ∀ j, (r.get j).clusterMembers = (ch.get j).clusterMembers := fun j => (ec.2 j).2
  have cc : ∀ j, (r.get j).c = (ch.get j).c := fun j => (ec.2 j).1
  exact
    { self := fun i ms h => hcc.self i ms (by rw [← cm i]; exact h)
      same := fun i ms h m hm => by rw [cc m, cc i]; exact hcc.same i ms (by rw [← cm i]; exact h) m hm
      nz := fun i ms h => by rw [cc i]; exact hcc.nz i ms (by rw [← cm i]; exact h)
      uniq := fun i i' ms ms' h h' he => hcc.uniq i i' ms ms' (by rw [← cm i]; exact h) (by rw [← cm i']; exact h')
        (by rw [← cc i, ← cc i']; exact he)
      coh := fun i ms h hx m hm => by
        obtain ⟨b, hb⟩ := hex
        have h0 : (ch.get i).clusterMembers = some ms := by rw [← cm i]; exact h
        have hil := lt_of_clusterMembers h0
        cases b with
        | false =>
          have e : ∀ j, (r.get j).excluded = (ch.get j).excluded := fun j => by
            rw [hb j]
            have : ¬ (false = true ∧ j ∈ S ∧ j < ch.length) := by rintro ⟨hf, _⟩; cases hf
            rw [if_neg this]
          rw [e m]; rw [e i] at hx
          exact hcc.coh i ms h0 hx m hm
        | true =>
          rw [hb i] at hx
          by_cases hiS : i ∈ S
          · have : true = true ∧ i ∈ S ∧ i < ch.length := ⟨rfl, hiS, hil⟩
            rw [if_pos this] at hx; cases hx
          · have hn : ¬ (true = true ∧ i ∈ S ∧ i < ch.length) := fun hh => hiS hh.2.1
            rw [if_neg hn] at hx
            rw [hb m]
            have hmS : m ∉ S := fun hmS => hiS (hclosed i ms h0 ⟨m, hm, hmS⟩)
            have hn' : ¬ (true = true ∧ m ∈ S ∧ m < ch.length) := fun hh => hmS hh.2.1
            rw [if_neg hn']
            exact hcc.coh i ms h0 hx m hm }

/-- one step of a round -/
def roundStep (ch : Chain) (i : Nat) : Chain :=
  let fm := ch.get i
  if fm.excluded then ch
  else if fm.c.cluster != 0 then
    match fm.clusterMembers with
    | some ms => tryWithout ch ms
    | none => ch
  else tryWithout ch [i]

theorem proposalRound_eq (ch : Chain) : proposalRound ch = (proposeEliminations ch).foldl roundStep ch := rfl

theorem roundStep_CC (c0 : Chain) (i : Nat) (hcc : CC c0) : EM c0 (roundStep c0 i) ∧ CC (roundStep c0 i) := by
  unfold roundStep
  simp only []
  by_cases hex : (c0.get i).excluded = true
  · simp only [hex, if_true]; exact ⟨EM_refl c0, hcc⟩
  · have hex' : (c0.get i).excluded = false := by simpa using hex
    simp only [hex', Bool.false_eq_true, if_false]
    by_cases hcl : (c0.get i).c.cluster = 0
    · simp only [hcl, bne_self_eq_false, Bool.false_eq_true, if_false]
      have ⟨ec, sp⟩ := tryWithout_spec c0 [i] (fun w hw => by
        have : w = i := by simpa using hw
        rw [this]; exact hex')
      refine ⟨EM_of_spec ec sp, CC_after hcc ec sp ?_⟩
      intro i' ms' h' ⟨m', hm', hmS⟩
      have : m' = i := by simpa using hmS
      have h1 := hcc.same i' ms' h' m' hm'
      rw [this, hcl] at h1
      exact absurd h1.symm (hcc.nz i' ms' h')
    · have hne : ((c0.get i).c.cluster != 0) = true := by simpa using hcl
      simp only [hne, if_true]
      cases hcm : (c0.get i).clusterMembers with
      | none => exact ⟨EM_refl c0, hcc⟩
      | some ms =>
        simp only []
        have ⟨ec, sp⟩ := tryWithout_spec c0 ms (hcc.coh i ms hcm hex')
        refine ⟨EM_of_spec ec sp, CC_after hcc ec sp ?_⟩
        intro i' ms' h' ⟨m', hm', hmS⟩
        have h1 := hcc.same i' ms' h' m' hm'
        have h2 := hcc.same i ms hcm m' hmS
        have : i = i' := hcc.uniq i i' ms ms' hcm h' (by rw [← h2, h1])
        rw [← this]; exact hcc.self i ms hcm

theorem proposalRound_CC (ch : Chain) (hcc : CC ch) : EM ch (proposalRound ch) ∧ CC (proposalRound ch) := by
  rw [proposalRound_eq]
  have key : ∀ (l : List Nat) (c0 : Chain), EM ch c0 → CC c0 → EM ch (l.foldl roundStep c0) ∧ CC (l.foldl roundStep c0) := by
    intro l
    induction l with
    | nil => intro c0 h hc; exact ⟨h, hc⟩
    | cons i l ih =>
      intro c0 h hc
      simp only [List.foldl_cons]
      have ⟨e1, c1⟩ := roundStep_CC c0 i hc
      exact ih _ (EM_trans h e1) c1
  exact key _ ch (EM_refl ch) hcc

/-- **with `length - excluded + 1` rounds of fuel the result does not depend on the fuel** (coherent cluster lists) -/
theorem proposalLoop_fuel_CC : ∀ (f1 f2 : Nat) (ch : Chain), CC ch →
    ch.length - countExcluded ch + 1 ≤ f1 → ch.length - countExcluded ch + 1 ≤ f2 →
      proposalLoop f1 ch = proposalLoop f2 ch
  | 0, _, _, _, h1, _ => by omega
  | _ + 1, 0, _, _, _, h2 => by omega
  | f1 + 1, f2 + 1, ch, hn, h1, h2 => by
    simp only [proposalLoop]
    have ⟨em, cc⟩ := proposalRound_CC ch hn
    have hmono := countExcluded_mono em
    have hle := countExcluded_le (proposalRound ch)
    split
    · rfl
    · rename_i hne
      have hne' : countExcluded (proposalRound ch) ≠ countExcluded ch := by simpa using hne
      have hlen := em.1
      exact proposalLoop_fuel_CC f1 f2 _ cc (by omega) (by omega)

end Nject
